//go:build verif

package notation

// Re-exports of unexported functions for the external verification harness
// (GoLite selftest). Only compiled with the build tag "verif".

var (
	VerifValidateSigMediaType     = validateSigMediaType
	VerifValidateContentMediaType = validateContentMediaType
	VerifValidateSignArguments    = validateSignArguments
)
