//go:build verif

package signer

// Re-exports of unexported functions for the external verification harness
// (GoLite selftest). Only compiled with the build tag "verif".

var (
	VerifIsDescriptorSubset       = isDescriptorSubset
	VerifIsPayloadDescriptorValid = isPayloadDescriptorValid
)
