//go:build verif

package verifbridge

import "github.com/notaryproject/notation-go/internal/slices"

// SlicesContains is slices.Contains[string].
func SlicesContains(s []string, v string) bool { return slices.Contains(s, v) }

// SlicesContainsAny is slices.ContainsAny.
func SlicesContainsAny(s []any, v any) bool { return slices.ContainsAny(s, v) }
