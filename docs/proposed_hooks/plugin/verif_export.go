//go:build verif

package plugin

// Re-exports of unexported functions for the external verification harness
// (GoLite selftest). Only compiled with the build tag "verif".

var (
	VerifValidatePluginName = validatePluginName
	VerifParsePluginName    = parsePluginName
	VerifBinName            = binName
)
