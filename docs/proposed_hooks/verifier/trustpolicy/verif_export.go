//go:build verif

package trustpolicy

// Re-exports of unexported functions for the external verification harness
// (GoLite selftest). Only compiled with the build tag "verif".

// VerifParsedDN is parsedDN.
type VerifParsedDN = parsedDN

var (
	VerifIsValidTrustStoreType        = isValidTrustStoreType
	VerifValidateTrustStore           = validateTrustStore
	VerifValidateTrustedIdentities    = validateTrustedIdentities
	VerifValidateOverlappingDNs       = validateOverlappingDNs
	VerifValidatePolicyCore           = validatePolicyCore
	VerifValidateRegistryScopeFormat  = validateRegistryScopeFormat
	VerifGetArtifactPathFromReference = getArtifactPathFromReference
)
