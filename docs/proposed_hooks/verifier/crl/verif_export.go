//go:build verif

package crl

// Re-exports of unexported functions for the external verification harness
// (GoLite selftest). Only compiled with the build tag "verif".

var VerifCheckExpiry = checkExpiry
