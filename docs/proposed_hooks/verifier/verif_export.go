//go:build verif

package verifier

// Re-exports of unexported functions for the external verification harness
// (GoLite selftest). Only compiled with the build tag "verif".

var (
	VerifIsCriticalFailure                      = isCriticalFailure
	VerifIsTSATrustStoreInPolicy                = isTSATrustStoreInPolicy
	VerifLoadX509TrustStoresWithType            = loadX509TrustStoresWithType
	VerifLoadX509TrustStores                    = loadX509TrustStores
	VerifLoadX509TSATrustStores                 = loadX509TSATrustStores
	VerifRevocationFinalResult                  = revocationFinalResult
	VerifCheckRevocationResults                 = checkRevocationResults
	VerifGetNonPluginExtendedCriticalAttributes = getNonPluginExtendedCriticalAttributes
	VerifExtractCriticalStringExtendedAttribute = extractCriticalStringExtendedAttribute
	VerifGetVerificationPlugin                  = getVerificationPlugin
	VerifGetVerificationPluginMinVersion        = getVerificationPluginMinVersion
	VerifIsRequiredVerificationPluginVer        = isRequiredVerificationPluginVer
)
