#!/bin/bash
# Runs the repository's stable baseline with the verif guard OFF (no build tags)
# and compares against /root/.vp/BASELINE.json stable_pass.
export GOFLAGS=-mod=mod GOPROXY=off GOSUMDB=off GOTOOLCHAIN=local
out=$(mktemp /var/tmp/baseline.XXXXXX.json)
(cd /repo && go test -mod=mod -json -vet=off -count=1 -timeout 25m ./... > "$out" 2>/dev/null)
python3 - "$out" <<'PY'
import json,sys
passed=set()
for l in open(sys.argv[1]):
    try: e=json.loads(l)
    except Exception: continue
    if e.get('Action')=='pass' and e.get('Test'):
        passed.add(e['Package']+'::'+e['Test'])
try:
    sp=json.load(open('/root/.vp/BASELINE.json'))['stable_pass']
except Exception:
    print('baseline: %d tests passed (no BASELINE.json to compare)'%len(passed)); sys.exit(0)
missing=[t for t in sp if t not in passed]
print('baseline: stable=%d passed_now=%d missing=%d'%(len(sp),len(passed),len(missing)))
for m in missing[:40]: print('MISSING',m)
sys.exit(1 if missing else 0)
PY
rc=$?
rm -f "$out"
git -C /repo checkout -- plugin/testdata 2>/dev/null
exit $rc
