(* GoLib.v — run-time library of GoLite (docs/GOLITE.md): the Gallina types that
   translated Go values live in (errors, pointers, maps as association lists,
   the option monad of run-time panics) and Gallina versions of the
   whitelisted Go library functions, with the lemmas that make them convenient
   in equivalence proofs. Hand-written, executable, stdlib only, no axioms.
   Every function of the section "Go library" is validated against the real Go
   function by `vh-gen --selftest` (bin/goliteselftest).

   Strings are byte strings (Base.v). Integers are Z (overflow not modelled). *)
From Coq Require Import List Bool String Ascii NArith ZArith Lia.
From NV Require Import Base Regex.
Import ListNotations.
Open Scope string_scope.
Open Scope list_scope.

(* ---------- errors ---------- *)

(* typ: "errors" (errors.New), "fmt" (fmt.Errorf) or "<pkg>.<Type>" (a struct
   with an Error method); fmt: the message / format string; wrapped: the %w
   arguments (error-typed fields for a struct). Message texts are not
   modelled. *)
Inductive err := Err (typ fmt : string) (wrapped : list err).

Definition err_typ (e : err) : string := match e with Err t _ _ => t end.
Definition err_fmt (e : err) : string := match e with Err _ f _ => f end.
Definition err_wrapped (e : err) : list err := match e with Err _ _ w => w end.

(* a possibly nil error used as %w argument *)
Definition olist {A} (o : option A) : list A := match o with Some x => [x] | None => [] end.

Definition is_none {A} (o : option A) : bool := match o with None => true | Some _ => false end.
Definition is_some {A} (o : option A) : bool := match o with None => false | Some _ => true end.

Lemma is_none_negb_is_some {A} (o : option A) : is_none o = negb (is_some o).
Proof. destruct o; reflexivity. Qed.

(* ---------- the option monad of run-time panics ---------- *)

Definition obind {A B} (o : option A) (f : A -> option B) : option B :=
  match o with Some x => f x | None => None end.

Lemma obind_some {A B} (x : A) (f : A -> option B) : obind (Some x) f = f x.
Proof. reflexivity. Qed.

Lemma obind_none {A B} (f : A -> option B) : obind None f = None.
Proof. reflexivity. Qed.

(* ---------- pointers ---------- *)

(* PGlob: the address held by a package-level variable initialised with
   &T{..} (identity = the name); PNew: a pointer created by &T{..} inside a
   function (identity not modelled: two PNew are never compared). *)
Inductive ptr (A : Type) : Type := PNil | PGlob (name : string) (v : A) | PNew (v : A).
Arguments PNil {A}.
Arguments PGlob {A} name v.
Arguments PNew {A} v.

Definition ptr_val {A} (p : ptr A) : option A :=
  match p with PNil => None | PGlob _ v => Some v | PNew v => Some v end.

Definition ptr_is_nil {A} (p : ptr A) : bool :=
  match p with PNil => true | _ => false end.

(* p == G for a package-level pointer variable G *)
Definition ptr_eqb_glob {A} (p : ptr A) (name : string) : bool :=
  match p with PGlob n _ => String.eqb n name | _ => false end.

Lemma ptr_is_nil_val {A} (p : ptr A) : ptr_is_nil p = is_none (ptr_val p).
Proof. destruct p; reflexivity. Qed.

(* ---------- maps: association lists, the first binding of a key counts ---------- *)

Section Maps.
  Context {K V : Type} (eqb : K -> K -> bool).

  Fixpoint map_get (k : K) (m : list (K * V)) : option V :=
    match m with
    | [] => None
    | (k', v) :: m' => if eqb k k' then Some v else map_get k m'
    end.

  Definition map_has (k : K) (m : list (K * V)) : bool := is_some (map_get k m).

  (* v, ok := m[k] *)
  Definition map_get_ok (zero : V) (k : K) (m : list (K * V)) : V * bool :=
    match map_get k m with Some v => (v, true) | None => (zero, false) end.

  (* m[k] *)
  Definition map_get_or (zero : V) (k : K) (m : list (K * V)) : V :=
    match map_get k m with Some v => v | None => zero end.

  (* delete(m, k) *)
  Fixpoint map_del (k : K) (m : list (K * V)) : list (K * V) :=
    match m with
    | [] => []
    | (k', v) :: m' => if eqb k k' then map_del k m' else (k', v) :: map_del k m'
    end.

  (* m[k] = v *)
  Definition map_set (k : K) (v : V) (m : list (K * V)) : list (K * V) := (k, v) :: map_del k m.

  (* the entries a `range` visits: every key once, with its first binding, in
     the order of first occurrence *)
  Fixpoint map_entries (m : list (K * V)) : list (K * V) :=
    match m with
    | [] => []
    | (k, v) :: m' => (k, v) :: map_del k (map_entries m')
    end.

  (* len(m) *)
  Definition map_len (m : list (K * V)) : Z := Z.of_nat (List.length (map_entries m)).

  Fixpoint map_unique (m : list (K * V)) : bool :=
    match m with
    | [] => true
    | (k, _) :: m' => negb (existsb (fun kv => eqb k (fst kv)) m') && map_unique m'
    end.

  Hypothesis eqb_spec : forall a b, eqb a b = true <-> a = b.

  Lemma eqb_refl' a : eqb a a = true.
  Proof. apply eqb_spec; reflexivity. Qed.

  Lemma eqb_sym' a b : eqb a b = eqb b a.
  Proof.
    destruct (eqb a b) eqn:E, (eqb b a) eqn:E'; try reflexivity.
    - apply eqb_spec in E; subst. rewrite eqb_refl' in E'; discriminate.
    - apply eqb_spec in E'; subst. rewrite eqb_refl' in E; discriminate.
  Qed.

  Lemma eqb_trans' a b c : eqb a b = true -> eqb a c = eqb b c.
  Proof. intros H. apply eqb_spec in H. subst. reflexivity. Qed.

  Lemma map_get_del_same k m : map_get k (map_del k m) = None.
  Proof.
    induction m as [|[k' v] m IH]; cbn; [reflexivity|].
    destruct (eqb k k') eqn:E; [exact IH|]. cbn. rewrite E. exact IH.
  Qed.

  Lemma map_get_del_other k k' m : eqb k' k = false -> map_get k' (map_del k m) = map_get k' m.
  Proof.
    intros H. induction m as [|[k2 v] m IH]; cbn; [reflexivity|].
    destruct (eqb k k2) eqn:E.
    - rewrite IH. destruct (eqb k' k2) eqn:E2; [|reflexivity].
      apply eqb_spec in E, E2. subst. rewrite eqb_refl' in H. discriminate.
    - cbn. rewrite IH. reflexivity.
  Qed.

  Lemma map_get_set k' k v m :
    map_get k' (map_set k v m) = if eqb k' k then Some v else map_get k' m.
  Proof.
    unfold map_set. cbn. destruct (eqb k' k) eqn:E; [reflexivity|].
    apply map_get_del_other. exact E.
  Qed.

  Lemma map_get_set_same k v m : map_get k (map_set k v m) = Some v.
  Proof. rewrite map_get_set, eqb_refl'. reflexivity. Qed.

  Lemma map_get_set_other k' k v m : eqb k' k = false -> map_get k' (map_set k v m) = map_get k' m.
  Proof. intros H. rewrite map_get_set, H. reflexivity. Qed.

  Lemma map_get_none_del k m : map_get k m = None -> map_del k m = m.
  Proof.
    induction m as [|[k' v] m IH]; cbn; [reflexivity|].
    destruct (eqb k k'); [discriminate|]. intros H. rewrite IH by exact H. reflexivity.
  Qed.

  Lemma map_del_del_comm a b m : map_del a (map_del b m) = map_del b (map_del a m).
  Proof.
    induction m as [|[k v] m IH]; cbn; [reflexivity|].
    destruct (eqb b k) eqn:Eb, (eqb a k) eqn:Ea; cbn; rewrite ?Eb, ?Ea, IH; reflexivity.
  Qed.

  Lemma map_del_idem a m : map_del a (map_del a m) = map_del a m.
  Proof. apply map_get_none_del, map_get_del_same. Qed.

  (* the entries of a map are looked up like the map *)
  Lemma map_get_entries k m : map_get k (map_entries m) = map_get k m.
  Proof.
    induction m as [|[k' v] m IH]; cbn; [reflexivity|].
    destruct (eqb k k') eqn:E; [reflexivity|].
    rewrite map_get_del_other; [exact IH|]. exact E.
  Qed.

  Lemma map_entries_del k m : map_entries (map_del k m) = map_del k (map_entries m).
  Proof.
    induction m as [|[k' v] m IH]; [reflexivity|].
    cbn [map_del map_entries]. destruct (eqb k k') eqn:E.
    - rewrite IH. cbn [map_del]. rewrite ?E. apply eqb_spec in E; subst.
      rewrite map_del_idem. reflexivity.
    - cbn [map_entries map_del]. rewrite ?E, IH. f_equal. apply map_del_del_comm.
  Qed.

  Lemma existsb_key_get k m :
    existsb (fun kv => eqb k (fst kv)) m = is_some (map_get k m).
  Proof.
    induction m as [|[k' v] m IH]; cbn; [reflexivity|].
    destruct (eqb k k'); [reflexivity|exact IH].
  Qed.

  (* a list with unique keys is its own entry list *)
  Lemma map_entries_unique m : map_unique m = true -> map_entries m = m.
  Proof.
    induction m as [|[k v] m IH]; cbn; [reflexivity|].
    rewrite andb_true_iff, negb_true_iff, existsb_key_get. intros [Hk Hu].
    rewrite IH by exact Hu. rewrite map_get_none_del; [reflexivity|].
    destruct (map_get k m); [discriminate|reflexivity].
  Qed.

  Lemma map_unique_del k m : map_unique m = true -> map_unique (map_del k m) = true.
  Proof.
    induction m as [|[k' v] m IH]; cbn; [reflexivity|].
    rewrite andb_true_iff, negb_true_iff, existsb_key_get. intros [Hk Hu].
    destruct (eqb k k') eqn:E; [apply IH; exact Hu|].
    cbn. rewrite IH by exact Hu. rewrite existsb_key_get.
    destruct (eqb k' k) eqn:E'.
    - rewrite eqb_sym', E in E'. discriminate.
    - rewrite map_get_del_other by exact E'.
      destruct (map_get k' m); [discriminate|reflexivity].
  Qed.

  Lemma map_entries_unique_keys m : map_unique (map_entries m) = true.
  Proof.
    induction m as [|[k v] m IH]; cbn; [reflexivity|].
    rewrite existsb_key_get, map_get_del_same. cbn. apply map_unique_del, IH.
  Qed.

  Lemma map_entries_idem m : map_entries (map_entries m) = map_entries m.
  Proof. apply map_entries_unique, map_entries_unique_keys. Qed.

  (* a predicate that only looks at the key and the binding the MAP gives it
     holds of every entry iff it holds of every element of the list *)
  Lemma forallb_map_entries (P : K -> option V -> bool) m :
    forallb (fun kv => P (fst kv) (map_get (fst kv) m)) (map_entries m)
    = forallb (fun kv => P (fst kv) (map_get (fst kv) m)) m.
  Proof.
    assert (G : forall m0 (Q : K -> bool),
              forallb (fun kv => Q (fst kv)) (map_entries m0) = forallb (fun kv => Q (fst kv)) m0).
    { clear P m. induction m0 as [|[k v] m0 IH]; intros Q; cbn; [reflexivity|].
      destruct (Q k) eqn:Qk; cbn; [|reflexivity].
      rewrite <- IH.
      (* deleting k from a list whose other elements... *)
      assert (D : forall l, forallb (fun kv => Q (fst kv)) (map_del k l) = forallb (fun kv => Q (fst kv)) l).
      { induction l as [|[k2 v2] l IHl]; cbn; [reflexivity|].
        destruct (eqb k k2) eqn:E.
        - apply eqb_spec in E; subst. rewrite Qk. cbn. exact IHl.
        - cbn. rewrite IHl. reflexivity. }
      apply D. }
    apply (G m (fun k => P k (map_get k m))).
  Qed.

  Lemma map_entries_in k v m : In (k, v) (map_entries m) -> map_get k m = Some v.
  Proof.
    revert k v. induction m as [|[k' v'] m IH]; cbn; [tauto|].
    intros k v [E|H].
    - inversion E; subst. rewrite eqb_refl'. reflexivity.
    - destruct (eqb k k') eqn:E.
      + apply eqb_spec in E; subst. exfalso.
        assert (G : forall l, In (k', v) (map_del k' l) -> False).
        { induction l as [|[a b] l IHl]; cbn; [tauto|].
          destruct (eqb k' a) eqn:Ea; [exact IHl|].
          intros [X|X]; [inversion X; subst; rewrite eqb_refl' in Ea; discriminate|auto]. }
        eapply G; exact H.
      + apply IH.
        assert (G : forall l, In (k, v) (map_del k' l) -> In (k, v) l).
        { induction l as [|[a b] l IHl]; cbn; [tauto|].
          destruct (eqb k' a); cbn; intuition. }
        apply G; exact H.
  Qed.
End Maps.

(* string-keyed maps coincide with Base.lookup / remove_key / set_key *)
Lemma map_get_lookup k (m : amap) : map_get String.eqb k m = lookup k m.
Proof. induction m as [|[k' v] m IH]; cbn; [reflexivity|]. rewrite IH. reflexivity. Qed.

Lemma map_del_remove_key k (m : amap) : map_del String.eqb k m = remove_key k m.
Proof. induction m as [|[k' v] m IH]; cbn; [reflexivity|]. rewrite IH. reflexivity. Qed.

Lemma map_set_set_key k v (m : amap) : map_set String.eqb k v m = set_key k v m.
Proof. unfold map_set, set_key. rewrite map_del_remove_key. reflexivity. Qed.

Lemma string_eqb_spec' : forall a b : string, String.eqb a b = true <-> a = b.
Proof. intros a b. apply String.eqb_eq. Qed.

Lemma z_eqb_spec' : forall a b : Z, Z.eqb a b = true <-> a = b.
Proof. intros a b. apply Z.eqb_eq. Qed.

(* ---------- lists (slices) ---------- *)

Definition list_len {A} (l : list A) : Z := Z.of_nat (List.length l).

(* xs[i]: None = index out of range *)
Definition list_get {A} (l : list A) (i : Z) : option A :=
  if (i <? 0)%Z then None else nth_error l (Z.to_nat i).

(* lo, lo+1, .., hi-1  (for i := lo; i < hi; i++) *)
Definition zrange_up (lo hi : Z) : list Z :=
  map (fun k => (lo + Z.of_nat k)%Z) (seq 0 (Z.to_nat (hi - lo))).

(* hi, hi-1, .., lo  (for i := hi; i >= lo; i--) *)
Definition zrange_down (hi lo : Z) : list Z :=
  map (fun k => (hi - Z.of_nat k)%Z) (seq 0 (Z.to_nat (hi - lo + 1))).

Lemma list_len_nil {A} : list_len (@nil A) = 0%Z.
Proof. reflexivity. Qed.

Lemma list_len_cons {A} (x : A) l : list_len (x :: l) = (list_len l + 1)%Z.
Proof. unfold list_len. cbn [List.length]. lia. Qed.

Lemma list_len_nonneg {A} (l : list A) : (0 <= list_len l)%Z.
Proof. unfold list_len. lia. Qed.

Lemma list_len_zero {A} (l : list A) : (list_len l =? 0)%Z = match l with [] => true | _ => false end.
Proof. destruct l; [reflexivity|]. rewrite list_len_cons. pose proof (list_len_nonneg l). apply Z.eqb_neq. lia. Qed.

Lemma list_len_pos {A} (l : list A) : (list_len l >? 0)%Z = match l with [] => false | _ => true end.
Proof. destruct l; [reflexivity|]. rewrite list_len_cons. pose proof (list_len_nonneg l). apply Z.gtb_lt. lia. Qed.

Lemma list_len_gt1 {A} (l : list A) : (list_len l >? 1)%Z = Nat.ltb 1 (List.length l).
Proof.
  unfold list_len. destruct (Nat.ltb 1 (List.length l)) eqn:E.
  - apply Nat.ltb_lt in E. apply Z.gtb_lt. lia.
  - apply Nat.ltb_ge in E. destruct (Z.of_nat (List.length l) >? 1)%Z eqn:E'; [|reflexivity].
    apply Z.gtb_lt in E'. lia.
Qed.

(* xs[i] = v for an element the translation tracks (a pointer appended to a list and written through later):
   the list with element i replaced; unchanged when i is out of range *)
Fixpoint list_set_nat {A} (n : nat) (v : A) (l : list A) : list A :=
  match l, n with
  | [], _ => []
  | _ :: t, O => v :: t
  | h :: t, S n' => h :: list_set_nat n' v t
  end.
Definition list_set {A} (i : Z) (v : A) (l : list A) : list A :=
  if (i <? 0)%Z then l else list_set_nat (Z.to_nat i) v l.

Lemma list_set_nat_length {A} (n : nat) (v : A) l : List.length (list_set_nat n v l) = List.length l.
Proof. revert n; induction l as [|h t IH]; intros [|n]; cbn; auto. Qed.

Lemma list_set_len {A} (i : Z) (v : A) l : list_len (list_set i v l) = list_len l.
Proof. unfold list_set, list_len. destruct (i <? 0)%Z; [reflexivity|]. now rewrite list_set_nat_length. Qed.

Lemma list_set_nat_app_last {A} (l : list A) (x v : A) : list_set_nat (List.length l) v (l ++ [x]) = l ++ [v].
Proof. induction l as [|h t IH]; cbn; [reflexivity|]. now rewrite IH. Qed.

(* the element appended last, replaced *)
Lemma list_set_app_last {A} (l : list A) (x v : A) : list_set (list_len l) v (l ++ [x]) = l ++ [v].
Proof.
  unfold list_set, list_len. destruct (Z.of_nat (List.length l) <? 0)%Z eqn:E; [apply Z.ltb_lt in E; lia|].
  rewrite Nat2Z.id. apply list_set_nat_app_last.
Qed.

Lemma list_set_nat_app_left {A} (n : nat) (v : A) (l r : list A) :
  (n < List.length l)%nat -> list_set_nat n v (l ++ r) = list_set_nat n v l ++ r.
Proof.
  revert n; induction l as [|h t IH]; intros [|n] H; cbn in *; try lia; [reflexivity|].
  rewrite IH by lia. reflexivity.
Qed.

(* later appends do not move it *)
Lemma list_set_app_left {A} (i : Z) (v : A) (l r : list A) :
  (0 <= i < list_len l)%Z -> list_set i v (l ++ r) = list_set i v l ++ r.
Proof.
  unfold list_set, list_len. intros H. destruct (i <? 0)%Z eqn:E; [apply Z.ltb_lt in E; lia|].
  apply list_set_nat_app_left. lia.
Qed.

(* a slice / map field whose nil-ness the code tests (row option NilableFields): None = nil;
   read as a slice / map, nil is empty *)
Definition onil {A} (o : option (list A)) : list A := match o with Some l => l | None => [] end.
Lemma onil_some {A} (l : list A) : onil (Some l) = l. Proof. reflexivity. Qed.
Lemma onil_none {A} : onil (@None (list A)) = []. Proof. reflexivity. Qed.

(* reflect.DeepEqual against a package-level value whose maps and slices are all non-empty (so that the
   nil / empty distinction, which the translation does not keep, cannot matter) *)
Definition ptr_deep_eqb {A} (e : A -> A -> bool) (a b : ptr A) : bool :=
  match ptr_val a, ptr_val b with
  | Some x, Some y => e x y
  | None, None => true
  | _, _ => false
  end.
Fixpoint list_deep_eqb {A} (e : A -> A -> bool) (a b : list A) : bool :=
  match a, b with
  | [], [] => true
  | x :: a', y :: b' => e x y && list_deep_eqb e a' b'
  | _, _ => false
  end.
Definition map_deep_eqb {K V} (keqb : K -> K -> bool) (e : V -> V -> bool) (a b : list (K * V)) : bool :=
  Z.eqb (map_len keqb a) (map_len keqb b) &&
  forallb (fun kv => match map_get keqb (fst kv) b with Some v => e (snd kv) v | None => false end) (map_entries keqb a).

Lemma list_get_nth {A} (l : list A) (n : nat) : list_get l (Z.of_nat n) = nth_error l n.
Proof.
  unfold list_get. destruct (Z.of_nat n <? 0)%Z eqn:E; [apply Z.ltb_lt in E; lia|].
  rewrite Nat2Z.id. reflexivity.
Qed.

Lemma zrange_down_zero (n : nat) :
  zrange_down (Z.of_nat n - 1) 0 = rev (map Z.of_nat (seq 0 n)).
Proof.
  unfold zrange_down. replace (Z.to_nat (Z.of_nat n - 1 - 0 + 1)) with n by lia.
  induction n as [|n IH]; [reflexivity|].
  change (seq 0 (S n)) with (0%nat :: seq 1 n) at 1.
  rewrite seq_S, map_app, rev_app_distr. cbn [map rev app plus].
  rewrite <- IH. f_equal; [lia|].
  rewrite <- seq_shift, map_map. apply map_ext. intros k. lia.
Qed.

(* ---------- Go library: strings ---------- *)

Definition str_len (s : string) : Z := Z.of_nat (String.length s).

Fixpoint take (n : nat) (s : string) : string :=
  match n, s with
  | O, _ => EmptyString
  | S n', String a s' => String a (take n' s')
  | S _, EmptyString => EmptyString
  end.

(* strings.Cut(s, sep) *)
Fixpoint str_cut_opt (sep s : string) : option (string * string) :=
  if has_prefix sep s then Some (EmptyString, drop (String.length sep) s)
  else match s with
       | EmptyString => None
       | String a s' =>
           match str_cut_opt sep s' with
           | Some (l, r) => Some (String a l, r)
           | None => None
           end
       end.

Definition str_cut (sep s : string) : string * string * bool :=
  match str_cut_opt sep s with
  | Some (l, r) => (l, r, true)
  | None => (s, EmptyString, false)
  end.

(* strings.Index(s, sub): -1 when absent *)
Fixpoint str_index_from (sub s : string) (i : Z) : Z :=
  if has_prefix sub s then i
  else match s with
       | EmptyString => (-1)%Z
       | String _ s' => str_index_from sub s' (i + 1)%Z
       end.

Definition str_index (sub s : string) : Z := str_index_from sub s 0%Z.

(* strings.LastIndex(s, sub) *)
Fixpoint str_last_index_from (sub s : string) (i acc : Z) : Z :=
  let acc' := if has_prefix sub s then i else acc in
  match s with
  | EmptyString => acc'
  | String _ s' => str_last_index_from sub s' (i + 1)%Z acc'
  end.

Definition str_last_index (sub s : string) : Z := str_last_index_from sub s 0%Z (-1)%Z.

Definition str_contains (sub s : string) : bool := (0 <=? str_index sub s)%Z.

Definition str_has_prefix (p s : string) : bool := has_prefix p s.

Definition str_has_suffix (suf s : string) : bool :=
  Nat.leb (String.length suf) (String.length s)
  && String.eqb (drop (String.length s - String.length suf) s) suf.

Definition str_trim_prefix (p s : string) : string :=
  if has_prefix p s then drop (String.length p) s else s.

Definition str_trim_suffix (suf s : string) : string :=
  if str_has_suffix suf s then take (String.length s - String.length suf) s else s.

(* strings.CutPrefix(s, p) *)
Definition str_cut_prefix (p s : string) : string * bool :=
  if has_prefix p s then (drop (String.length p) s, true) else (s, false).

(* strings.CutSuffix(s, suf) *)
Definition str_cut_suffix (suf s : string) : string * bool :=
  if str_has_suffix suf s then (take (String.length s - String.length suf) s, true) else (s, false).

(* strings.ContainsAny(s, chars) for chars consisting of ASCII bytes only
   (the translator refuses any other chars argument) *)
Fixpoint str_contains_any (chars s : string) : bool :=
  match s with
  | EmptyString => false
  | String a s' => contains_byte a chars || str_contains_any chars s'
  end.

(* strings.Split(s, sep) for a non-empty sep (the translator refuses "") *)
Fixpoint str_split_fuel (n : nat) (sep s : string) : list string :=
  match n with
  | O => [s]
  | S n' =>
      match str_cut_opt sep s with
      | None => [s]
      | Some (l, r) => l :: str_split_fuel n' sep r
      end
  end.

Definition str_split (sep s : string) : list string := str_split_fuel (S (String.length s)) sep s.

(* strings.Join(xs, sep) *)
Definition str_join (xs : list string) (sep : string) : string := String.concat sep xs.

(* s[i:j]; None = slice bounds out of range *)
Definition str_slice (s : string) (i j : Z) : option string :=
  if ((0 <=? i) && (i <=? j) && (j <=? str_len s))%Z
  then Some (take (Z.to_nat (j - i)) (drop (Z.to_nat i) s))
  else None.

(* s[i] *)
Definition str_get (s : string) (i : Z) : option Z :=
  if (i <? 0)%Z then None
  else match String.get (Z.to_nat i) s with
       | Some a => Some (Z.of_N (N_of_ascii a))
       | None => None
       end.

(* strings.TrimSpace: Unicode white space in UTF-8. The white-space code
   points are U+0009..U+000D, U+0020, U+0085, U+00A0, U+1680, U+2000..U+200A,
   U+2028, U+2029, U+202F, U+205F, U+3000. *)
Definition space_prefix_len (l : list N) : nat :=
  match l with
  | c :: r =>
      if ((9 <=? c) && (c <=? 13) || (c =? 32))%N then 1
      else match r with
           | d :: r' =>
               if ((c =? 194) && ((d =? 133) || (d =? 160)))%N then 2
               else match r' with
                    | e :: _ =>
                        if ((c =? 225) && (d =? 154) && (e =? 128))%N then 3
                        else if ((c =? 226) && (d =? 128) && ((128 <=? e) && (e <=? 138) || (e =? 168) || (e =? 169) || (e =? 175)))%N then 3
                        else if ((c =? 226) && (d =? 129) && (e =? 159))%N then 3
                        else if ((c =? 227) && (d =? 128) && (e =? 128))%N then 3
                        else 0
                    | [] => 0
                    end
           | [] => 0
           end
  | [] => 0
  end.

(* the same, read from the end: the argument is the REVERSED byte list *)
Definition space_suffix_len (l : list N) : nat :=
  match l with
  | c :: r =>
      if ((9 <=? c) && (c <=? 13) || (c =? 32))%N then 1
      else match r with
           | d :: r' =>
               if ((d =? 194) && ((c =? 133) || (c =? 160)))%N then 2
               else match r' with
                    | e :: _ =>
                        if ((e =? 225) && (d =? 154) && (c =? 128))%N then 3
                        else if ((e =? 226) && (d =? 128) && ((128 <=? c) && (c <=? 138) || (c =? 168) || (c =? 169) || (c =? 175)))%N then 3
                        else if ((e =? 226) && (d =? 129) && (c =? 159))%N then 3
                        else if ((e =? 227) && (d =? 128) && (c =? 128))%N then 3
                        else 0
                    | [] => 0
                    end
           | [] => 0
           end
  | [] => 0
  end.

Fixpoint trim_with (f : list N -> nat) (fuel : nat) (l : list N) : list N :=
  match fuel with
  | O => l
  | S fuel' =>
      match f l with
      | O => l
      | n => trim_with f fuel' (skipn n l)
      end
  end.

Definition str_trim_space (s : string) : string :=
  let l := bytes s in
  let l1 := trim_with space_prefix_len (List.length l) l in
  let l2 := rev (trim_with space_suffix_len (List.length l1) (rev l1)) in
  B l2.

(* ---------- Go library: regexp ---------- *)

(* Regexp.MatchString (pointer receiver) for an anchored expression ^...$ without
   other anchors (the translator checks the shape: Regex.anchored) *)
Definition re_match (r : re) (s : string) : bool := matches r s.

(* ---------- Go library: time (a time.Time is its Unix time in nanoseconds;
   the zero Time is represented by time_zero) ---------- *)
Definition time_zero : Z := (-62135596800000000000)%Z.
Definition time_is_zero (t : Z) : bool := (t =? time_zero)%Z.
Definition time_after (t u : Z) : bool := (t >? u)%Z.
Definition time_before (t u : Z) : bool := (t <? u)%Z.
Definition time_equal (t u : Z) : bool := (t =? u)%Z.

(* ---------- lemmas: strings ---------- *)

Lemma ascii_eqb_sym a b : Ascii.eqb a b = Ascii.eqb b a.
Proof.
  destruct (Ascii.eqb a b) eqn:E.
  - apply Ascii.eqb_eq in E. subst. symmetry. apply Ascii.eqb_refl.
  - destruct (Ascii.eqb b a) eqn:E'; [|reflexivity].
    apply Ascii.eqb_eq in E'. subst. rewrite Ascii.eqb_refl in E. discriminate.
Qed.

(* strings.Cut with a one-byte separator is Base.cut_byte *)
Lemma str_cut_opt_byte c s : str_cut_opt (String c EmptyString) s = cut_byte c s.
Proof.
  induction s as [|a s IH]; [reflexivity|].
  cbn [str_cut_opt has_prefix cut_byte String.length drop].
  rewrite ascii_eqb_sym. destruct (Ascii.eqb a c); cbn [andb].
  - destruct s; reflexivity.
  - rewrite IH. reflexivity.
Qed.

Lemma str_cut_byte c s :
  str_cut (String c EmptyString) s =
  match cut_byte c s with Some (l, r) => (l, r, true) | None => (s, EmptyString, false) end.
Proof. unfold str_cut. rewrite str_cut_opt_byte. reflexivity. Qed.

Lemma str_index_from_shift sub s i :
  str_index_from sub s i = (if (str_index_from sub s 0 <? 0)%Z then -1 else i + str_index_from sub s 0)%Z.
Proof.
  revert i. induction s as [|a s IH]; intros i; cbn [str_index_from].
  - destruct (has_prefix sub EmptyString); cbn; [lia|reflexivity].
  - destruct (has_prefix sub (String a s)); [cbn; lia|].
    rewrite (IH (i + 1)%Z), (IH (0 + 1)%Z).
    repeat match goal with |- context[(?a <? ?b)%Z] => destruct (Z.ltb_spec a b) end; lia.
Qed.

(* strings.Contains with a one-byte needle is Base.contains_byte *)
Lemma str_contains_byte c s : str_contains (String c EmptyString) s = contains_byte c s.
Proof.
  unfold str_contains, str_index.
  induction s as [|a s IH]; [reflexivity|].
  cbn [str_index_from has_prefix contains_byte].
  rewrite ascii_eqb_sym. destruct (Ascii.eqb a c); cbn [andb orb].
  - destruct s; reflexivity.
  - rewrite str_index_from_shift. rewrite <- IH.
    repeat match goal with
           | |- context[(?a <? ?b)%Z] => destruct (Z.ltb_spec a b)
           | |- context[(?a <=? ?b)%Z] => destruct (Z.leb_spec a b)
           end; try reflexivity; lia.
Qed.

Lemma str_len_length s : str_len s = Z.of_nat (String.length s).
Proof. reflexivity. Qed.

Lemma str_len_gt1 s : (str_len s >? 1)%Z = Nat.ltb 1 (String.length s).
Proof.
  unfold str_len. destruct (Nat.ltb 1 (String.length s)) eqn:E.
  - apply Nat.ltb_lt in E. apply Z.gtb_lt. lia.
  - apply Nat.ltb_ge in E. destruct (Z.of_nat (String.length s) >? 1)%Z eqn:E'; [|reflexivity].
    apply Z.gtb_lt in E'. lia.
Qed.

(* ---------- Go library: path/filepath (Unix) ---------- *)

(* filepath.Ext: the suffix beginning at the final dot in the final
   slash-separated element; empty if there is no dot. The argument of the
   helper is the REVERSED character list. *)
Fixpoint ext_rev (l acc : list ascii) : list ascii :=
  match l with
  | [] => []
  | c :: r =>
      if Ascii.eqb c "/"%char then []
      else if Ascii.eqb c "."%char then c :: acc
      else ext_rev r (c :: acc)
  end.

Definition filepath_ext (s : string) : string :=
  string_of_list_ascii (ext_rev (rev (list_ascii_of_string s)) []).

(* ---------- values of type any (interface{}) ----------
   The dynamic type is part of the value: [ty] is the Go type as printed by
   go/types ("string", "int64", "<import path>.<Name>"). Values of a type that
   is not a string / integer / boolean kind are abstract: [id] stands for the
   value (equal values, equal ids); AUncmp is a value of an uncomparable type
   (slice, map, function): comparing two of the same type panics. *)
Inductive anyv :=
| ANil
| AStr (ty s : string)
| AInt (ty : string) (z : Z)
| ABool (ty : string) (b : bool)
| AOther (ty : string) (id : Z)
| AUncmp (ty : string) (id : Z).

Definition any_is_nil (a : anyv) : bool := match a with ANil => true | _ => false end.

(* v, ok := x.(T) *)
Definition any_str (ty : string) (a : anyv) : string * bool :=
  match a with AStr t s => if String.eqb t ty then (s, true) else (EmptyString, false) | _ => (EmptyString, false) end.
Definition any_int (ty : string) (a : anyv) : Z * bool :=
  match a with AInt t z => if String.eqb t ty then (z, true) else (0%Z, false) | _ => (0%Z, false) end.
Definition any_bool (ty : string) (a : anyv) : bool * bool :=
  match a with ABool t b => if String.eqb t ty then (b, true) else (false, false) | _ => (false, false) end.

(* x.(T): None = the assertion panics *)
Definition any_str_opt (ty : string) (a : anyv) : option string :=
  let '(v, ok) := any_str ty a in if ok then Some v else None.
Definition any_int_opt (ty : string) (a : anyv) : option Z :=
  let '(v, ok) := any_int ty a in if ok then Some v else None.
Definition any_bool_opt (ty : string) (a : anyv) : option bool :=
  let '(v, ok) := any_bool ty a in if ok then Some v else None.

(* a == b on interface values: identical dynamic types and equal values *)
Definition anyv_eqb (a b : anyv) : bool :=
  match a, b with
  | ANil, ANil => true
  | AStr t s, AStr t' s' => String.eqb t t' && String.eqb s s'
  | AInt t z, AInt t' z' => String.eqb t t' && Z.eqb z z'
  | ABool t x, ABool t' x' => String.eqb t t' && Bool.eqb x x'
  | AOther t i, AOther t' i' => String.eqb t t' && Z.eqb i i'
  | _, _ => false
  end.

(* the comparison panics: both values have the same uncomparable type *)
Definition anyv_cmp_panics (a b : anyv) : bool :=
  match a, b with AUncmp t _, AUncmp t' _ => String.eqb t t' | _, _ => false end.

Definition anyv_eq_opt (a b : anyv) : option bool :=
  if anyv_cmp_panics a b then None else Some (anyv_eqb a b).

Lemma any_str_string s : any_str "string" (AStr "string" s) = (s, true).
Proof. reflexivity. Qed.

Lemma any_str_ok ty a s : any_str ty a = (s, true) -> a = AStr ty s.
Proof.
  destruct a; cbn; try discriminate. destruct (String.eqb ty0 ty) eqn:E; [|discriminate].
  intros H. inversion H. apply String.eqb_eq in E. subst. reflexivity.
Qed.

(* ---------- errors.Is / errors.As / comparison with a sentinel ----------
   A package-level `var ErrX = errors.New(..)` is translated to
   `Err "<pkg>.ErrX" msg []`: the typ of a sentinel is its name, no other error
   value has it. An error struct T has typ "<pkg>.T" ("*<pkg>.T" when the
   error is the address of a literal). *)
Fixpoint err_has_typ (ty : string) (e : err) : bool :=
  match e with
  | Err t _ w =>
      String.eqb t ty
      || (fix any (l : list err) : bool :=
            match l with [] => false | x :: r => err_has_typ ty x || any r end) w
  end.

(* err == sentinel (identity) *)
Definition err_same (a b : option err) : bool :=
  match a, b with
  | Some (Err t _ _), Some (Err t' _ _) => String.eqb t t'
  | None, None => true
  | _, _ => false
  end.

(* errors.Is(err, sentinel): some error of the chain (Unwrap, also of the
   several errors of a %w list / errors.Join) is the sentinel *)
Definition err_is (e target : option err) : bool :=
  match e, target with
  | Some x, Some (Err t _ _) => err_has_typ t x
  | None, None => true
  | _, _ => false
  end.

(* errors.As(err, &target) for a target of the error type named ty *)
Definition err_as (ty : string) (e : option err) : bool :=
  match e with Some x => err_has_typ ty x | None => false end.

(* the error errors.As(err, &target) finds: the first one of the chain (the error itself, then what it
   wraps, depth first in order) whose type is ty. Used when the target is looked at afterwards through
   methods that are oracles over the found error. *)
Fixpoint err_find_node (ty : string) (e : err) : option err :=
  match e with
  | Err t _ w =>
      if String.eqb t ty then Some e
      else (fix first (l : list err) : option err :=
              match l with
              | [] => None
              | x :: r => match err_find_node ty x with Some y => Some y | None => first r end
              end) w
  end.
Definition err_find (ty : string) (e : option err) : option err :=
  match e with Some x => err_find_node ty x | None => None end.

Lemma err_find_node_has_typ ty : forall e, is_some (err_find_node ty e) = err_has_typ ty e.
Proof.
  fix IH 1. intros [t f w]. cbn [err_find_node err_has_typ].
  destruct (String.eqb t ty); [reflexivity|]. cbn [orb].
  induction w as [|x r IHr]; [reflexivity|].
  rewrite <- (IH x). destruct (err_find_node ty x); [reflexivity|]. exact IHr.
Qed.

Lemma err_find_as ty e : is_some (err_find ty e) = err_as ty e.
Proof. destruct e; [apply err_find_node_has_typ|reflexivity]. Qed.

(* ---------- fs.WalkDir / filepath.WalkDir (Go 1.23 io/fs/walk.go, path/filepath/path.go) ----------
   What the walk sees of the file system is a tree supplied by an oracle: for every entry its path as
   handed to the callback, its DirEntry, whether it is a directory, what ReadDir returned for it (the
   entries, in order, and possibly an error). The callback threads a state S and may panic (None).
   The protocol is the library's: the callback's result is compared by == with the sentinels
   fs.SkipDir / fs.SkipAll (typ "fs.SkipDir" / "fs.SkipAll"). *)
Inductive walk_tree (E : Type) : Type :=
  WNode (name : string) (entry : E) (is_dir : bool) (read_err : option err) (children : list (walk_tree E)).
Arguments WNode {E} name entry is_dir read_err children.

Definition err_is_sentinel (name : string) (r : option err) : bool :=
  match r with Some (Err t _ _) => String.eqb t name | None => false end.

Section Walk.
  Context {E S : Type}.
  Variable fn : S -> string -> ptr E -> option err -> option (S * option err).

  (* walkDir(name, d, fn) *)
  Fixpoint walk_node (t : walk_tree E) (s : S) : option (S * option err) :=
    match t with
    | WNode name d isdir rerr kids =>
        match fn s name (PNew d) None with
        | None => None
        | Some (s, r) =>
            if is_some r || negb isdir then
              Some (s, if err_is_sentinel "fs.SkipDir" r && isdir then None else r)
            else
              let after_read :=
                match rerr with
                | Some e =>
                    match fn s name (PNew d) (Some e) with
                    | None => None
                    | Some (s, r2) => Some (s, r2)
                    end
                | None => Some (s, None)
                end in
              match after_read with
              | None => None
              | Some (s, Some e2) =>
                  Some (s, if err_is_sentinel "fs.SkipDir" (Some e2) then None else Some e2)
              | Some (s, None) =>
                  (fix kids_loop (l : list (walk_tree E)) (s : S) : option (S * option err) :=
                     match l with
                     | [] => Some (s, None)
                     | k :: l' =>
                         match walk_node k s with
                         | None => None
                         | Some (s, None) => kids_loop l' s
                         | Some (s, Some e) =>
                             if err_is_sentinel "fs.SkipDir" (Some e) then Some (s, None) else Some (s, Some e)
                         end
                     end) kids s
              end
        end
    end.

  (* WalkDir(root, fn): top = what Stat / Lstat of the root gave: the tree, or an error *)
  Definition walk_dir (root : string) (top : walk_tree E + err) (s : S) : option (S * option err) :=
    match (match top with
           | inl t => walk_node t s
           | inr e => fn s root PNil (Some e)
           end) with
    | None => None
    | Some (s, r) =>
        Some (s, if err_is_sentinel "fs.SkipDir" r || err_is_sentinel "fs.SkipAll" r then None else r)
    end.
End Walk.

(* errors.Join(errs...): nil when every error is nil *)
Definition err_join (es : list (option err)) : option err :=
  match flat_map olist es with
  | [] => None
  | l => Some (Err "errors.join" EmptyString l)
  end.

(* ---------- bytes, slices of slices, dynamic type of an error, filepath.Base ---------- *)

(* []byte(s) and string(b) *)
Definition bytes_of_str (s : string) : list Z := map Z.of_N (bytes s).
Definition str_of_bytes (l : list Z) : string := B (map Z.to_N l).

(* l[i:j] for a slice whose capacity equals its length (re-slicing beyond the
   length, which Go allows up to the capacity, panics in this model) *)
Definition list_slice {A} (l : list A) (i j : Z) : option (list A) :=
  if ((0 <=? i) && (i <=? j) && (j <=? list_len l))%Z
  then Some (firstn (Z.to_nat (j - i)) (skipn (Z.to_nat i) l))
  else None.

(* switch err.(type): the dynamic type of the error value itself (not of what it wraps) *)
Definition err_dyn_in (tys : list string) (e : option err) : bool :=
  match e with Some (Err t _ _) => existsb (String.eqb t) tys | None => false end.

(* filepath.Base (Unix) *)
Fixpoint strip_trailing_slashes (l : list ascii) : list ascii :=   (* l is reversed *)
  match l with
  | c :: r => if Ascii.eqb c "/"%char then strip_trailing_slashes r else l
  | [] => []
  end.

Fixpoint take_until_slash (l : list ascii) (acc : list ascii) : list ascii :=   (* l is reversed *)
  match l with
  | c :: r => if Ascii.eqb c "/"%char then acc else take_until_slash r (c :: acc)
  | [] => acc
  end.

Definition filepath_base (s : string) : string :=
  match s with
  | EmptyString => "."
  | _ =>
      match strip_trailing_slashes (rev (list_ascii_of_string s)) with
      | [] => "/"
      | l => string_of_list_ascii (take_until_slash l [])
      end
  end.

(* ---------- interface values that may be nil ----------
   A value of an interface type declared Nilable is a [ptr] to its non-nil
   content (an opaque value, or the function of a one-method interface). *)
Definition ptr_map {A B} (f : A -> B) (p : ptr A) : ptr B :=
  match p with PNil => PNil | PGlob n v => PGlob n (f v) | PNew v => PNew (f v) end.

(* v, ok := x.(I) for an interface type I: [as_] says whether the dynamic value also has type I *)
Definition iface_assert {A B} (as_ : A -> option B) (x : ptr A) : ptr B * bool :=
  match ptr_val x with
  | Some v => match as_ v with Some w => (PNew w, true) | None => (PNil, false) end
  | None => (PNil, false)
  end.
