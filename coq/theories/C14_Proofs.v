(* C14_Proofs.v — proofs about the directory semantics of C14_Model. *)
From NV Require Import Base Generated C14_Model.
Open Scope string_scope.
Open Scope list_scope.
Open Scope nat_scope.

(* ---------- association lists ---------- *)
Section MapLemmas.
  Context {K V : Type} (eqb : K -> K -> bool).
  Hypothesis eqb_spec : forall a b, eqb a b = true <-> a = b.

  Lemma eqb_refl' : forall a, eqb a a = true.
  Proof. intros a. apply eqb_spec. reflexivity. Qed.

  Lemma eqb_neq' : forall a b, a <> b -> eqb a b = false.
  Proof.
    intros a b H. destruct (eqb a b) eqn:E; [|reflexivity].
    apply eqb_spec in E. contradiction.
  Qed.

  Lemma get_del_eq : forall k (m : list (K * V)), get eqb k (del eqb k m) = None.
  Proof.
    intros k m. induction m as [|[k' v] m IH]; cbn; [reflexivity|].
    destruct (eqb k k') eqn:E; [exact IH|]. cbn. rewrite E. exact IH.
  Qed.

  Lemma get_del_neq : forall k k' (m : list (K * V)), k <> k' -> get eqb k (del eqb k' m) = get eqb k m.
  Proof.
    intros k k' m H. induction m as [|[k2 v] m IH]; cbn; [reflexivity|].
    destruct (eqb k' k2) eqn:E.
    - apply eqb_spec in E. subst k2. rewrite (eqb_neq' k k' H). exact IH.
    - cbn. destruct (eqb k k2); [reflexivity|exact IH].
  Qed.

  Lemma get_put_eq : forall k v (m : list (K * V)), get eqb k (put eqb k v m) = Some v.
  Proof. intros. unfold put. cbn. rewrite eqb_refl'. reflexivity. Qed.

  Lemma get_put_neq : forall k k' v (m : list (K * V)), k <> k' -> get eqb k (put eqb k' v m) = get eqb k m.
  Proof. intros. unfold put. cbn. rewrite (eqb_neq' k k' H). apply get_del_neq. exact H. Qed.

  Lemma get_put_cases : forall k k' v (m : list (K * V)) x,
    get eqb k (put eqb k' v m) = Some x -> (k = k' /\ x = v) \/ (k <> k' /\ get eqb k m = Some x).
  Proof.
    intros k k' v m x H. destruct (eqb k k') eqn:E.
    - apply eqb_spec in E. subst k'. rewrite get_put_eq in H. inversion H. left. auto.
    - assert (k <> k') as Hn by (intros ->; rewrite eqb_refl' in E; discriminate).
      rewrite (get_put_neq _ _ _ _ Hn) in H. right. auto.
  Qed.

  Lemma get_del_some : forall k k' (m : list (K * V)) x,
    get eqb k (del eqb k' m) = Some x -> k <> k' /\ get eqb k m = Some x.
  Proof.
    intros k k' m x H. destruct (eqb k k') eqn:E.
    - apply eqb_spec in E. subst k'. rewrite get_del_eq in H. discriminate.
    - assert (k <> k') as Hn by (intros ->; rewrite eqb_refl' in E; discriminate).
      rewrite (get_del_neq _ _ _ Hn) in H. auto.
  Qed.

  Lemma get_in : forall k (m : list (K * V)) v, get eqb k m = Some v -> In (k, v) m.
  Proof.
    intros k m v. induction m as [|[k' v'] m IH]; cbn; [discriminate|].
    destruct (eqb k k') eqn:E; intros H.
    - apply eqb_spec in E. subst k'. inversion H. left. reflexivity.
    - right. exact (IH H).
  Qed.

  Lemma in_del : forall k k' (v : V) m, In (k, v) (del eqb k' m) -> k <> k' /\ In (k, v) m.
  Proof.
    intros k k' v m. induction m as [|[k2 v2] m IH]; cbn; [intros []|].
    destruct (eqb k' k2) eqn:E.
    - intros H. destruct (IH H) as [N I]. split; [exact N|right; exact I].
    - intros [H|H].
      + inversion H. subst. split; [|left; reflexivity].
        intros ->. rewrite eqb_refl' in E. discriminate.
      + destruct (IH H) as [N I]. split; [exact N|right; exact I].
  Qed.

End MapLemmas.

Arguments put : simpl never.
Arguments get : simpl never.
Arguments del : simpl never.

Definition Neqb_spec : forall a b, N.eqb a b = true <-> a = b := N.eqb_eq.
Definition Seqb_spec : forall a b, String.eqb a b = true <-> a = b := String.eqb_eq.

Ltac mapN := first [ rewrite (get_put_eq N.eqb Neqb_spec) | rewrite (get_put_neq N.eqb Neqb_spec) by congruence ].
Ltac mapS := first [ rewrite (get_put_eq String.eqb Seqb_spec) | rewrite (get_put_neq String.eqb Seqb_spec) by congruence
                   | rewrite (get_del_neq String.eqb Seqb_spec) by congruence ].

(* ---------- names ---------- *)
Lemma hexdigit_is_hex : forall x, is_hex (hexdigit (x mod 16)%N) = true.
Proof.
  intros x. assert (x mod 16 < 16)%N as H by (apply N.mod_lt; discriminate).
  remember (x mod 16)%N as d eqn:E. clear E x.
  assert (d = 0 \/ d = 1 \/ d = 2 \/ d = 3 \/ d = 4 \/ d = 5 \/ d = 6 \/ d = 7 \/ d = 8 \/ d = 9 \/
          d = 10 \/ d = 11 \/ d = 12 \/ d = 13 \/ d = 14 \/ d = 15)%N as C by lia.
  repeat (destruct C as [-> | C]; [reflexivity|]). subst d. reflexivity.
Qed.

Lemma all_hex_hex : forall l, all_hex (hex l) = true.
Proof.
  induction l as [|b l IH]; cbn [hex all_hex]; [reflexivity|].
  rewrite !hexdigit_is_hex, IH. reflexivity.
Qed.

Lemma has_prefix_all_hex : forall p t, has_prefix p t = true -> all_hex t = true -> all_hex p = true.
Proof.
  induction p as [|a p IH]; intros t Hp Ht; [reflexivity|].
  destruct t as [|b t]; cbn in Hp; [discriminate|].
  apply andb_true_iff in Hp. destruct Hp as [Hab Hp]. apply Ascii.eqb_eq in Hab. subst b.
  cbn in Ht. apply andb_true_iff in Ht. destruct Ht as [Ha Ht].
  cbn. rewrite Ha. cbn. exact (IH t Hp Ht).
Qed.

(* the generated pattern of internal/file has a prefix with a non-hex byte *)
Lemma tmp_prefix_not_hex : all_hex tmp_prefix = false.
Proof. vm_compute. reflexivity. Qed.

Lemma is_temp_prefix : forall t, is_temp t = true -> has_prefix tmp_prefix t = true.
Proof.
  intros t H. unfold is_temp in H.
  repeat (apply andb_true_iff in H; destruct H as [H ?]). exact H.
Qed.

Lemma is_temp_not_hex : forall t, is_temp t = true -> all_hex t = false.
Proof.
  intros t H. apply is_temp_prefix in H.
  destruct (all_hex t) eqn:E; [|reflexivity].
  pose proof (has_prefix_all_hex _ _ H E) as C. rewrite tmp_prefix_not_hex in C. discriminate.
Qed.

Lemma key_not_temp : forall sha u, is_temp (key sha u) = false.
Proof.
  intros sha u. destruct (is_temp (key sha u)) eqn:E; [|reflexivity].
  apply is_temp_not_hex in E. unfold key in E. rewrite all_hex_hex in E. discriminate.
Qed.

Lemma temp_not_keyshape : forall t, is_temp t = true -> keyshape t = false.
Proof. intros t H. unfold keyshape. rewrite (is_temp_not_hex t H). reflexivity. Qed.

(* ---------- prefixes ---------- *)
Definition pre (d c : data) : Prop := d = firstn (List.length d) c.

Lemma pre_nil : forall c, pre [] c.
Proof. intros c. reflexivity. Qed.

Lemma firstn_plus : forall (c : data) a n, firstn a c ++ firstn n (skipn a c) = firstn (a + n) c.
Proof.
  induction c as [|x c IH]; intros a n.
  - rewrite skipn_nil, !firstn_nil. reflexivity.
  - destruct a as [|a]; cbn; [reflexivity|]. rewrite IH. reflexivity.
Qed.

Lemma firstn_length_firstn : forall (c : data) k, firstn (List.length (firstn k c)) c = firstn k c.
Proof.
  intros c k. rewrite firstn_length. destruct (Nat.le_ge_cases k (List.length c)) as [H|H].
  - rewrite Nat.min_l by exact H. reflexivity.
  - rewrite Nat.min_r by exact H. rewrite firstn_all. symmetry. apply firstn_all2. exact H.
Qed.

Lemma pre_app : forall d c n, pre d c -> pre (d ++ firstn n (skipn (List.length d) c)) c.
Proof.
  intros d c n H. unfold pre in *.
  assert (d ++ firstn n (skipn (List.length d) c) = firstn (List.length d + n) c) as E.
  { rewrite H at 1. apply firstn_plus. }
  rewrite E. symmetry. apply firstn_length_firstn.
Qed.

Lemma pre_full : forall d c, pre d c -> List.length c <= List.length d -> d = c.
Proof. intros d c H L. unfold pre in H. rewrite H. apply firstn_all2. exact L. Qed.

Lemma pre_refl : forall c, pre c c.
Proof. intros c. unfold pre. symmetry. apply firstn_all. Qed.

(* ---------- the invariant of safe traces ---------- *)
Ltac dmatch H :=
  match type of H with
  | context [match ?x with _ => _ end] => destruct x eqn:?
  end; try discriminate.

Section Inv.
Variable sha : string -> list N.
Notation key := (key sha).
Notation step := (step sha).
Notation exec := (exec sha).

Definition live (p : wpc) : Prop := p = POpen \/ p = PClosed.
Definition full (p : wpc) : Prop := p = PClosed \/ p = PDone.

(* writer w: its file descriptor is its own inode, which holds a prefix of its
   content (all of it once closed); while it may still rename, its temporary
   name is a temporary name and denotes that inode *)
Definition wok (s : state) (w : N) (wr : wrec) : Prop :=
  w_inplace wr = false /\ w_ino wr = w /\
  exists d, getN w (s_ino s) = Some d /\ pre d (w_content wr) /\
            (full (w_pc wr) -> d = w_content wr) /\
            (live (w_pc wr) -> is_temp (w_tmp wr) = true /\ getS (w_tmp wr) (s_dir s) = Some w).

(* inode i was renamed over a key by writer i, which is finished *)
Definition done_at (s : state) (i : N) (wr : wrec) : Prop :=
  getN i (s_w s) = Some wr /\ w_pc wr = PDone.

Definition dok (s : state) : Prop :=
  forall name i, getS name (s_dir s) = Some i ->
    is_temp name = true \/ exists wr, done_at s i wr /\ key (w_url wr) = name.

Definition rok (s : state) (rr : rrec) : Prop :=
  match r_ino rr with
  | None => r_st rr = RDone Miss
  | Some i => exists wr, done_at s i wr /\ key (w_url wr) = key (r_url rr) /\
                match r_st rr with
                | RReading buf => pre buf (w_content wr)
                | RDone (Hit c) => c = w_content wr
                | RDone Miss => False
                end
  end.

Record inv (s : state) : Prop := mk_inv {
  inv_w : forall w wr, getN w (s_w s) = Some wr -> wok s w wr;
  inv_d : dok s;
  inv_r : forall r rr, getN r (s_r s) = Some rr -> rok s rr }.

Lemma inv_init : inv init.
Proof. split; cbn; intros; discriminate. Qed.

(* a finished writer's record never changes *)
Lemma step_done : forall s e s' i wr,
  step s e = Some s' -> done_at s i wr -> done_at s' i wr.
Proof.
  intros s e s' i wr H [G P]. split; [|exact P].
  destruct e; cbn in H; repeat dmatch H; inversion H; subst; clear H; cbn; try exact G;
    try (destruct (N.eq_dec i w) as [->|Hn]; [congruence | mapN; exact G]).
Qed.

(* so does a failed writer's *)
Lemma step_failed : forall s e s' i wr,
  step s e = Some s' -> getN i (s_w s) = Some wr -> w_pc wr = PFailed -> getN i (s_w s') = Some wr.
Proof.
  intros s e s' i wr H G P.
  destruct e; cbn in H; repeat dmatch H; inversion H; subst; clear H; cbn; try exact G;
    try (destruct (N.eq_dec i w) as [->|Hn]; [congruence | mapN; exact G]).
Qed.

Lemma rok_step : forall s e s' rr, step s e = Some s' -> rok s rr -> rok s' rr.
Proof.
  intros s e s' rr H R. unfold rok in *. destruct (r_ino rr) as [i|]; [|exact R].
  destruct R as [wr [D R]]. exists wr. split; [|exact R]. exact (step_done _ _ _ _ _ H D).
Qed.

Lemma entry_step : forall s e s' name i, step s e = Some s' ->
  (is_temp name = true \/ exists wr, done_at s i wr /\ key (w_url wr) = name) ->
  (is_temp name = true \/ exists wr, done_at s' i wr /\ key (w_url wr) = name).
Proof.
  intros s e s' name i H [T|[wr [D K]]]; [left; exact T|right].
  exists wr. split; [exact (step_done _ _ _ _ _ H D)|exact K].
Qed.

Lemma wok_frame : forall s s' w wr,
  wok s w wr ->
  getN w (s_ino s') = getN w (s_ino s) ->
  (live (w_pc wr) -> getS (w_tmp wr) (s_dir s') = getS (w_tmp wr) (s_dir s)) ->
  wok s' w wr.
Proof.
  intros s s' w wr [I [J [d [G [P [F L]]]]]] Hi Hd.
  split; [exact I|]. split; [exact J|]. exists d. rewrite Hi. split; [exact G|]. split; [exact P|].
  split; [exact F|]. intros Lv. destruct (L Lv) as [T GT]. split; [exact T|]. rewrite (Hd Lv). exact GT.
Qed.

(* two writers that may still rename have different temporary names *)
Lemma live_tmp_neq : forall s w wr w' wr',
  wok s w wr -> wok s w' wr' -> live (w_pc wr) -> live (w_pc wr') -> w <> w' -> w_tmp wr' <> w_tmp wr.
Proof.
  intros s w wr w' wr' [_ [_ [d [_ [_ [_ L]]]]]] [_ [_ [d' [_ [_ [_ L']]]]]] Lv Lv' N E.
  destruct (L Lv) as [_ G]. destruct (L' Lv') as [_ G']. rewrite E in G'. congruence.
Qed.

Lemma not_full_open : ~ full POpen.
Proof. intros [H|H]; discriminate. Qed.
Lemma not_live_done : ~ live PDone.
Proof. intros [H|H]; discriminate. Qed.
Lemma not_live_failed : ~ live PFailed.
Proof. intros [H|H]; discriminate. Qed.
Lemma not_live_dead : ~ live PDead.
Proof. intros [H|H]; discriminate. Qed.
Lemma not_full_failed : ~ full PFailed.
Proof. intros [H|H]; discriminate. Qed.
Lemma not_full_dead : ~ full PDead.
Proof. intros [H|H]; discriminate. Qed.

Lemma inv_create : forall s s' w u c t, inv s -> step s (ECreate w u c t) = Some s' -> inv s'.
Proof.
  intros s s' w u c t [IW ID IR] H. cbn in H. repeat dmatch H. inversion H; subst; clear H.
  split; cbn.
  - intros w' wr' G. apply (get_put_cases N.eqb Neqb_spec) in G. destruct G as [[-> ->]|[Hn G]].
    + split; [reflexivity|]. split; [reflexivity|]. exists []. cbn. mapN.
      split; [reflexivity|]. split; [apply pre_nil|]. split; [intros F; destruct (not_full_open F)|].
      intros _. split; [assumption|]. mapS. reflexivity.
    + pose proof (IW _ _ G) as W. apply (wok_frame s); [exact W|cbn; mapN; reflexivity|].
      intros Lv. cbn. destruct W as [_ [_ [d [_ [_ [_ L]]]]]]. destruct (L Lv) as [_ GT].
      mapS. reflexivity.
  - intros name i G. apply (get_put_cases String.eqb Seqb_spec) in G. destruct G as [[-> ->]|[Hn G]].
    + left. assumption.
    + destruct (ID _ _ G) as [T|[wr [[D P] K]]]; [left; exact T|right].
      exists wr. split; [|exact K]. split; [|exact P]. cbn. mapN. exact D.
  - intros r rr G. pose proof (IR _ _ G) as R. unfold rok in *. destruct (r_ino rr) as [i|]; [|exact R].
    destruct R as [wr [[D P] R]]. exists wr. split; [|exact R]. split; [|exact P]. cbn. mapN. exact D.
Qed.

Lemma inv_write : forall s s' w n, inv s -> step s (EWrite w n) = Some s' -> inv s'.
Proof.
  intros s s' w n [IW ID IR] H. pose proof H as H0. cbn in H.
  destruct (getN w (s_w s)) as [wr|] eqn:Heqo; [|discriminate].
  destruct (w_pc wr) eqn:Heqw0; try discriminate.
  destruct (getN (w_ino wr) (s_ino s)) as [d|] eqn:Gi; [|discriminate].
  inversion H; subst s'; clear H.
  pose proof (IW _ _ Heqo) as Ww. destruct Ww as [I [J [d0 [G [P [F L]]]]]].
  rewrite J in *. assert (d0 = d) by congruence. subst d0.
  split; cbn.
  - intros w' wr' G'. destruct (N.eq_dec w' w) as [->|Hn].
    + assert (wr' = wr) by congruence. subst wr'.
      split; [exact I|]. split; [exact J|]. exists (d ++ firstn n (skipn (List.length d) (w_content wr))).
      cbn. mapN. split; [reflexivity|]. split; [apply pre_app; exact P|].
      split; [intros Fu; rewrite Heqw0 in Fu; destruct (not_full_open Fu)|exact L].
    + apply (wok_frame s); [exact (IW _ _ G')|cbn; mapN; reflexivity|reflexivity].
  - intros name i Gd. exact (entry_step _ _ _ _ _ H0 (ID _ _ Gd)).
  - intros r rr Gr. exact (rok_step _ _ _ _ H0 (IR _ _ Gr)).
Qed.

Lemma inv_close : forall s s' w, inv s -> step s (EClose w) = Some s' -> inv s'.
Proof.
  intros s s' w [IW ID IR] H. pose proof H as H0. cbn in H.
  destruct (getN w (s_w s)) as [wr|] eqn:Heqo; [|discriminate].
  destruct (w_pc wr) eqn:Heqw0; try discriminate.
  destruct (getN (w_ino wr) (s_ino s)) as [d|] eqn:Gi; [|discriminate].
  destruct (List.length (w_content wr) <=? List.length d) eqn:Heqb; [|discriminate].
  pose proof (IW _ _ Heqo) as Ww. destruct Ww as [I [J [d0 [G [P [F L]]]]]].
  rewrite J in *. assert (d0 = d) by congruence. subst d0. rewrite I in *.
  inversion H; subst s'; clear H.
  apply Nat.leb_le in Heqb.
  split; cbn.
  - intros w' wr' G'. apply (get_put_cases N.eqb Neqb_spec) in G'. destruct G' as [[-> ->]|[Hn G']].
    + split; [exact I|]. split; [exact J|]. exists d. cbn. split; [exact G|]. split; [exact P|].
      split; [intros _; apply pre_full; assumption|].
      intros _. apply L. left. exact Heqw0.
    + apply (wok_frame s); [exact (IW _ _ G')|reflexivity|reflexivity].
  - intros name i Gd. exact (entry_step _ _ _ _ _ H0 (ID _ _ Gd)).
  - intros r rr Gr. exact (rok_step _ _ _ _ H0 (IR _ _ Gr)).
Qed.

Lemma inv_rename : forall s s' w, inv s -> step s (ERename w) = Some s' -> inv s'.
Proof.
  intros s s' w [IW ID IR] H. pose proof H as H0. cbn in H.
  destruct (getN w (s_w s)) as [wr|] eqn:Heqo; [|discriminate].
  destruct (w_pc wr) eqn:Heqw0; try discriminate.
  destruct (w_inplace wr) eqn:Inp; try discriminate.
  destruct (getS (w_tmp wr) (s_dir s)) as [n|] eqn:Gt; [|discriminate].
  inversion H; subst s'; clear H.
  pose proof (IW _ _ Heqo) as Ww. pose proof Ww as Ww0.
  destruct Ww as [I [J [d [G [P [F L]]]]]].
  assert (live (w_pc wr)) as Lv by (right; exact Heqw0).
  destruct (L Lv) as [T GT]. assert (n = w) by congruence. subst n.
  split; cbn.
  - intros w' wr' G'. apply (get_put_cases N.eqb Neqb_spec) in G'. destruct G' as [[-> ->]|[Hn G']].
    + split; [exact I|]. split; [exact J|]. exists d. cbn. split; [exact G|]. split; [exact P|].
      split; [intros _; apply F; left; exact Heqw0|]. intros Lv'. destruct (not_live_done Lv').
    + pose proof (IW _ _ G') as W'. apply (wok_frame s); [exact W'|reflexivity|].
      intros Lv'. cbn.
      assert (w_tmp wr' <> w_tmp wr) as N1 by (apply (live_tmp_neq s w wr w' wr'); auto).
      assert (w_tmp wr' <> key (w_url wr)) as N2.
      { intros E. destruct W' as [_ [_ [d' [_ [_ [_ L']]]]]]. destruct (L' Lv') as [T' _].
        rewrite E, key_not_temp in T'. discriminate. }
      mapS. mapS. reflexivity.
  - intros name i Gd. apply (get_put_cases String.eqb Seqb_spec) in Gd. destruct Gd as [[-> ->]|[Hn Gd]].
    + right. exists (with_pc wr PDone). split; [|reflexivity]. split; [|reflexivity]. cbn. mapN. reflexivity.
    + apply (get_del_some String.eqb Seqb_spec) in Gd. destruct Gd as [_ Gd].
      exact (entry_step _ _ _ _ _ H0 (ID _ _ Gd)).
  - intros r rr Gr. exact (rok_step _ _ _ _ H0 (IR _ _ Gr)).
Qed.

Lemma inv_fail : forall s s' w, inv s -> step s (EFail w) = Some s' -> inv s'.
Proof.
  intros s s' w [IW ID IR] H. pose proof H as H0. cbn in H.
  destruct (getN w (s_w s)) as [wr|] eqn:Heqo; [|discriminate].
  assert (live (w_pc wr) /\ s' = mk_state (delS (w_tmp wr) (s_dir s)) (s_ino s) (putN w (with_pc wr PFailed) (s_w s)) (s_r s)) as [Lv ->].
  { destruct (w_pc wr) eqn:E; try discriminate; destruct (w_inplace wr); try discriminate;
      inversion H; (split; [|reflexivity]); [left|right]; reflexivity. }
  clear H. pose proof (IW _ _ Heqo) as Ww. pose proof Ww as Ww0.
  destruct Ww as [I [J [d [G [P [F L]]]]]].
  split; cbn.
  - intros w' wr' G'. apply (get_put_cases N.eqb Neqb_spec) in G'. destruct G' as [[-> ->]|[Hn G']].
    + split; [exact I|]. split; [exact J|]. exists d. cbn. split; [exact G|]. split; [exact P|].
      split; [intros Fu; destruct (not_full_failed Fu)|intros Lv'; destruct (not_live_failed Lv')].
    + pose proof (IW _ _ G') as W'. apply (wok_frame s); [exact W'|reflexivity|].
      intros Lv'. cbn.
      assert (w_tmp wr' <> w_tmp wr) as N1 by (apply (live_tmp_neq s w wr w' wr'); auto).
      mapS. reflexivity.
  - intros name i Gd. apply (get_del_some String.eqb Seqb_spec) in Gd. destruct Gd as [_ Gd].
    exact (entry_step _ _ _ _ _ H0 (ID _ _ Gd)).
  - intros r rr Gr. exact (rok_step _ _ _ _ H0 (IR _ _ Gr)).
Qed.

Lemma inv_crash : forall s s' w, inv s -> step s (ECrash w) = Some s' -> inv s'.
Proof.
  intros s s' w [IW ID IR] H. pose proof H as H0. cbn in H.
  destruct (getN w (s_w s)) as [wr|] eqn:Heqo; [|discriminate].
  assert (s' = set_w s w (with_pc wr PDead)) as ->.
  { destruct (w_pc wr); try discriminate; inversion H; reflexivity. }
  clear H. pose proof (IW _ _ Heqo) as Ww. destruct Ww as [I [J [d [G [P [F L]]]]]].
  split; cbn.
  - intros w' wr' G'. apply (get_put_cases N.eqb Neqb_spec) in G'. destruct G' as [[-> ->]|[Hn G']].
    + split; [exact I|]. split; [exact J|]. exists d. cbn. split; [exact G|]. split; [exact P|].
      split; [intros Fu; destruct (not_full_dead Fu)|intros Lv'; destruct (not_live_dead Lv')].
    + apply (wok_frame s); [exact (IW _ _ G')|reflexivity|reflexivity].
  - intros name i Gd. exact (entry_step _ _ _ _ _ H0 (ID _ _ Gd)).
  - intros r rr Gr. exact (rok_step _ _ _ _ H0 (IR _ _ Gr)).
Qed.

(* the inode of a finished writer holds exactly its content *)
Lemma done_data : forall s i wr, inv s -> done_at s i wr -> getN i (s_ino s) = Some (w_content wr).
Proof.
  intros s i wr [IW _ _] [G P]. destruct (IW _ _ G) as [_ [_ [d [Gd [_ [F _]]]]]].
  rewrite Gd. f_equal. apply F. right. exact P.
Qed.

Lemma inv_open : forall s s' r u, inv s -> step s (EOpen r u) = Some s' -> inv s'.
Proof.
  intros s s' r u [IW ID IR] H. pose proof H as H0. cbn in H.
  destruct (getN r (s_r s)) eqn:Gr; [discriminate|]. inversion H; subst s'; clear H.
  split; cbn.
  - intros w' wr' G'. apply (wok_frame s); [exact (IW _ _ G')|reflexivity|reflexivity].
  - intros name i Gd. exact (entry_step _ _ _ _ _ H0 (ID _ _ Gd)).
  - intros r' rr' G'. apply (get_put_cases N.eqb Neqb_spec) in G'. destruct G' as [[-> ->]|[Hn G']].
    + destruct (getS (key u) (s_dir s)) as [i|] eqn:Gk; unfold rok; cbn; [|reflexivity].
      destruct (ID _ _ Gk) as [T|[wr [D K]]].
      * rewrite key_not_temp in T. discriminate.
      * exists wr. split; [exact D|]. split; [exact K|apply pre_nil].
    + exact (rok_step _ _ _ _ H0 (IR _ _ G')).
Qed.

Lemma inv_read : forall s s' r n, inv s -> step s (ERead r n) = Some s' -> inv s'.
Proof.
  intros s s' r n I H. pose proof H as H0. pose proof I as [IW ID IR]. cbn in H.
  destruct (getN r (s_r s)) as [[u [i|] [buf|res]]|] eqn:Gr; try discriminate.
  destruct (getN i (s_ino s)) as [d|] eqn:Gi; [|discriminate].
  inversion H; subst s'; clear H.
  split; cbn.
  - intros w' wr' G'. apply (wok_frame s); [exact (IW _ _ G')|reflexivity|reflexivity].
  - intros name i' Gd. exact (entry_step _ _ _ _ _ H0 (ID _ _ Gd)).
  - intros r' rr' G'. apply (get_put_cases N.eqb Neqb_spec) in G'. destruct G' as [[-> ->]|[Hn G']].
    + pose proof (IR _ _ Gr) as R. unfold rok in *. cbn in *. destruct R as [wr [D [K P]]].
      exists wr. split; [exact D|]. split; [exact K|].
      pose proof (done_data _ _ _ I D) as E. assert (d = w_content wr) by congruence. subst d.
      apply pre_app. exact P.
    + exact (rok_step _ _ _ _ H0 (IR _ _ G')).
Qed.

Lemma inv_eof : forall s s' r, inv s -> step s (EEof r) = Some s' -> inv s'.
Proof.
  intros s s' r I H. pose proof H as H0. pose proof I as [IW ID IR]. cbn in H.
  destruct (getN r (s_r s)) as [[u [i|] [buf|res]]|] eqn:Gr; try discriminate.
  destruct (getN i (s_ino s)) as [d|] eqn:Gi; [|discriminate].
  destruct (List.length d <=? List.length buf) eqn:Le; [|discriminate].
  inversion H; subst s'; clear H. apply Nat.leb_le in Le.
  split; cbn.
  - intros w' wr' G'. apply (wok_frame s); [exact (IW _ _ G')|reflexivity|reflexivity].
  - intros name i' Gd. exact (entry_step _ _ _ _ _ H0 (ID _ _ Gd)).
  - intros r' rr' G'. apply (get_put_cases N.eqb Neqb_spec) in G'. destruct G' as [[-> ->]|[Hn G']].
    + pose proof (IR _ _ Gr) as R. unfold rok in *. cbn in *. destruct R as [wr [D [K P]]].
      exists wr. split; [exact D|]. split; [exact K|].
      pose proof (done_data _ _ _ I D) as E. assert (d = w_content wr) by congruence. subst d.
      apply pre_full; assumption.
    + exact (rok_step _ _ _ _ H0 (IR _ _ G')).
Qed.

Lemma step_inv : forall s e s', inv s -> safe e = true -> step s e = Some s' -> inv s'.
Proof.
  intros s e s' I S H. destruct e; try discriminate.
  - exact (inv_create _ _ _ _ _ _ I H).
  - exact (inv_write _ _ _ _ I H).
  - exact (inv_close _ _ _ I H).
  - exact (inv_rename _ _ _ I H).
  - exact (inv_fail _ _ _ I H).
  - exact (inv_crash _ _ _ I H).
  - exact (inv_open _ _ _ _ I H).
  - exact (inv_read _ _ _ _ I H).
  - exact (inv_eof _ _ _ I H).
Qed.

Lemma exec_inv : forall tr s s', inv s -> forallb safe tr = true -> exec s tr = Some s' -> inv s'.
Proof.
  induction tr as [|e tr IH]; intros s s' I S H; cbn in *.
  - inversion H. subst. exact I.
  - apply andb_true_iff in S. destruct S as [Se St].
    destruct (step s e) as [s1|] eqn:E; [|discriminate].
    exact (IH _ _ (step_inv _ _ _ I Se E) St H).
Qed.

Lemma exec_app : forall tr1 tr2 s, exec s (tr1 ++ tr2) =
  match exec s tr1 with Some s1 => exec s1 tr2 | None => None end.
Proof.
  induction tr1 as [|e tr1 IH]; intros tr2 s; cbn; [reflexivity|].
  destruct (step s e); [apply IH|reflexivity].
Qed.

Lemma exec_done : forall tr s s' i wr, exec s tr = Some s' -> done_at s i wr -> done_at s' i wr.
Proof.
  induction tr as [|e tr IH]; intros s s' i wr H D; cbn in H.
  - inversion H. subst. exact D.
  - destruct (step s e) as [s1|] eqn:E; [|discriminate].
    exact (IH _ _ _ _ H (step_done _ _ _ _ _ E D)).
Qed.

(* ---------- records are stable; where they come from ---------- *)
Definition same_w (a b : wrec) : Prop :=
  w_url a = w_url b /\ w_content a = w_content b /\ w_tmp a = w_tmp b /\ w_ino a = w_ino b /\ w_inplace a = w_inplace b.

Lemma same_w_refl : forall a, same_w a a.
Proof. intros a. repeat split. Qed.

Lemma step_w_stable : forall s e s' w wr, step s e = Some s' -> getN w (s_w s) = Some wr ->
  exists wr', getN w (s_w s') = Some wr' /\ same_w wr wr'.
Proof.
  intros s e s' w wr H G.
  destruct e; cbn in H; repeat dmatch H; inversion H; subst; clear H; cbn;
    try (exists wr; split; [exact G|apply same_w_refl]);
    match goal with |- context [putN ?w0 _ (s_w s)] =>
      destruct (N.eq_dec w w0) as [->|Hn];
         [ first [ congruence
                 | match goal with Hw : getN w0 (s_w s) = Some ?x |- _ =>
                     assert (x = wr) by congruence; subst x end;
                   eexists; split; [mapN; reflexivity|repeat split] ]
         | exists wr; split; [mapN; exact G|apply same_w_refl] ]
    end.
Qed.

Lemma exec_w_stable : forall tr s s' w wr, exec s tr = Some s' -> getN w (s_w s) = Some wr ->
  exists wr', getN w (s_w s') = Some wr' /\ same_w wr wr'.
Proof.
  induction tr as [|e tr IH]; intros s s' w wr H G; cbn in H.
  - inversion H. subst. exists wr. split; [exact G|apply same_w_refl].
  - destruct (step s e) as [s1|] eqn:E; [|discriminate].
    destruct (step_w_stable _ _ _ _ _ E G) as [wr1 [G1 S1]].
    destruct (IH _ _ _ _ H G1) as [wr2 [G2 S2]].
    exists wr2. split; [exact G2|]. unfold same_w in *. intuition congruence.
Qed.

Lemma step_r_stable : forall s e s' r rr, step s e = Some s' -> getN r (s_r s) = Some rr ->
  exists rr', getN r (s_r s') = Some rr' /\ r_url rr' = r_url rr /\ r_ino rr' = r_ino rr.
Proof.
  intros s e s' r rr H G.
  destruct e; cbn in H; repeat dmatch H; inversion H; subst; clear H; cbn;
    try (exists rr; split; [exact G|split; reflexivity]);
    match goal with |- context [putN ?r0 _ (s_r s)] =>
      destruct (N.eq_dec r r0) as [->|Hn];
         [ first [ congruence
                 | match goal with Hr : getN r0 (s_r s) = Some ?x |- _ =>
                     assert (x = rr) by congruence; subst rr end;
                   eexists; split; [mapN; reflexivity|split; reflexivity] ]
         | exists rr; split; [mapN; exact G|split; reflexivity] ]
    end.
Qed.

Lemma exec_r_stable : forall tr s s' r rr, exec s tr = Some s' -> getN r (s_r s) = Some rr ->
  exists rr', getN r (s_r s') = Some rr' /\ r_url rr' = r_url rr /\ r_ino rr' = r_ino rr.
Proof.
  induction tr as [|e tr IH]; intros s s' r rr H G; cbn in H.
  - inversion H. subst. exists rr. split; [exact G|split; reflexivity].
  - destruct (step s e) as [s1|] eqn:E; [|discriminate].
    destruct (step_r_stable _ _ _ _ _ E G) as [rr1 [G1 [U1 I1]]].
    destruct (IH _ _ _ _ H G1) as [rr2 [G2 [U2 I2]]].
    exists rr2. split; [exact G2|]. split; congruence.
Qed.

Lemma step_w_origin : forall s e s' w wr, step s e = Some s' -> safe e = true ->
  getN w (s_w s') = Some wr ->
  (exists wr0, getN w (s_w s) = Some wr0) \/ exists t, e = ECreate w (w_url wr) (w_content wr) t.
Proof.
  intros s e s' w wr H S G.
  destruct e; try discriminate; cbn in H; repeat dmatch H; inversion H; subst; clear H; cbn in G;
    try (left; exists wr; exact G);
    match type of G with context [putN ?w0 _ (s_w s)] =>
      destruct (N.eq_dec w w0) as [->|Hn];
        [ rewrite (get_put_eq N.eqb Neqb_spec) in G; inversion G; subst; clear G; cbn;
          first [ right; eexists; reflexivity | left; eexists; eassumption ]
        | rewrite (get_put_neq N.eqb Neqb_spec) in G by exact Hn; left; exists wr; exact G ]
    end.
Qed.

Lemma exec_w_origin : forall tr s s' w wr, exec s tr = Some s' -> forallb safe tr = true ->
  getN w (s_w s') = Some wr ->
  (exists wr0, getN w (s_w s) = Some wr0) \/ exists t, In (ECreate w (w_url wr) (w_content wr) t) tr.
Proof.
  induction tr as [|e tr IH]; intros s s' w wr H S G; cbn in H.
  - inversion H. subst. left. exists wr. exact G.
  - cbn in S. apply andb_true_iff in S. destruct S as [Se St].
    destruct (step s e) as [s1|] eqn:E; [|discriminate].
    destruct (IH _ _ _ _ H St G) as [[wr1 G1]|[t I]].
    + destruct (step_w_origin _ _ _ _ _ E Se G1) as [L|[t Ee]]; [left; exact L|].
      right. exists t. left.
      destruct (exec_w_stable _ _ _ _ _ H G1) as [wr2 [G2 [U [C _]]]].
      assert (wr2 = wr) by congruence. subst wr2. rewrite <- U, <- C. exact Ee.
    + right. exists t. right. exact I.
Qed.

Lemma step_done_origin : forall s e s' w wr, step s e = Some s' -> inv s -> safe e = true ->
  done_at s' w wr -> done_at s w wr \/ e = ERename w.
Proof.
  intros s e s' w wr H [IW _ _] S [G P].
  destruct e; try discriminate; cbn in H; repeat dmatch H; inversion H; subst; clear H; cbn in G;
    try (left; split; [exact G|exact P]);
    match type of G with context [putN ?w0 _ (s_w s)] =>
      destruct (N.eq_dec w w0) as [->|Hn];
        [ rewrite (get_put_eq N.eqb Neqb_spec) in G; inversion G; subst; clear G; cbn in P;
          first [ discriminate | right; reflexivity
                | match goal with Hw : getN w0 (s_w s) = Some ?x |- _ =>
                    destruct (IW _ _ Hw) as [Inp _]; first [rewrite Inp in P; discriminate | congruence] end ]
        | rewrite (get_put_neq N.eqb Neqb_spec) in G by exact Hn; left; split; [exact G|exact P] ]
    end.
Qed.

Lemma exec_done_origin : forall tr s s' w wr, exec s tr = Some s' -> inv s -> forallb safe tr = true ->
  done_at s' w wr -> done_at s w wr \/ In (ERename w) tr.
Proof.
  induction tr as [|e tr IH]; intros s s' w wr H I S D; cbn in H.
  - inversion H. subst. left. exact D.
  - cbn in S. apply andb_true_iff in S. destruct S as [Se St].
    destruct (step s e) as [s1|] eqn:E; [|discriminate].
    destruct (IH _ _ _ _ H (step_inv _ _ _ I Se E) St D) as [D1|In1].
    + destruct (step_done_origin _ _ _ _ _ E I Se D1) as [D0 | ->]; [left; exact D0|right; left; reflexivity].
    + right. right. exact In1.
Qed.

Lemma step_r_origin : forall s e s' r rr, step s e = Some s' ->
  getN r (s_r s') = Some rr ->
  (exists rr0, getN r (s_r s) = Some rr0) \/ e = EOpen r (r_url rr).
Proof.
  intros s e s' r rr H G.
  destruct e; cbn in H; repeat dmatch H; inversion H; subst; clear H; cbn in G;
    try (left; exists rr; exact G);
    match type of G with context [putN ?r0 _ (s_r s)] =>
      destruct (N.eq_dec r r0) as [->|Hn];
        [ rewrite (get_put_eq N.eqb Neqb_spec) in G; inversion G; subst; clear G; cbn;
          first [ left; eexists; eassumption | right; reflexivity ]
        | rewrite (get_put_neq N.eqb Neqb_spec) in G by exact Hn; left; exists rr; exact G ]
    end.
Qed.

Lemma exec_r_origin : forall tr s s' r rr, exec s tr = Some s' ->
  getN r (s_r s') = Some rr ->
  (exists rr0, getN r (s_r s) = Some rr0) \/ In (EOpen r (r_url rr)) tr.
Proof.
  induction tr as [|e tr IH]; intros s s' r rr H G; cbn in H.
  - inversion H. subst. left. exists rr. exact G.
  - destruct (step s e) as [s1|] eqn:E; [|discriminate].
    destruct (IH _ _ _ _ H G) as [[rr1 G1]|I].
    + destruct (step_r_origin _ _ _ _ _ E G1) as [L|Ee]; [left; exact L|].
      right. left.
      destruct (exec_r_stable _ _ _ _ _ H G1) as [rr2 [G2 [U _]]].
      assert (rr2 = rr) by congruence. subst rr2. rewrite U. exact Ee.
    + right. right. exact I.
Qed.

(* ---------- the theorems ---------- *)

(* C14_inv *)
Theorem inv_thm : forall tr s, forallb safe tr = true -> exec init tr = Some s ->
  forall name i, getS name (s_dir s) = Some i ->
    is_temp name = true \/
    exists wr t, getN i (s_w s) = Some wr /\ key (w_url wr) = name /\
      getN i (s_ino s) = Some (w_content wr) /\
      In (ECreate i (w_url wr) (w_content wr) t) tr /\ In (ERename i) tr /\
      (forall tr' s', forallb safe tr' = true -> exec s tr' = Some s' ->
         getN i (s_ino s') = Some (w_content wr)).
Proof.
  intros tr s S H name i G.
  pose proof (exec_inv _ _ _ inv_init S H) as I.
  destruct (inv_d _ I _ _ G) as [T|[wr [D K]]]; [left; exact T|right].
  destruct (exec_w_origin _ _ _ _ _ H S (proj1 D)) as [[wr0 G0]|[t Hin]]; [discriminate G0|].
  destruct (exec_done_origin _ _ _ _ _ H inv_init S D) as [[G0 _]|Hr]; [discriminate G0|].
  exists wr, t. split; [exact (proj1 D)|]. split; [exact K|]. split; [exact (done_data _ _ _ I D)|].
  split; [exact Hin|]. split; [exact Hr|].
  intros tr' s' S' H'. apply done_data; [exact (exec_inv _ _ _ I S' H')|exact (exec_done _ _ _ _ _ H' D)].
Qed.

(* C14_read *)
Theorem read_thm : forall tr s, forallb safe tr = true -> exec init tr = Some s ->
  forall r rr res, getN r (s_r s) = Some rr -> r_st rr = RDone res ->
    In (EOpen r (r_url rr)) tr /\
    (res = Miss \/
     exists w wr t, getN w (s_w s) = Some wr /\ res = Hit (w_content wr) /\
       key (w_url wr) = key (r_url rr) /\
       In (ECreate w (w_url wr) (w_content wr) t) tr /\ In (ERename w) tr).
Proof.
  intros tr s S H r rr res G R.
  pose proof (exec_inv _ _ _ inv_init S H) as I.
  split.
  { destruct (exec_r_origin _ _ _ _ _ H G) as [[rr0 G0]|Hin]; [discriminate G0|exact Hin]. }
  pose proof (inv_r _ I _ _ G) as Rk. unfold rok in Rk. rewrite R in Rk.
  destruct (r_ino rr) as [i|].
  - destruct Rk as [wr [D [K C]]]. destruct res as [|c]; [destruct C|]. right.
    destruct (exec_w_origin _ _ _ _ _ H S (proj1 D)) as [[wr0 G0]|[t Hin]]; [discriminate G0|].
    destruct (exec_done_origin _ _ _ _ _ H inv_init S D) as [[G0 _]|Hr]; [discriminate G0|].
    exists i, wr, t. subst c. repeat split; try assumption. exact (proj1 D).
  - left. congruence.
Qed.

(* the holder of a key only changes by a rename *)
Lemma step_key_holder : forall s e s' k i, inv s -> safe e = true -> step s e = Some s' ->
  getS k (s_dir s) = Some i -> is_temp k = false ->
  exists i', getS k (s_dir s') = Some i' /\ (i' = i \/ e = ERename i').
Proof.
  intros s e s' k i [IW _ _] S H G T.
  destruct e; try discriminate; cbn in H.
  - (* create *) repeat dmatch H. inversion H; subst; clear H. cbn. exists i. split; [|left; reflexivity].
    assert (k <> t) by (intros ->; congruence). mapS. exact G.
  - repeat dmatch H. inversion H; subst; clear H. cbn. exists i. auto.
  - repeat dmatch H; inversion H; subst; clear H; cbn; exists i; auto.
  - (* rename *)
    destruct (getN w (s_w s)) as [wr|] eqn:Gw; [|discriminate].
    destruct (w_pc wr) eqn:Pc; try discriminate.
    destruct (w_inplace wr) eqn:Inp; try discriminate.
    destruct (getS (w_tmp wr) (s_dir s)) as [n|] eqn:Gt; [|discriminate].
    inversion H; subst s'; clear H. cbn.
    destruct (IW _ _ Gw) as [_ [_ [d [_ [_ [_ L]]]]]].
    destruct (L (or_intror Pc)) as [Tt Gt']. assert (n = w) by congruence. subst n.
    destruct (String.eqb k (key (w_url wr))) eqn:E.
    + apply String.eqb_eq in E. subst k. exists w. split; [mapS; reflexivity|right; reflexivity].
    + apply String.eqb_neq in E. exists i. split; [|left; reflexivity].
      assert (k <> w_tmp wr) by (intros ->; congruence). mapS. mapS. exact G.
  - (* fail *)
    destruct (getN w (s_w s)) as [wr|] eqn:Gw; [|discriminate].
    destruct (IW _ _ Gw) as [_ [_ [d [_ [_ [_ L]]]]]].
    assert (live (w_pc wr) /\ s_dir s' = delS (w_tmp wr) (s_dir s)) as [Lv ->].
    { destruct (w_pc wr) eqn:Pc; try discriminate; destruct (w_inplace wr); try discriminate;
        inversion H; (split; [|reflexivity]); [left|right]; reflexivity. }
    destruct (L Lv) as [Tt _]. exists i. split; [|left; reflexivity].
    assert (k <> w_tmp wr) by (intros ->; congruence). mapS. exact G.
  - repeat dmatch H; inversion H; subst; clear H; cbn; exists i; auto.
  - repeat dmatch H; inversion H; subst; clear H; cbn; exists i; auto.
  - repeat dmatch H; inversion H; subst; clear H; cbn; exists i; auto.
  - repeat dmatch H; inversion H; subst; clear H; cbn; exists i; auto.
Qed.

Lemma exec_key_holder : forall tr s s' k i, inv s -> forallb safe tr = true -> exec s tr = Some s' ->
  getS k (s_dir s) = Some i -> is_temp k = false ->
  exists i', getS k (s_dir s') = Some i' /\ (i' = i \/ In (ERename i') tr).
Proof.
  induction tr as [|e tr IH]; intros s s' k i I S H G T; cbn in H.
  - inversion H. subst. exists i. auto.
  - cbn in S. apply andb_true_iff in S. destruct S as [Se St].
    destruct (step s e) as [s1|] eqn:E; [|discriminate].
    destruct (step_key_holder _ _ _ _ _ I Se E G T) as [i1 [G1 C1]].
    destruct (IH _ _ _ _ (step_inv _ _ _ I Se E) St H G1 T) as [i2 [G2 C2]].
    exists i2. split; [exact G2|].
    destruct C2 as [-> | In2]; [|right; right; exact In2].
    destruct C1 as [-> | ->]; [left; reflexivity|right; left; reflexivity].
Qed.

(* C14_fresh *)
Theorem fresh_thm : forall tr1 tr2 tr3 w r u s,
  forallb safe (tr1 ++ ERename w :: tr2 ++ EOpen r u :: tr3) = true ->
  exec init (tr1 ++ ERename w :: tr2 ++ EOpen r u :: tr3) = Some s ->
  forall wr, getN w (s_w s) = Some wr -> key (w_url wr) = key u ->
  forall rr res, getN r (s_r s) = Some rr -> r_st rr = RDone res ->
  exists w' wr', getN w' (s_w s) = Some wr' /\ w_pc wr' = PDone /\ res = Hit (w_content wr') /\
                 key (w_url wr') = key u /\ (w' = w \/ In (ERename w') tr2).
Proof.
  intros tr1 tr2 tr3 w r u s S H wr Gw K rr res Gr R.
  rewrite forallb_app in S. apply andb_true_iff in S. destruct S as [S1 S]. cbn in S.
  rewrite forallb_app in S. apply andb_true_iff in S. destruct S as [S2 S3]. cbn in S3.
  rewrite exec_app in H. destruct (exec init tr1) as [s1|] eqn:E1; [|discriminate].
  cbn [C14_Model.exec] in H. destruct (step s1 (ERename w)) as [s2|] eqn:E2; [|discriminate].
  rewrite exec_app in H. destruct (exec s2 tr2) as [s3|] eqn:E3; [|discriminate].
  cbn [C14_Model.exec] in H. destruct (step s3 (EOpen r u)) as [s4|] eqn:E4; [|discriminate].
  pose proof (exec_inv _ _ _ inv_init S1 E1) as I1.
  pose proof (step_inv _ (ERename w) _ I1 eq_refl E2) as I2.
  pose proof (exec_inv _ _ _ I2 S2 E3) as I3.
  pose proof (step_inv _ (EOpen r u) _ I3 eq_refl E4) as I4.
  pose proof (exec_inv _ _ _ I4 S3 H) as I5.
  (* after the rename the key denotes inode w *)
  assert (exists wr2, getN w (s_w s2) = Some wr2 /\ getS (key (w_url wr2)) (s_dir s2) = Some w) as [wr2 [Gw2 Gk2]].
  { pose proof E2 as E2'. cbn in E2'.
    destruct (getN w (s_w s1)) as [wr1|] eqn:Gw1; [|discriminate].
    destruct (w_pc wr1) eqn:Pc; try discriminate.
    destruct (w_inplace wr1); try discriminate.
    destruct (getS (w_tmp wr1) (s_dir s1)) as [n|] eqn:Gt; [|discriminate].
    inversion E2'; subst s2; clear E2'. cbn.
    destruct (inv_w _ I1 _ _ Gw1) as [_ [_ [d [_ [_ [_ L]]]]]].
    destruct (L (or_intror Pc)) as [_ Gt']. assert (n = w) by congruence. subst n.
    exists (with_pc wr1 PDone). split; [mapN; reflexivity|]. cbn. mapS. reflexivity. }
  (* its url is the one seen at the end *)
  assert (w_url wr2 = w_url wr) as U2.
  { destruct (exec_w_stable _ _ _ _ _ E3 Gw2) as [wr3 [G3 [U3 _]]].
    destruct (step_w_stable _ _ _ _ _ E4 G3) as [wr4 [G4 [U4 _]]].
    destruct (exec_w_stable _ _ _ _ _ H G4) as [wr5 [G5 [U5 _]]].
    assert (wr5 = wr) by congruence. subst wr5. congruence. }
  rewrite U2, K in Gk2.
  destruct (exec_key_holder _ _ _ _ _ I2 S2 E3 Gk2 (key_not_temp sha u)) as [i3 [Gk3 C3]].
  (* the reader opens that inode *)
  assert (exists rr4, getN r (s_r s4) = Some rr4 /\ r_ino rr4 = Some i3 /\ r_url rr4 = u) as [rr4 [Gr4 [Ri4 Ru4]]].
  { pose proof E4 as E4'. cbn in E4'. destruct (getN r (s_r s3)); [discriminate|].
    inversion E4'; subst s4; clear E4'. cbn. rewrite Gk3.
    eexists. split; [mapN; reflexivity|]. split; reflexivity. }
  destruct (exec_r_stable _ _ _ _ _ H Gr4) as [rr5 [Gr5 [Ru5 Ri5]]].
  assert (rr5 = rr) by congruence. subst rr5.
  pose proof (inv_r _ I5 _ _ Gr) as Rk. unfold rok in Rk. rewrite Ri5, Ri4, R in Rk.
  destruct Rk as [wr' [[Gw' P'] [K' C']]]. destruct res as [|c]; [destruct C'|].
  exists i3, wr'. split; [exact Gw'|]. split; [exact P'|]. split; [congruence|].
  split; [congruence|exact C3].
Qed.

(* C14_temp *)
Theorem temp_thm : forall t u, is_temp t = true -> t <> key u /\ keyshape t = false.
Proof.
  intros t u T. split; [|exact (temp_not_keyshape t T)].
  intros ->. rewrite key_not_temp in T. discriminate.
Qed.

(* a reader only ever holds the inode of a finished (renamed) writer: a temporary
   file, left over or in progress, is never what a Get reads *)
Theorem reader_inode_thm : forall tr s, forallb safe tr = true -> exec init tr = Some s ->
  forall r rr i, getN r (s_r s) = Some rr -> r_ino rr = Some i ->
  exists wr, getN i (s_w s) = Some wr /\ w_pc wr = PDone /\ In (ERename i) tr /\
             getN i (s_ino s) = Some (w_content wr).
Proof.
  intros tr s S H r rr i G Ri.
  pose proof (exec_inv _ _ _ inv_init S H) as I.
  pose proof (inv_r _ I _ _ G) as Rk. unfold rok in Rk. rewrite Ri in Rk.
  destruct Rk as [wr [D _]].
  destruct (exec_done_origin _ _ _ _ _ H inv_init S D) as [[G0 _]|Hr]; [discriminate G0|].
  exists wr. split; [exact (proj1 D)|]. split; [exact (proj2 D)|]. split; [exact Hr|].
  exact (done_data _ _ _ I D).
Qed.

End Inv.

(* ---------- decoding ---------- *)
Section Decode.
Variable sha : string -> list N.
Variable bundle : Type.
Variable encode : bundle -> data.
Variable decode : data -> option bundle.
Hypothesis decode_encode : forall b, decode (encode b) = Some b.

(* every writer stores the encoding of a bundle *)
Definition encoded_trace (tr : list event) : Prop :=
  forall w u c t, In (ECreate w u c t) tr -> exists b, c = encode b.

Theorem read_decodes : forall tr s, forallb safe tr = true -> exec sha init tr = Some s ->
  encoded_trace tr ->
  forall r rr c, getN r (s_r s) = Some rr -> r_st rr = RDone (Hit c) ->
  exists b w u t, decode c = Some b /\ In (ECreate w u (encode b) t) tr /\ In (ERename w) tr /\
                  key sha u = key sha (r_url rr).
Proof.
  intros tr s S H En r rr c G R.
  destruct (read_thm sha _ _ S H _ _ _ G R) as [_ [Hm|[w [wr [t [Gw [E [K [Ic Ir]]]]]]]]]; [discriminate|].
  inversion E; subst c. destruct (En _ _ _ _ Ic) as [b Eb].
  exists b, w, (w_url wr), t. rewrite Eb at 1. split; [apply decode_encode|].
  rewrite <- Eb. auto.
Qed.
End Decode.

(* ---------- the variant "truncate the key and write in place" breaks all of it ---------- *)
Definition sha0 : string -> list N := fun _ => [171%N].
Definition cA : data := dat_of "AAAA".
Definition cB : data := dat_of "BBBBBB".
Definition tmp1 : string := tmp_prefix ++ "1" ++ tmp_suffix.

(* a reader that opened the complete entry of writer 0 reads two bytes, writer 1
   truncates the key in place and writes, the reader reads on: a mixed entry *)
Definition tr_inplace_mixed : list event :=
  [ECreate 0 "u" cA tmp1; EWrite 0 4; EClose 0; ERename 0;
   EOpen 0 "u"; ERead 0 2; EInplace 1 "u" cB; EWrite 1 6; ERead 0 10; EEof 0].

(* a reader arriving while the in-place writer has written two bytes: a truncated entry;
   the writer is then killed: the truncated entry stays under the key *)
Definition tr_inplace_trunc : list event :=
  [ECreate 0 "u" cA tmp1; EWrite 0 4; EClose 0; ERename 0;
   EInplace 1 "u" cB; EWrite 1 2; ECrash 1; EOpen 0 "u"; ERead 0 10; EEof 0].

Definition bad_read (tr : list event) : Prop :=
  exists s rr c, exec sha0 init tr = Some s /\ getN 0%N (s_r s) = Some rr /\ r_st rr = RDone (Hit c) /\
    forall w wr, getN w (s_w s) = Some wr -> c <> w_content wr.

Lemma inplace_mixed : bad_read tr_inplace_mixed.
Proof.
  eexists. eexists. eexists. split; [vm_compute; reflexivity|]. split; [vm_compute; reflexivity|].
  split; [reflexivity|]. intros w wr G. vm_compute in G.
  destruct w as [|[p|p|]]; try discriminate; inversion G; subst; vm_compute; discriminate.
Qed.

Lemma inplace_trunc : bad_read tr_inplace_trunc.
Proof.
  eexists. eexists. eexists. split; [vm_compute; reflexivity|]. split; [vm_compute; reflexivity|].
  split; [reflexivity|]. intros w wr G. vm_compute in G.
  destruct w as [|[p|p|]]; try discriminate; inversion G; subst; vm_compute; discriminate.
Qed.

(* after the kill the key denotes an incomplete entry: the invariant is false *)
Lemma inplace_key_incomplete :
  exists s i d, exec sha0 init tr_inplace_trunc = Some s /\ getS (key sha0 "u") (s_dir s) = Some i /\
    getN i (s_ino s) = Some d /\ forall w wr, getN w (s_w s) = Some wr -> d <> w_content wr.
Proof.
  eexists. eexists. eexists. split; [vm_compute; reflexivity|]. split; [vm_compute; reflexivity|].
  split; [vm_compute; reflexivity|]. intros w wr G. vm_compute in G.
  destruct w as [|[p|p|]]; try discriminate; inversion G; subst; vm_compute; discriminate.
Qed.


(* ---------- the variant reader "length from an earlier look-up, then open and read
   exactly that much" returns a truncated entry although every writer renames ---------- *)
Definition tmp2 : string := tmp_prefix ++ "2" ++ tmp_suffix.
Definition tr_stat_then_read : list vevent :=
  [VE (ECreate 0 "u" cA tmp1); VE (EWrite 0 4); VE (EClose 0); VE (ERename 0);
   VStat 0 "u";
   VE (ECreate 1 "u" cB tmp2); VE (EWrite 1 6); VE (EClose 1); VE (ERename 1);
   VSizedGet 0 "u"].

Lemma stat_then_read_truncated :
  forallb (fun ve => match ve with VE e => safe e | _ => true end) tr_stat_then_read = true /\
  exists vs rr c, vexec sha0 (init, []) tr_stat_then_read = Some vs /\
    getN 0%N (s_r (fst vs)) = Some rr /\ r_st rr = RDone (Hit c) /\
    forall w wr, getN w (s_w (fst vs)) = Some wr -> c <> w_content wr.
Proof.
  split; [reflexivity|].
  eexists. eexists. eexists. split; [vm_compute; reflexivity|]. split; [vm_compute; reflexivity|].
  split; [reflexivity|]. intros w wr G. vm_compute in G.
  destruct w as [|[p|p|]]; try discriminate; inversion G; subst; vm_compute; discriminate.
Qed.

(* ====================================================================== *)
(* the case model meets the oracle                                         *)
(* ====================================================================== *)

(* every listed pair of a map is what a look-up finds (no shadowed entries) *)
Definition wfmap {K V} (eqb : K -> K -> bool) (m : list (K * V)) : Prop :=
  forall k v, In (k, v) m -> get eqb k m = Some v.

Section WfMap.
  Context {K V : Type} (eqb : K -> K -> bool).
  Hypothesis eqb_spec : forall a b, eqb a b = true <-> a = b.

  Lemma wfmap_del : forall k (m : list (K * V)), wfmap eqb m -> wfmap eqb (del eqb k m).
  Proof.
    intros k m W a b I. destruct (in_del eqb eqb_spec _ _ _ _ I) as [N I'].
    rewrite (get_del_neq eqb eqb_spec) by exact N. exact (W _ _ I').
  Qed.

  Lemma wfmap_put : forall k v (m : list (K * V)), wfmap eqb m -> wfmap eqb (put eqb k v m).
  Proof.
    intros k v m W a b I. unfold put in I. destruct I as [I|I].
    - inversion I. subst. apply (get_put_eq eqb eqb_spec).
    - destruct (in_del eqb eqb_spec _ _ _ _ I) as [N I'].
      rewrite (get_put_neq eqb eqb_spec) by exact N. exact (W _ _ I').
  Qed.
End WfMap.

Lemma step_wfdir : forall sha s e s', step sha s e = Some s' ->
  wfmap String.eqb (s_dir s) -> wfmap String.eqb (s_dir s').
Proof.
  intros sha s e s' H W.
  destruct e; cbn in H; repeat dmatch H; inversion H; subst; clear H; cbn; try exact W;
    repeat first [ apply (wfmap_put String.eqb Seqb_spec) | apply (wfmap_del String.eqb Seqb_spec) ]; exact W.
Qed.

Lemma str_dat : forall b, str_of (dat_of b) = b.
Proof. intros b. apply string_of_list_ascii_of_string. Qed.

Section Oracle.
Variable i : input.
Notation sha := (sha_of (i_sha i)).

(* every writer of the state is the one the case declares *)
Definition decl (s : state) : Prop :=
  forall w wr, getN w (s_w s) = Some wr ->
    exists b, getN w (i_writers i) = Some (w_url wr, b) /\ w_content wr = dat_of b.

Record good (s : state) : Prop := mk_good {
  g_inv : inv sha s; g_wf : wfmap String.eqb (s_dir s); g_decl : decl s }.

Lemma good_init : good init.
Proof. split; [apply inv_init| intros k v []| intros w wr H; discriminate H]. Qed.

Definition declared (e : event) : Prop :=
  match e with
  | ECreate w u c t => exists b, getN w (i_writers i) = Some (u, b) /\ c = dat_of b
  | _ => True
  end.

Lemma step_good : forall s e s', good s -> safe e = true -> declared e -> step sha s e = Some s' -> good s'.
Proof.
  intros s e s' [I W D] S Dc H. split.
  - exact (step_inv sha _ _ _ I S H).
  - exact (step_wfdir _ _ _ _ H W).
  - intros w wr G. destruct (step_w_origin sha _ _ _ _ _ H S G) as [[wr0 G0]|[t Ee]].
    + destruct (step_w_stable sha _ _ _ _ _ H G0) as [wr1 [G1 [U [C _]]]].
      assert (wr1 = wr) by congruence. subst wr1. rewrite <- U, <- C. exact (D _ _ G0).
    + subst e. exact Dc.
Qed.

Lemma exec_good : forall tr s s', good s -> forallb safe tr = true -> Forall declared tr ->
  exec sha s tr = Some s' -> good s'.
Proof.
  induction tr as [|e tr IH]; intros s s' G S F H; cbn in H.
  - inversion H. subst. exact G.
  - cbn in S. apply andb_true_iff in S. destruct S as [Se St]. inversion F; subst.
    destruct (step sha s e) as [s1|] eqn:E; [|discriminate].
    exact (IH _ _ (step_good _ _ _ G Se H2 E) St H3 H).
Qed.

Lemma macro_ok : forall s w, forallb safe (fst (macro i s w)) = true /\ Forall declared (fst (macro i s w)).
Proof.
  intros s w. unfold macro.
  destruct (getN w (s_w s)) as [wr|].
  - destruct (w_pc wr); cbn; try (split; [reflexivity|repeat constructor]).
    destruct (getN (w_ino wr) (s_ino s)); cbn; [|split; [reflexivity|constructor]].
    destruct (List.length (w_content wr) <=? List.length d); cbn; split; try reflexivity; repeat constructor.
  - destruct (getN w (i_writers i)) as [[u b]|] eqn:Gw; cbn; [|split; [reflexivity|constructor]].
    destruct (getN w (i_tmps i)) as [t|]; cbn; [|split; [reflexivity|constructor]].
    split; [reflexivity|]. constructor; [|constructor]. cbn. exists b. split; [exact Gw|reflexivity].
Qed.

Lemma macro_fault_ok : forall s w,
  forallb safe (fst (macro_fault s w)) = true /\ Forall declared (fst (macro_fault s w)).
Proof.
  intros s w. unfold macro_fault.
  destruct (getN w (s_w s)) as [wr|]; [|split; [reflexivity|constructor]].
  destruct (w_pc wr); cbn; split; try reflexivity; repeat constructor.
Qed.

Lemma read_events_ok : forall r u s,
  forallb safe (read_events sha r u s) = true /\ Forall declared (read_events sha r u s).
Proof.
  intros r u s. unfold read_events. destruct (getS (key sha u) (s_dir s)); cbn;
    (split; [reflexivity|repeat constructor]).
Qed.

(* what the key of a declared writer is, in the oracle's terms *)
Lemma decl_wkey : forall w (wr : wrec) b, getN w (i_writers i) = Some (w_url wr, b) ->
  wkey i w = key sha (w_url wr) /\ wbundle i w = b.
Proof. intros w wr b G. unfold wkey, wbundle, ukey. rewrite G. split; reflexivity. Qed.

(* ---------- the listing ---------- *)
Lemma listing_model_ok : forall s, good s ->
  forallb (fun nt : string * string =>
    if keyshape (fst nt)
    then existsb (fun w => String.eqb (wkey i (fst w)) (fst nt) && String.eqb (wbundle i (fst w)) (snd nt)) (i_writers i)
    else true) (listing s) = true.
Proof.
  intros s [I W D]. apply forallb_forall. intros [name tag] Hin.
  unfold listing in Hin. apply in_map_iff in Hin. destruct Hin as [[n ino] [E Hin]].
  cbn in E. inversion E; subst; clear E. cbn [fst snd].
  destruct (keyshape name) eqn:Ks; [|reflexivity].
  pose proof (W _ _ Hin) as G.
  destruct (inv_d _ _ I _ _ G) as [T|[wr [Dn K]]].
  { rewrite (temp_not_keyshape _ T) in Ks. discriminate. }
  rewrite (done_data _ _ _ _ I Dn).
  destruct (D _ _ (proj1 Dn)) as [b [Gw C]].
  apply existsb_exists. exists (ino, (w_url wr, b)). split.
  - exact (get_in N.eqb Neqb_spec _ _ _ Gw).
  - cbn [fst]. destruct (decl_wkey _ _ _ Gw) as [Wk Wb]. rewrite Wk, Wb, K, C, str_dat.
    rewrite !String.eqb_refl. reflexivity.
Qed.

(* ---------- a whole read in a good state ---------- *)
Lemma read_result : forall s r u s', good s ->
  exec sha s (read_events sha r u s) = Some s' ->
  getN r (s_r s) = None /\ getN r (s_r s') <> None /\
  ((getS (key sha u) (s_dir s) = None /\ oread_of s' r = OMiss) \/
   (exists L wr b, getS (key sha u) (s_dir s) = Some L /\ done_at s L wr /\
      getN L (i_writers i) = Some (w_url wr, b) /\ key sha (w_url wr) = key sha u /\
      oread_of s' r = OHit b)).
Proof.
  intros s r u s' [I W D] H. unfold read_events in H.
  destruct (getS (key sha u) (s_dir s)) as [L|] eqn:Gk.
  - destruct (inv_d _ _ I _ _ Gk) as [T|[wr [Dn K]]].
    { rewrite key_not_temp in T. discriminate. }
    pose proof (done_data _ _ _ _ I Dn) as Gd. rewrite Gd in H.
    destruct (D _ _ (proj1 Dn)) as [b [Gw C]].
    cbn in H. destruct (getN r (s_r s)) eqn:Gr; [discriminate|]. split; [reflexivity|].
    rewrite Gk in H. cbn in H.
    rewrite (get_put_eq N.eqb Neqb_spec) in H. cbn in H. rewrite Gd in H. cbn in H.
    rewrite (get_put_eq N.eqb Neqb_spec) in H. cbn in H. rewrite Gd in H.
    rewrite firstn_all in H. rewrite Nat.leb_refl in H. inversion H; subst s'; clear H.
    split; [cbn; rewrite (get_put_eq N.eqb Neqb_spec); discriminate|].
    right. exists L, wr, b. split; [reflexivity|]. split; [exact Dn|]. split; [exact Gw|]. split; [exact K|].
    unfold oread_of. cbn. rewrite (get_put_eq N.eqb Neqb_spec). cbn. rewrite C, str_dat. reflexivity.
  - cbn in H. destruct (getN r (s_r s)) eqn:Gr; [discriminate|]. split; [reflexivity|].
    rewrite Gk in H. inversion H; subst s'; clear H.
    split; [cbn; rewrite (get_put_eq N.eqb Neqb_spec); discriminate|].
    left. split; [reflexivity|].
    unfold oread_of. cbn. rewrite (get_put_eq N.eqb Neqb_spec). reflexivity.
Qed.

Definition read_check (rr : readrec) : bool :=
  let '(_, u, res) := rr in
  match res with
  | OMiss => true
  | OHit b => existsb (fun w => String.eqb (wkey i (fst w)) (ukey i u) && String.eqb (wbundle i (fst w)) b)
                      (i_writers i)
  | _ => false
  end.

Lemma reads_model_ok : forall sched s ps rs sf, good s -> mgo i s sched = Some (ps, rs, sf) ->
  forallb read_check rs = true /\ good sf.
Proof.
  induction sched as [|e sched IH]; intros s ps rs sf G H; cbn in H.
  - inversion H; subst. split; [reflexivity|exact G].
  - destruct e as [w|r u|w|w|w ok|r u|r]; try exact (IH _ _ _ _ G H).
    + destruct (exec sha s (fst (macro i s w))) as [s1|] eqn:E; [|discriminate].
      destruct (mgo i s1 sched) as [[[ps1 rs1] sf1]|] eqn:M; [|discriminate].
      inversion H; subst; clear H.
      destruct (macro_ok s w) as [Sf Dc].
      exact (IH _ _ _ _ (exec_good _ _ _ G Sf Dc E) M).
    + destruct (exec sha s (read_events sha r u s)) as [s1|] eqn:E; [|discriminate].
      destruct (mgo i s1 sched) as [[[ps1 rs1] sf1]|] eqn:M; [|discriminate].
      inversion H; subst; clear H.
      destruct (read_events_ok r u s) as [Sf Dc].
      destruct (IH _ _ _ _ (exec_good _ _ _ G Sf Dc E) M) as [F Gf]. split; [|exact Gf].
      cbn [forallb]. rewrite F, andb_true_r.
      destruct (read_result _ _ _ _ G E) as [_ [_ [[_ ->]|[L [wr [b [Gk [Dn [Gw [K ->]]]]]]]]]]; [reflexivity|].
      cbn. apply existsb_exists. exists (L, (w_url wr, b)). split.
      * exact (get_in N.eqb Neqb_spec _ _ _ Gw).
      * cbn [fst]. destruct (decl_wkey _ _ _ Gw) as [Wk Wb]. rewrite Wk, Wb. unfold ukey. rewrite K.
        rewrite !String.eqb_refl. reflexivity.
    + destruct (exec sha s (fst (macro_fault s w))) as [s1|] eqn:E; [|discriminate].
      destruct (mgo i s1 sched) as [[[ps1 rs1] sf1]|] eqn:M; [|discriminate].
      inversion H; subst; clear H.
      destruct (macro_fault_ok s w) as [Sf Dc].
      exact (IH _ _ _ _ (exec_good _ _ _ G Sf Dc E) M).
Qed.

(* ---------- the freshness monitor runs in lockstep with the model ---------- *)
Lemma memN_In : forall x l, memN x l = true <-> In x l.
Proof.
  intros x l. unfold memN. rewrite existsb_exists. split.
  - intros [y [Hy E]]. apply N.eqb_eq in E. subst y. exact Hy.
  - intros H. exists x. split; [exact H|apply N.eqb_refl].
Qed.

Lemma memN_false : forall x l, ~ In x l -> memN x l = false.
Proof. intros x l H. destruct (memN x l) eqn:E; [|reflexivity]. apply memN_In in E. contradiction. Qed.

(* writer x is finished: it has renamed, or it has failed and cleaned up *)
Definition fin_at (s : state) (x : N) : Prop :=
  exists wr, getN x (s_w s) = Some wr /\ (w_pc wr = PDone \/ w_pc wr = PFailed).

Lemma step_fin : forall s e s' x, step sha s e = Some s' -> fin_at s x -> fin_at s' x.
Proof.
  intros s e s' x H [wr [G [P|P]]]; exists wr.
  - split; [|left; exact P]. exact (proj1 (step_done sha _ _ _ _ _ H (conj G P))).
  - split; [|right; exact P]. exact (step_failed sha _ _ _ _ _ H G P).
Qed.

Record phi (M : mon) (s : state) : Prop := mk_phi {
  p_started : forall w wr, getN w (s_w s) = Some wr -> In w (n_started M);
  p_ret : forall x, In x (n_ret M) -> fin_at s x;
  p_before : forall w l, getN w (n_before M) = Some l -> forall x, In x l -> In x (n_ret M);
  p_stale : forall x, In x (n_stale M) -> In x (n_ret M);
  p_holder : forall k L, getS k (s_dir s) = Some L -> is_temp k = false -> ~ In L (n_stale M);
  p_hit : forall k, In k (n_hit M) -> is_temp k = false /\ exists L, getS k (s_dir s) = Some L }.

Lemma phi_init : phi mon0 init.
Proof. split; cbn; intros; try discriminate; try contradiction. Qed.

Definition not_rename (e : event) : Prop := match e with ERename _ => False | _ => True end.

(* events other than a rename leave the non-temporary part of the directory alone *)
Lemma step_dir_nontemp : forall s e s' k, inv sha s -> safe e = true -> not_rename e ->
  step sha s e = Some s' -> is_temp k = false -> getS k (s_dir s') = getS k (s_dir s).
Proof.
  intros s e s' k [IW _ _] S NR H T.
  destruct e; try discriminate; try destruct NR; cbn in H.
  - repeat dmatch H. inversion H; subst; clear H. cbn.
    assert (k <> t) by (intros ->; congruence). mapS. reflexivity.
  - repeat dmatch H; inversion H; subst; reflexivity.
  - repeat dmatch H; inversion H; subst; reflexivity.
  - destruct (getN w (s_w s)) as [wr|] eqn:Gw; [|discriminate].
    destruct (IW _ _ Gw) as [_ [_ [d [_ [_ [_ L]]]]]].
    assert (live (w_pc wr) /\ s_dir s' = delS (w_tmp wr) (s_dir s)) as [Lv ->].
    { destruct (w_pc wr) eqn:Pc; try discriminate; destruct (w_inplace wr); try discriminate;
        inversion H; (split; [|reflexivity]); [left|right]; reflexivity. }
    destruct (L Lv) as [Tt _]. assert (k <> w_tmp wr) by (intros ->; congruence). mapS. reflexivity.
  - repeat dmatch H; inversion H; subst; reflexivity.
  - repeat dmatch H; inversion H; subst; reflexivity.
  - repeat dmatch H; inversion H; subst; reflexivity.
  - repeat dmatch H; inversion H; subst; reflexivity.
Qed.

Definition create_started (M : mon) (e : event) : Prop :=
  match e with ECreate w _ _ _ => In w (n_started M) | _ => True end.

Lemma phi_step_other : forall M s e s', phi M s -> good s -> safe e = true -> not_rename e ->
  create_started M e -> step sha s e = Some s' -> phi M s'.
Proof.
  intros M s e s' [P1 P2 P3 P4 P5 P6] [I W D] S NR CS H. split.
  - intros w wr G. destruct (step_w_origin sha _ _ _ _ _ H S G) as [[wr0 G0]|[t Ee]].
    + exact (P1 _ _ G0).
    + subst e. exact CS.
  - intros x Hx. exact (step_fin _ _ _ _ H (P2 _ Hx)).
  - exact P3.
  - exact P4.
  - intros k L G T. rewrite (step_dir_nontemp _ _ _ _ I S NR H T) in G. exact (P5 _ _ G T).
  - intros k Hk. destruct (P6 _ Hk) as [T [L G]]. split; [exact T|]. exists L.
    rewrite (step_dir_nontemp _ _ _ _ I S NR H T). exact G.
Qed.

Lemma phi_exec_other : forall tr M s s', phi M s -> good s -> forallb safe tr = true ->
  Forall declared tr -> Forall not_rename tr -> Forall (create_started M) tr ->
  exec sha s tr = Some s' -> phi M s'.
Proof.
  induction tr as [|e tr IH]; intros M s s' P G S Dc NR CS H; cbn in H.
  - inversion H. subst. exact P.
  - cbn in S. apply andb_true_iff in S. destruct S as [Se St].
    apply Forall_cons_iff in Dc. destruct Dc as [Dc1 Dc2].
    apply Forall_cons_iff in NR. destruct NR as [NR1 NR2].
    apply Forall_cons_iff in CS. destruct CS as [CS1 CS2].
    destruct (step sha s e) as [s1|] eqn:E; [|discriminate].
    apply (IH M s1 s'); try assumption.
    + exact (phi_step_other _ _ _ _ P G Se NR1 CS1 E).
    + exact (step_good _ _ _ G Se Dc1 E).
Qed.

Lemma phi_open : forall M s X, phi M s ->
  phi (mk_mon (n_started M) (n_ret M) (n_before M) (n_stale M) (n_hit M) X) s.
Proof. intros M s X [P1 P2 P3 P4 P5 P6]. split; assumption. Qed.

Lemma phi_start : forall M s w, phi M s ->
  phi (mk_mon (w :: n_started M) (n_ret M) (putN w (n_ret M) (n_before M)) (n_stale M) (n_hit M) (n_open M)) s.
Proof.
  intros M s w [P1 P2 P3 P4 P5 P6]. split; cbn; try assumption.
  - intros w' wr G. right. exact (P1 _ _ G).
  - intros w' l G x Hx. apply (get_put_cases N.eqb Neqb_spec) in G. destruct G as [[-> ->]|[_ G]].
    + exact Hx.
    + exact (P3 _ _ G _ Hx).
Qed.

Lemma phi_rename : forall M s w s', phi M s -> good s -> step sha s (ERename w) = Some s' ->
  phi (mk_mon (n_started M) (w :: n_ret M) (n_before M)
         (filter (fun x => String.eqb (wkey i x) (wkey i w))
                 (match getN w (n_before M) with Some l => l | None => [] end) ++ n_stale M)
         (wkey i w :: n_hit M) (n_open M)) s'.
Proof.
  intros M s w s' [P1 P2 P3 P4 P5 P6] G H. pose proof G as [I W D]. pose proof H as H0. cbn in H.
  destruct (getN w (s_w s)) as [wr|] eqn:Gw; [|discriminate].
  destruct (w_pc wr) eqn:Pc; try discriminate.
  destruct (w_inplace wr) eqn:Inp; try discriminate.
  destruct (getS (w_tmp wr) (s_dir s)) as [n|] eqn:Gt; [|discriminate].
  inversion H; subst s'; clear H.
  destruct (inv_w _ _ I _ _ Gw) as [_ [_ [d [_ [_ [_ Lw]]]]]].
  destruct (Lw (or_intror Pc)) as [Tt Gt']. assert (n = w) by congruence. subst n.
  destruct (D _ _ Gw) as [b [Gi C]]. destruct (decl_wkey _ _ _ Gi) as [Wk _].
  (* w has not returned yet *)
  assert (~ In w (n_ret M)) as NotRet.
  { intros Hx. destruct (P2 _ Hx) as [wr' [G' P']]. assert (wr' = wr) by congruence. subst wr'.
    destruct P' as [P'|P']; congruence. }
  assert (forall x, In x (match getN w (n_before M) with Some l => l | None => [] end) -> In x (n_ret M)) as Bef.
  { intros x Hx. destruct (getN w (n_before M)) as [l|] eqn:Gb; [exact (P3 _ _ Gb _ Hx)|destruct Hx]. }
  split; cbn.
  - intros w' wr' G'. destruct (step_w_origin sha _ (ERename w) _ _ _ H0 eq_refl G') as [[wr0 G0]|[t Ee]]; [|discriminate].
    exact (P1 _ _ G0).
  - intros x [<-|Hx].
    + exists (with_pc wr PDone). split; [cbn; mapN; reflexivity|left; reflexivity].
    + exact (step_fin _ _ _ _ H0 (P2 _ Hx)).
  - intros w' l Gb x Hx. right. exact (P3 _ _ Gb _ Hx).
  - intros x Hx. apply in_app_or in Hx. destruct Hx as [Hx|Hx].
    + apply filter_In in Hx. right. exact (Bef _ (proj1 Hx)).
    + right. exact (P4 _ Hx).
  - intros k L Gk T Hin.
    destruct (String.eqb k (key sha (w_url wr))) eqn:E.
    + apply String.eqb_eq in E. subst k. rewrite (get_put_eq String.eqb Seqb_spec) in Gk.
      inversion Gk; subst L. apply in_app_or in Hin. destruct Hin as [Hx|Hx].
      * apply filter_In in Hx. exact (NotRet (Bef _ (proj1 Hx))).
      * exact (NotRet (P4 _ Hx)).
    + apply String.eqb_neq in E.
      assert (k <> w_tmp wr) by (intros ->; congruence).
      rewrite (get_put_neq String.eqb Seqb_spec) in Gk by exact E.
      rewrite (get_del_neq String.eqb Seqb_spec) in Gk by assumption.
      apply in_app_or in Hin. destruct Hin as [Hx|Hx]; [|exact (P5 _ _ Gk T Hx)].
      apply filter_In in Hx. destruct Hx as [_ Hx]. apply String.eqb_eq in Hx.
      destruct (inv_d _ _ I _ _ Gk) as [T'|[wrL [DnL KL]]]; [congruence|].
      destruct (D _ _ (proj1 DnL)) as [bL [GiL _]]. destruct (decl_wkey _ _ _ GiL) as [WkL _].
      apply E. congruence.
  - intros k [<-|Hk].
    + rewrite Wk. split; [apply key_not_temp|]. exists w. mapS. reflexivity.
    + destruct (P6 _ Hk) as [T [L Gk]]. split; [exact T|].
      destruct (step_key_holder sha _ (ERename w) _ _ _ I eq_refl H0 Gk T) as [L' [Gk' _]]. exists L'. exact Gk'.
Qed.

Definition sw_mon (reads : list readrec) (M : mon) (w p : N) : mon * bool :=
  let mo1 := if memN w (n_started M) then (M, true) else mon_step i reads (M, true) (AStart w) in
  if (p =? 4)%N then mon_step i reads mo1 (ARet w true)
  else if (p =? 5)%N then mon_step i reads mo1 (ARet w false) else mo1.

Lemma sw_phi : forall M s w s' reads, phi M s -> good s ->
  exec sha s (fst (macro i s w)) = Some s' ->
  exists M2, sw_mon reads M w (snd (macro i s w)) = (M2, true) /\ phi M2 s'.
Proof.
  intros M s w s' reads P G H. unfold sw_mon.
  assert (exists M1, (if memN w (n_started M) then (M, true) else mon_step i reads (M, true) (AStart w)) = (M1, true)
                     /\ phi M1 s /\ In w (n_started M1)) as [M1 [-> [P1 In1]]].
  { destruct (memN w (n_started M)) eqn:E.
    - exists M. split; [reflexivity|]. split; [exact P|apply memN_In; exact E].
    - eexists. split; [cbn; reflexivity|]. split; [apply phi_start; exact P|left; reflexivity]. }
  assert (forall e, safe e = true -> declared e -> not_rename e -> create_started M1 e ->
                    exec sha s [e] = Some s' -> phi M1 s') as One.
  { intros e Se De Ne Ce He. apply (phi_exec_other [e] M1 s s'); try assumption.
    - cbn. rewrite Se. reflexivity.
    - constructor; [exact De|constructor].
    - constructor; [exact Ne|constructor].
    - constructor; [exact Ce|constructor]. }
  unfold macro in *.
  destruct (getN w (s_w s)) as [wr|] eqn:Gw.
  - destruct (w_pc wr) eqn:Pc.
    + destruct (getN (w_ino wr) (s_ino s)) as [d|] eqn:Gd.
      * destruct (List.length (w_content wr) <=? List.length d) eqn:Le; cbn [fst snd] in *.
        -- exists M1. split; [reflexivity|]. apply (One (EClose w)); cbn; auto.
        -- exists M1. split; [reflexivity|]. apply (One (EWrite w (List.length (w_content wr)))); cbn; auto.
      * cbn [fst snd] in *. cbn in H. inversion H; subst s'. exists M1. split; [reflexivity|exact P1].
    + cbn [fst snd] in *. cbn [exec] in H.
      destruct (step sha s (ERename w)) as [s1|] eqn:E; [|discriminate]. inversion H; subst s1; clear H.
      eexists. split; [cbn; reflexivity|]. exact (phi_rename _ _ _ _ P1 G E).
    + cbn [fst snd] in *. cbn in H. inversion H; subst s'. exists M1. split; [reflexivity|exact P1].
    + cbn [fst snd] in *. cbn in H. inversion H; subst s'. exists M1. split; [reflexivity|exact P1].
    + cbn [fst snd] in *. cbn in H. inversion H; subst s'. exists M1. split; [reflexivity|exact P1].
  - destruct (getN w (i_writers i)) as [[u b]|] eqn:Gi.
    + destruct (getN w (i_tmps i)) as [t|] eqn:Gt; cbn [fst snd] in *.
      * exists M1. split; [reflexivity|]. apply (One (ECreate w u (dat_of b) t)); cbn; auto.
        exists b. split; [exact Gi|reflexivity].
      * cbn in H. inversion H; subst s'. exists M1. split; [reflexivity|exact P1].
    + cbn [fst snd] in *. cbn in H. inversion H; subst s'. exists M1. split; [reflexivity|exact P1].
Qed.

(* the error return of a writer whose rename failed *)
Lemma phi_fail : forall M s w s', phi M s -> good s -> step sha s (EFail w) = Some s' ->
  phi (mk_mon (n_started M) (w :: n_ret M) (n_before M) (n_stale M) (n_hit M) (n_open M)) s'.
Proof.
  intros M s w s' P G H.
  assert (phi M s') as [P1 P2 P3 P4 P5 P6].
  { apply (phi_step_other M s (EFail w) s'); cbn; auto. }
  split; cbn; try assumption.
  - intros x [<-|Hx]; [|exact (P2 _ Hx)].
    cbn in H. destruct (getN w (s_w s)) as [wr|] eqn:Gw; [|discriminate].
    exists (with_pc wr PFailed). split; [|right; reflexivity].
    destruct (w_pc wr); try discriminate; destruct (w_inplace wr); try discriminate;
      inversion H; subst s'; cbn; mapN; reflexivity.
  - intros w' l Gb x Hx. right. exact (P3 _ _ Gb _ Hx).
  - intros x Hx. right. exact (P4 _ Hx).
Qed.

Lemma sf_phi : forall M s w s' reads, phi M s -> good s ->
  exec sha s (fst (macro_fault s w)) = Some s' ->
  exists M2, sw_mon reads M w (snd (macro_fault s w)) = (M2, true) /\ phi M2 s'.
Proof.
  intros M s w s' reads P G H. unfold sw_mon.
  assert (exists M1, (if memN w (n_started M) then (M, true) else mon_step i reads (M, true) (AStart w)) = (M1, true)
                     /\ phi M1 s) as [M1 [-> P1]].
  { destruct (memN w (n_started M)) eqn:E.
    - exists M. split; [reflexivity|exact P].
    - eexists. split; [cbn; reflexivity|apply phi_start; exact P]. }
  unfold macro_fault in *.
  destruct (getN w (s_w s)) as [wr|] eqn:Gw.
  - destruct (w_pc wr) eqn:Pc; cbn [fst snd] in *;
      try (cbn in H; inversion H; subst s'; exists M1; split; [reflexivity|exact P1]).
    cbn [exec] in H. destruct (step sha s (EFail w)) as [s1|] eqn:E; [|discriminate].
    inversion H; subst s1; clear H.
    eexists. split; [cbn; reflexivity|]. exact (phi_fail _ _ _ _ P1 G E).
  - cbn [fst snd] in *. cbn in H. inversion H; subst s'. exists M1. split; [reflexivity|exact P1].
Qed.

Lemma find_read_app : forall r u res pre rest,
  (forall x, In x pre -> fst (fst x) <> r) ->
  find_read r (pre ++ (r, u, res) :: rest) = Some res.
Proof.
  intros r u res pre rest. induction pre as [|[[r' u'] res'] pre IH]; intros H; cbn.
  - rewrite N.eqb_refl. reflexivity.
  - assert (r' <> r) as Hn by (apply (H (r', u', res')); left; reflexivity).
    destruct (N.eqb r r') eqn:E; [apply N.eqb_eq in E; congruence|].
    apply IH. intros x Hx. apply H. right. exact Hx.
Qed.

Lemma sr_phi : forall M s r u s' pre rest, phi M s -> good s ->
  exec sha s (read_events sha r u s) = Some s' ->
  (forall x, In x pre -> getN (fst (fst x)) (s_r s) <> None) ->
  exists M2,
    mon_step i (pre ++ (r, u, oread_of s' r) :: rest)
      (mon_step i (pre ++ (r, u, oread_of s' r) :: rest) (M, true) (ABeg r u)) (AEnd r) = (M2, true)
    /\ phi M2 s'.
Proof.
  intros M s r u s' pre rest P G H Pre.
  destruct (read_result _ _ _ _ G H) as [Gr [_ Res]].
  destruct (read_events_ok r u s) as [Sf Dc].
  assert (phi M s') as P'.
  { apply (phi_exec_other (read_events sha r u s) M s s'); try assumption.
    - unfold read_events. destruct (getS (key sha u) (s_dir s)); repeat constructor.
    - unfold read_events. destruct (getS (key sha u) (s_dir s)); repeat constructor. }
  assert (find_read r (pre ++ (r, u, oread_of s' r) :: rest) = Some (oread_of s' r)) as Fr.
  { apply find_read_app. intros x Hx E. apply (Pre x Hx). rewrite E. exact Gr. }
  eexists. cbn [mon_step]. cbn [n_open n_started n_stale n_hit].
  rewrite (get_put_eq N.eqb Neqb_spec). rewrite Fr.
  pose proof P as [P1 P2 P3 P4 P5 P6]. pose proof G as [I W D].
  assert ((match oread_of s' r with
           | OMiss => negb (existsb (String.eqb (ukey i u)) (n_hit M))
           | OHit b => existsb (fun x => String.eqb (wkey i x) (ukey i u) && String.eqb (wbundle i x) b
                                         && negb (memN x (n_stale M))) (n_started M)
           | _ => false
           end) = true) as Good.
  { destruct Res as [[Gk ->]|[L [wr [b [Gk [Dn [Gw [K ->]]]]]]]].
    - destruct (existsb (String.eqb (ukey i u)) (n_hit M)) eqn:E; [|reflexivity].
      apply existsb_exists in E. destruct E as [k [Hk E]]. apply String.eqb_eq in E. subst k.
      destruct (P6 _ Hk) as [_ [L GL]]. unfold ukey in GL. congruence.
    - apply existsb_exists. exists L. split; [exact (P1 _ _ (proj1 Dn))|].
      destruct (decl_wkey _ _ _ Gw) as [Wk Wb]. rewrite Wk, Wb. unfold ukey. rewrite K, !String.eqb_refl.
      rewrite (memN_false L (n_stale M)); [reflexivity|]. exact (P5 _ _ Gk (key_not_temp sha u)). }
  rewrite Good. split; [reflexivity|]. apply phi_open. exact P'.
Qed.

Definition hook_sched (sched : list sev) : bool :=
  forallb (fun e => match e with SW _ | SR _ _ | SF _ => true | _ => false end) sched.

Lemma readers_persist : forall tr s s' (pre : list readrec), exec sha s tr = Some s' ->
  (forall x, In x pre -> getN (fst (fst x)) (s_r s) <> None) ->
  (forall x, In x pre -> getN (fst (fst x)) (s_r s') <> None).
Proof.
  intros tr s s' pre H P x Hx. destruct (getN (fst (fst x)) (s_r s)) as [rr|] eqn:G; [|destruct (P x Hx G)].
  destruct (exec_r_stable sha _ _ _ _ _ H G) as [rr' [G' _]]. congruence.
Qed.

Lemma fresh_lock : forall sched s ps rs sf M pre,
  hook_sched sched = true ->
  mgo i s sched = Some (ps, rs, sf) -> good s -> phi M s ->
  (forall x, In x pre -> getN (fst (fst x)) (s_r s) <> None) ->
  snd (fresh_go i (pre ++ rs) sched ps (M, true)) = true.
Proof.
  induction sched as [|e sched IH]; intros s ps rs sf M pre Hs H G P Pre; cbn in H.
  - reflexivity.
  - cbn in Hs. apply andb_true_iff in Hs. destruct Hs as [He Hs].
    destruct e as [w|r u|w|w|w ok|r u|r]; try discriminate.
    + destruct (exec sha s (fst (macro i s w))) as [s1|] eqn:E; [|discriminate].
      destruct (mgo i s1 sched) as [[[ps1 rs1] sf1]|] eqn:Mg; [|discriminate].
      inversion H; subst; clear H.
      destruct (macro_ok s w) as [Sf Dc].
      destruct (sw_phi M s w s1 (pre ++ rs) P G E) as [M2 [EM P2]].
      cbn [fresh_go hd tl fst]. unfold sw_mon in EM. rewrite EM.
      apply (IH s1 ps1 rs sf M2 pre Hs Mg (exec_good _ _ _ G Sf Dc E) P2).
      exact (readers_persist _ _ _ _ E Pre).
    + destruct (exec sha s (read_events sha r u s)) as [s1|] eqn:E; [|discriminate].
      destruct (mgo i s1 sched) as [[[ps1 rs1] sf1]|] eqn:Mg; [|discriminate].
      inversion H; subst; clear H.
      destruct (read_events_ok r u s) as [Sf Dc].
      destruct (sr_phi M s r u s1 pre rs1 P G E Pre) as [M2 [EM P2]].
      cbn [fresh_go]. rewrite EM.
      replace (pre ++ (r, u, oread_of s1 r) :: rs1) with ((pre ++ [(r, u, oread_of s1 r)]) ++ rs1)
        by (rewrite <- app_assoc; reflexivity).
      apply (IH s1 ps rs1 sf M2 _ Hs Mg (exec_good _ _ _ G Sf Dc E) P2).
      intros x Hx. apply in_app_or in Hx. destruct Hx as [Hx|[<-|[]]].
      * exact (readers_persist _ _ _ _ E Pre x Hx).
      * cbn [fst]. destruct (read_result _ _ _ _ G E) as [_ [Ex _]]. exact Ex.
    + destruct (exec sha s (fst (macro_fault s w))) as [s1|] eqn:E; [|discriminate].
      destruct (mgo i s1 sched) as [[[ps1 rs1] sf1]|] eqn:Mg; [|discriminate].
      inversion H; subst; clear H.
      destruct (macro_fault_ok s w) as [Sf Dc].
      destruct (sf_phi M s w s1 (pre ++ rs) P G E) as [M2 [EM P2]].
      cbn [fresh_go hd tl fst]. unfold sw_mon in EM. rewrite EM.
      apply (IH s1 ps1 rs sf M2 pre Hs Mg (exec_good _ _ _ G Sf Dc E) P2).
      exact (readers_persist _ _ _ _ E Pre).
Qed.

Theorem model_spec_ok : wf i = true -> spec_ok i (model i) = true.
Proof.
  intros Wf. unfold wf in Wf.
  apply andb_true_iff in Wf. destruct Wf as [Wf Tm].
  apply andb_true_iff in Wf. destruct Wf as [Wf Hs].
  apply andb_true_iff in Wf. destruct Wf as [_ St].
  unfold model. destruct (mgo i init (i_sched i)) as [[[ps rs] sf]|] eqn:Mg; [|discriminate].
  destruct (reads_model_ok _ _ _ _ _ good_init Mg) as [Rd Gf].
  unfold spec_ok. apply andb_true_iff. split; [apply andb_true_iff; split|].
  - unfold reads_ok. cbn [o_reads]. exact Rd.
  - unfold fresh_ok. cbn [o_reads o_points].
    exact (fresh_lock (i_sched i) init ps rs sf mon0 [] Hs Mg good_init phi_init (fun x (H : In x []) => match H with end)).
  - unfold listing_ok. cbn [o_dir]. rewrite (listing_model_ok _ Gf). exact Tm.
Qed.
End Oracle.
