(* C14_Proofs.v — proofs about the directory semantics of C14_Model. *)
From NV Require Import Base Generated C14_Model.
Open Scope string_scope.
Open Scope list_scope.

(* ---------- association lists ---------- *)
Section MapLemmas.
  Context {K V : Type} (eqb : K -> K -> bool).
  Hypothesis eqb_spec : forall a b, eqb a b = true <-> a = b.

  Lemma eqb_refl' : forall a, eqb a a = true.
  Proof. intros a. apply eqb_spec. reflexivity. Qed.

  Lemma eqb_neq' : forall a b, a <> b -> eqb a b = false.
  Proof.
    intros a b H. destruct (eqb a b) eqn:E; [|reflexivity].
    apply eqb_spec in E. contradiction.
  Qed.

  Lemma get_del_eq : forall k (m : list (K * V)), get eqb k (del eqb k m) = None.
  Proof.
    intros k m. induction m as [|[k' v] m IH]; cbn; [reflexivity|].
    destruct (eqb k k') eqn:E; [exact IH|]. cbn. rewrite E. exact IH.
  Qed.

  Lemma get_del_neq : forall k k' (m : list (K * V)), k <> k' -> get eqb k (del eqb k' m) = get eqb k m.
  Proof.
    intros k k' m H. induction m as [|[k2 v] m IH]; cbn; [reflexivity|].
    destruct (eqb k' k2) eqn:E.
    - apply eqb_spec in E. subst k2. rewrite (eqb_neq' k k' H). exact IH.
    - cbn. destruct (eqb k k2); [reflexivity|exact IH].
  Qed.

  Lemma get_put_eq : forall k v (m : list (K * V)), get eqb k (put eqb k v m) = Some v.
  Proof. intros. unfold put. cbn. rewrite eqb_refl'. reflexivity. Qed.

  Lemma get_put_neq : forall k k' v (m : list (K * V)), k <> k' -> get eqb k (put eqb k' v m) = get eqb k m.
  Proof. intros. unfold put. cbn. rewrite (eqb_neq' k k' H). apply get_del_neq. exact H. Qed.

  Lemma get_put_cases : forall k k' v (m : list (K * V)) x,
    get eqb k (put eqb k' v m) = Some x -> (k = k' /\ x = v) \/ (k <> k' /\ get eqb k m = Some x).
  Proof.
    intros k k' v m x H. destruct (eqb k k') eqn:E.
    - apply eqb_spec in E. subst k'. rewrite get_put_eq in H. inversion H. left. auto.
    - assert (k <> k') as Hn by (intros ->; rewrite eqb_refl' in E; discriminate).
      rewrite (get_put_neq _ _ _ _ Hn) in H. right. auto.
  Qed.

  Lemma get_del_some : forall k k' (m : list (K * V)) x,
    get eqb k (del eqb k' m) = Some x -> k <> k' /\ get eqb k m = Some x.
  Proof.
    intros k k' m x H. destruct (eqb k k') eqn:E.
    - apply eqb_spec in E. subst k'. rewrite get_del_eq in H. discriminate.
    - assert (k <> k') as Hn by (intros ->; rewrite eqb_refl' in E; discriminate).
      rewrite (get_del_neq _ _ _ Hn) in H. auto.
  Qed.
End MapLemmas.

Definition Neqb_spec : forall a b, N.eqb a b = true <-> a = b := N.eqb_eq.
Definition Seqb_spec : forall a b, String.eqb a b = true <-> a = b := String.eqb_eq.

Ltac mapN := first [ rewrite (get_put_eq N.eqb Neqb_spec) | rewrite (get_put_neq N.eqb Neqb_spec) by congruence ].
Ltac mapS := first [ rewrite (get_put_eq String.eqb Seqb_spec) | rewrite (get_put_neq String.eqb Seqb_spec) by congruence
                   | rewrite (get_del_neq String.eqb Seqb_spec) by congruence ].

(* ---------- names ---------- *)
Lemma hexdigit_is_hex : forall x, is_hex (hexdigit (x mod 16)%N) = true.
Proof.
  intros x. assert (x mod 16 < 16)%N as H by (apply N.mod_lt; discriminate).
  remember (x mod 16)%N as d eqn:E. clear E x.
  assert (d = 0 \/ d = 1 \/ d = 2 \/ d = 3 \/ d = 4 \/ d = 5 \/ d = 6 \/ d = 7 \/ d = 8 \/ d = 9 \/
          d = 10 \/ d = 11 \/ d = 12 \/ d = 13 \/ d = 14 \/ d = 15)%N as C by lia.
  repeat (destruct C as [-> | C]; [reflexivity|]). subst d. reflexivity.
Qed.

Lemma all_hex_hex : forall l, all_hex (hex l) = true.
Proof.
  induction l as [|b l IH]; cbn [hex all_hex]; [reflexivity|].
  rewrite !hexdigit_is_hex, IH. reflexivity.
Qed.

Lemma has_prefix_all_hex : forall p t, has_prefix p t = true -> all_hex t = true -> all_hex p = true.
Proof.
  induction p as [|a p IH]; intros t Hp Ht; [reflexivity|].
  destruct t as [|b t]; cbn in Hp; [discriminate|].
  apply andb_true_iff in Hp. destruct Hp as [Hab Hp]. apply Ascii.eqb_eq in Hab. subst b.
  cbn in Ht. apply andb_true_iff in Ht. destruct Ht as [Ha Ht].
  cbn. rewrite Ha. cbn. exact (IH t Hp Ht).
Qed.

(* the generated pattern of internal/file has a prefix with a non-hex byte *)
Lemma tmp_prefix_not_hex : all_hex tmp_prefix = false.
Proof. vm_compute. reflexivity. Qed.

Lemma is_temp_prefix : forall t, is_temp t = true -> has_prefix tmp_prefix t = true.
Proof.
  intros t H. unfold is_temp in H.
  repeat (apply andb_true_iff in H; destruct H as [H ?]). exact H.
Qed.

Lemma is_temp_not_hex : forall t, is_temp t = true -> all_hex t = false.
Proof.
  intros t H. apply is_temp_prefix in H.
  destruct (all_hex t) eqn:E; [|reflexivity].
  pose proof (has_prefix_all_hex _ _ H E) as C. rewrite tmp_prefix_not_hex in C. discriminate.
Qed.

Lemma key_not_temp : forall sha u, is_temp (key sha u) = false.
Proof.
  intros sha u. destruct (is_temp (key sha u)) eqn:E; [|reflexivity].
  apply is_temp_not_hex in E. unfold key in E. rewrite all_hex_hex in E. discriminate.
Qed.

Lemma temp_not_keyshape : forall t, is_temp t = true -> keyshape t = false.
Proof. intros t H. unfold keyshape. rewrite (is_temp_not_hex t H). reflexivity. Qed.

(* ---------- prefixes ---------- *)
Definition pre (d c : data) : Prop := d = firstn (List.length d) c.

Lemma pre_nil : forall c, pre [] c.
Proof. intros c. reflexivity. Qed.

Lemma firstn_plus : forall (c : data) a n, firstn a c ++ firstn n (skipn a c) = firstn (a + n) c.
Proof.
  induction c as [|x c IH]; intros a n.
  - rewrite skipn_nil, !firstn_nil. reflexivity.
  - destruct a as [|a]; cbn; [reflexivity|]. rewrite IH. reflexivity.
Qed.

Lemma firstn_length_firstn : forall (c : data) k, firstn (List.length (firstn k c)) c = firstn k c.
Proof.
  intros c k. rewrite firstn_length. destruct (Nat.le_ge_cases k (List.length c)) as [H|H].
  - rewrite Nat.min_l by exact H. reflexivity.
  - rewrite Nat.min_r by exact H. rewrite firstn_all. symmetry. apply firstn_all2. exact H.
Qed.

Lemma pre_app : forall d c n, pre d c -> pre (d ++ firstn n (skipn (List.length d) c)) c.
Proof.
  intros d c n H. unfold pre in *.
  assert (d ++ firstn n (skipn (List.length d) c) = firstn (List.length d + n) c) as E.
  { rewrite H at 1. apply firstn_plus. }
  rewrite E. symmetry. apply firstn_length_firstn.
Qed.

Lemma pre_full : forall d c, pre d c -> List.length c <= List.length d -> d = c.
Proof. intros d c H L. unfold pre in H. rewrite H. apply firstn_all2. exact L. Qed.

Lemma pre_refl : forall c, pre c c.
Proof. intros c. unfold pre. symmetry. apply firstn_all. Qed.
