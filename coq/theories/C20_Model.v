(* C20_Model.v — model of plugin installation in notation-go. Definitions only.
   Mirrors (statement by statement, as the code is after the fix commits
   3438892, 6476a8b, 5c2ad66, 9291f82 and 30cc14e):
     plugin/manager.go       CLIManager.Install, Uninstall, Get, List,
                             validatePluginName, parsePluginFromDir
     plugin/manager_unix.go  binName, isExecutableFile, parsePluginName, setExecutable
     plugin/plugin.go        NewCLIPlugin, CLIPlugin.GetMetadata (as far as Install
                             and Get use them)
     internal/file/file.go   CopyToDir, CopyDirToDir
     internal/semver         ComparePluginVersion (C20_Semver.v)
   The plugin root is a finite map  plugin name -> flat list of files; a file is
   (name, permission bits, content id). What a file answers to get-plugin-metadata
   when executed is a function of its content (table [tbl]). The harness gives, per
   content, what it PRINTS (raw table, [tbl_of]); whether that is valid metadata is
   decided by the model of plugin.validate ([validate]).
   A case is a history: an initial root, a list of install / uninstall operations,
   and after every operation what was returned, the whole tree of the root, the
   result of List and the answer of Get(name).GetMetadata for every listed name.
   A second kind of case compares two version strings. *)
From NV Require Import Base Regex Generated C20_Semver.
Open Scope string_scope.

(* ---------- files, sources, metadata ---------- *)
Record file := F { f_name : string; f_mode : N; f_cid : N }.

Inductive entry :=
| EF (f : file)                         (* regular file *)
| ED (n : string) (fs : list file)      (* sub-directory (with regular files in it) *)
| EL (n : string).                      (* symbolic link *)

Inductive source :=
| SNone                          (* PluginPath = "" *)
| SMissing                       (* the path does not exist *)
| SSpecial (n : string)          (* exists, neither a directory nor a regular file; base name n *)
| SFile (f : file)               (* a single regular file *)
| SDir (base : string) (es : list entry).   (* a directory with base name [base]; entries in lexical order *)

(* what a file content answers to get-plugin-metadata *)
Inductive mres :=
| MOk (name ver : string)        (* metadata that passes plugin.validate *)
| MMalformed                     (* output is not JSON, or metadata fails validate *)
| MFail.                         (* cannot be executed / exits with an error *)

Definition table := list (N * mres).

Fixpoint tbl_get (c : N) (t : table) : mres :=
  match t with
  | [] => MFail
  | (k, v) :: t' => if (k =? c)%N then v else tbl_get c t'
  end.

(* ---------- what a plugin prints, and plugin.validate (plugin/plugin.go) ---------- *)
(* The table of a case is given by the harness as what every file content PRINTS when it is
   run with get-plugin-metadata (established by running it directly and decoding its output
   with encoding/json); whether that is valid metadata is decided here, by the model of
   validate. [tbl_of] turns such a raw table into the table the model of Install works on. *)
Record rawmeta := RM {
  rm_name : string; rm_desc : string; rm_ver : string; rm_url : string;
  rm_contracts : list string;      (* supportedContractVersions *)
  rm_caps : list string }.         (* capabilities *)

Inductive rres :=
| RJson (m : rawmeta)   (* exit status 0, the output decodes into a GetMetadataResponse *)
| RNotJson              (* exit status 0, the output does not decode *)
| RFail.                (* cannot be executed / exit status other than 0 *)

(* plugin.ContractVersion of notation-plugin-framework-go (the harness checks the value) *)
Definition contract_version : string := "1.0".

(* validate, check by check in the order of the code *)
Definition validate (m : rawmeta) : bool :=
  if String.eqb (rm_name m) "" then false
  else if String.eqb (rm_desc m) "" then false
  else if String.eqb (rm_ver m) "" then false
  else if String.eqb (rm_url m) "" then false
  else match rm_caps m with
       | [] => false
       | _ => match rm_contracts m with
              | [] => false
              | _ => mem_str contract_version (rm_contracts m)
              end
       end.

Definition mres_of (r : rres) : mres :=
  match r with
  | RJson m => if validate m then MOk (rm_name m) (rm_ver m) else MMalformed
  | RNotJson => MMalformed
  | RFail => MFail
  end.

Definition rtable := list (N * rres).

Fixpoint rtbl_get (c : N) (t : rtable) : rres :=
  match t with
  | [] => RFail
  | (k, v) :: t' => if (k =? c)%N then v else rtbl_get c t'
  end.

Definition tbl_of (rt : rtable) : table := map (fun p => (fst p, mres_of (snd p))) rt.

Definition is_exec (f : file) : bool := N.testbit (f_mode f) 6.          (* mode.Perm()&0100 != 0 *)
Definition set_exec (f : file) : file := F (f_name f) (N.lor (f_mode f) 64) (f_cid f).   (* setExecutable *)
Definition mask (f : file) : file := F (f_name f) (N.land (f_mode f) 493) (f_cid f).     (* Mode() & 0755 *)

Definition bin_prefix : string := "notation-".
Definition bin_name (n : string) : string := bin_prefix ++ n.

(* validatePluginName *)
Definition valid_name (n : string) : bool :=
  negb (String.eqb n "") && negb (String.eqb n ".") && negb (String.eqb n "..")
  && negb (contains_byte "/"%char n) && negb (contains_byte "\"%char n)
  && negb (contains_byte Ascii.zero n).

(* parsePluginName (after 30cc14e: the name part must pass validatePluginName, so that
   notation-. and notation-.. are not plugin file names) *)
Definition pname_of (fname : string) : option string :=
  if has_prefix bin_prefix fname then
    let n := drop 9 fname in
    if valid_name n then Some n else None
  else None.

Definition is_cand (f : file) : bool :=
  match pname_of (f_name f) with Some _ => true | None => false end.

(* ---------- the plugin root ---------- *)
Definition str_cmp (a b : string) : comparison := bs_cmp (bytes a) (bytes b).

Section Assoc.
  Context {A : Type}.
  Fixpoint afind (k : string) (m : list (string * A)) : option A :=
    match m with
    | [] => None
    | (k', v) :: m' => if String.eqb k k' then Some v else afind k m'
    end.
  Fixpoint aremove (k : string) (m : list (string * A)) : list (string * A) :=
    match m with
    | [] => []
    | (k', v) :: m' => if String.eqb k k' then aremove k m' else (k', v) :: aremove k m'
    end.
  (* insertion at the place of k in the byte order of names (the tree is observed sorted) *)
  Fixpoint ainsert (k : string) (v : A) (m : list (string * A)) : list (string * A) :=
    match m with
    | [] => [(k, v)]
    | (k', v') :: m' =>
        match str_cmp k k' with
        | Gt => (k', v') :: ainsert k v m'
        | _ => (k, v) :: m
        end
    end.
End Assoc.

Definition pdir := list file.
Definition state := list (string * pdir).

Fixpoint find_file (n : string) (d : pdir) : option file :=
  match d with
  | [] => None
  | f :: d' => if String.eqb n (f_name f) then Some f else find_file n d'
  end.

(* ---------- parsePluginFromDir ---------- *)
Fixpoint top_files (es : list entry) : list file :=
  match es with
  | [] => []
  | EF f :: r => f :: top_files r
  | _ :: r => top_files r
  end.

Record wst := mk_wst {
  w_exe : option (file * string);     (* pluginExecutableFile, pluginName *)
  w_cands : list file;                (* filesWithValidNameFormat *)
  w_cname : string }.                 (* candidatePluginName *)
Definition wst0 : wst := mk_wst None [] "".

Inductive wres := WOk (s : wst) | WTwo.

(* the callback of filepath.WalkDir on one regular file *)
Definition visit (s : wst) (f : file) : wres :=
  match pname_of (f_name f) with
  | None => WOk s
  | Some n =>
      let cands := (w_cands s ++ [f])%list in
      if negb (is_exec f) then WOk (mk_wst (w_exe s) cands n)
      else match w_exe s with
           | Some _ => WTwo
           | None => WOk (mk_wst (Some (f, n)) cands n)
           end
  end.

Fixpoint walk (s : wst) (fs : list file) : wres :=
  match fs with
  | [] => WOk s
  | f :: r => match visit s f with WTwo => WTwo | WOk s' => walk s' r end
  end.

Inductive ierr :=
| EEmptyPath | ESrcStat | ESrcTwoExec | ESrcNoExec | EFileName | ECheckExec | ENotExec
| ENewPlugin | EMetaInvalid | EMisnamed | EExistCheck | EExistMeta
| EVersion | EDowngrade | EEqual | ESelf | ECleanup | ECopy | EOther.

Inductive located :=
| LErr (e : ierr)
| LOk (exe : file) (pname : string) (copy : list file).
   (* copy = the regular files the copy step will see, as they are after setExecutable *)

Definition chmod_exec (n : string) (fs : list file) : list file :=
  map (fun f => if String.eqb (f_name f) n then set_exec f else f) fs.

(* [visited]: the regular files the walk visits, [top]: the regular top-level files *)
Definition finish_walk (visited top : list file) : located :=
  match walk wst0 visited with
  | WTwo => LErr ESrcTwoExec
  | WOk s =>
      match w_exe s with
      | Some (f, n) => LOk f n top
      | None =>
          match w_cands s with
          | [c] => LOk (set_exec c) (w_cname s) (chmod_exec (f_name c) top)
          | _ => LErr ESrcNoExec
          end
      end
  end.

Definition parse_dir (es : list entry) : located := finish_walk (top_files es) (top_files es).

(* source classification of Install *)
Definition locate (src : source) : located :=
  match src with
  | SNone => LErr EEmptyPath
  | SMissing => LErr ESrcStat
  | SSpecial n =>
      match pname_of n with None => LErr EFileName | Some _ => LErr ECheckExec end
  | SFile f =>
      match pname_of (f_name f) with
      | None => LErr EFileName
      | Some n => if is_exec f then LOk f n [f] else LErr ENotExec
      end
  | SDir _ es => parse_dir es
  end.

(* ---------- running a plugin file ---------- *)
Inductive answer :=
| AOk (name ver : string)    (* valid metadata whose name is the expected one *)
| AInvalid                   (* PluginMalformedError *)
| AMisnamed                  (* metadata.Name differs from the name in the file name *)
| AFail                      (* the file cannot be run *)
| AAbsent.                   (* Get failed: no such plugin *)

(* CLIPlugin.GetMetadata for plugin name [pname] on file f *)
Definition ask (tbl : table) (pname : string) (f : file) : answer :=
  if negb (is_exec f) then AFail
  else match tbl_get (f_cid f) tbl with
       | MOk n v => if String.eqb n pname then AOk n v else AMisnamed
       | MMalformed => AInvalid
       | MFail => AFail
       end.

Inductive getres := GBadName | GNone | GFound (f : file).

Definition dir_get (name : string) (od : option pdir) : getres :=
  if negb (valid_name name) then GBadName
  else match od with
       | None => GNone
       | Some d => match find_file (bin_name name) d with None => GNone | Some f => GFound f end
       end.

(* CLIManager.Get *)
Definition get_plugin (st : state) (name : string) : getres := dir_get name (afind name st).

(* Get(name) followed by GetMetadata, for a directory d of the root *)
Definition dir_answer (tbl : table) (name : string) (d : pdir) : answer :=
  match dir_get name (Some d) with
  | GFound f => ask tbl name f
  | _ => AAbsent
  end.

(* ---------- Install / Uninstall ---------- *)
Definition meta := (string * string)%type.        (* name, version *)
Record ires := mk_ires { r_existing : option meta; r_new : option meta; r_err : option ierr }.

Definition fail (st : state) (e : ierr) : state * ires := (st, mk_ires None None (Some e)).

(* clean up (Uninstall) then copy *)
Definition do_install (st : state) (pname : string) (copy : list file)
           (ex : option meta) (nw : meta) : state * ires :=
  if negb (valid_name pname) then fail st ECleanup
  else
    let st1 := aremove pname st in
    let st2 := match copy with [] => st1 | _ => ainsert pname (map mask copy) st1 end in
    (st2, mk_ires ex (Some nw) None).

Definition install_with (loc : located) (tbl : table) (st : state) (ow : bool) : state * ires :=
  match loc with
  | LErr e => fail st e
  | LOk exe pname copy =>
      match ask tbl pname exe with
      | AOk n v =>
          match get_plugin st pname with
          | GBadName => if ow then do_install st pname copy None (n, v) else fail st EExistCheck
          | GNone => do_install st pname copy None (n, v)
          | GFound f =>
              match ask tbl pname f with
              | AOk en ev =>
                  if ow then do_install st pname copy (Some (en, ev)) (n, v)
                  else match compare_plugin_version v ev with
                       | None => fail st EVersion
                       | Some Lt => fail st EDowngrade
                       | Some Eq => fail st EEqual
                       | Some Gt => do_install st pname copy (Some (en, ev)) (n, v)
                       end
              | _ => if ow then do_install st pname copy None (n, v) else fail st EExistMeta
              end
          end
      | AMisnamed => fail st EMisnamed
      | _ => fail st EMetaInvalid
      end
  end.

Definition install (tbl : table) (st : state) (src : source) (ow : bool) : state * ires :=
  install_with (locate src) tbl st ow.

Inductive uerr := UBadName | UNotExist | UOther.

Definition uninstall (st : state) (name : string) : state * option uerr :=
  if negb (valid_name name) then (st, Some UBadName)
  else match afind name st with
       | None => (st, Some UNotExist)
       | Some _ => (aremove name st, None)
       end.

(* ---------- where the source lies (after 6dc7abe) ---------- *)
(* [install] above is Install for a source that lies outside the plugin root and is not a
   link into it: nothing Install removes or changes can be part of it. The general form: *)
Inductive place :=
| POut (src : source)                  (* outside the plugin root, not a link into it *)
| PInDir (k : string)                  (* the directory <root>/k: given directly, with a trailing separator, or as a
                                          symbolic link to it given with a trailing separator *)
| PInFile (k fname : string)           (* the file <root>/k/fname *)
| PLinkDir                             (* a symbolic link to a directory (anywhere) given without trailing separator:
                                          os.Stat sees a directory, filepath.WalkDir does not follow the link *)
| PLinkFile (lname k fname : string).  (* a symbolic link named lname, outside the root, to <root>/k/fname *)

Record resolved := mk_res {
  rs_src : source;             (* what the path holds, as a source *)
  rs_home : option string;     (* Some k: filepath.Dir of the executable the source designates, symbolic links
                                  resolved (filepath.EvalSymlinks, ccdc027), is <root>/k *)
  rs_target : option string }. (* Some k: the source vanishes when <root>/k is removed *)

Definition resolve (st : state) (p : place) : resolved :=
  match p with
  | POut src => mk_res src None None
  | PInDir k =>
      match afind k st with
      | Some d => mk_res (SDir k (map EF d)) (Some k) (Some k)
      | None => mk_res SMissing None None
      end
  | PInFile k fname =>
      match afind k st with
      | Some d => match find_file fname d with
                  | Some f => mk_res (SFile f) (Some k) (Some k)
                  | None => mk_res SMissing None None
                  end
      | None => mk_res SMissing None None
      end
  | PLinkDir => mk_res (SDir "" []) None None
  | PLinkFile lname k fname =>
      match afind k st with
      | Some d => match find_file fname d with
                  | Some f => mk_res (SFile (F lname (f_mode f) (f_cid f))) (Some k) (Some k)
                  | None => mk_res SMissing None None
                  end
      | None => mk_res SMissing None None
      end
  end.

(* the value under the first key k replaced *)
Fixpoint areplace (k : string) (v : pdir) (m : state) : state :=
  match m with
  | [] => []
  | (k', v') :: m' => if String.eqb k k' then (k, v) :: m' else (k', v') :: areplace k v m'
  end.

(* setExecutable inside parsePluginFromDir works on the source: for a directory of the root the
   root itself changes ([copy] = the regular files of the directory as the walk left them) *)
Definition after_parse (st : state) (p : place) (loc : located) : state :=
  match p, loc with
  | PInDir k, LOk _ _ copy => areplace k copy st
  | _, _ => st
  end.

(* Install from the existence check on, with the function that finishes it as a parameter *)
Definition install_with_g (doi : state -> string -> list file -> option meta -> meta -> state * ires)
           (loc : located) (tbl : table) (st : state) (ow : bool) : state * ires :=
  match loc with
  | LErr e => fail st e
  | LOk exe pname copy =>
      match ask tbl pname exe with
      | AOk n v =>
          match get_plugin st pname with
          | GBadName => if ow then doi st pname copy None (n, v) else fail st EExistCheck
          | GNone => doi st pname copy None (n, v)
          | GFound f =>
              match ask tbl pname f with
              | AOk en ev =>
                  if ow then doi st pname copy (Some (en, ev)) (n, v)
                  else match compare_plugin_version v ev with
                       | None => fail st EVersion
                       | Some Lt => fail st EDowngrade
                       | Some Eq => fail st EEqual
                       | Some Gt => doi st pname copy (Some (en, ev)) (n, v)
                       end
              | _ => if ow then doi st pname copy None (n, v) else fail st EExistMeta
              end
          end
      | AMisnamed => fail st EMisnamed
      | _ => fail st EMetaInvalid
      end
  end.

Definition same_name (o : option string) (n : string) : bool := opt_eqb String.eqb o (Some n).

(* isSameDir check, clean up (Uninstall), copy — the copy reads the source after the clean-up *)
Definition do_install_at (rs : resolved) (st : state) (pname : string) (copy : list file)
           (ex : option meta) (nw : meta) : state * ires :=
  if same_name (rs_home rs) pname then fail st ESelf
  else if negb (valid_name pname) then fail st ECleanup
  else
    let st1 := aremove pname st in
    if same_name (rs_target rs) pname then (st1, mk_ires None None (Some ECopy))
    else
      let st2 := match copy with [] => st1 | _ => ainsert pname (map mask copy) st1 end in
      (st2, mk_ires ex (Some nw) None).

(* before 6dc7abe: no isSameDir check *)
Definition do_install_at_v0 (rs : resolved) (st : state) (pname : string) (copy : list file)
           (ex : option meta) (nw : meta) : state * ires :=
  if negb (valid_name pname) then fail st ECleanup
  else
    let st1 := aremove pname st in
    if same_name (rs_target rs) pname then (st1, mk_ires None None (Some ECopy))
    else
      let st2 := match copy with [] => st1 | _ => ainsert pname (map mask copy) st1 end in
      (st2, mk_ires ex (Some nw) None).

Definition install_at_g (doi : resolved -> state -> string -> list file -> option meta -> meta -> state * ires)
           (tbl : table) (st : state) (p : place) (ow : bool) : state * ires :=
  let rs := resolve st p in
  let loc := locate (rs_src rs) in
  install_with_g (doi rs) loc tbl (after_parse st p loc) ow.

Definition install_at : table -> state -> place -> bool -> state * ires := install_at_g do_install_at.
Definition install_at_v0 : table -> state -> place -> bool -> state * ires := install_at_g do_install_at_v0.

(* between 6dc7abe and ccdc027: the directory of the source path was compared as given, so a link
   elsewhere to <root>/k/fname passed the check *)
Definition resolve_v1 (st : state) (p : place) : resolved :=
  match p with
  | PLinkFile _ _ _ => let rs := resolve st p in mk_res (rs_src rs) None (rs_target rs)
  | _ => resolve st p
  end.

Definition install_at_v1 (tbl : table) (st : state) (p : place) (ow : bool) : state * ires :=
  let rs := resolve_v1 st p in
  let loc := locate (rs_src rs) in
  install_with_g (do_install_at rs) loc tbl (after_parse st p loc) ow.

(* "the source is not an installed plugin directory holding a non-executable candidate": for a
   directory source whose only file named notation-{name} is not executable Install sets the
   user-executable bit and tries to install it (documented behaviour of a directory source, logged as
   a warning); when that directory is a directory of the plugin root the root itself is changed by
   this, before anything is checked *)
Definition not_installed_dir_with_nonexec_candidate (st : state) (p : place) : bool :=
  match p with
  | PInDir k =>
      match afind k st with
      | Some d => match filter is_exec (filter is_cand d), filter is_cand d with
                  | [], [_] => false
                  | _, _ => true
                  end
      | None => true
      end
  | _ => true
  end.

(* ---------- pre-fix variants (kept for the record; see C20_Proofs) ---------- *)
(* before 3438892: candidatePluginName was assigned before the format check, so a
   later file whose name does not match erased it *)
Definition visit_v0 (s : wst) (f : file) : wres :=
  match pname_of (f_name f) with
  | None => WOk (mk_wst (w_exe s) (w_cands s) "")
  | Some n =>
      let cands := (w_cands s ++ [f])%list in
      if negb (is_exec f) then WOk (mk_wst (w_exe s) cands n)
      else match w_exe s with
           | Some _ => WTwo
           | None => WOk (mk_wst (Some (f, n)) cands n)
           end
  end.
Fixpoint walk_v0 (s : wst) (fs : list file) : wres :=
  match fs with
  | [] => WOk s
  | f :: r => match visit_v0 s f with WTwo => WTwo | WOk s' => walk_v0 s' r end
  end.
Definition parse_dir_v0 (es : list entry) : located :=
  let top := top_files es in
  match walk_v0 wst0 top with
  | WTwo => LErr ESrcTwoExec
  | WOk s =>
      match w_exe s with
      | Some (f, n) => LOk f n top
      | None =>
          match w_cands s with
          | [c] => LOk (set_exec c) (w_cname s) (chmod_exec (f_name c) top)
          | _ => LErr ESrcNoExec
          end
      end
  end.

(* before 6476a8b: CopyDirToDir walked sub-directories and copied their files flat *)
Fixpoint all_files (es : list entry) : list file :=
  match es with
  | [] => []
  | EF f :: r => f :: all_files r
  | ED _ fs :: r => (fs ++ all_files r)%list
  | EL _ :: r => all_files r
  end.
Definition parse_dir_copyall (es : list entry) : located :=
  match parse_dir es with
  | LOk exe n _ => LOk exe n (all_files es)
  | e => e
  end.

(* before 9291f82: parsePluginFromDir walked into a sub-directory named like the
   source directory (the copy did not) *)
Fixpoint visited_selfdir (base : string) (es : list entry) : list file :=
  match es with
  | [] => []
  | EF f :: r => f :: visited_selfdir base r
  | ED n fs :: r => if String.eqb n base then (fs ++ visited_selfdir base r)%list else visited_selfdir base r
  | EL _ :: r => visited_selfdir base r
  end.
Definition parse_dir_selfdir (base : string) (es : list entry) : located :=
  finish_walk (visited_selfdir base es) (top_files es).

(* ---------- views, operations, observations ---------- *)
Record view := mk_view {
  v_tree : state;                          (* every directory of the root with its files *)
  v_list : list string;                    (* CLIManager.List *)
  v_answers : list (string * answer) }.    (* Get(name) + GetMetadata for every directory *)

Definition answers_of (tbl : table) (st : state) : list (string * answer) :=
  map (fun p => (fst p, dir_answer tbl (fst p) (snd p))) st.

Definition view_of (tbl : table) (st : state) : view :=
  mk_view st (map fst st) (answers_of tbl st).

Inductive op := OInstall (src : source) (ow : bool) | OUninstall (name : string).
Inductive sres := RInstall (r : ires) | RUninstall (e : option uerr).
Record sobs := mk_sobs { s_res : sres; s_view : view }.

Definition mstep (tbl : table) (st : state) (o : op) : state * sres :=
  match o with
  | OInstall src ow => let (st', r) := install tbl st src ow in (st', RInstall r)
  | OUninstall n => let (st', e) := uninstall st n in (st', RUninstall e)
  end.

Fixpoint run_ops (tbl : table) (st : state) (ops : list op) : list sobs :=
  match ops with
  | [] => []
  | o :: r => let (st', res) := mstep tbl st o in
              mk_sobs res (view_of tbl st') :: run_ops tbl st' r
  end.

(* the state after a history *)
Fixpoint final_state (tbl : table) (st : state) (ops : list op) : state :=
  match ops with
  | [] => st
  | o :: r => final_state tbl (fst (mstep tbl st o)) r
  end.

(* histories whose installations name the place of the source *)
Inductive opat := AInstall (p : place) (ow : bool) | AUninstall (name : string).

Definition mstep_at (tbl : table) (st : state) (o : opat) : state * sres :=
  match o with
  | AInstall p ow => let (st', r) := install_at tbl st p ow in (st', RInstall r)
  | AUninstall n => let (st', e) := uninstall st n in (st', RUninstall e)
  end.

Fixpoint run_ops_at (tbl : table) (st : state) (ops : list opat) : list sobs :=
  match ops with
  | [] => []
  | o :: r => let (st', res) := mstep_at tbl st o in
              mk_sobs res (view_of tbl st') :: run_ops_at tbl st' r
  end.

Fixpoint final_state_at (tbl : table) (st : state) (ops : list opat) : state :=
  match ops with
  | [] => st
  | o :: r => final_state_at tbl (fst (mstep_at tbl st o)) r
  end.

Inductive input :=
| IHist (tbl : table) (init : state) (ops : list op)
| ICmp (v w : string)
| IHistAt (tbl : table) (init : state) (ops : list opat).

Inductive obs :=
| OHist (v0 : view) (steps : list sobs)
| OCmp (r : option comparison).

Definition model (i : input) : obs :=
  match i with
  | IHist tbl st ops => OHist (view_of tbl st) (run_ops tbl st ops)
  | ICmp v w => OCmp (compare_plugin_version v w)
  | IHistAt tbl st ops => OHist (view_of tbl st) (run_ops_at tbl st ops)
  end.

(* ---------- boolean equalities ---------- *)
Definition file_eqb (a b : file) : bool :=
  String.eqb (f_name a) (f_name b) && (f_mode a =? f_mode b)%N && (f_cid a =? f_cid b)%N.
Definition pdir_eqb : pdir -> pdir -> bool := list_eqb file_eqb.
Definition state_eqb : state -> state -> bool :=
  list_eqb (fun a b => String.eqb (fst a) (fst b) && pdir_eqb (snd a) (snd b)).
Definition answer_eqb (a b : answer) : bool :=
  match a, b with
  | AOk n v, AOk n' v' => String.eqb n n' && String.eqb v v'
  | AInvalid, AInvalid | AMisnamed, AMisnamed | AFail, AFail | AAbsent, AAbsent => true
  | _, _ => false
  end.
Definition answers_eqb : list (string * answer) -> list (string * answer) -> bool :=
  list_eqb (fun a b => String.eqb (fst a) (fst b) && answer_eqb (snd a) (snd b)).
Definition meta_eqb (a b : meta) : bool := String.eqb (fst a) (fst b) && String.eqb (snd a) (snd b).
Definition ierr_eqb (a b : ierr) : bool :=
  match a, b with
  | EEmptyPath, EEmptyPath | ESrcStat, ESrcStat | ESrcTwoExec, ESrcTwoExec | ESrcNoExec, ESrcNoExec
  | EFileName, EFileName | ECheckExec, ECheckExec | ENotExec, ENotExec | ENewPlugin, ENewPlugin
  | EMetaInvalid, EMetaInvalid | EMisnamed, EMisnamed | EExistCheck, EExistCheck
  | EExistMeta, EExistMeta | EVersion, EVersion | EDowngrade, EDowngrade | EEqual, EEqual
  | ESelf, ESelf | ECleanup, ECleanup | ECopy, ECopy | EOther, EOther => true
  | _, _ => false
  end.
Definition uerr_eqb (a b : uerr) : bool :=
  match a, b with
  | UBadName, UBadName | UNotExist, UNotExist | UOther, UOther => true
  | _, _ => false
  end.
Definition cmp_eqb (a b : comparison) : bool :=
  match a, b with Eq, Eq | Lt, Lt | Gt, Gt => true | _, _ => false end.
Definition ires_eqb (a b : ires) : bool :=
  opt_eqb meta_eqb (r_existing a) (r_existing b) && opt_eqb meta_eqb (r_new a) (r_new b)
  && opt_eqb ierr_eqb (r_err a) (r_err b).
Definition sres_eqb (a b : sres) : bool :=
  match a, b with
  | RInstall x, RInstall y => ires_eqb x y
  | RUninstall x, RUninstall y => opt_eqb uerr_eqb x y
  | _, _ => false
  end.
Definition view_eqb (a b : view) : bool :=
  state_eqb (v_tree a) (v_tree b) && list_eqb String.eqb (v_list a) (v_list b)
  && answers_eqb (v_answers a) (v_answers b).
Definition sobs_eqb (a b : sobs) : bool :=
  sres_eqb (s_res a) (s_res b) && view_eqb (s_view a) (s_view b).
Definition obs_eqb (a b : obs) : bool :=
  match a, b with
  | OHist v s, OHist v' s' => view_eqb v v' && list_eqb sobs_eqb s s'
  | OCmp r, OCmp r' => opt_eqb cmp_eqb r r'
  | _, _ => false
  end.

(* ---------- the property oracle (on observations only; never calls [model]) ---------- *)

(* the plugin executable of a source, read declaratively: the single file for a
   file source; for a directory the only executable regular top-level file named
   notation-{name}, or, when none is executable, the only file so named (which
   Install makes executable) *)
Definition spec_exe (src : source) : option file :=
  match src with
  | SFile f => if is_exec f then Some f else None
  | SDir _ es =>
      let c := filter is_cand (top_files es) in
      match filter is_exec c with
      | [e] => Some e
      | [] => match c with [x] => Some (set_exec x) | _ => None end
      | _ => None
      end
  | _ => None
  end.

(* the regular top-level files of a source, as they are when they are copied *)
Definition spec_files (src : source) : list file :=
  match src with
  | SFile f => [f]
  | SDir _ es =>
      let c := filter is_cand (top_files es) in
      match filter is_exec c, c with
      | [], [x] => chmod_exec (f_name x) (top_files es)
      | _, _ => top_files es
      end
  | _ => []
  end.

(* what the plugin called n currently installed in tree T answers; None: not there *)
Definition existing (tbl : table) (T : state) (n : string) : option answer :=
  match afind n T with
  | None => None
  | Some d => match find_file (bin_name n) d with None => None | Some f => Some (ask tbl n f) end
  end.

(* the new plugin of an installation whose source and metadata are usable:
   (plugin name, version) *)
Definition candidate (tbl : table) (src : source) : option (string * string) :=
  match spec_exe src with
  | None => None
  | Some e =>
      match pname_of (f_name e) with
      | None => None
      | Some n =>
          if negb (valid_name n) then None
          else match tbl_get (f_cid e) tbl with
               | MOk mn v => if String.eqb mn n then Some (n, v) else None
               | _ => None
               end
      end
  end.

(* must this installation succeed, and with which (name, version, existing metadata)? *)
Definition verdict (tbl : table) (T : state) (src : source) (ow : bool)
  : option (string * string * option meta) :=
  match candidate tbl src with
  | None => None
  | Some (n, v) =>
      match existing tbl T n with
      | None => Some (n, v, None)
      | Some (AOk en ev) => if ow || sv_higher v ev then Some (n, v, Some (en, ev)) else None
      | Some _ => if ow then Some (n, v, None) else None
      end
  end.

(* the three version errors are returned exactly in their situations *)
Definition version_err_ok (tbl : table) (T : state) (src : source) (ow : bool) (e : ierr) : bool :=
  let situation :=
    match candidate tbl src with
    | Some (n, v) => match existing tbl T n with Some (AOk _ ev) => Some (v, ev) | _ => None end
    | None => None
    end in
  match e with
  | EDowngrade | EEqual | EVersion =>
      negb ow &&
      match situation with
      | None => false
      | Some (v, ev) =>
          let valid := sv_valid v && sv_valid ev in
          match e with
          | EDowngrade => valid && cmp_eqb (prec_of v ev) Lt
          | EEqual => valid && cmp_eqb (prec_of v ev) Eq
          | _ => negb valid
          end
      end
  | _ => true
  end.

Definition is_none {A} (o : option A) : bool := match o with None => true | Some _ => false end.

Definition install_ok (tbl : table) (T : state) (src : source) (ow : bool) (r : ires) (v' : view) : bool :=
  let T' := v_tree v' in
  match verdict tbl T src ow, r_err r with
  | Some (n, v, ex), None =>
      opt_eqb meta_eqb (r_new r) (Some (n, v))
      && opt_eqb meta_eqb (r_existing r) ex
      && opt_eqb pdir_eqb (afind n T') (Some (map mask (spec_files src)))   (* exactly the source's files *)
      && state_eqb (aremove n T') (aremove n T)                              (* nothing else touched *)
      && mem_str n (v_list v')                                               (* listed *)
      && opt_eqb answer_eqb (afind n (v_answers v')) (Some (AOk n v))        (* answers with the new metadata *)
  | None, Some e =>
      state_eqb T' T && is_none (r_new r) && is_none (r_existing r)
      && version_err_ok tbl T src ow e
  | _, _ => false
  end.

Definition uninstall_ok (T : state) (name : string) (e : option uerr) (v' : view) : bool :=
  let T' := v_tree v' in
  let there := negb (is_none (afind name T)) in
  match e with
  | None => valid_name name && there && state_eqb T' (aremove name T)
  | Some UBadName => negb (valid_name name) && state_eqb T' T
  | Some UNotExist => valid_name name && negb there && state_eqb T' T
  | Some UOther => false
  end.

(* List and Get agree with the tree: every directory is listed, and every plugin
   behaves as its files say *)
Definition view_ok (tbl : table) (v : view) : bool :=
  list_eqb String.eqb (v_list v) (map fst (v_tree v))
  && answers_eqb (v_answers v) (answers_of tbl (v_tree v)).

Definition step_ok (tbl : table) (T : state) (o : op) (s : sobs) : bool :=
  view_ok tbl (s_view s)
  && match o, s_res s with
     | OInstall src ow, RInstall r => install_ok tbl T src ow r (s_view s)
     | OUninstall n, RUninstall e => uninstall_ok T n e (s_view s)
     | _, _ => false
     end.

Fixpoint steps_ok (tbl : table) (T : state) (ops : list op) (ss : list sobs) : bool :=
  match ops, ss with
  | [], [] => true
  | o :: ops', s :: ss' => step_ok tbl T o s && steps_ok tbl (v_tree (s_view s)) ops' ss'
  | _, _ => false
  end.

(* an installation that names the place of its source: judged as the installation of what the
   place holds ([resolve] on the tree observed before the step: a look-up, not the model of
   Install) - accepted or refused by the same rules, the root untouched when refused -; the only
   further reason to refuse is that the source lies in the very directory that would be replaced,
   and then again nothing may change *)
Definition install_at_ok (tbl : table) (T : state) (p : place) (ow : bool) (r : ires) (v' : view) : bool :=
  let rs := resolve T p in
  install_ok tbl T (rs_src rs) ow r v'
  || match verdict tbl T (rs_src rs) ow, r_err r with
     | Some (n, _, _), Some _ =>
         same_name (rs_target rs) n && state_eqb (v_tree v') T && is_none (r_new r) && is_none (r_existing r)
     | _, _ => false
     end.

Definition step_ok_at (tbl : table) (T : state) (o : opat) (s : sobs) : bool :=
  view_ok tbl (s_view s)
  && match o, s_res s with
     | AInstall p ow, RInstall r => install_at_ok tbl T p ow r (s_view s)
     | AUninstall n, RUninstall e => uninstall_ok T n e (s_view s)
     | _, _ => false
     end.

Fixpoint steps_ok_at (tbl : table) (T : state) (ops : list opat) (ss : list sobs) : bool :=
  match ops, ss with
  | [], [] => true
  | o :: ops', s :: ss' => step_ok_at tbl T o s && steps_ok_at tbl (v_tree (s_view s)) ops' ss'
  | _, _ => false
  end.

Definition spec_ok (i : input) (o : obs) : bool :=
  match i, o with
  | IHistAt tbl st ops, OHist v0 ss =>
      state_eqb (v_tree v0) st && view_ok tbl v0 && steps_ok_at tbl st ops ss
  | IHist tbl st ops, OHist v0 ss =>
      state_eqb (v_tree v0) st && view_ok tbl v0 && steps_ok tbl st ops ss
  | ICmp v w, OCmp r =>
      opt_eqb cmp_eqb r (if sv_valid v && sv_valid w then Some (prec_of v w) else None)
  | _, _ => false
  end.

(* ---------- input contract ---------- *)
Fixpoint nodupb (l : list string) : bool :=
  match l with [] => true | x :: r => negb (mem_str x r) && nodupb r end.

Fixpoint sortedb (l : list string) : bool :=
  match l with
  | a :: (b :: _) as r => match str_cmp a b with Lt => sortedb r | _ => false end
  | _ => true
  end.

Definition entry_name (e : entry) : string :=
  match e with EF f => f_name f | ED n _ => n | EL n => n end.

(* permission bits only; readable by the owner; executable by someone only if by the owner *)
Definition mode_ok (m : N) : bool :=
  (m <? 512)%N && N.testbit m 8 && (N.testbit m 6 || negb (N.testbit m 3 || N.testbit m 0)).

Definition file_ok (f : file) : bool := mode_ok (f_mode f).

Definition source_ok (s : source) : bool :=
  match s with
  | SFile f => file_ok f
  | SDir _ es =>
      nodupb (map f_name (top_files es))            (* a directory holds a name once *)
      && sortedb (map entry_name es)                (* listed in the order ReadDir returns *)
      && forallb (fun e => match e with EF f => file_ok f | ED _ fs => forallb file_ok fs | EL _ => true end) es
  | _ => true
  end.

Definition op_ok (o : op) : bool :=
  match o with OInstall s _ => source_ok s | OUninstall _ => true end.

Definition state_ok (st : state) : bool :=
  sortedb (map fst st)
  && forallb (fun p => sortedb (map f_name (snd p)) && forallb file_ok (snd p)) st.

Definition opat_ok (o : opat) : bool :=
  match o with AInstall (POut s) _ => source_ok s | _ => true end.

(* along the history as the model runs it: what every place holds is a well-formed source, and
   no directory source is an installed plugin directory holding a non-executable candidate *)
Fixpoint at_ok (tbl : table) (st : state) (ops : list opat) : bool :=
  match ops with
  | [] => true
  | o :: r =>
      match o with
      | AInstall p _ => source_ok (rs_src (resolve st p)) && not_installed_dir_with_nonexec_candidate st p
      | AUninstall _ => true
      end && at_ok tbl (fst (mstep_at tbl st o)) r
  end.

(* the contract the driver applies before it asks the oracle (on the input alone) *)
Definition wf_static (i : input) : bool :=
  match i with
  | IHist _ st ops => state_ok st && forallb op_ok ops
  | ICmp _ _ => true
  | IHistAt _ st ops => state_ok st && forallb opat_ok ops
  end.

(* the contract of the theorem C20_model_meets_oracle *)
Definition wf (i : input) : bool :=
  wf_static i && match i with IHistAt tbl st ops => at_ok tbl st ops | _ => true end.

(* ---------- cases ---------- *)
Record case := mk_case { c_id : N; c_in : input; c_obs : obs }.

Definition run (cs : list case) : list (N * N * N) :=
  run_cases c_id
    (fun c => obs_eqb (model (c_in c)) (c_obs c))
    (fun c => negb (wf_static (c_in c)) || spec_ok (c_in c) (c_obs c))
    (fun _ => 0%N) cs.
