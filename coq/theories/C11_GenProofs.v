(* C11_GenProofs.v — the GoLite translations of the function bodies listed in
   harness/cmd/vh-gen/targets_c11.go (theories/C11_Gen.v, regenerated from /repo by
   `vh-gen` on every run, docs/GOLITE.md) against the hand-written C11 model
   (C11_Model.v). Every theorem quantifies over ALL inputs of the generated function.
   The statements are repeated in props/C11_Generated.v ([exact] + Print Assumptions).

   Errors are compared through [res_of]: the classification of the correspondence
   harness (harness/cmd/vh-c11/main.go, classify), applied to the error's type and
   format string (message texts are not modelled by GoLite; the format string of an
   errors.New is its message). *)
From Coq Require Import List Bool String Ascii NArith ZArith Lia.
From NV Require Import Base Generated GoLib C11_Model C11_Proofs C11_Gen.
Import ListNotations.
Local Open Scope string_scope.
Local Open Scope list_scope.

(* ---------- abstraction of errors: which refusal of SignOCI an error value is ---------- *)

Definition class_of_err (e : err) : option res :=
  let f := err_fmt e in
  if String.eqb (err_typ e) "notation.ErrorPushSignatureFailed" then Some EPush
  else if String.eqb f "signer cannot be nil" then Some EArgSigner
  else if String.eqb f "expiry duration cannot be a negative value" then Some EArgExpiryNeg
  else if String.eqb f "expiry duration supports minimum granularity of seconds" then Some EArgExpiryGran
  else if String.eqb f "signature media-type cannot be empty" then Some EArgMtEmpty
  else if str_has_prefix "invalid signature media-type" f then Some EArgMtInvalid
  else if String.eqb f "repo cannot be nil" then Some ERepoNil
  else if str_has_prefix "failed to resolve reference" f then Some EResolve
  else if str_has_prefix "user input digest" f then Some EDigestMismatch
  else if str_has_prefix "error adding user metadata" f && str_contains " has reserved prefix " f
       then Some EMetaReserved
  else if str_has_prefix "error adding user metadata" f
          && str_has_suffix " is already present in the target artifact" f then Some EMetaPresent
  else if String.eqb f "failed to generate annotations: signerInfo cannot be nil" then Some EAnnInfoNil
  else if String.eqb f "signing time is missing" then Some EAnnTime
  else None.

(* None = the nil error; Some None = an error the table does not know *)
Definition res_of (e : option err) : option (option res) := option_map class_of_err e.

(* a closed leaf of a case analysis; a readable message when the code changed *)
Ltac leaf msg :=
  first [ solve [vm_compute; reflexivity]
        | fail 1 "generated code differs from the C11 model:" msg ].

(* ---------- validateSigMediaType (notation.go) ---------- *)

(* the media types of /repo's constants are those of the model *)
Lemma gen_sig_media_type_equiv : forall mt,
  res_of (gen_notation_go_validateSigMediaType mt)
  = if valid_mt mt then None else Some (Some EArgMtInvalid).
Proof.
  intro mt. unfold gen_notation_go_validateSigMediaType, valid_mt, mt_jws, mt_cose.
  destruct (String.eqb mt "application/jose+json");
    [leaf "the JWS envelope media type is not accepted"|].
  destruct (String.eqb mt "application/cose");
    [leaf "the COSE envelope media type is not accepted"
    |leaf "a media type other than JWS / COSE is not refused as invalid"].
Qed.

Lemma gen_sig_media_type_accepts_iff : forall mt,
  gen_notation_go_validateSigMediaType mt = None
  <-> (mt = "application/jose+json" \/ mt = "application/cose").
Proof.
  intro mt. pose proof (gen_sig_media_type_equiv mt) as H.
  assert (V : valid_mt mt = true <-> (mt = "application/jose+json" \/ mt = "application/cose")).
  { unfold valid_mt, mt_jws, mt_cose. rewrite orb_true_iff, !String.eqb_eq. tauto. }
  rewrite <- V. destruct (valid_mt mt);
    destruct (gen_notation_go_validateSigMediaType mt); cbn in H; try discriminate;
    split; intro G; try discriminate; reflexivity.
Qed.

(* the place of the model where the same decision is made: the last test of [validate]
   (validateSignArguments calls validateSigMediaType after its own four tests) *)
Lemma gen_sig_media_type_in_validate : forall c,
  ci_signer_nil c = false -> (ci_expiry c <? 0)%Z = false ->
  (Z.rem (ci_expiry c) 1000000000 =? 0)%Z = true -> ci_mt c <> "" ->
  option_map Some (validate c) = res_of (gen_notation_go_validateSigMediaType (ci_mt c)).
Proof.
  intros c Hs Hn Hg Hm. rewrite gen_sig_media_type_equiv. unfold validate.
  rewrite Hs, Hn, Hg. apply String.eqb_neq in Hm. rewrite Hm. cbn [negb].
  destruct (valid_mt (ci_mt c)); reflexivity.
Qed.
