(* C11_GenProofs.v — the GoLite translations of the function bodies listed in
   harness/cmd/vh-gen/targets_c11.go (theories/C11_Gen.v, regenerated from /repo by
   `vh-gen` on every run, docs/GOLITE.md) against the hand-written C11 model
   (C11_Model.v). Every theorem quantifies over ALL inputs of the generated function.
   The statements are repeated in props/C11_Generated.v ([exact] + Print Assumptions).

   Errors are compared through [res_of]: the classification of the correspondence
   harness (harness/cmd/vh-c11/main.go, classify), applied to the error's type and
   format string (message texts are not modelled by GoLite; the format string of an
   errors.New is its message). *)
From Coq Require Import List Bool String Ascii NArith ZArith Lia.
From NV Require Import Base Generated GoLib C11_Model C11_Proofs C11_Audit C11_Gen.
Import ListNotations.
Local Open Scope string_scope.
Local Open Scope list_scope.

(* ---------- abstraction of errors: which refusal of SignOCI an error value is ---------- *)

Definition class_of_err (e : err) : option res :=
  let f := err_fmt e in
  if String.eqb (err_typ e) "notation.PushSignatureFailedError" then Some EPush
  else if String.eqb f "signer cannot be nil" then Some EArgSigner
  else if String.eqb f "expiry duration cannot be a negative value" then Some EArgExpiryNeg
  else if String.eqb f "expiry duration supports minimum granularity of seconds" then Some EArgExpiryGran
  else if String.eqb f "signature media-type cannot be empty" then Some EArgMtEmpty
  else if str_has_prefix "invalid signature media-type" f then Some EArgMtInvalid
  else if String.eqb f "repo cannot be nil" then Some ERepoNil
  else if str_has_prefix "failed to resolve reference" f then Some EResolve
  else if str_has_prefix "user input digest" f then Some EDigestMismatch
  else if str_has_prefix "error adding user metadata" f && str_contains " has reserved prefix " f
       then Some EMetaReserved
  else if str_has_prefix "error adding user metadata" f
          && str_has_suffix " is already present in the target artifact" f then Some EMetaPresent
  else if String.eqb f "failed to generate annotations: signerInfo cannot be nil" then Some EAnnInfoNil
  else if String.eqb f "signing time is missing" then Some EAnnTime
  else None.

(* None = the nil error; Some None = an error the table does not know *)
Definition res_of (e : option err) : option (option res) := option_map class_of_err e.

(* a closed leaf of a case analysis; a readable message when the code changed *)
Ltac leaf msg :=
  first [ solve [vm_compute; reflexivity]
        | fail 1 "generated code differs from the C11 model:" msg ].

(* ---------- validateSigMediaType (notation.go) ---------- *)

(* the media types of /repo's constants are those of the model *)
Lemma gen_sig_media_type_equiv : forall mt,
  res_of (gen_notation_go_validateSigMediaType mt)
  = if valid_mt mt then None else Some (Some EArgMtInvalid).
Proof.
  intro mt. unfold gen_notation_go_validateSigMediaType, valid_mt, mt_jws, mt_cose.
  destruct (String.eqb mt "application/jose+json");
    [leaf "the JWS envelope media type is not accepted"|].
  destruct (String.eqb mt "application/cose");
    [leaf "the COSE envelope media type is not accepted"
    |leaf "a media type other than JWS / COSE is not refused as invalid"].
Qed.

Lemma gen_sig_media_type_accepts_iff : forall mt,
  gen_notation_go_validateSigMediaType mt = None
  <-> (mt = "application/jose+json" \/ mt = "application/cose").
Proof.
  intro mt. pose proof (gen_sig_media_type_equiv mt) as H.
  assert (V : valid_mt mt = true <-> (mt = "application/jose+json" \/ mt = "application/cose")).
  { unfold valid_mt, mt_jws, mt_cose. rewrite orb_true_iff, !String.eqb_eq. tauto. }
  rewrite <- V. destruct (valid_mt mt);
    destruct (gen_notation_go_validateSigMediaType mt); cbn in H; try discriminate;
    split; intro G; try discriminate; reflexivity.
Qed.

(* the place of the model where the same decision is made: the last test of [validate]
   (validateSignArguments calls validateSigMediaType after its own four tests) *)
Lemma gen_sig_media_type_in_validate : forall c,
  ci_signer_nil c = false -> (ci_expiry c <? 0)%Z = false ->
  (Z.rem (ci_expiry c) 1000000000 =? 0)%Z = true -> ci_mt c <> "" ->
  option_map Some (validate c) = res_of (gen_notation_go_validateSigMediaType (ci_mt c)).
Proof.
  intros c Hs Hn Hg Hm. rewrite gen_sig_media_type_equiv. unfold validate.
  rewrite Hs, Hn, Hg. apply String.eqb_neq in Hm. rewrite Hm. cbn [negb].
  destruct (valid_mt (ci_mt c)); reflexivity.
Qed.
(* ---------- validateSignArguments (notation.go) ---------- *)

Section SignArguments.
Variables (Pool Cert : Type).

(* the code's sanity check of the sign options reports exactly what the model's [validate]
   reports, test by test and in the same order, on every option value *)
Lemma gen_validateSignArguments_equiv : forall (c : call_in) (signer : anyv) (o : notation_go_SignerSignOptions Pool Cert),
  ci_signer_nil c = any_is_nil signer ->
  ci_expiry c = SignerSignOptions_ExpiryDuration Pool Cert o ->
  ci_mt c = SignerSignOptions_SignatureMediaType Pool Cert o ->
  res_of (gen_notation_go_validateSignArguments Pool Cert signer o) = option_map Some (validate c).
Proof.
  intros c signer o Hs He Hm. unfold gen_notation_go_validateSignArguments, validate.
  rewrite Hs, He, Hm. cbv zeta.
  destruct (any_is_nil signer); [leaf "a nil signer is not refused first"|].
  destruct (SignerSignOptions_ExpiryDuration Pool Cert o <? 0)%Z; [leaf "negative expiry"|].
  destruct (Z.rem (SignerSignOptions_ExpiryDuration Pool Cert o) 1000000000 =? 0)%Z; cbn [negb];
    [|leaf "expiry that is not a whole number of seconds"].
  destruct (String.eqb (SignerSignOptions_SignatureMediaType Pool Cert o) "");
    [leaf "empty signature media type"|].
  pose proof (gen_sig_media_type_equiv (SignerSignOptions_SignatureMediaType Pool Cert o)) as G.
  destruct (gen_notation_go_validateSigMediaType _) as [e|]; cbn [GoLib.is_none negb];
    rewrite G; destruct (valid_mt _); reflexivity.
Qed.
End SignArguments.

(* ---------- envelope.SigningTime (internal/envelope/envelope.go) ---------- *)

Section SigningTime.
Variable Cert : Type.
(* the model's input [si_chain]: hex SHA-256 of cert.Raw (crypto/sha256, encoding/hex) *)
Variable thumb : Cert -> string.

(* time.Time is an instant in Unix nanoseconds (GoLib); the model counts Unix seconds and
   has [None] for the zero time *)
Definition time_of (t : Z) : option Z :=
  if time_is_zero t then None else Some (t / 1000000000)%Z.

Definition signing_time_ns (si : signature_SignerInfo Cert) : Z :=
  SignedAttributes_SigningTime (SignerInfo_SignedAttributes Cert si).

(* a *signature.SignerInfo as the model's [option sinfo] *)
Definition sinfo_of (p : ptr (signature_SignerInfo Cert)) : option sinfo :=
  option_map (fun si => mk_sinfo (map thumb (SignerInfo_CertificateChain Cert si))
                                 (time_of (signing_time_ns si))) (ptr_val p).

Lemma gen_SigningTime_equiv : forall utc p,
  res_of (snd (gen_envelope_SigningTime Cert utc p))
  = match sinfo_of p with
    | None => Some (Some EAnnInfoNil)
    | Some si => match si_time si with None => Some (Some EAnnTime) | Some _ => None end
    end
  /\ (snd (gen_envelope_SigningTime Cert utc p) = None ->
      exists si, ptr_val p = Some si
                 /\ fst (gen_envelope_SigningTime Cert utc p) = utc (signing_time_ns si)).
Proof.
  intros utc p. unfold gen_envelope_SigningTime, sinfo_of, time_of, signing_time_ns.
  destruct (ptr_val p) as [si|]; cbn [option_map si_time]; cbv zeta.
  - destruct (time_is_zero _); cbn [fst snd].
    + split; [leaf "a zero signing time is not refused as missing"|discriminate].
    + split; [reflexivity|]. intros _. exists si. split; reflexivity.
  - cbn [fst snd]. split; [leaf "a nil SignerInfo is not refused"|discriminate].
Qed.

(* where the model makes these two decisions: [gen_ann] (generateAnnotations) fails with
   exactly the class SigningTime reports, and produces annotations exactly when it
   reports none *)
Lemma gen_SigningTime_in_gen_ann : forall utc p h pa,
  match res_of (snd (gen_envelope_SigningTime Cert utc p)) with
  | None => exists r, snd (gen_ann h (sinfo_of p) pa) = inr r
  | Some (Some e) => snd (gen_ann h (sinfo_of p) pa) = inl e
  | Some None => False
  end.
Proof.
  intros utc p h pa. rewrite (proj1 (gen_SigningTime_equiv utc p)). unfold gen_ann.
  destruct (sinfo_of p) as [si|]; [|reflexivity].
  destruct (awrite k_thumb _ h _) as [h1 r1].
  destruct (si_time si) as [t|]; [|reflexivity].
  destruct (awrite k_created _ h1 r1) as [h2 r2]. exists r2. reflexivity.
Qed.

(* the instant the code hands to Format(time.RFC3339) is the one the model formats with
   [rfc3339]; hypothesis on the oracle: Time.UTC() keeps the instant *)
Lemma gen_SigningTime_value : forall utc p si,
  (forall t, utc t = t) ->
  sinfo_of p = Some si ->
  snd (gen_envelope_SigningTime Cert utc p) = None ->
  si_time si = Some (fst (gen_envelope_SigningTime Cert utc p) / 1000000000)%Z.
Proof.
  intros utc p si Hutc Hp Hn.
  destruct (proj2 (gen_SigningTime_equiv utc p) Hn) as [s [Hs Hv]]. rewrite Hv, Hutc.
  pose proof (proj1 (gen_SigningTime_equiv utc p)) as Hc. rewrite Hn, Hp in Hc. cbn in Hc.
  unfold sinfo_of in Hp. rewrite Hs in Hp. cbn in Hp. injection Hp as <-. cbn [si_time] in *.
  unfold time_of in *. destruct (time_is_zero (signing_time_ns s)); [discriminate|reflexivity].
Qed.
End SigningTime.

(* ---------- transport: C11_accepts with the code's own argument check ---------- *)

Lemma gen_validateSignArguments_nil_iff : forall Pool Cert (c : call_in) signer (o : notation_go_SignerSignOptions Pool Cert),
  ci_signer_nil c = any_is_nil signer ->
  ci_expiry c = SignerSignOptions_ExpiryDuration Pool Cert o ->
  ci_mt c = SignerSignOptions_SignatureMediaType Pool Cert o ->
  (gen_notation_go_validateSignArguments Pool Cert signer o = None <-> validate c = None).
Proof.
  intros Pool Cert c signer o Hs He Hm.
  pose proof (gen_validateSignArguments_equiv Pool Cert c signer o Hs He Hm) as H.
  destruct (gen_notation_go_validateSignArguments Pool Cert signer o); destruct (validate c);
    cbn in H; try discriminate; split; intro G; try discriminate; reflexivity.
Qed.

Lemma gen_accepts : forall Pool Cert signer (o : notation_go_SignerSignOptions Pool Cert) tbl st c st' t d,
  ci_signer_nil c = any_is_nil signer ->
  ci_expiry c = SignerSignOptions_ExpiryDuration Pool Cert o ->
  ci_mt c = SignerSignOptions_SignatureMediaType Pool Cert o ->
  gen_notation_go_validateSignArguments Pool Cert signer o = None ->
  sign_oci false tbl st c = (st', t) ->
  ci_repo_nil c = false ->
  lookup_tbl (eff_ref c) tbl = Some d ->
  (eff_ref c = d_dg d \/ ci_isdigest c = false) ->
  nodup_str (map fst (meta_of c (s_heap st))) = true ->
  (forall k, In k (map fst (meta_of c (s_heap st))) ->
             reserved k = false /\ lookup k (aread (d_ann d) (s_heap st)) = None) ->
  t_res t = outcome c /\ reached_signer (t_res t) = true.
Proof.
  intros Pool Cert signer o tbl st c st' t d Hs He Hm Hg Hrun Hr Hl Hd Hn Hk.
  apply (accepts tbl st c st' t d); try assumption.
  apply (gen_validateSignArguments_nil_iff Pool Cert c signer o Hs He Hm). exact Hg.
Qed.

(* ---------- addUserMetadataToDescriptor (notation.go:266) ----------
   GoLite translates the function with value semantics (the translator checked that the map it
   writes is, on every path, one it created: path-sensitive ownership). The model's [add_meta false]
   is the same statement over the heap: it writes an [AFresh] map and leaves the heap alone
   ([add_meta_false_heap]). Maps are compared as maps ([ann_eqv]: same value for every key). *)

Definition ann_eqv (a b : amap) : Prop := forall k, lookup k a = lookup k b.

Definition same_fields (d d' : v1_Descriptor) : Prop :=
  Descriptor_MediaType d' = Descriptor_MediaType d /\ Descriptor_Digest d' = Descriptor_Digest d
  /\ Descriptor_Size d' = Descriptor_Size d /\ Descriptor_URLs d' = Descriptor_URLs d
  /\ Descriptor_Data d' = Descriptor_Data d /\ Descriptor_Platform d' = Descriptor_Platform d
  /\ Descriptor_ArtifactType d' = Descriptor_ArtifactType d.

Lemma same_fields_refl d : same_fields d d.
Proof. repeat split. Qed.

Lemma same_fields_set a d : same_fields d (set_Descriptor_Annotations a d).
Proof. destruct d. repeat split. Qed.

Lemma same_fields_trans a b c : same_fields a b -> same_fields b c -> same_fields a c.
Proof. unfold same_fields. intuition congruence. Qed.

Lemma ann_set a d : Descriptor_Annotations (set_Descriptor_Annotations a d) = a.
Proof. destruct d. reflexivity. Qed.

Lemma lookup_map_set k v (m : amap) x :
  lookup x (map_set String.eqb k v m) = if String.eqb x k then Some v else lookup x m.
Proof. rewrite <- !map_get_lookup. apply map_get_set. exact string_eqb_spec'. Qed.

(* the reserved prefixes the code ranges over are the generated constant the model uses *)
Lemma gen_reserved_prefixes_pinned :
  notation_go_reservedAnnotationPrefixes = gen_reserved_annotation_prefixes.
Proof.
  first [ reflexivity
        | fail 1 "the reserved annotation prefixes of notation.go differ from Generated.v" ].
Qed.

Definition err_reserved : option err :=
  Some (Err "fmt" "error adding user metadata: metadata key %v has reserved prefix %v" []).
Definition err_present : option err :=
  Some (Err "fmt" "error adding user metadata: metadata key %v is already present in the target artifact" []).

Lemma class_reserved : res_of err_reserved = Some (Some EMetaReserved).
Proof. vm_compute. reflexivity. Qed.
Lemma class_present : res_of err_present = Some (Some EMetaPresent).
Proof. vm_compute. reflexivity. Qed.

(* the inner loop over the reserved prefixes (two copies: one per copy of the outer loop) *)
Lemma add_loop3 K k d : forall l,
  gen_notation_go_addUserMetadataToDescriptor_loop3 K k d l
  = if existsb (fun p => has_prefix p k) l then (d, err_reserved) else K tt.
Proof.
  induction l as [|p l IH]; [reflexivity|].
  cbn [gen_notation_go_addUserMetadataToDescriptor_loop3 existsb]. unfold str_has_prefix.
  destruct (has_prefix p k); [reflexivity|exact IH].
Qed.

Lemma add_loop5 K k d : forall l,
  gen_notation_go_addUserMetadataToDescriptor_loop5 K k d l
  = if existsb (fun p => has_prefix p k) l then (d, err_reserved) else K tt.
Proof.
  induction l as [|p l IH]; [reflexivity|].
  cbn [gen_notation_go_addUserMetadataToDescriptor_loop5 existsb]. unfold str_has_prefix.
  destruct (has_prefix p k); [reflexivity|exact IH].
Qed.

(* the loop over the metadata, on descriptors *)
Fixpoint gadd (es : amap) (d : v1_Descriptor) : v1_Descriptor * option err :=
  match es with
  | [] => (d, None)
  | (k, v) :: es' =>
      if reserved k then (d, err_reserved)
      else match lookup k (Descriptor_Annotations d) with
           | Some _ => (d, err_present)
           | None => gadd es' (set_Descriptor_Annotations
                                 (map_set String.eqb k v (Descriptor_Annotations d)) d)
           end
  end.

Lemma add_loop2 K : forall es d,
  gen_notation_go_addUserMetadataToDescriptor_loop2 K es d
  = match gadd es d with (d', None) => K d' | r => r end.
Proof.
  induction es as [|[k v] es IH]; intros d; [reflexivity|].
  cbn [gen_notation_go_addUserMetadataToDescriptor_loop2 gadd fst snd]. cbv zeta.
  rewrite add_loop3, gen_reserved_prefixes_pinned. fold (reserved k).
  destruct (reserved k); [reflexivity|].
  unfold map_get_ok. rewrite map_get_lookup.
  destruct (lookup k (Descriptor_Annotations d)); [reflexivity|]. apply IH.
Qed.

Lemma add_loop4 : forall es d,
  gen_notation_go_addUserMetadataToDescriptor_loop4 es d = gadd es d.
Proof.
  induction es as [|[k v] es IH]; intros d; [reflexivity|].
  cbn [gen_notation_go_addUserMetadataToDescriptor_loop4 gadd fst snd]. cbv zeta.
  rewrite add_loop5, gen_reserved_prefixes_pinned. fold (reserved k).
  destruct (reserved k); [reflexivity|].
  unfold map_get_ok. rewrite map_get_lookup.
  destruct (lookup k (Descriptor_Annotations d)); [reflexivity|]. apply IH.
Qed.

(* the copy of the annotations into the map made by the function *)
Fixpoint copy_into (l acc : amap) : amap :=
  match l with [] => acc | (k, v) :: l' => copy_into l' (map_set String.eqb k v acc) end.

Lemma add_loop1 d M : forall l acc,
  gen_notation_go_addUserMetadataToDescriptor_loop1 d M l acc
  = gadd (map_entries String.eqb M) (set_Descriptor_Annotations (copy_into l acc) d).
Proof.
  induction l as [|[k v] l IH]; intros acc.
  - cbn [gen_notation_go_addUserMetadataToDescriptor_loop1 copy_into]. cbv zeta.
    rewrite add_loop2. destruct (gadd _ _) as [d' [e|]]; reflexivity.
  - cbn [gen_notation_go_addUserMetadataToDescriptor_loop1 copy_into fst snd]. cbv zeta. apply IH.
Qed.

Lemma copy_into_lookup : forall l acc, map_unique String.eqb l = true ->
  forall x, lookup x (copy_into l acc) = match lookup x l with Some v => Some v | None => lookup x acc end.
Proof.
  induction l as [|[k v] l IH]; intros acc U x; [reflexivity|].
  cbn [map_unique] in U. apply andb_true_iff in U. destruct U as [U1 U2].
  apply negb_true_iff in U1. rewrite (existsb_key_get String.eqb) in U1. rewrite map_get_lookup in U1.
  cbn [copy_into lookup]. rewrite (IH _ U2), lookup_map_set.
  destruct (String.eqb x k) eqn:E.
  - apply String.eqb_eq in E. subst x. destruct (lookup k l); [discriminate|reflexivity].
  - reflexivity.
Qed.

Lemma copy_entries_eqv (a : amap) : ann_eqv (copy_into (map_entries String.eqb a) []) a.
Proof.
  intro x. rewrite copy_into_lookup by (apply map_entries_unique_keys; exact string_eqb_spec').
  rewrite <- !map_get_lookup, (map_get_entries String.eqb string_eqb_spec'), map_get_lookup.
  destruct (lookup x a); reflexivity.
Qed.

(* the function: with metadata, the loop runs on a copy of the annotations; without, nothing happens *)
Lemma gen_add_spec : forall d M,
  gen_notation_go_addUserMetadataToDescriptor d M
  = gadd (map_entries String.eqb M)
         (match M with
          | [] => d
          | _ => set_Descriptor_Annotations
                   (copy_into (map_entries String.eqb (Descriptor_Annotations d)) []) d
          end).
Proof.
  intros d M. unfold gen_notation_go_addUserMetadataToDescriptor. destruct M as [|[k v] M].
  - cbn. reflexivity.
  - assert (L : (map_len String.eqb ((k, v) :: M) >? 0)%Z = true).
    { unfold map_len. cbn [map_entries Datatypes.length]. apply Z.gtb_lt. lia. }
    rewrite L. cbv zeta. apply add_loop1.
Qed.

(* [gadd] on a descriptor is the model's loop on a fresh map *)
Lemma gadd_add_pure : forall es d m, ann_eqv (Descriptor_Annotations d) m ->
  res_of (snd (gadd es d)) = option_map Some (snd (add_pure es m))
  /\ ann_eqv (Descriptor_Annotations (fst (gadd es d))) (fst (add_pure es m))
  /\ same_fields d (fst (gadd es d)).
Proof.
  induction es as [|[k v] es IH]; intros d m E; cbn [gadd add_pure].
  - cbn. auto using same_fields_refl.
  - destruct (reserved k); [cbn [fst snd]; rewrite class_reserved; auto using same_fields_refl|].
    rewrite (E k). destruct (lookup k m);
      [cbn [fst snd]; rewrite class_present; auto using same_fields_refl|].
    destruct (IH (set_Descriptor_Annotations (map_set String.eqb k v (Descriptor_Annotations d)) d)
                 (mset k v m)) as [A [B C]].
    { intro x. rewrite ann_set, lookup_map_set, lookup_mset, (E x). reflexivity. }
    split; [exact A|]. split; [exact B|].
    eapply same_fields_trans; [apply same_fields_set|exact C].
Qed.

(* the code's addUserMetadataToDescriptor against the model's [add_meta false], for every descriptor,
   every metadata map (any association list: the code ranges over [map_entries M]), every heap and
   every reference [r] whose content is the descriptor's annotations: same refusal class, the heap
   is untouched, the annotations of the result are the content of the model's result, the other
   fields are those of the argument *)
Lemma gen_add_equiv : forall h r d M,
  ann_eqv (Descriptor_Annotations d) (aread r h) ->
  let g := gen_notation_go_addUserMetadataToDescriptor d M in
  let '(h', r', e) := add_meta false h r (map_entries String.eqb M) in
  res_of (snd g) = option_map Some e /\ h' = h
  /\ ann_eqv (Descriptor_Annotations (fst g)) (aread r' h') /\ same_fields d (fst g).
Proof.
  intros h r d M E. cbv zeta. rewrite gen_add_spec, add_meta_false.
  destruct M as [|[k v] M].
  - cbn. auto using same_fields_refl.
  - remember (map_entries String.eqb ((k, v) :: M)) as es eqn:Hes.
    assert (Hne : es <> []) by (subst es; cbn; discriminate).
    destruct es as [|e0 es0]; [congruence|].
    destruct (gadd_add_pure (e0 :: es0)
               (set_Descriptor_Annotations (copy_into (map_entries String.eqb (Descriptor_Annotations d)) []) d)
               (aread r h)) as [A [B C]].
    { intro x. rewrite ann_set, copy_entries_eqv. apply E. }
    split; [exact A|]. split; [reflexivity|]. split; [exact B|].
    eapply same_fields_trans; [apply same_fields_set|exact C].
Qed.

(* ---------- generateAnnotations (notation.go:608) ----------
   Oracles: crypto/sha256.Sum256, encoding/hex.EncodeToString, encoding/json.Marshal on []string,
   time.Time.UTC / Format, cert.Raw. The map parameter is in/out in the translation (first result:
   what the caller's map holds afterwards; second: the map returned). *)

Section GenerateAnnotations.
Variable Cert : Type.
Variables (utc : Z -> Z) (sha : list Z -> list Z) (hex : list Z -> string)
          (format : Z -> string -> string) (marshal : list string -> list Z * option err)
          (raw : Cert -> list Z).

(* the model's input [si_chain]: hex SHA-256 of cert.Raw, as the code computes it *)
Definition thumb_of (c : Cert) : string := hex (sha (raw c)).

Notation gen_ga := (gen_notation_go_generateAnnotations Cert utc sha hex format marshal raw).
Notation gen_ga_loop := (gen_notation_go_generateAnnotations_loop1 Cert utc sha hex format marshal raw).

(* the loop over the certificate chain appends one thumbprint per certificate, in order *)
Lemma ga_loop ann p : forall l acc,
  gen_ga_loop ann p l acc = gen_ga_loop ann p [] (acc ++ map thumb_of l).
Proof.
  induction l as [|c l IH]; intros acc; [rewrite app_nil_r; reflexivity|].
  cbn [gen_notation_go_generateAnnotations_loop1 map]. cbv zeta. rewrite IH.
  unfold thumb_of. rewrite <- app_assoc. reflexivity.
Qed.

Lemma map_len_zero_nil (m : amap) : (map_len String.eqb m =? 0)%Z = true -> m = [].
Proof.
  destruct m as [|[k v] m]; [reflexivity|]. unfold map_len. cbn [map_entries Datatypes.length].
  intro H. apply Z.eqb_eq in H. lia.
Qed.

(* the code's generateAnnotations against the model's [gen_ann]: same refusal class (nil
   SignerInfo, zero signing time), and on success the returned map holds, key by key, what the
   model's map holds: the JSON list of thumbprints, the RFC 3339 signing time, and the plugin's
   annotations. Hypotheses: the oracles answer like the model of them. *)
Lemma gen_generateAnnotations_equiv : forall h p pa ann,
  (forall l, snd (marshal l) = None /\ str_of_bytes (fst (marshal l)) = json_strs l) ->
  (forall t, time_is_zero t = false ->
             format (utc t) "2006-01-02T15:04:05Z07:00" = rfc3339 (t / 1000000000)%Z) ->
  (forall a, pa = PAMap a -> hget a h <> None) ->
  ann_eqv ann (pa_content pa h) ->
  let '(h2, x) := gen_ann h (sinfo_of Cert thumb_of p) pa in
  let '(_, out, e) := gen_ga p ann in
  match x with
  | inl c => res_of e = Some (Some c)
  | inr ra => e = None /\ ann_eqv out (aread ra h2)
  end.
Proof.
  intros h p pa ann Hm Hf Hlive Hann.
  unfold gen_notation_go_generateAnnotations, sinfo_of.
  destruct (ptr_val p) as [si|] eqn:Ep; cbn [option_map].
  2:{ cbn [gen_ann]. leaf "a nil SignerInfo is not refused". }
  cbv zeta. rewrite ga_loop. cbn [app gen_notation_go_generateAnnotations_loop1].
  destruct (Hm (map thumb_of (SignerInfo_CertificateChain Cert si))) as [Hm1 Hm2].
  destruct (marshal (map thumb_of (SignerInfo_CertificateChain Cert si))) as [val me].
  cbn [fst snd] in Hm1, Hm2. subst me. cbn [GoLib.is_none negb]. cbv zeta.
  unfold gen_envelope_SigningTime. rewrite Ep. cbv zeta.
  fold (signing_time_ns Cert si). unfold time_of.
  destruct (gen_ann h _ pa) as [h2 [c|ra]] eqn:G.
  - destruct (gen_ann_err_inv _ _ _ _ _ G) as [[X _]|[si' [X [T ->]]]]; [discriminate|].
    injection X as <-. cbn [si_time] in T.
    destruct (time_is_zero (signing_time_ns Cert si)); [|discriminate].
    destruct (map_len String.eqb ann =? 0)%Z; leaf "a zero signing time is not refused as missing".
  - destruct (gen_ann_ok_inv _ _ _ _ _ G) as [si' [tm [X T]]]. injection X as <-. cbn [si_time] in T.
    destruct (time_is_zero (signing_time_ns Cert si)) eqn:Z0; [discriminate|]. injection T as <-.
    pose proof (gen_ann_content _ _ _ _ _ _ Hlive G eq_refl) as C. cbn [si_chain] in C.
    assert (R : forall a0, ann_eqv a0 ann ->
              ann_eqv (map_set String.eqb "org.opencontainers.image.created"
                         (format (utc (signing_time_ns Cert si)) "2006-01-02T15:04:05Z07:00")
                         (map_set String.eqb "io.cncf.notary.x509chain.thumbprint#S256" (str_of_bytes val) a0))
                      (aread ra h2)).
    { intros a0 E0 k. rewrite C, !lookup_map_set, Hm2, (Hf _ Z0), (E0 k), (Hann k).
      unfold k_created, k_thumb. reflexivity. }
    destruct (map_len String.eqb ann =? 0)%Z eqn:L; cbn [GoLib.is_none negb]; split; try reflexivity;
      apply R; [|intro; reflexivity].
    apply map_len_zero_nil in L. subst ann. intro; reflexivity.
Qed.
End GenerateAnnotations.

(* ---------- notation.SignOCI (notation.go:160) ----------
   Oracles: the signer (Sign, the signerAnnotation assertion, PluginAnnotations), the repository
   (Resolve, PushSignature), registry.ParseReference, digest.Parse,
   ( *remote.ReferrersError).IsReferrersIndexDelete, and those of generateAnnotations. *)

Section SignOCI.
Variables (Pool Cert : Type).
Variables (utc : Z -> Z) (sha : list Z -> list Z) (hex : list Z -> string)
          (format : Z -> string -> string) (marshal : list string -> list Z * option err)
          (raw : Cert -> list Z).
Variable Signer : Type.
Variable sign : Signer -> v1_Descriptor -> notation_go_SignerSignOptions Pool Cert
                -> list Z * ptr (signature_SignerInfo Cert) * option err.
Variable SA : Type.
Variable plugin_ann : SA -> amap.
Variable Repo : Type.
Variable resolve : Repo -> string -> v1_Descriptor * option err.
Variable push : Repo -> string -> list Z -> v1_Descriptor -> amap -> v1_Descriptor * v1_Descriptor * option err.
Variable parse_ref : string -> registry_Reference * option err.
Variable parse_dg : string -> string * option err.
Variable is_refdel : err -> bool.
Variable as_sa : Signer -> option SA.

Notation gen_sign_oci :=
  (gen_notation_go_SignOCI Pool Cert utc sha hex format marshal raw Signer sign SA plugin_ann
     Repo resolve push parse_ref parse_dg is_refdel as_sa).
Notation vsa_S := (gen_notation_go_validateSignArguments_notation_Signer Pool Cert Signer).
Notation thumb := (thumb_of Cert sha hex raw).

Definition zero_desc : v1_Descriptor := mk_Descriptor "" "" 0 [] [] [] PNil "".

Definition sso (o : notation_go_SignOptions Pool Cert) := SignOptions_SignerSignOptions Pool Cert o.

(* the instance of validateSignArguments SignOCI calls *)
Lemma vsa_S_equiv : forall (c : call_in) (signer : ptr Signer) o,
  ci_signer_nil c = ptr_is_nil signer ->
  ci_expiry c = SignerSignOptions_ExpiryDuration Pool Cert o ->
  ci_mt c = SignerSignOptions_SignatureMediaType Pool Cert o ->
  res_of (vsa_S signer o) = option_map Some (validate c).
Proof.
  intros c signer o Hs He Hm.
  unfold gen_notation_go_validateSignArguments_notation_Signer, validate.
  rewrite Hs, He, Hm, ptr_is_nil_val.
  destruct (ptr_val signer); cbn [GoLib.is_none]; [|leaf "a nil signer is not refused first"].
  destruct (SignerSignOptions_ExpiryDuration Pool Cert o <? 0)%Z; [leaf "negative expiry"|].
  destruct (Z.rem (SignerSignOptions_ExpiryDuration Pool Cert o) 1000000000 =? 0)%Z; cbn [negb];
    [|leaf "expiry that is not a whole number of seconds"].
  destruct (String.eqb (SignerSignOptions_SignatureMediaType Pool Cert o) "");
    [leaf "empty signature media type"|].
  cbv zeta.
  pose proof (gen_sig_media_type_equiv (SignerSignOptions_SignatureMediaType Pool Cert o)) as G.
  destruct (gen_notation_go_validateSigMediaType _) as [e|]; cbn [GoLib.is_none negb];
    rewrite G; destruct (valid_mt _); reflexivity.
Qed.


(* a Go descriptor value against the model's descriptor at heap h / against an observed descriptor *)
Definition drel (h : heap) (d : desc) (g : v1_Descriptor) : Prop :=
  Descriptor_MediaType g = d_mt d /\ Descriptor_Digest g = d_dg d /\ Descriptor_Size g = d_sz d
  /\ ann_eqv (Descriptor_Annotations g) (aread (d_ann d) h).

Definition ddrel (x : ddesc) (g : v1_Descriptor) : Prop :=
  Descriptor_MediaType g = dd_mt x /\ Descriptor_Digest g = dd_dg x /\ Descriptor_Size g = dd_sz x
  /\ ann_eqv (Descriptor_Annotations g) (dd_ann x).

Definition RE : string := "*remote.ReferrersError".

Definition sign_agrees (ans : list Z * ptr (signature_SignerInfo Cert) * option err) (s : sscript) : Prop :=
  match s with
  | SErr => GoLib.is_none (snd ans) = false
  | SOk sig info => snd ans = None /\ str_of_bytes (fst (fst ans)) = sig
                    /\ sinfo_of Cert thumb (snd (fst ans)) = info
  end.

Definition push_agrees (ans : v1_Descriptor * v1_Descriptor * option err) (s : pscript) : Prop :=
  match s with
  | PushOK dg => snd ans = None /\ Descriptor_Digest (snd (fst ans)) = dg
  | PushErr => GoLib.is_none (snd ans) = false
               /\ match err_find RE (snd ans) with Some f => is_refdel f = false | None => True end
  | PushRefDel dg => (exists f, err_find RE (snd ans) = Some f /\ is_refdel f = true)
                     /\ Descriptor_Digest (snd (fst ans)) = dg
  end.

(* what SignOCI returns against the model's trace *)
Definition result_rel (t : trace) (r : v1_Descriptor * v1_Descriptor * option err) : Prop :=
  let '(art, sigd, e) := r in
  match t_art t with None => art = zero_desc | Some x => ddrel x art end
  /\ match t_res t with
     | ROk => e = None /\ Descriptor_Digest sigd = t_sigdg t
     | RRefDel => (exists f, err_find RE e = Some f /\ is_refdel f = true)
                  /\ Descriptor_Digest sigd = t_sigdg t
     | ESigner => GoLib.is_none e = false /\ sigd = zero_desc
     | r => res_of e = Some (Some r) /\ sigd = zero_desc
     end.

Lemma vsa_S_none_signer : forall (signer : ptr Signer) o,
  vsa_S signer o = None -> exists sv, ptr_val signer = Some sv.
Proof.
  intros signer o H. unfold gen_notation_go_validateSignArguments_notation_Signer in H.
  destruct (ptr_val signer) as [sv|]; [exists sv; reflexivity|discriminate].
Qed.

(* generateAnnotations does not touch the annotation map of a resolved descriptor (the signer's
   PluginAnnotations() map is none of the repository's: [wf_call]) *)
Lemma gen_ann_keeps_resolved : forall tbl h c info h2 x ref d,
  wf_call h tbl c = true -> gen_ann h info (ci_pa c) = (h2, x) ->
  lookup_tbl ref tbl = Some d -> deep h2 d = deep h d.
Proof.
  intros tbl h c info h2 x ref d W G L. apply deep_ext. intros a Ea.
  destruct (gen_ann_frame _ _ _ _ _ G) as (_ & F & _). apply F. intros Ep.
  destruct (wf_call_sep _ _ _ _ W Ep) as (_ & N & _). apply N.
  eapply table_addrs_in; eassumption.
Qed.

(* "the arguments are those of the call record and every oracle answers what the call record says
   it answers": [c] = the model's description of the call, [t] = the trace the model computes.
   The signer and the repository are only constrained on the arguments the MODEL says they
   receive ([t_signs], [t_pushes]): that the theorem below is provable shows that the code hands
   them exactly those. *)
Definition so_agree (tbl : table) (h : heap) (c : call_in) (t : trace)
           (signer : ptr Signer) (repo : ptr Repo) (o : notation_go_SignOptions Pool Cert) : Prop :=
  (* the signer's PluginAnnotations() map is its own (FreshResults in the target table) *)
  wf_call h tbl c = true
  (* the arguments *)
  /\ ci_signer_nil c = ptr_is_nil signer /\ ci_repo_nil c = ptr_is_nil repo
  /\ ci_ref c = SignOptions_ArtifactReference Pool Cert o
  /\ ci_expiry c = SignerSignOptions_ExpiryDuration Pool Cert (sso o)
  /\ ci_mt c = SignerSignOptions_SignatureMediaType Pool Cert (sso o)
  /\ meta_es c h = map_entries String.eqb (SignOptions_UserMetadata Pool Cert o)
  (* registry.ParseReference, digest.Parse *)
  /\ ci_parse c = (if GoLib.is_none (snd (parse_ref (ci_ref c)))
                   then Some (Reference_Reference (fst (parse_ref (ci_ref c)))) else None)
  /\ ci_isdigest c = GoLib.is_none (snd (parse_dg (eff_ref c)))
  (* Repository.Resolve *)
  /\ (forall rv, ptr_val repo = Some rv ->
        match lookup_tbl (eff_ref c) tbl with
        | None => GoLib.is_none (snd (resolve rv (eff_ref c))) = false
        | Some d => snd (resolve rv (eff_ref c)) = None /\ drel h d (fst (resolve rv (eff_ref c)))
        end)
  (* Signer.Sign, on the descriptor the model says it is handed *)
  /\ (forall sv sc g, ptr_val signer = Some sv -> t_signs t = [sc] -> ddrel (sc_desc sc) g ->
        sign_agrees (sign sv g (sso o)) (ci_sign c))
  (* signer.(signerAnnotation), PluginAnnotations() *)
  /\ (forall sv, ptr_val signer = Some sv ->
        match ci_pa c with
        | PANone => as_sa sv = None
        | p => exists sa, as_sa sv = Some sa /\ ann_eqv (plugin_ann sa) (pa_content p h)
        end)
  (* json.Marshal on []string, Time.UTC().Format(time.RFC3339) *)
  /\ (forall l, snd (marshal l) = None /\ str_of_bytes (fst (marshal l)) = json_strs l)
  /\ (forall t, time_is_zero t = false ->
                format (utc t) "2006-01-02T15:04:05Z07:00" = rfc3339 (t / 1000000000)%Z)
  (* Repository.PushSignature, on the arguments the model says it receives *)
  /\ (forall rv pc sigb g ann, ptr_val repo = Some rv -> t_pushes t = [pc] ->
        str_of_bytes sigb = pc_sig pc -> ddrel (pc_subject pc) g -> ann_eqv ann (pc_ann pc) ->
        push_agrees (push rv (pc_mt pc) sigb g ann) (ci_push c)).

(* notation.SignOCI as the code has it against the model's [sign_oci false]: for every call, the
   code returns (no run-time panic) what the model's trace says: the same refusal class, the zero
   descriptors on a refusal, the resolved descriptor and the digest of the pushed manifest on
   success and on a failed referrers-index deletion. *)
Theorem gen_SignOCI_equiv : forall tbl h sp c st' t signer repo o,
  sign_oci false tbl (mk_state h sp) c = (st', t) ->
  so_agree tbl h c t signer repo o ->
  exists r, gen_sign_oci signer repo o = Some r /\ result_rel t r.
Proof.
  intros tbl h sp c st' t signer repo o Hrun
         (Hwf & Hsn & Hrn & Href & Hexp & Hmt & Hmeta & Hparse & Hisdg & Hres & Hsign & Hpa & Hmar & Hfmt & Hpush).
  pose proof (vsa_S_equiv c signer (sso o) Hsn Hexp Hmt) as Hv.
  assert (Eeff : (if GoLib.is_none (snd (parse_ref (ci_ref c)))
                  then Reference_Reference (fst (parse_ref (ci_ref c))) else ci_ref c) = eff_ref c).
  { unfold eff_ref. rewrite Hparse. destruct (GoLib.is_none _); reflexivity. }
  unfold gen_notation_go_SignOCI. cbv zeta. fold (sso o). fold zero_desc. rewrite <- Href.
  unfold sign_oci in Hrun. cbn [s_heap s_stored] in Hrun. cbv beta zeta in Hrun.
  (* validateSignArguments *)
  destruct (validate c) as [e|] eqn:Eval.
  { pose proof (validate_class _ _ Eval) as RS. inversion Hrun; subst st' t; clear Hrun.
    destruct (vsa_S signer (sso o)) as [ve|]; [|discriminate]. cbn [GoLib.is_none negb].
    eexists; split; [reflexivity|]. cbn. split; [reflexivity|].
    destruct e; try discriminate RS; (split; [exact Hv|reflexivity]). }
  destruct (vsa_S signer (sso o)) as [ve|] eqn:Ev; [discriminate|]. cbn [GoLib.is_none negb].
  destruct (vsa_S_none_signer _ _ Ev) as [sv Esv].
  (* nil repository *)
  destruct (ci_repo_nil c) eqn:Ern; rewrite ptr_is_nil_val in Hrn.
  { inversion Hrun; subst st' t; clear Hrun. destruct (ptr_val repo); [discriminate Hrn|].
    eexists; split; [reflexivity|]. cbn. split; [reflexivity|].
    split; [leaf "a nil repository is not refused"|reflexivity]. }
  destruct (ptr_val repo) as [rv|] eqn:Erepo; [|discriminate Hrn]. specialize (Hres rv eq_refl).
  (* ParseReference: either way the code goes on with [eff_ref c] *)
  eassert (Main : _);
    [|destruct (parse_ref (ci_ref c)) as [rf pe]; cbn [fst snd] in Eeff;
      destruct (GoLib.is_none pe); rewrite Eeff; exact Main].
  clear Eeff.
  (* Resolve *)
  destruct (lookup_tbl (eff_ref c) tbl) as [d|] eqn:El.
  2:{ inversion Hrun; subst st' t; clear Hrun. destruct (resolve rv (eff_ref c)) as [amd re]. cbn [fst snd] in Hres.
      destruct re; [|discriminate]. cbn [GoLib.is_none negb].
      eexists; split; [reflexivity|]. cbn. split; [reflexivity|].
      split; [leaf "a failed Resolve is not reported as such"|reflexivity]. }
  destruct Hres as [Hr1 (Dm & Dd & Ds & Da)].
  destruct (resolve rv (eff_ref c)) as [amd re]. cbn [fst snd] in Hr1, Dm, Dd, Ds, Da. subst re.
  cbn [GoLib.is_none negb]. unfold gen_go_digest_Digest_String. rewrite Dd.
  (* the digest pin *)
  rewrite Hisdg in Hrun.
  destruct (negb (eff_ref c =? d_dg d) && GoLib.is_none (snd (parse_dg (eff_ref c)))) eqn:Epin.
  { inversion Hrun; subst st' t; clear Hrun. apply andb_true_iff in Epin. destruct Epin as [P1 P2]. rewrite P1.
    destruct (parse_dg (eff_ref c)) as [pdx pe3]. cbn [snd] in P2. rewrite P2.
    eexists; split; [reflexivity|]. cbn. split; [reflexivity|].
    split; [leaf "a digest reference resolving to another digest is not refused"|reflexivity]. }
  eassert (Main : _);
    [|destruct (negb (eff_ref c =? d_dg d)); cbn [andb] in Epin;
      [destruct (parse_dg (eff_ref c)) as [pdx pe3]; cbn [snd] in Epin; rewrite Epin; exact Main
      |exact Main]].
  clear Epin.
  (* addUserMetadataToDescriptor *)
  fold (meta_es c h) in Hrun.
  pose proof (gen_add_equiv h (d_ann d) amd (SignOptions_UserMetadata Pool Cert o) Da) as GA.
  cbv zeta in GA. rewrite <- Hmeta in GA.
  destruct (add_meta false h (d_ann d) (meta_es c h)) as [[h1 r1] oe] eqn:Ea.
  destruct GA as (G1 & Eh & G3 & G4). subst h1.
  destruct (gen_notation_go_addUserMetadataToDescriptor amd _) as [d2s ae]. cbn [fst snd] in G1, G3, G4.
  destruct oe as [e|].
  { inversion Hrun; subst st' t; clear Hrun. destruct (add_meta_class _ _ _ _ _ _ Ea) as [-> | ->];
      (destruct ae; [|discriminate]); cbn [GoLib.is_none negb];
      (eexists; split; [reflexivity|]; cbn; split; [reflexivity|]; split; [exact G1|reflexivity]). }
  destruct ae; [discriminate|]. cbn [GoLib.is_none negb]. rewrite Esv.
  (* Signer.Sign: handed the resolved descriptor plus the metadata *)
  assert (Tsigns : t_signs t = [mk_sc c h d r1]).
  { destruct (ci_sign c) as [|sig0 info0]; [inversion Hrun; reflexivity|].
    destruct (gen_ann h info0 (ci_pa c)) as [h2 [e|ra]]; [inversion Hrun; reflexivity|].
    destruct (ci_push c); inversion Hrun; reflexivity. }
  assert (REL : ddrel (sc_desc (mk_sc c h d r1)) d2s).
  { destruct G4 as (F1 & F2 & F3 & _). unfold ddrel, mk_sc, deep. cbn.
    repeat split; try congruence; try exact G3. }
  specialize (Hsign sv _ d2s Esv Tsigns REL). clear Tsigns REL.
  destruct (ci_sign c) as [|sig info] eqn:Ecs; cbn [sign_agrees] in Hsign.
  { inversion Hrun; subst st' t; clear Hrun.
    destruct (sign sv d2s (sso o)) as [[sigb ip] se]. cbn [snd] in Hsign.
    destruct se; [|discriminate]. cbn [GoLib.is_none negb].
    eexists; split; [reflexivity|]. cbn. repeat split; reflexivity. }
  destruct Hsign as (S1 & S2 & S3). destruct (sign sv d2s (sso o)) as [[sigb ip] se].
  cbn [fst snd] in S1, S2, S3. subst se. cbn [GoLib.is_none negb].
  (* signer.(signerAnnotation) and PluginAnnotations() *)
  assert (Hlive : forall a, ci_pa c = PAMap a -> hget a h <> None).
  { intros a E. exact (proj1 (wf_call_sep _ _ _ _ Hwf E)). }
  specialize (Hpa sv Esv). unfold iface_assert. rewrite Esv.
  destruct (ci_pa c) as [| |a] eqn:Epa.
  1: rewrite Hpa; assert (A2 : ann_eqv [] (pa_content PANone h)) by (intro; reflexivity).
  2,3: destruct Hpa as [sa [A1 A2]]; rewrite A1; cbn [ptr_val].
  (* generateAnnotations *)
  all: match goal with |- context [gen_notation_go_generateAnnotations _ _ _ _ _ _ _ ?p ?ann] =>
         pose proof (gen_generateAnnotations_equiv Cert utc sha hex format marshal raw h p _ ann
                       Hmar Hfmt Hlive A2) as GG end;
       rewrite S3 in GG.
  all: match type of GG with context [gen_ann ?hh ?ii ?P] =>
         destruct (gen_ann hh ii P) as [h2 [e|ra]] eqn:Eg end.
  1,3,5: inversion Hrun; subst st' t; clear Hrun;
         match type of GG with context [gen_notation_go_generateAnnotations _ _ _ _ _ _ _ ?p ?ann] =>
           destruct (gen_notation_go_generateAnnotations Cert utc sha hex format marshal raw p ann)
             as [[pa' anns] ge] end;
         (destruct ge; [|discriminate]); cbn [GoLib.is_none negb];
         (eexists; split; [reflexivity|]); cbn; (split; [reflexivity|]);
         destruct (gen_ann_class _ _ _ _ _ Eg) as [-> | ->]; (split; [exact GG|reflexivity]).
  all: assert (Hkeep : deep h2 d = deep h d)
         by (rewrite <- Epa in Eg; eapply gen_ann_keeps_resolved; eassumption).
  all: match type of GG with context [gen_notation_go_generateAnnotations _ _ _ _ _ _ _ ?p ?ann] =>
         destruct (gen_notation_go_generateAnnotations Cert utc sha hex format marshal raw p ann)
           as [[pa' anns] ge] end;
       destruct GG as [-> GG2]; cbn [GoLib.is_none negb].
  (* PushSignature: the resolved descriptor is the subject *)
  all: assert (Tpushes : t_pushes t = [mk_pc c sig h2 d ra])
         by (destruct (ci_push c); inversion Hrun; reflexivity).
  all: assert (SUBJ : ddrel (deep h2 d) amd)
         by (rewrite Hkeep; unfold ddrel, deep; cbn; repeat split; assumption).
  all: specialize (Hpush rv _ sigb amd anns eq_refl Tpushes S2 SUBJ GG2); clear Tpushes;
       cbn [pc_mt mk_pc] in Hpush; rewrite Hmt in Hpush.
  all: destruct (ci_push c) as [dg| |dg] eqn:Ecp; cbn [push_agrees] in Hpush;
       inversion Hrun; subst st' t; clear Hrun;
       match type of Hpush with context [push ?a ?b ?c0 ?d0 ?e0] =>
         destruct (push a b c0 d0 e0) as [[bd smd] pe] end; cbn [fst snd] in Hpush.
  (* pushed *)
  1,4,7: destruct Hpush as [P1 P2]; subst pe; cbn [GoLib.is_none negb];
         (eexists; split; [reflexivity|]); cbn; (split; [exact SUBJ|]); (split; [reflexivity|exact P2]).
  (* push failed *)
  1,3,5: destruct Hpush as [P1 P2]; (destruct pe as [pe|]; [|discriminate P1]); cbn [GoLib.is_none negb];
         rewrite <- err_find_as; unfold RE in P2;
         (destruct (err_find "*remote.ReferrersError" (Some pe)) as [f|]; cbn [GoLib.is_some obind];
          [rewrite P2|]);
         (eexists; split; [reflexivity|]); cbn; (split; [reflexivity|]);
         (split; [leaf "a failed push is not reported as ErrorPushSignatureFailed"|reflexivity]).
  (* pushed, the referrers index deletion failed: descriptors and error are returned *)
  all: destruct Hpush as [[f [F1 F2]] P3]; unfold RE in F1;
       (destruct pe as [pe|]; [|discriminate F1]); cbn [GoLib.is_none negb];
       rewrite <- err_find_as, F1; cbn [GoLib.is_some obind]; rewrite F2;
       (eexists; split; [reflexivity|]); cbn; (split; [exact SUBJ|]);
       (split; [exists f; split; [exact F1|exact F2]|exact P3]).
Qed.


(* a call the model refuses (nothing returned, signer not reached) is refused by the code:
   zero descriptors and a non-nil error *)
Corollary gen_SignOCI_refused : forall tbl h sp c st' t signer repo o,
  sign_oci false tbl (mk_state h sp) c = (st', t) ->
  so_agree tbl h c t signer repo o ->
  t_art t = None -> reached_signer (t_res t) = false ->
  exists e, gen_sign_oci signer repo o = Some (zero_desc, zero_desc, Some e)
            /\ class_of_err e = Some (t_res t).
Proof.
  intros tbl h sp c st' t signer repo o Hrun Hag Hart Hrs.
  destruct (gen_SignOCI_equiv _ _ _ _ _ _ _ _ _ Hrun Hag) as [[[art sigd] e] [G R]].
  unfold result_rel in R. rewrite Hart in R. destruct R as [-> R].
  destruct (t_res t); try discriminate Hrs; destruct R as [R ->];
    (destruct e as [e|]; [|discriminate R]); exists e; (split; [exact G|]);
    cbn in R; congruence.
Qed.

(* C11_refuses_digest on the code: a digest reference that resolves to another digest *)
Corollary gen_SignOCI_refuses_digest : forall tbl h sp c st' t signer repo o d,
  sign_oci false tbl (mk_state h sp) c = (st', t) ->
  so_agree tbl h c t signer repo o ->
  validate c = None -> ci_repo_nil c = false ->
  lookup_tbl (eff_ref c) tbl = Some d -> eff_ref c <> d_dg d -> ci_isdigest c = true ->
  exists e, gen_sign_oci signer repo o = Some (zero_desc, zero_desc, Some e)
            /\ class_of_err e = Some EDigestMismatch.
Proof.
  intros tbl h sp c st' t signer repo o d Hrun Hag Hv Hr Hl Hne Hd.
  destruct (refuses_digest _ _ _ _ _ _ Hrun Hl Hne Hd) as [(_ & _ & _ & Hart & Hrs) Hc].
  specialize (Hc Hv Hr). rewrite <- Hc. eapply gen_SignOCI_refused; eassumption.
Qed.

End SignOCI.
(* ---------- non-vacuity: the hypotheses of gen_SignOCI_equiv are satisfiable ---------- *)

Lemma str_of_bytes_of_str s : str_of_bytes (bytes_of_str s) = s.
Proof.
  unfold str_of_bytes, bytes_of_str, B, bytes. rewrite !map_map.
  rewrite <- (string_of_list_ascii_of_string s) at 2. f_equal.
  induction (list_ascii_of_string s) as [|a l IH]; [reflexivity|]. cbn [map].
  rewrite N2Z.id, ascii_N_embedding, IH. reflexivity.
Qed.

Module Wit.
Definition D : v1_Descriptor := mk_Descriptor "mt" "sha256:aa" 7 [] [("a", "1")] [] PNil "".
Definition MD : v1_Descriptor := mk_Descriptor "m" "sha256:ff" 1 [] [] [] PNil "".
Definition an_err : option err := Some (Err "x" "" []).
Definition utc (t : Z) : Z := t.
Definition sha (l : list Z) : list Z := l.
Definition hex (l : list Z) : string := "aa".
Definition format (t : Z) (layout : string) : string := rfc3339 (t / 1000000000)%Z.
Definition marshal (l : list string) : list Z * option err := (bytes_of_str (json_strs l), None).
Definition raw (c : unit) : list Z := [].
Definition info : signature_SignerInfo unit :=
  mk_SignerInfo unit (mk_SignedAttributes "" 1700000000000000000%Z 0%Z []) (mk_UnsignedAttributes [] "") 0%Z [tt] [].
Definition sign (s : unit) (d : v1_Descriptor) (o : notation_go_SignerSignOptions unit unit)
  : list Z * ptr (signature_SignerInfo unit) * option err := ([1%Z], PNew info, None).
Definition plugin_ann (s : unit) : amap := [].
Definition resolve (r : unit) (ref : string) : v1_Descriptor * option err :=
  if String.eqb ref "v1" then (D, None) else (zero_desc, an_err).
Definition push (r : unit) (mt : string) (sig : list Z) (subject : v1_Descriptor) (ann : amap)
  : v1_Descriptor * v1_Descriptor * option err := (zero_desc, MD, None).
Definition parse_ref (s : string) : registry_Reference * option err := (mk_Reference "" "" "", an_err).
Definition parse_dg (s : string) : string * option err := ("", an_err).
Definition is_refdel (e : err) : bool := false.
Definition as_sa (s : unit) : option unit := None.
Definition opts : notation_go_SignOptions unit unit :=
  mk_SignOptions unit unit
    (mk_SignerSignOptions unit unit mt_jws 0%Z [] "" (fun _ => (PNil, None)) tt (fun _ => ([], None)))
    "v1" [("k", "v")].
Definition tbl : table := [("v1", mk_desc "mt" "sha256:aa" 7 "" (AShared 0%N))].
Definition hp : heap := [(0%N, [("a", "1")]); (1%N, [("k", "v")])].
Definition call : call_in :=
  mk_call_in false false "v1" None false mt_jws 0 "" (Some 1%N) None None
    (SOk (str_of_bytes [1%Z]) (Some (mk_sinfo ["aa"] (Some 1700000000%Z)))) PANone (PushOK "sha256:ff").
Definition tr : trace := snd (sign_oci false tbl (mk_state hp []) call).
End Wit.

Lemma so_agree_witness :
  so_agree unit unit Wit.utc Wit.sha Wit.hex Wit.format Wit.marshal Wit.raw unit Wit.sign unit
    Wit.plugin_ann unit Wit.resolve Wit.push Wit.parse_ref Wit.parse_dg Wit.is_refdel Wit.as_sa
    Wit.tbl Wit.hp Wit.call Wit.tr (PNew tt) (PNew tt) Wit.opts
  /\ t_res Wit.tr = ROk
  /\ gen_notation_go_SignOCI unit unit Wit.utc Wit.sha Wit.hex Wit.format Wit.marshal Wit.raw unit Wit.sign
       unit Wit.plugin_ann unit Wit.resolve Wit.push Wit.parse_ref Wit.parse_dg Wit.is_refdel Wit.as_sa
       (PNew tt) (PNew tt) Wit.opts
     = Some (Wit.D, Wit.MD, None).
Proof.
  split; [|split; [vm_compute; reflexivity|vm_compute; reflexivity]].
  unfold so_agree.
  split; [vm_compute; reflexivity|]. split; [reflexivity|]. split; [reflexivity|].
  split; [reflexivity|]. split; [reflexivity|]. split; [reflexivity|]. split; [vm_compute; reflexivity|].
  split; [reflexivity|]. split; [reflexivity|].
  split. { intros rv _. vm_compute. repeat split. }
  split. { intros sv sc g _ _ _. vm_compute. repeat split. }
  split. { intros sv _. reflexivity. }
  split. { intro l. split; [reflexivity|apply str_of_bytes_of_str]. }
  split. { intros t _. reflexivity. }
  intros rv pc sigb g ann _ _ _ _ _. vm_compute. split; reflexivity.
Qed.
