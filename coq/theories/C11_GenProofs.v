(* C11_GenProofs.v — the GoLite translations of the function bodies listed in
   harness/cmd/vh-gen/targets_c11.go (theories/C11_Gen.v, regenerated from /repo by
   `vh-gen` on every run, docs/GOLITE.md) against the hand-written C11 model
   (C11_Model.v). Every theorem quantifies over ALL inputs of the generated function.
   The statements are repeated in props/C11_Generated.v ([exact] + Print Assumptions).

   Errors are compared through [res_of]: the classification of the correspondence
   harness (harness/cmd/vh-c11/main.go, classify), applied to the error's type and
   format string (message texts are not modelled by GoLite; the format string of an
   errors.New is its message). *)
From Coq Require Import List Bool String Ascii NArith ZArith Lia.
From NV Require Import Base Generated GoLib C11_Model C11_Proofs C11_Audit C11_Gen.
Import ListNotations.
Local Open Scope string_scope.
Local Open Scope list_scope.

(* ---------- abstraction of errors: which refusal of SignOCI an error value is ---------- *)

Definition class_of_err (e : err) : option res :=
  let f := err_fmt e in
  if String.eqb (err_typ e) "notation.ErrorPushSignatureFailed" then Some EPush
  else if String.eqb f "signer cannot be nil" then Some EArgSigner
  else if String.eqb f "expiry duration cannot be a negative value" then Some EArgExpiryNeg
  else if String.eqb f "expiry duration supports minimum granularity of seconds" then Some EArgExpiryGran
  else if String.eqb f "signature media-type cannot be empty" then Some EArgMtEmpty
  else if str_has_prefix "invalid signature media-type" f then Some EArgMtInvalid
  else if String.eqb f "repo cannot be nil" then Some ERepoNil
  else if str_has_prefix "failed to resolve reference" f then Some EResolve
  else if str_has_prefix "user input digest" f then Some EDigestMismatch
  else if str_has_prefix "error adding user metadata" f && str_contains " has reserved prefix " f
       then Some EMetaReserved
  else if str_has_prefix "error adding user metadata" f
          && str_has_suffix " is already present in the target artifact" f then Some EMetaPresent
  else if String.eqb f "failed to generate annotations: signerInfo cannot be nil" then Some EAnnInfoNil
  else if String.eqb f "signing time is missing" then Some EAnnTime
  else None.

(* None = the nil error; Some None = an error the table does not know *)
Definition res_of (e : option err) : option (option res) := option_map class_of_err e.

(* a closed leaf of a case analysis; a readable message when the code changed *)
Ltac leaf msg :=
  first [ solve [vm_compute; reflexivity]
        | fail 1 "generated code differs from the C11 model:" msg ].

(* ---------- validateSigMediaType (notation.go) ---------- *)

(* the media types of /repo's constants are those of the model *)
Lemma gen_sig_media_type_equiv : forall mt,
  res_of (gen_notation_go_validateSigMediaType mt)
  = if valid_mt mt then None else Some (Some EArgMtInvalid).
Proof.
  intro mt. unfold gen_notation_go_validateSigMediaType, valid_mt, mt_jws, mt_cose.
  destruct (String.eqb mt "application/jose+json");
    [leaf "the JWS envelope media type is not accepted"|].
  destruct (String.eqb mt "application/cose");
    [leaf "the COSE envelope media type is not accepted"
    |leaf "a media type other than JWS / COSE is not refused as invalid"].
Qed.

Lemma gen_sig_media_type_accepts_iff : forall mt,
  gen_notation_go_validateSigMediaType mt = None
  <-> (mt = "application/jose+json" \/ mt = "application/cose").
Proof.
  intro mt. pose proof (gen_sig_media_type_equiv mt) as H.
  assert (V : valid_mt mt = true <-> (mt = "application/jose+json" \/ mt = "application/cose")).
  { unfold valid_mt, mt_jws, mt_cose. rewrite orb_true_iff, !String.eqb_eq. tauto. }
  rewrite <- V. destruct (valid_mt mt);
    destruct (gen_notation_go_validateSigMediaType mt); cbn in H; try discriminate;
    split; intro G; try discriminate; reflexivity.
Qed.

(* the place of the model where the same decision is made: the last test of [validate]
   (validateSignArguments calls validateSigMediaType after its own four tests) *)
Lemma gen_sig_media_type_in_validate : forall c,
  ci_signer_nil c = false -> (ci_expiry c <? 0)%Z = false ->
  (Z.rem (ci_expiry c) 1000000000 =? 0)%Z = true -> ci_mt c <> "" ->
  option_map Some (validate c) = res_of (gen_notation_go_validateSigMediaType (ci_mt c)).
Proof.
  intros c Hs Hn Hg Hm. rewrite gen_sig_media_type_equiv. unfold validate.
  rewrite Hs, Hn, Hg. apply String.eqb_neq in Hm. rewrite Hm. cbn [negb].
  destruct (valid_mt (ci_mt c)); reflexivity.
Qed.
(* ---------- validateSignArguments (notation.go) ---------- *)

Section SignArguments.
Variables (Pool Cert : Type).

(* the code's sanity check of the sign options reports exactly what the model's [validate]
   reports, test by test and in the same order, on every option value *)
Lemma gen_validateSignArguments_equiv : forall (c : call_in) (signer : anyv) (o : notation_go_SignerSignOptions Pool Cert),
  ci_signer_nil c = any_is_nil signer ->
  ci_expiry c = SignerSignOptions_ExpiryDuration Pool Cert o ->
  ci_mt c = SignerSignOptions_SignatureMediaType Pool Cert o ->
  res_of (gen_notation_go_validateSignArguments Pool Cert signer o) = option_map Some (validate c).
Proof.
  intros c signer o Hs He Hm. unfold gen_notation_go_validateSignArguments, validate.
  rewrite Hs, He, Hm. cbv zeta.
  destruct (any_is_nil signer); [leaf "a nil signer is not refused first"|].
  destruct (SignerSignOptions_ExpiryDuration Pool Cert o <? 0)%Z; [leaf "negative expiry"|].
  destruct (Z.rem (SignerSignOptions_ExpiryDuration Pool Cert o) 1000000000 =? 0)%Z; cbn [negb];
    [|leaf "expiry that is not a whole number of seconds"].
  destruct (String.eqb (SignerSignOptions_SignatureMediaType Pool Cert o) "");
    [leaf "empty signature media type"|].
  pose proof (gen_sig_media_type_equiv (SignerSignOptions_SignatureMediaType Pool Cert o)) as G.
  destruct (gen_notation_go_validateSigMediaType _) as [e|]; cbn [GoLib.is_none negb];
    rewrite G; destruct (valid_mt _); reflexivity.
Qed.
End SignArguments.

(* ---------- envelope.SigningTime (internal/envelope/envelope.go) ---------- *)

Section SigningTime.
Variable Cert : Type.
(* the model's input [si_chain]: hex SHA-256 of cert.Raw (crypto/sha256, encoding/hex) *)
Variable thumb : Cert -> string.

(* time.Time is an instant in Unix nanoseconds (GoLib); the model counts Unix seconds and
   has [None] for the zero time *)
Definition time_of (t : Z) : option Z :=
  if time_is_zero t then None else Some (t / 1000000000)%Z.

Definition signing_time_ns (si : signature_SignerInfo Cert) : Z :=
  SignedAttributes_SigningTime (SignerInfo_SignedAttributes Cert si).

(* a *signature.SignerInfo as the model's [option sinfo] *)
Definition sinfo_of (p : ptr (signature_SignerInfo Cert)) : option sinfo :=
  option_map (fun si => mk_sinfo (map thumb (SignerInfo_CertificateChain Cert si))
                                 (time_of (signing_time_ns si))) (ptr_val p).

Lemma gen_SigningTime_equiv : forall utc p,
  res_of (snd (gen_envelope_SigningTime Cert utc p))
  = match sinfo_of p with
    | None => Some (Some EAnnInfoNil)
    | Some si => match si_time si with None => Some (Some EAnnTime) | Some _ => None end
    end
  /\ (snd (gen_envelope_SigningTime Cert utc p) = None ->
      exists si, ptr_val p = Some si
                 /\ fst (gen_envelope_SigningTime Cert utc p) = utc (signing_time_ns si)).
Proof.
  intros utc p. unfold gen_envelope_SigningTime, sinfo_of, time_of, signing_time_ns.
  destruct (ptr_val p) as [si|]; cbn [option_map si_time]; cbv zeta.
  - destruct (time_is_zero _); cbn [fst snd].
    + split; [leaf "a zero signing time is not refused as missing"|discriminate].
    + split; [reflexivity|]. intros _. exists si. split; reflexivity.
  - cbn [fst snd]. split; [leaf "a nil SignerInfo is not refused"|discriminate].
Qed.

(* where the model makes these two decisions: [gen_ann] (generateAnnotations) fails with
   exactly the class SigningTime reports, and produces annotations exactly when it
   reports none *)
Lemma gen_SigningTime_in_gen_ann : forall utc p h pa,
  match res_of (snd (gen_envelope_SigningTime Cert utc p)) with
  | None => exists r, snd (gen_ann h (sinfo_of p) pa) = inr r
  | Some (Some e) => snd (gen_ann h (sinfo_of p) pa) = inl e
  | Some None => False
  end.
Proof.
  intros utc p h pa. rewrite (proj1 (gen_SigningTime_equiv utc p)). unfold gen_ann.
  destruct (sinfo_of p) as [si|]; [|reflexivity].
  destruct (awrite k_thumb _ h _) as [h1 r1].
  destruct (si_time si) as [t|]; [|reflexivity].
  destruct (awrite k_created _ h1 r1) as [h2 r2]. exists r2. reflexivity.
Qed.

(* the instant the code hands to Format(time.RFC3339) is the one the model formats with
   [rfc3339]; hypothesis on the oracle: Time.UTC() keeps the instant *)
Lemma gen_SigningTime_value : forall utc p si,
  (forall t, utc t = t) ->
  sinfo_of p = Some si ->
  snd (gen_envelope_SigningTime Cert utc p) = None ->
  si_time si = Some (fst (gen_envelope_SigningTime Cert utc p) / 1000000000)%Z.
Proof.
  intros utc p si Hutc Hp Hn.
  destruct (proj2 (gen_SigningTime_equiv utc p) Hn) as [s [Hs Hv]]. rewrite Hv, Hutc.
  pose proof (proj1 (gen_SigningTime_equiv utc p)) as Hc. rewrite Hn, Hp in Hc. cbn in Hc.
  unfold sinfo_of in Hp. rewrite Hs in Hp. cbn in Hp. injection Hp as <-. cbn [si_time] in *.
  unfold time_of in *. destruct (time_is_zero (signing_time_ns s)); [discriminate|reflexivity].
Qed.
End SigningTime.

(* ---------- transport: C11_accepts with the code's own argument check ---------- *)

Lemma gen_validateSignArguments_nil_iff : forall Pool Cert (c : call_in) signer (o : notation_go_SignerSignOptions Pool Cert),
  ci_signer_nil c = any_is_nil signer ->
  ci_expiry c = SignerSignOptions_ExpiryDuration Pool Cert o ->
  ci_mt c = SignerSignOptions_SignatureMediaType Pool Cert o ->
  (gen_notation_go_validateSignArguments Pool Cert signer o = None <-> validate c = None).
Proof.
  intros Pool Cert c signer o Hs He Hm.
  pose proof (gen_validateSignArguments_equiv Pool Cert c signer o Hs He Hm) as H.
  destruct (gen_notation_go_validateSignArguments Pool Cert signer o); destruct (validate c);
    cbn in H; try discriminate; split; intro G; try discriminate; reflexivity.
Qed.

Lemma gen_accepts : forall Pool Cert signer (o : notation_go_SignerSignOptions Pool Cert) tbl st c st' t d,
  ci_signer_nil c = any_is_nil signer ->
  ci_expiry c = SignerSignOptions_ExpiryDuration Pool Cert o ->
  ci_mt c = SignerSignOptions_SignatureMediaType Pool Cert o ->
  gen_notation_go_validateSignArguments Pool Cert signer o = None ->
  sign_oci false tbl st c = (st', t) ->
  ci_repo_nil c = false ->
  lookup_tbl (eff_ref c) tbl = Some d ->
  (eff_ref c = d_dg d \/ ci_isdigest c = false) ->
  nodup_str (map fst (meta_of c (s_heap st))) = true ->
  (forall k, In k (map fst (meta_of c (s_heap st))) ->
             reserved k = false /\ lookup k (aread (d_ann d) (s_heap st)) = None) ->
  t_res t = outcome c /\ reached_signer (t_res t) = true.
Proof.
  intros Pool Cert signer o tbl st c st' t d Hs He Hm Hg Hrun Hr Hl Hd Hn Hk.
  apply (accepts tbl st c st' t d); try assumption.
  apply (gen_validateSignArguments_nil_iff Pool Cert c signer o Hs He Hm). exact Hg.
Qed.
