(* C20_Semver.v — semantic versions as notation-go uses them (definitions only;
   the theorems are in C20_SemverProofs.v).

   Three layers:
   1. validity      [sv_valid]  = internal/semver.IsValid: the regular expression of
                    /repo (Generated.gen_re_semver) run by Regex.matches;
   2. comparison    [xcompare]  = golang.org/x/mod/semver.Compare (v0.24.0) applied
                    to "v"+version, mirrored function by function (parse, parseInt,
                    parsePrerelease, parseBuild, isBadNum, isNum, compareInt,
                    comparePrerelease, nextIdent), and
                    [compare_plugin_version] = internal/semver.ComparePluginVersion;
   3. specification [decode], [prec_cmp], [prec_lt] = SemVer 2.0.0 section 11
                    precedence on the abstract syntax (numeric fields as numbers,
                    pre-release identifiers numeric or alphanumeric, build metadata
                    dropped).
   Byte strings are handled as lists of byte codes (Base.bytes). *)
From NV Require Import Base Regex Generated.
Open Scope N_scope.

Definition bs := list N.

Definition sv_valid (s : string) : bool := matches gen_re_semver s.

(* ---------- byte level helpers ---------- *)
Definition is_digit (c : N) : bool := (48 <=? c) && (c <=? 57).
Definition is_ident_char (c : N) : bool :=
  ((65 <=? c) && (c <=? 90)) || ((97 <=? c) && (c <=? 122)) || is_digit c || (c =? 45).

Definition bs_eqb (x y : bs) : bool := list_eqb N.eqb x y.

(* Go's string order: bytewise lexicographic *)
Fixpoint bs_cmp (x y : bs) : comparison :=
  match x, y with
  | [], [] => Eq
  | [], _ :: _ => Lt
  | _ :: _, [] => Gt
  | a :: x', b :: y' => match a ?= b with Eq => bs_cmp x' y' | c => c end
  end.

(* ---------- x/mod/semver: parse ---------- *)
Fixpoint span_digits (v : bs) : bs * bs :=
  match v with
  | c :: v' => if is_digit c then let (a, b) := span_digits v' in (c :: a, b) else ([], v)
  | [] => ([], [])
  end.

(* parseInt *)
Definition parse_int (v : bs) : option (bs * bs) :=
  match v with
  | [] => None
  | c :: _ =>
      if negb (is_digit c) then None
      else let (t, rest) := span_digits v in
           if (c =? 48) && negb (Nat.eqb (List.length t) 1) then None else Some (t, rest)
  end.

Definition is_num (v : bs) : bool := forallb is_digit v.

(* isBadNum: all digits, more than one, leading zero *)
Definition is_bad_num (v : bs) : bool :=
  is_num v && Nat.ltb 1 (List.length v) && match v with c :: _ => c =? 48 | [] => false end.

Definition ident_end_bad (cur : bs) : bool :=
  match cur with [] => true | _ => is_bad_num cur end.

(* parsePrerelease after its leading '-': [cur] is v[start:i]; returns the text
   consumed and the rest (which is empty or starts with '+') *)
Fixpoint pre_scan (cur : bs) (v : bs) : option (bs * bs) :=
  match v with
  | [] => if ident_end_bad cur then None else Some ([], [])
  | c :: v' =>
      if c =? 43 then (if ident_end_bad cur then None else Some ([], v))
      else if negb (is_ident_char c) && negb (c =? 46) then None
      else if c =? 46 then
        (if ident_end_bad cur then None
         else match pre_scan [] v' with Some (t, r) => Some (c :: t, r) | None => None end)
      else match pre_scan (cur ++ [c])%list v' with Some (t, r) => Some (c :: t, r) | None => None end
  end.

(* parseBuild after its leading '+': runs to the end of the string *)
Fixpoint build_scan (cur : bs) (v : bs) : bool :=
  match v with
  | [] => match cur with [] => false | _ => true end
  | c :: v' =>
      if negb (is_ident_char c) && negb (c =? 46) then false
      else if c =? 46 then (match cur with [] => false | _ => build_scan [] v' end)
      else build_scan (cur ++ [c])%list v'
  end.

Record parsed := mk_parsed {
  p_major : bs; p_minor : bs; p_patch : bs;
  p_pre : bs;      (* with its leading '-', or empty *)
  p_build : bs }.  (* with its leading '+', or empty *)

Definition zero : bs := [48].

(* parse, for the text after the leading "v" that ComparePluginVersion adds *)
Definition xparse (v : bs) : option parsed :=
  match parse_int v with
  | None => None
  | Some (maj, v1) =>
    match v1 with
    | [] => Some (mk_parsed maj zero zero [] [])
    | c1 :: v1' =>
      if negb (c1 =? 46) then None else
      match parse_int v1' with
      | None => None
      | Some (mi, v2) =>
        match v2 with
        | [] => Some (mk_parsed maj mi zero [] [])
        | c2 :: v2' =>
          if negb (c2 =? 46) then None else
          match parse_int v2' with
          | None => None
          | Some (pa, v3) =>
            (* optional pre-release *)
            let pre_res :=
              match v3 with
              | 45 :: v3' => match pre_scan [] v3' with
                             | Some (t, r) => Some (45 :: t, r)
                             | None => None
                             end
              | _ => Some ([], v3)
              end in
            match pre_res with
            | None => None
            | Some (pre, v4) =>
              match v4 with
              | [] => Some (mk_parsed maj mi pa pre [])
              | 43 :: v4' => if build_scan [] v4' then Some (mk_parsed maj mi pa pre v4) else None
              | _ => None
              end
            end
          end
        end
      end
    end
  end.

(* ---------- x/mod/semver: Compare ---------- *)
Definition compare_int (x y : bs) : comparison :=
  if bs_eqb x y then Eq
  else match Nat.compare (List.length x) (List.length y) with
       | Lt => Lt
       | Gt => Gt
       | Eq => match bs_cmp x y with Lt => Lt | _ => Gt end
       end.

Fixpoint next_ident (x : bs) : bs * bs :=
  match x with
  | [] => ([], [])
  | c :: x' => if c =? 46 then ([], x) else let (a, b) := next_ident x' in (c :: a, b)
  end.

(* the comparison of two different identifiers inside comparePrerelease *)
Definition cmp_ident_text (dx dy : bs) : comparison :=
  let ix := is_num dx in
  let iy := is_num dy in
  if negb (Bool.eqb ix iy) then (if ix then Lt else Gt)
  else
    let by_text := match bs_cmp dx dy with Lt => Lt | _ => Gt end in
    if ix then
      match Nat.compare (List.length dx) (List.length dy) with
      | Lt => Lt | Gt => Gt | Eq => by_text
      end
    else by_text.

(* the loop of comparePrerelease; x and y still carry their leading '-' or '.' *)
Fixpoint cmp_pre_loop (fuel : nat) (x y : bs) : comparison :=
  match fuel with
  | O => Lt
  | S f =>
      match x, y with
      | _ :: x1, _ :: y1 =>
          let (dx, x2) := next_ident x1 in
          let (dy, y2) := next_ident y1 in
          if negb (bs_eqb dx dy) then cmp_ident_text dx dy
          else cmp_pre_loop f x2 y2
      | [], _ => Lt
      | _ :: _, [] => Gt
      end
  end.

Definition compare_prerelease (x y : bs) : comparison :=
  if bs_eqb x y then Eq
  else match x, y with
       | [], _ => Gt
       | _, [] => Lt
       | _, _ => cmp_pre_loop (S (List.length x)) x y
       end.

Definition compare_parsed (pv pw : parsed) : comparison :=
  match compare_int (p_major pv) (p_major pw) with
  | Eq => match compare_int (p_minor pv) (p_minor pw) with
          | Eq => match compare_int (p_patch pv) (p_patch pw) with
                  | Eq => compare_prerelease (p_pre pv) (p_pre pw)
                  | c => c
                  end
          | c => c
          end
  | c => c
  end.

(* semver.Compare("v"+v, "v"+w) *)
Definition xcompare (v w : bs) : comparison :=
  match xparse v, xparse w with
  | None, None => Eq
  | None, Some _ => Lt
  | Some _, None => Gt
  | Some pv, Some pw => compare_parsed pv pw
  end.

(* internal/semver.ComparePluginVersion; None = the error return *)
Definition compare_plugin_version (v w : string) : option comparison :=
  if negb (sv_valid v) then None
  else if negb (sv_valid w) then None
  else Some (xcompare (bytes v) (bytes w)).

(* ---------- specification: SemVer 2.0.0 abstract syntax and precedence ---------- *)
Inductive ident := INum (n : N) | IAlnum (s : bs).

Record version := mk_version {
  v_major : N; v_minor : N; v_patch : N; v_pre : list ident }.

(* decimal value *)
Definition dec_val (s : bs) : N := fold_left (fun a c => a * 10 + (c - 48)) s 0.

(* split at every occurrence of a separator *)
Fixpoint split_on (sep : N) (s : bs) : list bs :=
  match s with
  | [] => [[]]
  | c :: s' =>
      if c =? sep then [] :: split_on sep s'
      else match split_on sep s' with
           | h :: t => (c :: h) :: t
           | [] => [[c]]
           end
  end.

(* text before / after the first occurrence of a separator *)
Fixpoint before (sep : N) (s : bs) : bs :=
  match s with [] => [] | c :: s' => if c =? sep then [] else c :: before sep s' end.
Fixpoint after (sep : N) (s : bs) : option bs :=
  match s with [] => None | c :: s' => if c =? sep then Some s' else after sep s' end.

Definition to_ident (s : bs) : ident := if is_num s then INum (dec_val s) else IAlnum s.

(* reading of a version string: build metadata (after the first '+') is dropped,
   the pre-release is what follows the first '-', fields are separated by '.' *)
Definition decode (s : bs) : option version :=
  let nobuild := before 43 s in
  let core := before 45 nobuild in
  let pre := match after 45 nobuild with
             | None => []
             | Some p => map to_ident (split_on 46 p)
             end in
  match split_on 46 core with
  | [a; b; c] => Some (mk_version (dec_val a) (dec_val b) (dec_val c) pre)
  | _ => None
  end.

Definition ident_cmp (a b : ident) : comparison :=
  match a, b with
  | INum x, INum y => x ?= y
  | INum _, IAlnum _ => Lt
  | IAlnum _, INum _ => Gt
  | IAlnum s, IAlnum t => bs_cmp s t
  end.

Fixpoint idents_cmp (x y : list ident) : comparison :=
  match x, y with
  | [], [] => Eq
  | [], _ :: _ => Lt
  | _ :: _, [] => Gt
  | a :: x', b :: y' => match ident_cmp a b with Eq => idents_cmp x' y' | c => c end
  end.

Definition pre_cmp (x y : list ident) : comparison :=
  match x, y with
  | [], [] => Eq
  | [], _ :: _ => Gt          (* a normal version is higher than its pre-releases *)
  | _ :: _, [] => Lt
  | _, _ => idents_cmp x y
  end.

Definition prec_cmp (a b : version) : comparison :=
  match v_major a ?= v_major b with
  | Eq => match v_minor a ?= v_minor b with
          | Eq => match v_patch a ?= v_patch b with
                  | Eq => pre_cmp (v_pre a) (v_pre b)
                  | c => c
                  end
          | c => c
          end
  | c => c
  end.

(* the same order as a relation, clause by clause after SemVer 2.0.0 section 11 *)
Inductive bs_lt : bs -> bs -> Prop :=
| BL_nil c y : bs_lt [] (c :: y)
| BL_head a b x y : a < b -> bs_lt (a :: x) (b :: y)
| BL_tail a x y : bs_lt x y -> bs_lt (a :: x) (a :: y).

Inductive ident_lt : ident -> ident -> Prop :=
| IL_num a b : a < b -> ident_lt (INum a) (INum b)                 (* 11.4.1 *)
| IL_alnum s t : bs_lt s t -> ident_lt (IAlnum s) (IAlnum t)       (* 11.4.2 *)
| IL_mixed a s : ident_lt (INum a) (IAlnum s).                     (* 11.4.3 *)

Inductive idents_lt : list ident -> list ident -> Prop :=
| PL_more y ys : idents_lt [] (y :: ys)                            (* 11.4.4 *)
| PL_head x y xs ys : ident_lt x y -> idents_lt (x :: xs) (y :: ys)
| PL_tail x xs ys : idents_lt xs ys -> idents_lt (x :: xs) (x :: ys).

Inductive prec_lt : version -> version -> Prop :=
| PR_major a b : v_major a < v_major b -> prec_lt a b                               (* 11.2 *)
| PR_minor a b : v_major a = v_major b -> v_minor a < v_minor b -> prec_lt a b
| PR_patch a b : v_major a = v_major b -> v_minor a = v_minor b -> v_patch a < v_patch b -> prec_lt a b
| PR_release a b : v_major a = v_major b -> v_minor a = v_minor b -> v_patch a = v_patch b ->
    v_pre a <> [] -> v_pre b = [] -> prec_lt a b                                      (* 11.3 *)
| PR_pre a b : v_major a = v_major b -> v_minor a = v_minor b -> v_patch a = v_patch b ->
    v_pre a <> [] -> v_pre b <> [] -> idents_lt (v_pre a) (v_pre b) -> prec_lt a b.  (* 11.4 *)

(* precedence of two version strings (Eq when one does not decode) *)
Definition prec_of (v w : string) : comparison :=
  match decode (bytes v), decode (bytes w) with
  | Some a, Some b => prec_cmp a b
  | _, _ => Eq
  end.

(* "v is a valid version strictly higher than the valid version w" *)
Definition sv_higher (v w : string) : bool :=
  sv_valid v && sv_valid w && match prec_of v w with Gt => true | _ => false end.
