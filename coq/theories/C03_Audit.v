(* C03_Audit.v — proofs added by the theorem audit (docs/audit/C03.md): the exact
   characterisation of a pass, of the selected statement, of "authenticity has a result",
   non-interference of the whole observation, rewriting of the statements that are not
   selected, failure on a load error for every list. *)
From NV Require Import Base C03_Model C03_Proofs.

(* ---------- a completed loading loop has seen a separator in every value ---------- *)
Lemma has_sep_cut x sty n : cut_byte colon x = Some (sty, n) -> has_sep x = true.
Proof.
  intros H. unfold has_sep. destruct (contains_byte colon x) eqn:C; [reflexivity|].
  apply cut_none in C. congruence.
Qed.

Lemma load_ok_sep fs ty : forall stores P cs,
  (forall x, In x P -> has_sep x = true) ->
  fst (load fs ty stores P) = LOk cs -> forall s, In s stores -> has_sep s = true.
Proof.
  induction stores as [|x rest IH]; intros P cs HP H s Hin; [contradiction|].
  cbn [load] in H. destruct (mem_str x P) eqn:Em.
  { destruct Hin as [->|Hin]; [apply HP, mem_str_In, Em | eapply IH; eauto]. }
  destruct (cut_byte colon x) as [[sty n]|] eqn:Ecx; [|cbn in H; discriminate].
  pose proof (has_sep_cut _ _ _ Ecx) as Hx.
  destruct (negb (String.eqb ty sty)).
  { destruct Hin as [->|Hin]; [exact Hx | eapply IH; eauto]. }
  destruct (fs_get fs ty n) as [l|]; [|cbn in H; discriminate].
  cbn [fst] in H. destruct (fst (load fs ty rest (x :: P))) as [cs'| |] eqn:Er; try discriminate.
  destruct Hin as [->|Hin]; [exact Hx|]. apply (IH (x :: P) cs'); auto.
  intros y [<-|Hy]; auto.
Qed.

(* ---------- authenticity passes EXACTLY when ... (no side condition) ---------- *)
Theorem pass_iff : forall i, o_auth (model i) = Some APass <->
  exists st ty,
    select (i_policy i) (i_repo i) = Some st /\ st_action st <> SkipLevel /\
    store_type_of (i_scheme i) = Some ty /\
    (forall s, In s (st_stores st) -> contains_byte colon s = true) /\
    (forall n, In (store_value ty n) (st_stores st) -> fs_get (i_fs i) ty n <> LoadError) /\
    exists name l c, In (store_value ty name) (st_stores st) /\ fs_get (i_fs i) ty name = Certs l /\
                     In c l /\ In c (i_chain i).
Proof.
  intros i. split.
  - intros H. destruct (model_auth_inv i _ H) as (st & Hs & Ha & Hc). symmetry in Hc.
    destruct (auth_stage_pass _ _ _ _ Hc) as (ty & name & l & c & Hty & Hin & Hfs & Hcl & Hcc).
    exists st, ty. split; [exact Hs|]. split; [exact Ha|]. split; [exact Hty|]. split; [|split].
    + intros s Hs'. unfold auth_of, auth_stage in Hc. rewrite Hty in Hc. cbn [fst] in Hc.
      destruct (fst (load (i_fs i) ty (st_stores st) [])) as [cs| |] eqn:El; try discriminate.
      apply (load_ok_sep (i_fs i) ty (st_stores st) [] cs); auto.
    + intros n Hn Hbad. exact (load_error_never_passes i st ty n Hs Hty Hn Hbad H).
    + exists name, l, c. auto.
  - intros (st & ty & Hs & Ha & Hty & Hsep & Hload & name & l & c & Hin & Hfs & Hcl & Hcc).
    exact (complete i st ty name l c Hs Ha Hty Hsep Hload Hin Hfs Hcl Hcc).
Qed.

(* a pass names the store type by the scheme: ca for notary.x509, signingAuthority for
   notary.x509.signingAuthority, nothing else *)
Theorem pass_typed : forall i, o_auth (model i) = Some APass ->
  exists st ty name l c,
    select (i_policy i) (i_repo i) = Some st /\
    ((i_scheme i = SX509 /\ ty = "ca"%string) \/ (i_scheme i = SSA /\ ty = "signingAuthority"%string)) /\
    In (store_value ty name) (st_stores st) /\ fs_get (i_fs i) ty name = Certs l /\
    In c l /\ In c (i_chain i).
Proof.
  intros i H. destruct (sound i H) as (st & ty & name & l & c & Hs & Hty & R).
  exists st, ty, name, l, c. split; [exact Hs|]. split; [|exact R].
  destruct (i_scheme i); cbn in Hty; inversion Hty; [left | right]; split; reflexivity.
Qed.

(* ---------- authenticity has a result exactly when a statement applies and its level is not skip ---------- *)
Theorem auth_some_iff : forall i, (exists c, o_auth (model i) = Some c) <->
  exists st, select (i_policy i) (i_repo i) = Some st /\ st_action st <> SkipLevel.
Proof.
  intros i. split.
  - intros (c & H). destruct (model_auth_inv i c H) as (st & Hs & Ha & _). exists st. split; assumption.
  - intros (st & Hs & Ha). eexists. exact (model_auth i st Hs Ha).
Qed.

Theorem no_result : forall i,
  (select (i_policy i) (i_repo i) = None \/
   exists st, select (i_policy i) (i_repo i) = Some st /\ st_action st = SkipLevel) ->
  model i = mk_obs None [] false.
Proof.
  intros i [H | (st & H & Ha)]; unfold model; rewrite H; [reflexivity | now rewrite Ha].
Qed.

(* ---------- a store that cannot be loaded: a failure, for every list ---------- *)
Theorem load_error_fails : forall i st ty name,
  select (i_policy i) (i_repo i) = Some st -> st_action st <> SkipLevel ->
  store_type_of (i_scheme i) = Some ty ->
  In (store_value ty name) (st_stores st) -> fs_get (i_fs i) ty name = LoadError ->
  exists c, o_auth (model i) = Some c /\ c <> APass /\
            o_stop (model i) = (match st_action st with Enforce => true | _ => false end).
Proof.
  intros i st ty name Hs Ha Hty Hin Hfs.
  pose proof (load_error_never_passes i st ty name Hs Hty Hin Hfs) as Hno.
  rewrite (model_auth i st Hs Ha) in Hno.
  exists (fst (auth_of i st)). split; [exact (model_auth i st Hs Ha)|]. split; [congruence|].
  rewrite (model_stop i st Hs Ha).
  destruct (fst (auth_of i st)); cbn [is_pass negb]; try now rewrite andb_true_r.
  congruence.
Qed.

(* ---------- the whole observation reads the trust store only at listed stores of the
   scheme's type and of the type tsa ---------- *)
Lemma tsa_calls_ext sch fs fs' b stores :
  (forall name, In (store_value ty_tsa name) stores -> fs_get fs ty_tsa name = fs_get fs' ty_tsa name) ->
  tsa_calls sch fs b stores = tsa_calls sch fs' b stores.
Proof.
  intros H. unfold tsa_calls. destruct sch; try reflexivity.
  destruct (tsa_in_policy stores) as [[|]|]; try reflexivity. destruct b; [|reflexivity].
  rewrite (load_ext fs fs' ty_tsa stores []); [reflexivity|].
  intros s name Hin Hcut. apply H. now rewrite <- (cut_store_value _ _ _ Hcut).
Qed.

Theorem fs_noninterference_full : forall i fs' st ty,
  select (i_policy i) (i_repo i) = Some st -> store_type_of (i_scheme i) = Some ty ->
  (forall t name, t = ty \/ t = ty_tsa -> In (store_value t name) (st_stores st) ->
                  fs_get (i_fs i) t name = fs_get fs' t name) ->
  model (with_fs i fs') = model i.
Proof.
  intros i fs' st ty Hs Hty Hag.
  assert (E1 : auth_stage (i_scheme i) fs' (i_chain i) (st_stores st)
               = auth_stage (i_scheme i) (i_fs i) (i_chain i) (st_stores st)).
  { unfold auth_stage. rewrite Hty. rewrite (load_ext fs' (i_fs i) ty (st_stores st) []); [reflexivity|].
    intros s name Hin Hcut. symmetry. apply Hag; [now left|]. now rewrite <- (cut_store_value _ _ _ Hcut). }
  assert (E2 : forall b, tsa_calls (i_scheme i) fs' b (st_stores st) = tsa_calls (i_scheme i) (i_fs i) b (st_stores st)).
  { intros b. apply tsa_calls_ext. intros name Hin. symmetry. apply Hag; [now right | exact Hin]. }
  unfold model. cbn [with_fs i_policy i_repo i_scheme i_fs i_chain i_token]. rewrite Hs, E1, E2. reflexivity.
Qed.

(* ---------- the statements that are not selected may be rewritten at will ---------- *)
Lemma find_last_map {A B} (f : A -> B) (p : B -> bool) l :
  find_last p (map f l) = option_map f (find_last (fun x => p (f x)) l).
Proof.
  induction l as [|a l IH]; [reflexivity|]. cbn [map find_last]. rewrite IH.
  destruct (find_last (fun x => p (f x)) l); cbn [option_map]; [reflexivity|].
  now destruct (p (f a)).
Qed.

Lemma find_last_ext {A} (p q : A -> bool) l : (forall x, p x = q x) -> find_last p l = find_last q l.
Proof.
  intros H. induction l as [|a l IH]; [reflexivity|]. cbn. rewrite IH, H. reflexivity.
Qed.

Lemma select_map f policy repo : (forall s, st_scopes (f s) = st_scopes s) ->
  select (map f policy) repo = option_map f (select policy repo).
Proof.
  intros Hf. rewrite !select_eq, !find_last_map.
  rewrite (find_last_ext (fun x => is_exact repo (f x)) (is_exact repo))
    by (intros x; unfold is_exact, has_scope; now rewrite Hf).
  rewrite (find_last_ext (fun x => is_wild (f x)) is_wild)
    by (intros x; unfold is_wild, has_scope; now rewrite Hf).
  destruct (find_last (is_exact repo) policy), (find_last is_wild policy); reflexivity.
Qed.

Theorem other_statements_rewrite : forall i f st,
  (forall s, st_scopes (f s) = st_scopes s) ->
  select (i_policy i) (i_repo i) = Some st -> f st = st ->
  model (with_policy i (map f (i_policy i))) = model i.
Proof.
  intros i f st Hf Hs Hst. apply other_statements.
  rewrite (select_map f _ _ Hf), Hs. cbn. now rewrite Hst.
Qed.

(* ---------- which statement is selected, declaratively ---------- *)
Lemma scope_unique x : forall policy s s',
  nodup_str (flat_map st_scopes policy) = true ->
  In s policy -> In s' policy -> has_scope x s = true -> has_scope x s' = true -> s = s'.
Proof.
  induction policy as [|a r IH]; intros s s' Hnd Hs Hs' Hx Hx'; [contradiction|].
  cbn [flat_map] in Hnd. destruct (nodup_str_app _ _ Hnd) as [Hr Hd].
  unfold has_scope in Hx, Hx'. apply mem_str_In in Hx. apply mem_str_In in Hx'.
  destruct Hs as [->|Hs], Hs' as [->|Hs'].
  - reflexivity.
  - exfalso. apply (Hd x Hx). apply in_flat_map. exists s'. split; assumption.
  - exfalso. apply (Hd x Hx'). apply in_flat_map. exists s. split; assumption.
  - apply IH; auto; unfold has_scope; now apply mem_str_In.
Qed.

Lemma find_ex {A} (p : A -> bool) l x : In x l -> p x = true -> exists y, find p l = Some y.
Proof.
  intros Hin Hp. destruct (find p l) as [y|] eqn:E; [now exists y|].
  pose proof (find_none _ _ E x Hin). congruence.
Qed.

Lemma find_none_intro {A} (p : A -> bool) l : (forall x, In x l -> p x = false) -> find p l = None.
Proof.
  induction l as [|a l IH]; [reflexivity|]. intros H. cbn.
  rewrite (H a (or_introl eq_refl)). apply IH. intros; apply H; now right.
Qed.

Theorem select_iff : forall policy repo st, nodup_str (flat_map st_scopes policy) = true ->
  (select policy repo = Some st <->
   In st policy /\
   ((has_scope wildcard st = false /\ has_scope repo st = true) \/
    (has_scope wildcard st = true /\
     forall s, In s policy -> has_scope wildcard s = false -> has_scope repo s = false))).
Proof.
  intros policy repo st Hnd. split.
  - intros H. destruct (selected_in_scope _ _ _ H) as [Hin Hsc]. split; [exact Hin|].
    destruct (has_scope wildcard st) eqn:Ew.
    + right. split; [reflexivity|]. exact (selected_exact_first _ _ _ H Ew).
    + left. split; [reflexivity|]. destruct Hsc as [Hsc|Hsc]; [exact Hsc | discriminate].
  - intros [Hin Hc]. rewrite (select_applicable _ _ Hnd). unfold applicable.
    destruct Hc as [[Hw Hr] | [Hw Hno]].
    + assert (Hp : (fun s => negb (has_scope wildcard s) && has_scope repo s) st = true)
        by (cbv beta; now rewrite Hw, Hr).
      destruct (find_ex _ _ _ Hin Hp) as (y & Ey). rewrite Ey. f_equal.
      apply find_some in Ey. destruct Ey as [Hy Hpy]. apply andb_true_iff in Hpy.
      apply (scope_unique repo policy y st Hnd Hy Hin); [apply Hpy | exact Hr].
    + rewrite find_none_intro.
      2:{ intros x Hx. destruct (has_scope wildcard x) eqn:Ewx; [reflexivity|]. cbn. exact (Hno x Hx Ewx). }
      destruct (find_ex (has_scope wildcard) _ _ Hin Hw) as (y & Ey). rewrite Ey. f_equal.
      apply find_some in Ey. destruct Ey as [Hy Hpy].
      exact (scope_unique wildcard policy y st Hnd Hy Hin Hpy Hw).
Qed.

Lemma find_last_none_inv {A} (p : A -> bool) l : find_last p l = None -> forall x, In x l -> p x = false.
Proof.
  induction l as [|a l IH]; [intros _ x []|]. cbn.
  destruct (find_last p l) eqn:E; [discriminate|]. destruct (p a) eqn:Ea; [discriminate|].
  intros _ x [<-|Hx]; [exact Ea | now apply IH].
Qed.

Theorem select_none_iff : forall policy repo,
  select policy repo = None <->
  forall s, In s policy -> has_scope repo s = false /\ has_scope wildcard s = false.
Proof.
  intros policy repo. rewrite select_eq. split.
  - intros H. destruct (find_last (is_exact repo) policy) eqn:Ee; [discriminate|]. cbn in H.
    intros s Hs. pose proof (find_last_none_inv _ _ Ee s Hs) as H1.
    pose proof (find_last_none_inv _ _ H s Hs) as H2. unfold is_exact in H1. unfold is_wild in H2.
    rewrite H2 in H1. cbn in H1. split; assumption.
  - intros H. rewrite (find_last_none (is_exact repo)), (find_last_none is_wild); [reflexivity| |].
    + intros x Hx. apply (H x Hx).
    + intros x Hx. unfold is_exact. destruct (H x Hx) as [-> ->]. reflexivity.
Qed.
