(* C01_VerifyE2E_PSErr.v — a frame property of C02's generated processSignature
   (theories/C02_Gen.v) that C02's equivalence theorem does not state: the function never
   assigns outcome.Error. Whatever the oracles answer, the outcome it returns carries the
   Error it was handed — provided processPluginResponse (an oracle of the translation: it
   writes through a pointer it finds in outcome.VerificationResults) leaves that field alone.
   verifier.Verify returns outcome.Error at its end, so this is what makes "processSignature
   returned nil" enough for the post-checks to decide (props/C01_VerifyE2E_C02.v).
   The proof walks every path of the generated term; it does not depend on what the
   conditions are, only on where the outcome flows. *)
From Coq Require Import List Bool String Ascii ZArith.
From NV Require Import Base GoLib C02_Gen.
From NV Require C02_GenSig.
Import ListNotations.

Definition keeps {C} (x : option err) (res : option (notation_go_VerificationOutcome C * option err)) : Prop :=
  match res with
  | Some (o, _) => VerificationOutcome_Error C o = x
  | None => True
  end.

Lemma loop2_keeps C x K o l :
  keeps x (K tt) -> VerificationOutcome_Error C o = x ->
  keeps x (gen_verifier_verifier_processSignature_loop2 C K o l).
Proof.
  intros HK Ho. induction l as [|a l IH]; [exact HK|].
  cbn [gen_verifier_verifier_processSignature_loop2]. destruct (Attribute_Critical a); [exact Ho|exact IH].
Qed.

Lemma loop3_keeps C x K o l : forall caps,
  (forall c, keeps x (K c)) ->
  keeps x (gen_verifier_verifier_processSignature_loop3 C K o l caps).
Proof.
  induction l as [|a l IH]; intros caps HK; [apply HK|].
  cbn [gen_verifier_verifier_processSignature_loop3].
  destruct (ptr_val (VerificationOutcome_VerificationLevel C o)); [|exact I].
  destruct (_ && _); apply IH; exact HK.
Qed.

Lemma loop4_keeps C x K l : forall caps,
  (forall c, keeps x (K c)) ->
  keeps x (gen_verifier_verifier_processSignature_loop4 C K l caps).
Proof.
  induction l as [|a l IH]; intros caps HK; [apply HK|].
  cbn [gen_verifier_verifier_processSignature_loop4]. cbv zeta.
  destruct (_ || _); apply IH; exact HK.
Qed.

(* ---------- walking the generated term ---------- *)
Ltac head_of t := lazymatch t with ?f _ => head_of f | _ => t end.

Ltac unfold_outcomes :=
  repeat match goal with
  | |- context [VerificationOutcome_Error _ ?o] => is_var o; unfold o
  | |- context [set_VerificationOutcome_VerificationResults _ _ ?o] => is_var o; unfold o
  | |- context [set_VerificationOutcome_EnvelopeContent _ _ ?o] => is_var o; unfold o
  end;
  cbn [VerificationOutcome_Error set_VerificationOutcome_VerificationResults set_VerificationOutcome_EnvelopeContent].

Ltac leaf Hppr :=
  cbn [keeps]; unfold_outcomes;
  first
  [ assumption
  | match goal with
    | E : ?f ?a ?b ?o = (?o', _) |- VerificationOutcome_Error _ ?o' = _ =>
        let Q := fresh "Q" in
        pose proof (Hppr a b o) as Q; rewrite E in Q; cbn [fst] in Q; rewrite Q; unfold_outcomes; assumption
    end ].

Ltac step Hppr IH :=
  lazymatch goal with
  | |- keeps _ None => exact I
  | |- keeps _ (Some _) => leaf Hppr
  | |- keeps ?x (let v := ?f in @?b v) =>
      let v' := fresh v in pose (v' := f); change (keeps x (b v')); cbv beta
  | |- keeps _ (match ?d with _ => _ end) => destruct d eqn:?
  | |- keeps _ (gen_verifier_verifier_processSignature_loop2 _ _ _ _) => apply loop2_keeps
  | |- keeps _ (gen_verifier_verifier_processSignature_loop3 _ _ _ _ _) => apply loop3_keeps; intros ?
  | |- keeps _ (gen_verifier_verifier_processSignature_loop4 _ _ _ _) => apply loop4_keeps; intros ?
  | |- keeps _ (gen_verifier_verifier_processSignature_loop1 _ _ _ _ _ _ _ _ _ _ _ _ _ _ _ _ _ _ _ _ _ _ _ _ _ _ _ _ _) => apply IH
  | |- VerificationOutcome_Error _ _ = _ => unfold_outcomes; assumption
  | |- keeps _ ?t => let h := head_of t in is_var h; unfold h; cbv beta
  end.

Section Frame.
Variable O : C02_GenSig.oracles.
Local Notation C := (C02_GenSig.or_C O).

(* processPluginResponse leaves outcome.Error alone *)
Definition ppr_frame : Prop :=
  forall cs resp o, VerificationOutcome_Error C (fst (C02_GenSig.or_ppr O cs resp o)) = VerificationOutcome_Error C o.

Lemma loop1_keeps x (Hppr : ppr_frame) caps o e name stores v sv plugin ids cfg l :
  VerificationOutcome_Error C o = x ->
  keeps x (gen_verifier_verifier_processSignature_loop1
             (C02_GenSig.or_cmp O) C (C02_GenSig.or_subject O) (C02_GenSig.or_getmeta O) (C02_GenSig.or_PL O)
             (C02_GenSig.or_get O) (C02_GenSig.or_vsig O) (C02_GenSig.or_VP O) (C02_GenSig.or_raw O)
             (C02_GenSig.or_load O) (C02_GenSig.or_authenticity O) (C02_GenSig.or_identities O)
             (C02_GenSig.or_expiry O) (C02_GenSig.or_timestamp O) (C02_GenSig.or_signing_time O)
             (C02_GenSig.or_PM O) (C02_GenSig.or_ppr O) (C02_GenSig.or_up O)
             caps o e name stores v sv plugin ids cfg l).
Proof.
  intros Ho. induction l as [|a l IH].
  2:{ cbn [gen_verifier_verifier_processSignature_loop1]. repeat step Hppr IH. }
  cbn [gen_verifier_verifier_processSignature_loop1].
  repeat step Hppr IH.
Qed.
End Frame.
