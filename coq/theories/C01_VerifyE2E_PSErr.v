(* C01_VerifyE2E_PSErr.v — a frame property of C02's generated processSignature
   (theories/C02_Gen.v) that C02's equivalence theorem does not state: the function never
   assigns outcome.Error. Whatever the oracles answer, the outcome it returns carries the
   Error it was handed — provided processPluginResponse (an oracle of the translation: it
   writes through a pointer it finds in outcome.VerificationResults) leaves that field alone.
   verifier.Verify returns outcome.Error at its end, so this is what makes "processSignature
   returned nil" enough for the post-checks to decide (props/C01_VerifyE2E_C02.v).
   The proof walks every path of the generated term; it does not depend on what the
   conditions are, only on where the outcome flows. *)
From Coq Require Import List Bool String Ascii ZArith.
From NV Require Import Base GoLib C02_Gen.
From NV Require C02_GenSig.
Import ListNotations.

Definition keeps {C} (x : option err) (res : option (notation_go_VerificationOutcome C * option err)) : Prop :=
  match res with
  | Some (o, _) => VerificationOutcome_Error C o = x
  | None => True
  end.

Lemma loop2_keeps C x K o l :
  keeps x (K tt) -> VerificationOutcome_Error C o = x ->
  keeps x (gen_verifier_verifier_processSignature_loop2 C K o l).
Proof.
  intros HK Ho. induction l as [|a l IH]; [exact HK|].
  cbn [gen_verifier_verifier_processSignature_loop2]. destruct (Attribute_Critical a); [exact Ho|exact IH].
Qed.

Lemma loop3_keeps C x K o l : forall caps,
  (forall c, keeps x (K c)) ->
  keeps x (gen_verifier_verifier_processSignature_loop3 C K o l caps).
Proof.
  induction l as [|a l IH]; intros caps HK; [apply HK|].
  cbn [gen_verifier_verifier_processSignature_loop3].
  destruct (ptr_val (VerificationOutcome_VerificationLevel C o)); [|exact I].
  destruct (_ && _); apply IH; exact HK.
Qed.

Lemma loop4_keeps C x K l : forall caps,
  (forall c, keeps x (K c)) ->
  keeps x (gen_verifier_verifier_processSignature_loop4 C K l caps).
Proof.
  induction l as [|a l IH]; intros caps HK; [apply HK|].
  cbn [gen_verifier_verifier_processSignature_loop4]. cbv zeta.
  destruct (_ || _); apply IH; exact HK.
Qed.

(* case analysis without abstracting over the (large) goal *)
Lemma keeps_opt {C A} x (d : option A) (f : A -> option (notation_go_VerificationOutcome C * option err)) g :
  (forall a, keeps x (f a)) -> keeps x g -> keeps x (match d with Some a => f a | None => g end).
Proof. intros H1 H2. destruct d; [apply H1|exact H2]. Qed.
Lemma keeps_if {C} x (d : bool) (t e : option (notation_go_VerificationOutcome C * option err)) :
  keeps x t -> keeps x e -> keeps x (if d then t else e).
Proof. intros H1 H2. destruct d; assumption. Qed.
Lemma keeps_pair {C A B} x (d : A * B) (f : A -> B -> option (notation_go_VerificationOutcome C * option err)) :
  (forall a b, keeps x (f a b)) -> keeps x (let '(a, b) := d in f a b).
Proof. intros H. destruct d. apply H. Qed.
Lemma keeps_pair_eq {C A B} x (d : A * B) (f : A -> B -> option (notation_go_VerificationOutcome C * option err)) :
  (forall a b, d = (a, b) -> keeps x (f a b)) -> keeps x (let '(a, b) := d in f a b).
Proof. intros H. destruct d. apply H. reflexivity. Qed.

(* ---------- walking the generated term ---------- *)
Ltac head_of t := lazymatch t with ?f _ => head_of f | _ => t end.

Ltac unfold_outcomes :=
  repeat match goal with
  | |- context [VerificationOutcome_Error _ ?o] => is_var o; unfold o
  | |- context [set_VerificationOutcome_VerificationResults _ _ ?o] => is_var o; unfold o
  | |- context [set_VerificationOutcome_EnvelopeContent _ _ ?o] => is_var o; unfold o
  end;
  cbn [VerificationOutcome_Error set_VerificationOutcome_VerificationResults set_VerificationOutcome_EnvelopeContent].

Ltac leaf Hppr :=
  cbn [keeps]; unfold_outcomes;
  first
  [ assumption
  | match goal with
    | E : ?f ?a ?b ?o = (?o', _) |- VerificationOutcome_Error _ ?o' = _ =>
        let Q := fresh "Q" in
        pose proof (Hppr a b o) as Q; rewrite E in Q; cbn [fst] in Q; rewrite Q; unfold_outcomes; assumption
    end ].

(* a let-bound continuation gets its own lemma (proved once, by walking its body), and is then
   used through it: the walk is linear in the size of the term *)
Ltac step Hppr IH :=
  lazymatch goal with
  | |- keeps _ None => exact I
  | |- keeps _ (Some _) => leaf Hppr
  | |- keeps ?x (let v := ?f in @?b v) =>
      let v' := fresh v in
      pose (v' := f); change (keeps x (b v')); cbv beta;
      let T := type of f in
      let H := fresh "Hk" in
      lazymatch T with
      | notation_go_VerificationOutcome _ -> _ -> _ -> option _ =>
          assert (H : forall q1 q2 q3, VerificationOutcome_Error _ q1 = x -> keeps x (v' q1 q2 q3))
            by (intros; unfold v'; cbv beta; repeat step Hppr IH);
          clearbody v'
      | notation_go_VerificationOutcome _ -> _ -> option _ =>
          assert (H : forall q1 q2, VerificationOutcome_Error _ q1 = x -> keeps x (v' q1 q2))
            by (intros; unfold v'; cbv beta; repeat step Hppr IH);
          clearbody v'
      | notation_go_VerificationOutcome _ -> option _ =>
          assert (H : forall q1, VerificationOutcome_Error _ q1 = x -> keeps x (v' q1))
            by (intros; unfold v'; cbv beta; repeat step Hppr IH);
          clearbody v'
      | _ -> _ -> option (notation_go_VerificationOutcome _ * _)%type =>
          assert (H : forall q1 q2, keeps x (v' q1 q2))
            by (intros; unfold v'; cbv beta; repeat step Hppr IH);
          clearbody v'
      | _ -> option (notation_go_VerificationOutcome _ * _)%type =>
          assert (H : forall q1, keeps x (v' q1))
            by (intros; unfold v'; cbv beta; repeat step Hppr IH);
          clearbody v'
      | _ => idtac
      end
  | |- keeps _ (match ?d with _ => _ end) =>
      let T := type of d in
      lazymatch T with
      | option _ => apply keeps_opt; [intros ?|]
      | bool => apply keeps_if
      | (notation_go_VerificationOutcome _ * _)%type => apply keeps_pair_eq; intros ? ? ?
      | (_ * _)%type => apply keeps_pair; intros ? ?
      | _ => destruct d
      end
  | |- keeps _ (gen_verifier_verifier_processSignature_loop2 _ _ _ _) => apply loop2_keeps
  | |- keeps _ (gen_verifier_verifier_processSignature_loop3 _ _ _ _ _) => apply loop3_keeps; intros ?
  | |- keeps _ (gen_verifier_verifier_processSignature_loop4 _ _ _ _) => apply loop4_keeps; intros ?
  | |- keeps _ (gen_verifier_verifier_processSignature_loop1 _ _ _ _ _ _ _ _ _ _ _ _ _ _ _ _ _ _ _ _ _ _ _ _ _ _ _ _ _) => apply IH
  | |- VerificationOutcome_Error _ _ = _ => unfold_outcomes; assumption
  | |- keeps _ ?t =>
      let h := head_of t in is_var h;
      first [ match goal with H : forall _, _ |- _ => apply H end | unfold h; cbv beta ]
  end.

Section Frame.
Variable O : C02_GenSig.oracles.
Local Notation C := (C02_GenSig.or_C O).

(* processPluginResponse leaves outcome.Error alone *)
Definition ppr_frame : Prop :=
  forall cs resp o, VerificationOutcome_Error C (fst (C02_GenSig.or_ppr O cs resp o)) = VerificationOutcome_Error C o.

Lemma loop1_keeps x (Hppr : ppr_frame) caps o e name stores v sv plugin ids cfg l :
  VerificationOutcome_Error C o = x ->
  keeps x (gen_verifier_verifier_processSignature_loop1
             (C02_GenSig.or_cmp O) C (C02_GenSig.or_subject O) (C02_GenSig.or_getmeta O) (C02_GenSig.or_PL O)
             (C02_GenSig.or_get O) (C02_GenSig.or_vsig O) (C02_GenSig.or_VP O) (C02_GenSig.or_raw O)
             (C02_GenSig.or_load O) (C02_GenSig.or_authenticity O) (C02_GenSig.or_identities O)
             (C02_GenSig.or_expiry O) (C02_GenSig.or_timestamp O) (C02_GenSig.or_signing_time O)
             (C02_GenSig.or_PM O) (C02_GenSig.or_ppr O) (C02_GenSig.or_up O)
             caps o e name stores v sv plugin ids cfg l).
Proof.
  intros Ho. induction l as [|a l IH].
  2:{ cbn [gen_verifier_verifier_processSignature_loop1]. repeat step Hppr IH. }
  cbv beta iota fix delta [gen_verifier_verifier_processSignature_loop1].
  repeat step Hppr IH.
Qed.

(* THE FRAME PROPERTY: whatever processSignature returns, the outcome carries the Error it was handed *)
Theorem processSignature_keeps_error (K : C02_GenSig.call O) :
  ppr_frame ->
  keeps (VerificationOutcome_Error C (C02_GenSig.cl_outcome K)) (C02_GenSig.run O K).
Proof.
  intros Hppr. unfold C02_GenSig.run, gen_verifier_verifier_processSignature.
  set (x := VerificationOutcome_Error C (C02_GenSig.cl_outcome K)).
  assert (Ho : VerificationOutcome_Error C (C02_GenSig.cl_outcome K) = x) by reflexivity.
  clearbody x.
  pose proof (fun caps o e name stores v sv plugin ids cfg l => loop1_keeps x Hppr caps o e name stores v sv plugin ids cfg l) as L.
  repeat step Hppr L.
Qed.

Corollary processSignature_error_unchanged (K : C02_GenSig.call O) out e :
  ppr_frame -> C02_GenSig.run O K = Some (out, e) ->
  VerificationOutcome_Error C out = VerificationOutcome_Error C (C02_GenSig.cl_outcome K).
Proof. intros Hppr R. pose proof (processSignature_keeps_error K Hppr) as H. rewrite R in H. exact H. Qed.
End Frame.
