(* C01_VerifyE2E_Compose.v — the generated verifier.Verify (theories/C01_Gen.v) COMPOSED with
   the generated processSignature of C02 (theories/C02_Gen.v, C02_gen_processSignature_is_model)
   and the generated GetApplicableTrustPolicy of C08 (theories/C08_Gen.v, C08_gen_OCI_..._equiv).

   theories/C01_VerifyE2E.v proves its theorems for EVERY behaviour of the oracles [gatp] and
   [ps]. Here the oracles are INSTANTIATED with the other two generated functions. Each
   generated file has its own copy of the record types (same fields, generated from the same Go
   types), so the instantiation goes through the field-by-field conversions below; they carry
   no logic (every field is copied).

   C02's and C08's files are only read. *)
From Coq Require Import List Bool String Ascii NArith ZArith Lia.
From NV Require Import Base Regex Generated GoLib C01_Model C01_Proofs C01_Gen C01_GenProofs C01_VerifyE2E.
From NV Require VerifyCore C02_Levels C02_Model C02_Struct C02_Gen C02_GenProofs C02_GenSig.
From NV Require C08_Model C08_Proofs C08_Gen C08_GenProofs.
From NV Require C01_VerifyE2E_PSErr.
Import ListNotations.
Local Open Scope string_scope.
Local Open Scope list_scope.

(* ---------- conversions C01_Gen <-> C02_Gen (suffix 12 / 21): every field copied ---------- *)

Definition lv12 (l : trustpolicy_VerificationLevel) : C02_Gen.trustpolicy_VerificationLevel :=
  C02_Gen.mk_VerificationLevel (VerificationLevel_Name l) (VerificationLevel_Enforcement l).
Definition lv21 (l : C02_Gen.trustpolicy_VerificationLevel) : trustpolicy_VerificationLevel :=
  mk_VerificationLevel (C02_Gen.VerificationLevel_Name l) (C02_Gen.VerificationLevel_Enforcement l).

Definition vr12 (r : notation_go_ValidationResult) : C02_Gen.notation_go_ValidationResult :=
  C02_Gen.mk_ValidationResult (ValidationResult_Type r) (ValidationResult_Action r) (ValidationResult_Error r).
Definition vr21 (r : C02_Gen.notation_go_ValidationResult) : notation_go_ValidationResult :=
  mk_ValidationResult (C02_Gen.ValidationResult_Type r) (C02_Gen.ValidationResult_Action r) (C02_Gen.ValidationResult_Error r).

Definition at12 (a : signature_Attribute) : C02_Gen.signature_Attribute :=
  C02_Gen.mk_Attribute (Attribute_Key a) (Attribute_Critical a) (Attribute_Value a).
Definition at21 (a : C02_Gen.signature_Attribute) : signature_Attribute :=
  mk_Attribute (C02_Gen.Attribute_Key a) (C02_Gen.Attribute_Critical a) (C02_Gen.Attribute_Value a).

Definition sa12 (s : signature_SignedAttributes) : C02_Gen.signature_SignedAttributes :=
  C02_Gen.mk_SignedAttributes (SignedAttributes_SigningScheme s) (SignedAttributes_SigningTime s)
    (SignedAttributes_Expiry s) (map at12 (SignedAttributes_ExtendedAttributes s)).
Definition sa21 (s : C02_Gen.signature_SignedAttributes) : signature_SignedAttributes :=
  mk_SignedAttributes (C02_Gen.SignedAttributes_SigningScheme s) (C02_Gen.SignedAttributes_SigningTime s)
    (C02_Gen.SignedAttributes_Expiry s) (map at21 (C02_Gen.SignedAttributes_ExtendedAttributes s)).

Definition ua12 (u : signature_UnsignedAttributes) : C02_Gen.signature_UnsignedAttributes :=
  C02_Gen.mk_UnsignedAttributes (UnsignedAttributes_TimestampSignature u) (UnsignedAttributes_SigningAgent u).
Definition ua21 (u : C02_Gen.signature_UnsignedAttributes) : signature_UnsignedAttributes :=
  mk_UnsignedAttributes (C02_Gen.UnsignedAttributes_TimestampSignature u) (C02_Gen.UnsignedAttributes_SigningAgent u).

Definition pl12 (p : signature_Payload) : C02_Gen.signature_Payload :=
  C02_Gen.mk_Payload (Payload_ContentType p) (Payload_Content p).
Definition pl21 (p : C02_Gen.signature_Payload) : signature_Payload :=
  mk_signature_Payload (C02_Gen.Payload_ContentType p) (C02_Gen.Payload_Content p).

Definition sv12 (s : trustpolicy_SignatureVerification) : C02_Gen.trustpolicy_SignatureVerification :=
  C02_Gen.mk_SignatureVerification (SignatureVerification_VerificationLevel s) (SignatureVerification_Override s)
    (SignatureVerification_VerifyTimestamp s).

Definition op12 (p : trustpolicy_OCITrustPolicy) : C02_Gen.trustpolicy_OCITrustPolicy :=
  C02_Gen.mk_OCITrustPolicy (OCITrustPolicy_Name p) (sv12 (OCITrustPolicy_SignatureVerification p))
    (OCITrustPolicy_TrustStores p) (OCITrustPolicy_TrustedIdentities p) (OCITrustPolicy_RegistryScopes p).
Definition od12 (d : trustpolicy_OCIDocument) : C02_Gen.trustpolicy_OCIDocument :=
  C02_Gen.mk_OCIDocument (OCIDocument_Version d) (map op12 (OCIDocument_TrustPolicies d)).
Definition bp12 (p : trustpolicy_BlobTrustPolicy) : C02_Gen.trustpolicy_BlobTrustPolicy :=
  C02_Gen.mk_BlobTrustPolicy (BlobTrustPolicy_Name p) (sv12 (BlobTrustPolicy_SignatureVerification p))
    (BlobTrustPolicy_TrustStores p) (BlobTrustPolicy_TrustedIdentities p) (BlobTrustPolicy_GlobalPolicy p).
Definition bd12 (d : trustpolicy_BlobDocument) : C02_Gen.trustpolicy_BlobDocument :=
  C02_Gen.mk_BlobDocument (BlobDocument_Version d) (map bp12 (BlobDocument_TrustPolicies d)).

Definition sr12 (r : result_ServerResult) : C02_Gen.result_ServerResult :=
  C02_Gen.mk_ServerResult (ServerResult_Result r) (ServerResult_Server r) (ServerResult_Error r)
    (ServerResult_RevocationMethod r).
Definition cr12 (r : result_CertRevocationResult) : C02_Gen.result_CertRevocationResult :=
  C02_Gen.mk_CertRevocationResult (CertRevocationResult_Result r)
    (map (ptr_map sr12) (CertRevocationResult_ServerResults r)) (CertRevocationResult_RevocationMethod r).

Section Conv.
Variables C PM : Type.

Definition si12 (s : signature_SignerInfo C) : C02_Gen.signature_SignerInfo C :=
  C02_Gen.mk_SignerInfo C (sa12 (SignerInfo_SignedAttributes C s)) (ua12 (SignerInfo_UnsignedAttributes C s))
    (SignerInfo_SignatureAlgorithm C s) (SignerInfo_CertificateChain C s) (SignerInfo_Signature C s).
Definition si21 (s : C02_Gen.signature_SignerInfo C) : signature_SignerInfo C :=
  mk_SignerInfo C (sa21 (C02_Gen.SignerInfo_SignedAttributes C s)) (ua21 (C02_Gen.SignerInfo_UnsignedAttributes C s))
    (C02_Gen.SignerInfo_SignatureAlgorithm C s) (C02_Gen.SignerInfo_CertificateChain C s) (C02_Gen.SignerInfo_Signature C s).

Definition ec12 (e : signature_EnvelopeContent C) : C02_Gen.signature_EnvelopeContent C :=
  C02_Gen.mk_EnvelopeContent C (si12 (EnvelopeContent_SignerInfo C e)) (pl12 (EnvelopeContent_Payload C e)).
Definition ec21 (e : C02_Gen.signature_EnvelopeContent C) : signature_EnvelopeContent C :=
  mk_EnvelopeContent C (si21 (C02_Gen.EnvelopeContent_SignerInfo C e)) (pl21 (C02_Gen.EnvelopeContent_Payload C e)).

(* the outcome: handed to processSignature (12) and taken back (21) *)
Definition o12 (o : notation_go_VerificationOutcome C) : C02_Gen.notation_go_VerificationOutcome C :=
  C02_Gen.mk_VerificationOutcome C (VerificationOutcome_RawSignature C o)
    (ptr_map ec12 (VerificationOutcome_EnvelopeContent C o))
    (ptr_map lv12 (VerificationOutcome_VerificationLevel C o))
    (map (ptr_map vr12) (VerificationOutcome_VerificationResults C o))
    (VerificationOutcome_Error C o).
Definition o21 (o : C02_Gen.notation_go_VerificationOutcome C) : notation_go_VerificationOutcome C :=
  mk_VerificationOutcome C (C02_Gen.VerificationOutcome_RawSignature C o)
    (ptr_map ec21 (C02_Gen.VerificationOutcome_EnvelopeContent C o))
    (ptr_map lv21 (C02_Gen.VerificationOutcome_VerificationLevel C o))
    (map (ptr_map vr21) (C02_Gen.VerificationOutcome_VerificationResults C o))
    (C02_Gen.VerificationOutcome_Error C o).

Definition vo21 (x : C02_Gen.revocation_ValidateContextOptions C) : revocation_ValidateContextOptions C :=
  mk_ValidateContextOptions C (C02_Gen.ValidateContextOptions_CertChain C x)
    (C02_Gen.ValidateContextOptions_AuthenticSigningTime C x).

Definition results12 (r : list (ptr result_CertRevocationResult) * option GoLib.err)
  : list (ptr C02_Gen.result_CertRevocationResult) * option GoLib.err :=
  (map (ptr_map cr12) (fst r), snd r).

(* the verifier: documents copied, the trust store / plugin manager are the same values, the
   revocation validators are the same functions seen through the copied argument / result types *)
Definition v12 (v : verifier_verifier C PM) : C02_Gen.verifier_verifier C PM :=
  C02_Gen.mk_verifier C PM
    (ptr_map od12 (verifier_ociTrustPolicyDoc C PM v))
    (ptr_map bd12 (verifier_blobTrustPolicyDoc C PM v))
    (verifier_trustStore C PM v)
    (verifier_pluginManager C PM v)
    (ptr_map (fun f chain t => results12 (f chain t)) (verifier_revocationClient C PM v))
    (ptr_map (fun f x => results12 (f (vo21 x))) (verifier_revocationCodeSigningValidator C PM v))
    (ptr_map (fun f x => results12 (f (vo21 x))) (verifier_revocationTimestampingValidator C PM v)).

Lemma ptr_val_map {A B} (f : A -> B) (p : ptr A) : ptr_val (ptr_map f p) = option_map f (ptr_val p).
Proof. destruct p; reflexivity. Qed.

End Conv.

(* ---------- conversions C01_Gen <-> C08_Gen (suffix 18 / 81) ---------- *)
Definition sv18 (s : trustpolicy_SignatureVerification) : C08_Gen.trustpolicy_SignatureVerification :=
  C08_Gen.mk_SignatureVerification (SignatureVerification_VerificationLevel s) (SignatureVerification_Override s)
    (SignatureVerification_VerifyTimestamp s).
Definition sv81 (s : C08_Gen.trustpolicy_SignatureVerification) : trustpolicy_SignatureVerification :=
  mk_SignatureVerification (C08_Gen.SignatureVerification_VerificationLevel s) (C08_Gen.SignatureVerification_Override s)
    (C08_Gen.SignatureVerification_VerifyTimestamp s).
Definition op18 (p : trustpolicy_OCITrustPolicy) : C08_Gen.trustpolicy_OCITrustPolicy :=
  C08_Gen.mk_OCITrustPolicy (OCITrustPolicy_Name p) (sv18 (OCITrustPolicy_SignatureVerification p))
    (OCITrustPolicy_TrustStores p) (OCITrustPolicy_TrustedIdentities p) (OCITrustPolicy_RegistryScopes p).
Definition op81 (p : C08_Gen.trustpolicy_OCITrustPolicy) : trustpolicy_OCITrustPolicy :=
  mk_OCITrustPolicy (C08_Gen.OCITrustPolicy_Name p) (sv81 (C08_Gen.OCITrustPolicy_SignatureVerification p))
    (C08_Gen.OCITrustPolicy_TrustStores p) (C08_Gen.OCITrustPolicy_TrustedIdentities p) (C08_Gen.OCITrustPolicy_RegistryScopes p).
Definition od18 (d : trustpolicy_OCIDocument) : C08_Gen.trustpolicy_OCIDocument :=
  C08_Gen.mk_OCIDocument (OCIDocument_Version d) (map op18 (OCIDocument_TrustPolicies d)).

Definition panic_err : GoLib.err := Err "panic" "" [].

(* [gatp] := C08's generated ( *OCIDocument).GetApplicableTrustPolicy on the document the pointer
   holds (a panic of it — there is none, C08_gen_OCI_GetApplicableTrustPolicy_equiv — would be an error) *)
Definition gatp_c08 (pd : ptr trustpolicy_OCIDocument) (ref : string)
  : ptr trustpolicy_OCITrustPolicy * option GoLib.err :=
  match ptr_val pd with
  | Some d =>
      match C08_Gen.gen_trustpolicy_OCIDocument_GetApplicableTrustPolicy (od18 d) ref with
      | Some (q, e) => (ptr_map op81 q, e)
      | None => (PNil, Some panic_err)
      end
  | None => (PNil, Some panic_err)
  end.

(* a selection without error hands out a NEW object whose value is that of a statement of the
   document (C08_gen_handed_out_is_new_copy) *)
Lemma gatp_c08_hands_out pd ref tp :
  gatp_c08 pd ref = (tp, None) ->
  exists d c s, ptr_val pd = Some d /\ tp = PNew (op81 c) /\ In s (OCIDocument_TrustPolicies d)
                /\ C08_GenProofs.stmt_same (C08_GenProofs.stmt_of_oci c) (C08_GenProofs.stmt_of_oci (op18 s)).
Proof.
  unfold gatp_c08. destruct (ptr_val pd) as [d|]; [|discriminate].
  destruct (C08_Gen.gen_trustpolicy_OCIDocument_GetApplicableTrustPolicy (od18 d) ref) as [[q e]|] eqn:G; [|discriminate].
  intros H. inversion H; subst e tp. clear H.
  destruct (proj1 C08_GenProofs.gen_handed_out_is_new_copy (od18 d) ref q G) as [c [s' [Hq [Hin Hs]]]].
  subst q. cbn [od18 C08_Gen.OCIDocument_TrustPolicies] in Hin. apply in_map_iff in Hin.
  destruct Hin as [s [Es Hin]]. subst s'.
  exists d, c, s. split; [reflexivity|]. split; [reflexivity|]. split; assumption.
Qed.

(* ====================================================================== *)
Section Compose.

Variable O : C02_GenSig.oracles.
Local Notation C := (C02_GenSig.or_C O).
Local Notation PM := (C02_GenSig.or_PM O).
Variable unm : list Z -> envelope_Payload -> envelope_Payload * option GoLib.err.

(* the call of C02's generated processSignature that Verify's call is *)
Definition K_of (v : verifier_verifier C PM) (sig : list Z) (mt name : string) (ids stores : list string)
    (sv : trustpolicy_SignatureVerification) (cfg : list (string * string))
    (o : notation_go_VerificationOutcome C) : C02_GenSig.call O :=
  C02_GenSig.mk_call O (v12 C PM v) sig mt name ids stores (sv12 sv) cfg (o12 C o).

(* [ps] := C02's generated ( *verifier).processSignature (a panic of it would be an error; under
   [Describes] there is none, C02_gen_processSignature_returns) *)
Definition ps_c02 (pv : ptr (verifier_verifier C PM)) (sig : list Z) (mt name : string) (ids stores : list string)
    (sv : trustpolicy_SignatureVerification) (cfg : list (string * string))
    (o : notation_go_VerificationOutcome C) : notation_go_VerificationOutcome C * option GoLib.err :=
  match ptr_val pv with
  | Some v =>
      match C02_GenSig.run O (K_of v sig mt name ids stores sv cfg o) with
      | Some (o2, e) => (o21 C o2, e)
      | None => (o, Some panic_err)
      end
  | None => (o, Some panic_err)
  end.

(* the call for the statement [pol] *)
Definition call_of (v : verifier_verifier C PM) (sig : list Z) (opts : notation_go_VerifierVerifyOptions)
    (pol : trustpolicy_OCITrustPolicy) : C02_GenSig.call O :=
  K_of v sig (VerifierVerifyOptions_SignatureMediaType opts) (OCITrustPolicy_Name pol)
       (OCITrustPolicy_TrustedIdentities pol) (OCITrustPolicy_TrustStores pol)
       (OCITrustPolicy_SignatureVerification pol) (VerifierVerifyOptions_PluginConfig opts)
       (out0 C sig (level_ptr (OCITrustPolicy_SignatureVerification pol))).

(* VerifyCore's verdict on the scenario this call realises (C02_exact_all) *)
Definition core_rejects (K : C02_GenSig.call O) (F : C02_GenSig.facts O) : Prop :=
  let l := C02_GenSig.level_of_call O F in
  let sc := C02_GenSig.scenario_of O K F in
  VerifyCore.s_integrity_ok sc = false \/ C02_Model.enforced_failure l sc = true
  \/ C02_Model.plugin_or_attribute_problem l sc = true.

(* what C02's theorems give about the oracle instance *)
Lemma ps_c02_answer v sig opts pol F :
  C02_GenSig.Describes O (call_of v sig opts pol) F ->
  exists out e,
    ps_answer C PM ps_c02 v sig opts pol = (o21 C out, e)
    /\ C02_GenSig.run O (call_of v sig opts pol) = Some (out, e)
    /\ (e <> None <-> core_rejects (call_of v sig opts pol) F)
    /\ (e = None -> exists env, ptr_val (VerificationOutcome_EnvelopeContent C (o21 C out)) = Some (ec21 C env)
                               /\ ptr_val (C02_GenSig.ft_envp F) = Some env).
Proof.
  intros D.
  destruct (C02_GenSig.gen_processSignature_returns O _ F D) as (out & e & news & R & _ & _ & _ & Ec & _ & _).
  destruct (C02_GenSig.gen_processSignature_rejects_iff O _ F D) as (out' & e' & R' & Rj).
  rewrite R in R'. inversion R'; subst out' e'. clear R'.
  exists out, e. split.
  - unfold ps_answer, ps_c02. cbn [ptr_val]. fold (call_of v sig opts pol). rewrite R. reflexivity.
  - split; [exact R|]. split; [exact Rj|].
    intros En. subst e.
    assert (I : C02_GenSig.ft_integrity_ok F = true).
    { destruct (C02_GenSig.ft_integrity_ok F) eqn:I; [reflexivity|]. exfalso.
      assert (X : @None GoLib.err <> None); [|now elim X]. apply Rj. left. exact I. }
    destruct D as (_ & _ & D3 & _). specialize (D3 I).
    exists (C02_GenSig.ft_env F). split; [|exact D3].
    cbn [o21 VerificationOutcome_EnvelopeContent]. rewrite ptr_val_map, Ec, D3. reflexivity.
Qed.

(* ---------- (c) the generated Verify over the generated processSignature ---------- *)

(* For the selected statement, a level other than skip, and oracles of processSignature that answer
   like the models of them (C02's [Describes], for the call Verify makes):
   the generated Verify does not panic, and it returns an error IF AND ONLY IF
     the VerifyCore model rejects (integrity failed, or an enforced validation failed, or a
     plugin / attribute problem: C02_exact_all), or
     processSignature left outcome.Error set (C02's theorem is silent on that field), or
     a post-check fails (payload does not decode, descriptor differs, a metadata pair is missing).
   [gatp] stays universally quantified. *)
Theorem compose_rejects_iff : forall gatp v desc sig opts pol F,
  Selected C PM gatp v opts pol ->
  skip_test (level_ptr (OCITrustPolicy_SignatureVerification pol)) = false ->
  C02_GenSig.Describes O (call_of v sig opts pol) F ->
  let r := ps_answer C PM ps_c02 v sig opts pol in
  exists po e, Verify C PM gatp ps_c02 unm v desc sig opts = Some (po, e)
    /\ (e <> None <->
        core_rejects (call_of v sig opts pol) F
        \/ VerificationOutcome_Error C (fst r) <> None
        \/ ~ PostChecksPass C unm (fst r) desc (VerifierVerifyOptions_UserMetadata opts)).
Proof.
  intros gatp v desc sig opts pol F Hsel S D r.
  destruct (ps_c02_answer v sig opts pol F D) as (out & e1 & A & _ & Rj & Env).
  destruct (Verify C PM gatp ps_c02 unm v desc sig opts) as [[po e]|] eqn:V.
  2:{ exfalso. apply Verify_panics_iff in V. destruct Hsel as [Hd [tp [G T]]].
      destruct V as [_ [tp' [G' [T'|[pol' [T' [_ [E N]]]]]]]]; rewrite G in G'; inversion G'; subst tp'; [congruence|].
      rewrite T in T'. inversion T'; subst pol'. rewrite A in E, N. cbn [fst snd] in E, N.
      destruct (Env E) as [env [X _]]. congruence. }
  exists po, e. split; [reflexivity|].
  pose proof (Verify_success_iff C PM gatp ps_c02 unm v desc sig opts pol Hsel S) as W. cbv zeta in W.
  fold r in W. subst r. rewrite A in W |- *. cbn [fst snd] in W |- *.
  split.
  - intros Ne.
    destruct e1 as [x1|]; [left; apply Rj; discriminate|].
    destruct (VerificationOutcome_Error C (o21 C out)) as [y|] eqn:Ey; [right; left; discriminate|].
    right. right. intros P. destruct (proj2 W (conj eq_refl (conj eq_refl P))) as [po' V'].
    rewrite V in V'. inversion V'. subst e. now elim Ne.
  - intros H En. subst e. destruct (proj1 W (ex_intro _ po V)) as [R1 [R2 R3]].
    destruct H as [H|[H|H]].
    + apply Rj in H. contradiction.
    + contradiction.
    + contradiction.
Qed.

(* success of the generated Verify over the generated processSignature: the VerifyCore model
   accepts — in particular the envelope is intact —, the envelope content handed back is the one
   verifyIntegrity produced, and the post-checks pass *)
Theorem compose_success : forall gatp v desc sig opts pol F po,
  Selected C PM gatp v opts pol ->
  skip_test (level_ptr (OCITrustPolicy_SignatureVerification pol)) = false ->
  C02_GenSig.Describes O (call_of v sig opts pol) F ->
  Verify C PM gatp ps_c02 unm v desc sig opts = Some (po, None) ->
  let r := ps_answer C PM ps_c02 v sig opts pol in
  ~ core_rejects (call_of v sig opts pol) F
  /\ VerifyCore.s_integrity_ok (C02_GenSig.scenario_of O (call_of v sig opts pol) F) = true
  /\ po = PNew (fst r)
  /\ (exists env, ptr_val (C02_GenSig.ft_envp F) = Some env
                  /\ ptr_val (VerificationOutcome_EnvelopeContent C (fst r)) = Some (ec21 C env))
  /\ PostChecksPass C unm (fst r) desc (VerifierVerifyOptions_UserMetadata opts).
Proof.
  intros gatp v desc sig opts pol F po Hsel S D V r.
  destruct (ps_c02_answer v sig opts pol F D) as (out & e1 & A & _ & Rj & Env).
  destruct (proj1 (Verify_success_iff C PM gatp ps_c02 unm v desc sig opts pol Hsel S) (ex_intro _ po V)) as [R1 [R2 R3]].
  destruct (Verify_success_sound C PM gatp ps_c02 unm v desc sig opts po V) as [pol' [Hsel' Hc]].
  assert (pol' = pol).
  { destruct Hsel as [_ [tp [G T]]], Hsel' as [_ [tp' [G' T']]]. rewrite G in G'. inversion G'; subst tp'. congruence. }
  subst pol'. cbv zeta in Hc.
  fold r in R1, R2, R3. subst r. rewrite A in *. cbn [fst snd] in *. subst e1.
  assert (NR : ~ core_rejects (call_of v sig opts pol) F) by (intros X; apply Rj in X; now elim X).
  split; [exact NR|]. split.
  { destruct (VerifyCore.s_integrity_ok _) eqn:I; [reflexivity|]. exfalso. apply NR. left. exact I. }
  split.
  { destruct Hc as [[E1 [E2 _]]|[_ [_ [Hp _]]]]; [|exact Hp].
    exfalso. assert (X : skip_test (level_ptr (OCITrustPolicy_SignatureVerification pol)) = true)
      by (apply skip_test_iff; split; assumption). congruence. }
  split; [|exact R3].
  destruct (Env eq_refl) as [env [X Y]]. exists env. split; assumption.
Qed.

(* processSignature never assigns outcome.Error (C01_VerifyE2E_PSErr: a walk over every path of
   C02's generated term), so with a processPluginResponse that leaves that field alone the
   outcome comes back with the nil Error Verify put there *)
Lemma ps_c02_error_none v sig opts pol F :
  C01_VerifyE2E_PSErr.ppr_frame O ->
  C02_GenSig.Describes O (call_of v sig opts pol) F ->
  VerificationOutcome_Error C (fst (ps_answer C PM ps_c02 v sig opts pol)) = None.
Proof.
  intros Hf D. destruct (ps_c02_answer v sig opts pol F D) as (out & e & A & R & _ & _).
  rewrite A. cbn [fst o21 VerificationOutcome_Error].
  rewrite (C01_VerifyE2E_PSErr.processSignature_error_unchanged O _ out e Hf R). reflexivity.
Qed.

(* ... and the middle disjunct of [compose_rejects_iff] disappears: the generated Verify over the
   generated processSignature REJECTS IFF the VerifyCore model rejects OR a post-check fails *)
Theorem compose_rejects_iff_exact : forall gatp v desc sig opts pol F,
  Selected C PM gatp v opts pol ->
  skip_test (level_ptr (OCITrustPolicy_SignatureVerification pol)) = false ->
  C02_GenSig.Describes O (call_of v sig opts pol) F ->
  C01_VerifyE2E_PSErr.ppr_frame O ->
  exists po e, Verify C PM gatp ps_c02 unm v desc sig opts = Some (po, e)
    /\ (e <> None <->
        core_rejects (call_of v sig opts pol) F
        \/ ~ PostChecksPass C unm (fst (ps_answer C PM ps_c02 v sig opts pol)) desc (VerifierVerifyOptions_UserMetadata opts)).
Proof.
  intros gatp v desc sig opts pol F Hsel S D Hf.
  destruct (compose_rejects_iff gatp v desc sig opts pol F Hsel S D) as (po & e & V & I).
  exists po, e. split; [exact V|]. rewrite I. rewrite (ps_c02_error_none v sig opts pol F Hf D).
  split; [intros [H|[H|H]]; [left; exact H|now elim H|right; exact H]|intros [H|H]; [left; exact H|right; right; exact H]].
Qed.

(* ---------- (a) no panic, with both oracles instantiated ---------- *)

(* Verify over C08's generated selection and C02's generated processSignature never panics,
   provided the oracles of processSignature answer like their models for the call made *)
Theorem compose_never_panics : forall v desc sig opts,
  (forall pol, Selected C PM gatp_c08 v opts pol ->
               skip_test (level_ptr (OCITrustPolicy_SignatureVerification pol)) = false ->
               exists F, C02_GenSig.Describes O (call_of v sig opts pol) F) ->
  Verify C PM gatp_c08 ps_c02 unm v desc sig opts <> None.
Proof.
  intros v desc sig opts HD V. apply Verify_panics_iff in V.
  destruct V as [Hd [tp [G [T|[pol [T [S [E N]]]]]]]].
  - destruct (gatp_c08_hands_out _ _ _ G) as (d & c & s & _ & Etp & _). subst tp. discriminate.
  - assert (Hsel : Selected C PM gatp_c08 v opts pol) by (split; [exact Hd|exists tp; split; assumption]).
    destruct (HD pol Hsel S) as [F D].
    destruct (ps_c02_answer v sig opts pol F D) as (out & e1 & A & _ & _ & Env).
    rewrite A in E, N. cbn [fst snd] in E, N. destruct (Env E) as [env [X _]]. congruence.
Qed.

(* the statement Verify works with, under C08's selection, is a new copy of a statement of the
   verifier's document (value equality of C08: the override maps equal as maps) *)
Theorem compose_selected_is_document_statement : forall v opts pol,
  Selected C PM gatp_c08 v opts pol ->
  exists d c s, ptr_val (verifier_ociTrustPolicyDoc C PM v) = Some d /\ pol = op81 c
                /\ In s (OCIDocument_TrustPolicies d)
                /\ C08_GenProofs.stmt_same (C08_GenProofs.stmt_of_oci c) (C08_GenProofs.stmt_of_oci (op18 s)).
Proof.
  intros v opts pol [_ [tp [G T]]].
  destruct (gatp_c08_hands_out _ _ _ G) as (d & c & s & Hd & Etp & Hin & Hs). subst tp.
  cbn [ptr_val] in T. inversion T. exists d, c, s. split; [exact Hd|]. split; [reflexivity|]. split; assumption.
Qed.

(* ---------- "intact", from the bottom: the verifyIntegrity oracle is C01's generated verifyIntegrity ---------- *)

(* When what the verifyIntegrity oracle of C02's processSignature answers on the call Verify makes IS
   what C01's generated verifyIntegrity (theories/C01_Gen.v, C01_e2e_verifyIntegrity_equiv) answers,
   success of the composed Verify means: signature.ParseEnvelope succeeded, Envelope.Verify returned
   no error, and the payload content type is the Notary one — the model's [Intact], on facts defined
   from notation-core-go's two entry points *)
Theorem compose_success_intact :
  forall (SE : Type) (parse : string -> list Z -> SE * option GoLib.err)
         (everify : ptr (signature_EnvelopeContent C) * option GoLib.err)
         gatp v desc sig opts pol F po envp irp decode,
  Selected C PM gatp v opts pol ->
  skip_test (level_ptr (OCITrustPolicy_SignatureVerification pol)) = false ->
  C02_GenSig.Describes O (call_of v sig opts pol) F ->
  let o0 := out0 C sig (level_ptr (OCITrustPolicy_SignatureVerification pol)) in
  let mt := VerifierVerifyOptions_SignatureMediaType opts in
  gen_verifier_verifyIntegrity SE parse C everify sig mt o0 = Some (envp, irp) ->
  C02_GenSig.or_integrity O sig mt (PNew (o12 C o0)) = (ptr_map (ec12 C) envp, ptr_map vr12 irp) ->
  Verify C PM gatp ps_c02 unm v desc sig opts = Some (po, None) ->
  Intact (integrity_facts SE parse C everify mt sig decode).
Proof.
  intros SE parse everify gatp v desc sig opts pol F po envp irp decode Hsel S D o0 mt G Hor V.
  destruct (compose_success gatp v desc sig opts pol F po Hsel S D V) as (_ & I & _).
  assert (Iok : C02_GenSig.ft_integrity_ok F = true) by exact I.
  destruct D as (D1 & D2 & _ & D4 & _).
  assert (Hl : exists lvl, ptr_val (VerificationOutcome_VerificationLevel C o0) = Some lvl).
  { cbn [call_of K_of C02_GenSig.cl_outcome o12 C02_Gen.VerificationOutcome_VerificationLevel] in D4.
    rewrite ptr_val_map in D4. fold o0 in D4.
    destruct (ptr_val (VerificationOutcome_VerificationLevel C o0)) as [lvl|]; [eauto|discriminate]. }
  destruct Hl as [lvl Hl].
  pose proof (gen_verifyIntegrity_equiv SE parse C everify sig mt o0 lvl decode Hl) as Q. cbv zeta in Q.
  rewrite G in Q. destruct Q as (r & Er & _ & _ & Q & _).
  apply verify_integrity_none. apply Q.
  cbn [call_of K_of C02_GenSig.cl_sig C02_GenSig.cl_media C02_GenSig.cl_outcome] in D1. fold o0 mt in D1.
  rewrite Hor in D1. inversion D1 as [[E1 E2]]. rewrite <- E2 in D2. subst irp.
  destruct D2 as (r2 & P & _ & _ & Fl). cbn [ptr_map ptr_val] in P. inversion P; subst r2.
  rewrite Iok in Fl. unfold C02_GenProofs.vr_failed in Fl. cbn [vr12 C02_Gen.ValidationResult_Error VerifyCore.r_failed negb] in Fl.
  destruct (ValidationResult_Error r); [discriminate|reflexivity].
Qed.

End Compose.

(* ---------- non-vacuity: all three generated functions, run together ---------- *)
(* C02's example oracles (an intact envelope, an expired signature under the permissive level,
   no revocation validator), a verifier whose document has one statement for every repository *)
Definition y_sv : trustpolicy_SignatureVerification := mk_SignatureVerification "permissive" [] "".
Definition y_pol : trustpolicy_OCITrustPolicy :=
  mk_OCITrustPolicy "policy" y_sv ["ca:s"] ["x509.subject: CN=leaf"] ["*"].
Definition y_v : verifier_verifier unit unit :=
  mk_verifier unit unit (PNew (mk_OCIDocument "1.0" [y_pol])) PNil (fun _ _ => ([tt], None)) PNil PNil PNil PNil.
Definition y_opts (md : list (string * string)) : notation_go_VerifierVerifyOptions :=
  mk_VerifierVerifyOptions "reg.io/a/b@sha256:aa" "application/jose+json" [] md.
Definition y_desc : v1_Descriptor :=
  mk_Descriptor "application/vnd.oci.image.manifest.v1+json" "sha256:aa" 528 [] [] [] PNil "".
Definition y_unm : list Z -> envelope_Payload -> envelope_Payload * option GoLib.err :=
  fun _ _ => (mk_Payload (mk_Descriptor "application/vnd.oci.image.manifest.v1+json" "sha256:aa" 528 [] [("k1", "v1")] [] PNil ""), None).

Lemma compose_example :
  (* C08's generated selection picks the statement *)
  Selected unit unit gatp_c08 y_v (y_opts [("k1", "v1")]) y_pol
  (* C02's hypotheses hold of the call Verify makes, and processPluginResponse keeps the frame *)
  /\ C02_GenSig.Describes C02_GenSig.ex_O (call_of C02_GenSig.ex_O y_v [] (y_opts [("k1", "v1")]) y_pol) C02_GenSig.ex_F
  /\ C01_VerifyE2E_PSErr.ppr_frame C02_GenSig.ex_O
  (* the composed entry point accepts, with the five results of processSignature in the outcome *)
  /\ (exists o, Verify unit unit gatp_c08 (ps_c02 C02_GenSig.ex_O) y_unm y_v y_desc [] (y_opts [("k1", "v1")])
                = Some (PNew o, None)
                /\ List.length (VerificationOutcome_VerificationResults unit o) = 5%nat)
  (* and rejects the same signature for a descriptor of another size: the mismatch *)
  /\ (exists po, Verify unit unit gatp_c08 (ps_c02 C02_GenSig.ex_O) y_unm y_v (set_Descriptor_Size 529 y_desc) []
                   (y_opts [("k1", "v1")]) = Some (po, Some mismatch_err)).
Proof.
  split. { split; [reflexivity|]. eexists. split; vm_compute; reflexivity. }
  split.
  { unfold C02_GenSig.Describes. cbv zeta.
    split; [reflexivity|]. split; [eexists; repeat split; reflexivity|]. split; [reflexivity|]. split; [reflexivity|].
    split. { intros a [<-|[]] H. vm_compute in H. discriminate. }
    split; [reflexivity|]. split; [intros H; now elim H|].
    split. { intros _ o _. eexists. repeat split; reflexivity. }
    split. { intros o _. eexists. repeat split; reflexivity. }
    split. { intros o _. eexists. repeat split; reflexivity. }
    split. { split; [|discriminate]. intros (rs & H & _). discriminate. }
    split; [exact C02_GenSig.ex_cmp_agrees|]. split; [exact C02_GenSig.ex_cmp_range|].
    split; [reflexivity|]. split; [split; reflexivity|].
    intros cs o news rs processed ti rev _ _ _ H. discriminate. }
  split. { intros cs resp o. reflexivity. }
  split.
  - eexists. split; vm_compute; reflexivity.
  - eexists. vm_compute. reflexivity.
Qed.
