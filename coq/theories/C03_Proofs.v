(* C03_Proofs.v — lemmas about the trust-store loading loop, statement selection and
   the authenticity step of the C03 model. *)
From NV Require Import Base C03_Model.

(* ---------- strings.Cut ---------- *)
Lemma cut_spec c s l r : cut_byte c s = Some (l, r) ->
  s = (l ++ String c r)%string /\ contains_byte c l = false.
Proof.
  revert l r. induction s as [|a s IH]; intros l r; cbn; [discriminate|].
  destruct (Ascii.eqb a c) eqn:E.
  - intros H. inversion H; subst. apply Ascii.eqb_eq in E. subst. split; reflexivity.
  - destruct (cut_byte c s) as [[l' r']|]; [|discriminate].
    intros H. inversion H; subst. destruct (IH l' r eq_refl) as [-> Hc].
    split; [reflexivity|]. cbn. now rewrite E.
Qed.

Lemma cut_none c s : cut_byte c s = None <-> contains_byte c s = false.
Proof.
  induction s as [|a s IH]; cbn; [tauto|].
  destruct (Ascii.eqb a c); cbn.
  - split; discriminate.
  - destruct (cut_byte c s) as [[l r]|].
    + split; [discriminate|]. intros H. apply IH in H. discriminate.
    + split; [intros _; now apply IH | reflexivity].
Qed.

Lemma cut_app c l r : contains_byte c l = false -> cut_byte c (l ++ String c r) = Some (l, r).
Proof.
  induction l as [|a l IH]; cbn.
  - intros _. now rewrite Ascii.eqb_refl.
  - destruct (Ascii.eqb a c); cbn; [discriminate|]. intros H. now rewrite (IH H).
Qed.

Lemma str_app_inv_head a b c : (a ++ b)%string = (a ++ c)%string -> b = c.
Proof. induction a as [|x a IH]; cbn; intros H; [exact H | inversion H; auto]. Qed.

Lemma cut_store_value s ty name : cut_byte colon s = Some (ty, name) -> s = store_value ty name.
Proof. intros H. now apply cut_spec in H. Qed.

Lemma mem_str_In x l : mem_str x l = true <-> In x l.
Proof.
  unfold mem_str. rewrite existsb_exists. split.
  - intros (y & Hy & E). apply String.eqb_eq in E. now subst.
  - intros H. exists x. split; [exact H | apply String.eqb_refl].
Qed.

Lemma mem_cert_In c l : mem_cert c l = true <-> In c l.
Proof.
  unfold mem_cert. rewrite existsb_exists. split.
  - intros (y & Hy & E). apply N.eqb_eq in E. now subst.
  - intros H. exists c. split; [exact H | apply N.eqb_refl].
Qed.

(* ---------- the loading loop: facts that hold for every list ---------- *)

(* every certificate loaded comes from a listed store of the wanted type *)
Lemma load_sound fs ty : forall stores P certs c,
  fst (load fs ty stores P) = LOk certs -> In c certs ->
  exists s name l, In s stores /\ cut_byte colon s = Some (ty, name) /\
                   fs_get fs ty name = Certs l /\ In c l.
Proof.
  induction stores as [|s rest IH]; intros P certs c; cbn.
  - intros H. inversion H; subst. contradiction.
  - destruct (mem_str s P).
    { intros H Hc. destruct (IH _ _ _ H Hc) as (s' & n & l & Hin & R). exists s', n, l. split; [now right | exact R]. }
    destruct (cut_byte colon s) as [[sty name]|] eqn:Ecut; [|cbn; discriminate].
    destruct (String.eqb ty sty) eqn:Ety; cbn [negb].
    2:{ intros H Hc. destruct (IH _ _ _ H Hc) as (s' & n & l & Hin & R). exists s', n, l. split; [now right | exact R]. }
    apply String.eqb_eq in Ety. subst sty.
    destruct (fs_get fs ty name) as [l|] eqn:Efs; [|cbn; discriminate].
    cbn [fst]. destruct (fst (load fs ty rest (s :: P))) as [cs| |] eqn:Er; try discriminate.
    intros H Hc. inversion H; subst. apply in_app_or in Hc. destruct Hc as [Hc|Hc].
    + exists s, name, l. repeat split; auto; now left.
    + destruct (IH _ _ _ Er Hc) as (s' & n & l' & Hin & R). exists s', n, l'. split; [now right | exact R].
Qed.

(* every call is for a listed store of the wanted type *)
Lemma load_calls_listed fs ty : forall stores P t n,
  In (t, n) (snd (load fs ty stores P)) ->
  t = ty /\ exists s, In s stores /\ cut_byte colon s = Some (ty, n).
Proof.
  induction stores as [|s rest IH]; intros P t n; cbn; [contradiction|].
  destruct (mem_str s P).
  { intros H. destruct (IH _ _ _ H) as (-> & s' & Hin & R). split; [reflexivity|]. exists s'. split; [now right | exact R]. }
  destruct (cut_byte colon s) as [[sty name]|] eqn:Ecut; [|cbn; contradiction].
  destruct (String.eqb ty sty) eqn:Ety; cbn [negb].
  2:{ intros H. destruct (IH _ _ _ H) as (-> & s' & Hin & R). split; [reflexivity|]. exists s'. split; [now right | exact R]. }
  apply String.eqb_eq in Ety. subst sty.
  destruct (fs_get fs ty name) as [l|] eqn:Efs; cbn [snd].
  - intros [H|H].
    + inversion H; subst. split; [reflexivity|]. exists s. split; [now left | exact Ecut].
    + destruct (IH _ _ _ H) as (-> & s' & Hin & R). split; [reflexivity|]. exists s'. split; [now right | exact R].
  - intros [H|[]]. inversion H; subst. split; [reflexivity|]. exists s. split; [now left | exact Ecut].
Qed.

(* a load error reported is the answer of a listed store of the wanted type *)
Lemma load_error_listed fs ty : forall stores P t n,
  fst (load fs ty stores P) = LErrLoad t n ->
  t = ty /\ fs_get fs ty n = LoadError /\ exists s, In s stores /\ cut_byte colon s = Some (ty, n).
Proof.
  induction stores as [|s rest IH]; intros P t n; cbn; [discriminate|].
  destruct (mem_str s P).
  { intros H. destruct (IH _ _ _ H) as (-> & Hf & s' & Hin & R). repeat split; auto. exists s'. split; [now right | exact R]. }
  destruct (cut_byte colon s) as [[sty name]|] eqn:Ecut; [|cbn; discriminate].
  destruct (String.eqb ty sty) eqn:Ety; cbn [negb].
  2:{ intros H. destruct (IH _ _ _ H) as (-> & Hf & s' & Hin & R). repeat split; auto. exists s'. split; [now right | exact R]. }
  apply String.eqb_eq in Ety. subst sty.
  destruct (fs_get fs ty name) as [l|] eqn:Efs; cbn [fst].
  - destruct (fst (load fs ty rest (s :: P))) as [cs|t' n'|] eqn:Er; try discriminate.
    intros H. inversion H; subst. destruct (IH _ _ _ Er) as (-> & Hf & s' & Hin & R).
    repeat split; auto. exists s'. split; [now right | exact R].
  - intros H. inversion H; subst. repeat split; auto. exists s. split; [now left | exact Ecut].
Qed.

(* the loop reads the trust store only at listed stores of the wanted type *)
Lemma load_ext fs fs' ty : forall stores P,
  (forall s name, In s stores -> cut_byte colon s = Some (ty, name) ->
                  fs_get fs ty name = fs_get fs' ty name) ->
  load fs ty stores P = load fs' ty stores P.
Proof.
  induction stores as [|s rest IH]; intros P H; cbn; [reflexivity|].
  assert (Hr : forall s0 name, In s0 rest -> cut_byte colon s0 = Some (ty, name) ->
                               fs_get fs ty name = fs_get fs' ty name)
    by (intros; eapply H; [right|]; eassumption).
  destruct (mem_str s P); [now apply IH|].
  destruct (cut_byte colon s) as [[sty name]|] eqn:Ecut; [|reflexivity].
  destruct (String.eqb ty sty) eqn:Ety; cbn [negb]; [|now apply IH].
  apply String.eqb_eq in Ety. subst sty.
  rewrite <- (H s name (or_introl eq_refl) Ecut).
  destruct (fs_get fs ty name); [|reflexivity]. now rewrite (IH _ Hr).
Qed.

(* ---------- the loop against the declarative description ---------- *)
Definition neq_str (x : string) : string -> bool := fun y => negb (String.eqb x y).

Lemma load_processed fs ty x : forall stores P P',
  (forall y, mem_str y P' = String.eqb y x || mem_str y P) ->
  load fs ty stores P' = load fs ty (filter (neq_str x) stores) P.
Proof.
  induction stores as [|s rest IH]; intros P P' HP; cbn [load filter]; [reflexivity|].
  rewrite HP. unfold neq_str at 1. rewrite (String.eqb_sym x s).
  destruct (String.eqb s x) eqn:Esx; cbn [negb orb].
  - now apply IH.
  - cbn [load]. destruct (mem_str s P) eqn:Em; [now apply IH|].
    destruct (cut_byte colon s) as [[sty name]|]; [|reflexivity].
    destruct (negb (String.eqb ty sty)); [now apply IH|].
    destruct (fs_get fs ty name); [|reflexivity].
    rewrite (IH (s :: P) (s :: P')); [reflexivity|].
    intros y. unfold mem_str. cbn [existsb]. fold (mem_str y P'). fold (mem_str y P).
    rewrite HP. destruct (String.eqb y s), (String.eqb y x); reflexivity.
Qed.

Lemma filter_filter_comm {A} (p q : A -> bool) l : filter p (filter q l) = filter q (filter p l).
Proof.
  induction l as [|a l IH]; cbn; [reflexivity|].
  destruct (p a) eqn:Ep, (q a) eqn:Eq; cbn; rewrite ?Ep, ?Eq, IH; reflexivity.
Qed.

Lemma filter_neq_absorb (p : string -> bool) x l : p x = false ->
  filter p (filter (neq_str x) l) = filter p l.
Proof.
  intros Hp. induction l as [|a l IH]; cbn; [reflexivity|].
  unfold neq_str at 1. destruct (String.eqb x a) eqn:E; cbn [negb].
  - apply String.eqb_eq in E. subst a. now rewrite Hp.
  - cbn. now rewrite IH.
Qed.

Lemma uniq_filter (p : string -> bool) l : uniq (filter p l) = filter p (uniq l).
Proof.
  induction l as [|x l IH]; cbn; [reflexivity|].
  destruct (p x) eqn:Ep; cbn.
  - rewrite IH. f_equal. apply filter_filter_comm.
  - rewrite IH. symmetry. now apply (filter_neq_absorb p x).
Qed.

Lemma filter_length_le {A} (p : A -> bool) l : List.length (filter p l) <= List.length l.
Proof. induction l as [|x l IH]; cbn; [lia|]. destruct (p x); cbn; lia. Qed.

(* removing the store value ty:name from the list removes name from the names of type ty *)
Definition names_one (ty s : string) : list string :=
  match cut_byte colon s with
  | Some (t, n) => if String.eqb t ty then [n] else []
  | None => []
  end.

Lemma names_cons ty s rest : names_of_type ty (s :: rest) = (names_one ty s ++ names_of_type ty rest)%list.
Proof. reflexivity. Qed.

Lemma names_one_value ty name : names_one ty (store_value ty name) = [name] \/ names_one ty (store_value ty name) = [].
Proof.
  unfold names_one. destruct (cut_byte colon (store_value ty name)) as [[t n]|] eqn:Ecut; [|now right].
  destruct (String.eqb t ty) eqn:Et; [|now right]. left.
  apply String.eqb_eq in Et. subst t. apply cut_spec in Ecut. destruct Ecut as [Heq _].
  unfold store_value in Heq. apply str_app_inv_head in Heq. now inversion Heq.
Qed.

Lemma names_filter ty name : forall stores,
  names_of_type ty (filter (neq_str (store_value ty name)) stores)
  = filter (neq_str name) (names_of_type ty stores).
Proof.
  induction stores as [|s rest IH]; [reflexivity|].
  rewrite names_cons, filter_app. cbn [filter]. unfold neq_str at 1.
  destruct (String.eqb (store_value ty name) s) eqn:E; cbn [negb].
  - apply String.eqb_eq in E. subst s. rewrite IH.
    destruct (names_one_value ty name) as [-> | ->]; cbn [filter app]; [|reflexivity].
    unfold neq_str at 2. now rewrite String.eqb_refl.
  - rewrite names_cons, IH. f_equal.
    unfold names_one. destruct (cut_byte colon s) as [[t n]|] eqn:Ecut; [|reflexivity].
    destruct (String.eqb t ty) eqn:Et; [|reflexivity].
    apply String.eqb_eq in Et. subst t. apply cut_store_value in Ecut. subst s.
    cbn [filter]. unfold neq_str.
    destruct (String.eqb name n) eqn:En; [|reflexivity].
    apply String.eqb_eq in En. subst n. now rewrite String.eqb_refl in E.
Qed.

Definition has_sep (s : string) : bool := contains_byte colon s.

Definition spec_res (fs : fsys) (ty : string) (wanted : list string) : lres :=
  match find (fun n => negb (loads_ok fs ty n)) wanted with
  | Some n => LErrLoad ty n
  | None => LOk (flat_map (certs_of fs ty) wanted)
  end.

Lemma forallb_filter {A} (p q : A -> bool) l : forallb p l = true -> forallb p (filter q l) = true.
Proof.
  induction l as [|a l IH]; cbn; [auto|]. intros H. apply andb_true_iff in H. destruct H as [Ha Hl].
  destruct (q a); cbn; [rewrite Ha|]; auto.
Qed.

(* on lists whose every value has the separator, the loop is: first occurrences of the
   names of the wanted type, consulted in order up to the first that fails *)
Lemma load_char fs ty : forall n stores, List.length stores <= n ->
  forallb has_sep stores = true ->
  load fs ty stores [] =
  (spec_res fs ty (uniq (names_of_type ty stores)),
   map (fun x => (ty, x)) (upto_err fs ty (uniq (names_of_type ty stores)))).
Proof.
  induction n as [|n IH]; intros stores Hlen Hsep.
  { destruct stores; [reflexivity | cbn in Hlen; lia]. }
  destruct stores as [|s rest]; [reflexivity|].
  cbn in Hlen. cbn [forallb] in Hsep. apply andb_true_iff in Hsep. destruct Hsep as [Hs Hrest].
  cbn [load mem_str existsb].
  destruct (cut_byte colon s) as [[sty name]|] eqn:Ecut.
  2:{ apply cut_none in Ecut. unfold has_sep in Hs. congruence. }
  unfold names_of_type. cbn [flat_map]. rewrite Ecut. fold (names_of_type ty rest).
  rewrite (String.eqb_sym sty ty).
  destruct (String.eqb ty sty) eqn:Ety; cbn [negb app].
  2:{ apply IH; [lia | exact Hrest]. }
  apply String.eqb_eq in Ety. subst sty. cbn [uniq]. fold (neq_str name).
  unfold spec_res. cbn [find upto_err flat_map map]. unfold loads_ok at 1 3, certs_of at 1.
  destruct (fs_get fs ty name) as [l|] eqn:Efs; cbn [negb]; [|reflexivity].
  rewrite (load_processed fs ty s rest [] [s]).
  2:{ intros y. cbn. now rewrite orb_false_r. }
  rewrite (cut_store_value _ _ _ Ecut).
  rewrite IH; [| pose proof (filter_length_le (neq_str (store_value ty name)) rest); lia
              | now apply forallb_filter].
  rewrite names_filter, uniq_filter. cbn [fst snd]. unfold spec_res.
  destruct (find _ _); reflexivity.
Qed.

Lemma load_char0 fs ty stores : forallb has_sep stores = true ->
  load fs ty stores [] =
  (spec_res fs ty (uniq (names_of_type ty stores)),
   map (fun x => (ty, x)) (upto_err fs ty (uniq (names_of_type ty stores)))).
Proof. apply (load_char fs ty (List.length stores)). lia. Qed.

(* ---------- membership facts about the declarative lists ---------- *)
Lemma uniq_In x l : In x (uniq l) <-> In x l.
Proof.
  induction l as [|a l IH]; cbn; [tauto|]. rewrite filter_In, IH. split.
  - intros [H|[H _]]; auto.
  - intros [H|H]; [now left|]. destruct (String.eqb a x) eqn:E.
    + apply String.eqb_eq in E. now left.
    + right. split; [exact H | reflexivity].
Qed.

Lemma names_In ty n stores :
  In n (names_of_type ty stores) <-> exists s, In s stores /\ cut_byte colon s = Some (ty, n).
Proof.
  unfold names_of_type. rewrite in_flat_map. split.
  - intros (s & Hs & Hn). exists s. split; [exact Hs|].
    destruct (cut_byte colon s) as [[t m]|]; [|contradiction].
    destruct (String.eqb t ty) eqn:Et; [|contradiction]. apply String.eqb_eq in Et.
    destruct Hn as [->|[]]. now subst.
  - intros (s & Hs & Hc). exists s. split; [exact Hs|]. rewrite Hc, String.eqb_refl. now left.
Qed.

Lemma store_type_no_colon sch ty : store_type_of sch = Some ty -> contains_byte colon ty = false.
Proof. destruct sch; cbn; intros H; inversion H; reflexivity. Qed.

Lemma listed_cut ty name : contains_byte colon ty = false ->
  cut_byte colon (store_value ty name) = Some (ty, name).
Proof. apply cut_app. Qed.

Lemma names_In_value ty n stores : contains_byte colon ty = false ->
  (In n (names_of_type ty stores) <-> In (store_value ty n) stores).
Proof.
  intros Hty. rewrite names_In. split.
  - intros (s & Hs & Hc). now rewrite <- (cut_store_value _ _ _ Hc).
  - intros H. exists (store_value ty n). split; [exact H | now apply listed_cut].
Qed.

Lemma has_sep_forallb stores : (forall s, In s stores -> contains_byte colon s = true) ->
  forallb has_sep stores = true.
Proof. intros H. apply forallb_forall. exact H. Qed.

(* ---------- a store that cannot be loaded is never skipped ---------- *)
Lemma load_error_never_ok fs ty s name : cut_byte colon s = Some (ty, name) ->
  fs_get fs ty name = LoadError ->
  forall stores P, In s stores -> ~ In s P -> forall cs, fst (load fs ty stores P) <> LOk cs.
Proof.
  intros Hcut Hfs. induction stores as [|x rest IH]; intros P Hin HP cs; [contradiction|].
  cbn [load]. destruct (mem_str x P) eqn:Em.
  { destruct Hin as [->|Hin]; [apply mem_str_In in Em; contradiction | now apply IH]. }
  destruct (cut_byte colon x) as [[sty n]|] eqn:Ecx; [|cbn; discriminate].
  destruct (String.eqb ty sty) eqn:Ety; cbn [negb].
  2:{ destruct Hin as [->|Hin]; [|now apply IH]. rewrite Hcut in Ecx. inversion Ecx; subst.
      now rewrite String.eqb_refl in Ety. }
  apply String.eqb_eq in Ety. subst sty.
  destruct (fs_get fs ty n) as [l|] eqn:Efn; [|cbn; discriminate].
  cbn [fst]. assert (Hxs : x <> s).
  { intros ->. rewrite Hcut in Ecx. inversion Ecx; subst. congruence. }
  destruct Hin as [->|Hin]; [congruence|].
  assert (HP' : ~ In s (x :: P)) by (intros [H|H]; [congruence | contradiction]).
  specialize (IH (x :: P) Hin HP').
  destruct (fst (load fs ty rest (x :: P))) as [cs'| |]; try discriminate. exfalso. now apply (IH cs').
Qed.

(* ---------- statement selection ---------- *)
Fixpoint find_last {A} (p : A -> bool) (l : list A) : option A :=
  match l with
  | [] => None
  | s :: r => match find_last p r with
              | Some x => Some x
              | None => if p s then Some s else None
              end
  end.

Definition is_wild (s : stmt) : bool := has_scope wildcard s.
Definition is_exact (repo : string) (s : stmt) : bool := negb (has_scope wildcard s) && has_scope repo s.
Definition opt_or {A} (a b : option A) : option A := match a with Some _ => a | None => b end.

Lemma select_fold repo : forall l w a,
  fold_left (sel_step repo) l (w, a)
  = (opt_or (find_last is_wild l) w, opt_or (find_last (is_exact repo) l) a).
Proof.
  induction l as [|s r IH]; intros w a; [reflexivity|].
  cbn [fold_left find_last]. unfold sel_step at 2. cbn [fst snd].
  unfold is_exact at 2, is_wild at 2.
  destruct (has_scope wildcard s) eqn:Ew; cbn [negb andb].
  - rewrite IH. destruct (find_last is_wild r), (find_last (is_exact repo) r); reflexivity.
  - destruct (has_scope repo s) eqn:Er; rewrite IH;
      destruct (find_last is_wild r), (find_last (is_exact repo) r); reflexivity.
Qed.

Lemma select_eq policy repo :
  select policy repo = opt_or (find_last (is_exact repo) policy) (find_last is_wild policy).
Proof.
  unfold select. rewrite select_fold. cbn [fst snd].
  destruct (find_last (is_exact repo) policy), (find_last is_wild policy); reflexivity.
Qed.

Lemma find_last_some {A} (p : A -> bool) l s : find_last p l = Some s -> In s l /\ p s = true.
Proof.
  induction l as [|x r IH]; cbn; [discriminate|].
  destruct (find_last p r) as [y|].
  - intros H. inversion H; subst. destruct (IH eq_refl). split; [now right | assumption].
  - destruct (p x) eqn:E; [|discriminate]. intros H. inversion H; subst. split; [now left | exact E].
Qed.

Lemma find_last_none {A} (p : A -> bool) l : (forall x, In x l -> p x = false) -> find_last p l = None.
Proof.
  induction l as [|x r IH]; cbn; [reflexivity|]. intros H.
  rewrite IH by (intros; apply H; now right). now rewrite (H x (or_introl eq_refl)).
Qed.

Lemma selected_in_scope policy repo st : select policy repo = Some st ->
  In st policy /\ (has_scope repo st = true \/ has_scope wildcard st = true).
Proof.
  rewrite select_eq. destruct (find_last (is_exact repo) policy) as [s|] eqn:E; cbn.
  - intros H. inversion H; subst. apply find_last_some in E. destruct E as [Hin Hp].
    unfold is_exact in Hp. apply andb_true_iff in Hp. split; [exact Hin | left; apply Hp].
  - intros H. apply find_last_some in H. destruct H as [Hin Hp]. split; [exact Hin | right; exact Hp].
Qed.

(* an exact statement wins over the wildcard statement *)
Lemma selected_exact_first policy repo st : select policy repo = Some st ->
  has_scope wildcard st = true ->
  forall s, In s policy -> has_scope wildcard s = false -> has_scope repo s = false.
Proof.
  rewrite select_eq. destruct (find_last (is_exact repo) policy) as [x|] eqn:E; cbn.
  - intros H. inversion H; subst. apply find_last_some in E. destruct E as [_ Hp].
    unfold is_exact in Hp. apply andb_true_iff in Hp. destruct Hp as [Hp _].
    intros Hw. rewrite Hw in Hp. discriminate.
  - intros _ _ s Hin Hw. destruct (has_scope repo s) eqn:Er; [|reflexivity]. exfalso.
    assert (Hs : is_exact repo s = true) by (unfold is_exact; now rewrite Hw, Er).
    clear -E Hin Hs. induction policy as [|y r IH]; [contradiction|]. cbn in E.
    destruct (find_last (is_exact repo) r) eqn:Er'; [discriminate|].
    destruct Hin as [->|Hin]; [now rewrite Hs in E | now apply IH].
Qed.

Lemma nodup_str_app a b : nodup_str (a ++ b) = true ->
  nodup_str b = true /\ forall x, In x a -> ~ In x b.
Proof.
  induction a as [|y a IH]; cbn; [intros H; split; [exact H | contradiction]|].
  intros H. apply andb_true_iff in H. destruct H as [Hy Ha]. destruct (IH Ha) as [Hb Hd].
  split; [exact Hb|]. intros x [->|Hx]; [|now apply Hd].
  intros Hin. apply negb_true_iff in Hy. assert (mem_str x (a ++ b) = true) by (apply mem_str_In, in_or_app; now right).
  congruence.
Qed.

Lemma find_last_find (p : stmt -> bool) x : forall l,
  nodup_str (flat_map st_scopes l) = true ->
  (forall s, p s = true -> has_scope x s = true) ->
  find_last p l = find p l.
Proof.
  intros l Hnd Hp. induction l as [|s r IH]; [reflexivity|].
  cbn [flat_map] in Hnd. destruct (nodup_str_app _ _ Hnd) as [Hr Hd].
  cbn [find_last find]. destruct (p s) eqn:Eps.
  - rewrite find_last_none; [reflexivity|]. intros s' Hs'.
    destruct (p s') eqn:E; [|reflexivity]. exfalso.
    apply Hp in Eps. apply Hp in E. unfold has_scope in *. apply mem_str_In in Eps. apply mem_str_In in E.
    apply (Hd x Eps). apply in_flat_map. exists s'. split; assumption.
  - rewrite (IH Hr). now destruct (find p r).
Qed.

Lemma select_applicable policy repo : nodup_str (flat_map st_scopes policy) = true ->
  select policy repo = applicable policy repo.
Proof.
  intros Hnd. rewrite select_eq. unfold applicable.
  rewrite (find_last_find (is_exact repo) repo policy Hnd).
  2:{ intros s H. unfold is_exact in H. apply andb_true_iff in H. apply H. }
  rewrite (find_last_find is_wild wildcard policy Hnd) by (intros s H; exact H).
  unfold is_exact, is_wild. now destruct (find _ policy).
Qed.

(* ---------- the authenticity step ---------- *)
Definition sel (i : input) : option stmt := select (i_policy i) (i_repo i).
Definition auth_of (i : input) (st : stmt) : aclass * list call :=
  auth_stage (i_scheme i) (i_fs i) (i_chain i) (st_stores st).

Lemma model_auth i st : sel i = Some st -> st_action st <> SkipLevel ->
  o_auth (model i) = Some (fst (auth_of i st)).
Proof.
  unfold sel, auth_of, model. intros -> Ha.
  destruct (st_action st); [| |congruence];
    match goal with |- context [if ?b then _ else _] => destruct b end; reflexivity.
Qed.

Lemma model_auth_inv i c : o_auth (model i) = Some c ->
  exists st, sel i = Some st /\ st_action st <> SkipLevel /\ c = fst (auth_of i st).
Proof.
  intros H. destruct (sel i) as [st|] eqn:Es.
  - exists st. destruct (st_action st) eqn:Ea.
    1,2: assert (Hn : st_action st <> SkipLevel) by congruence;
         rewrite (model_auth i st Es Hn) in H; inversion H; repeat split; congruence.
    unfold sel in Es. unfold model in H. rewrite Es, Ea in H. discriminate.
  - unfold sel in Es. unfold model in H. rewrite Es in H. discriminate.
Qed.

Lemma model_stop i st : sel i = Some st -> st_action st <> SkipLevel ->
  o_stop (model i) = (match st_action st with Enforce => true | _ => false end)
                     && negb (is_pass (fst (auth_of i st))).
Proof.
  unfold sel, auth_of, model. intros -> Ha.
  destruct (st_action st); [| |congruence]; cbn [andb];
    try match goal with |- context [if ?b then _ else _] => destruct b end; reflexivity.
Qed.

Lemma model_calls i st : sel i = Some st -> st_action st <> SkipLevel ->
  o_calls (model i) =
  (snd (auth_of i st) ++
   (if o_stop (model i) then []
    else tsa_calls (i_scheme i) (i_fs i) (i_token i && st_ts st) (st_stores st)))%list.
Proof.
  intros Hs Ha. rewrite (model_stop i st Hs Ha). revert Hs. unfold sel, auth_of, model. intros ->.
  destruct (st_action st); [| |congruence]; cbn [andb];
    try match goal with |- context [if ?b then _ else _] => destruct b end; cbn [o_calls];
    rewrite ?app_nil_r; reflexivity.
Qed.

Lemma auth_stage_pass sch fs chain stores : fst (auth_stage sch fs chain stores) = APass ->
  exists ty name l c, store_type_of sch = Some ty /\ In (store_value ty name) stores /\
                      fs_get fs ty name = Certs l /\ In c l /\ In c chain.
Proof.
  unfold auth_stage. destruct (store_type_of sch) as [ty|]; [|cbn; discriminate]. cbn [fst].
  destruct (fst (load fs ty stores [])) as [certs| |] eqn:El; try discriminate.
  unfold verify_authenticity. destruct certs as [|c0 certs]; [discriminate|].
  destruct (existsb _ chain) eqn:Ex; [|discriminate]. intros _.
  apply existsb_exists in Ex. destruct Ex as (c & Hc & Hm). apply mem_cert_In in Hm.
  destruct (load_sound fs ty stores [] _ c El Hm) as (s & name & l & Hin & Hcut & Hfs & Hcl).
  exists ty, name, l, c. rewrite <- (cut_store_value _ _ _ Hcut). auto.
Qed.

Lemma exists_swap (f : string -> list N) chain wanted :
  existsb (fun c => mem_cert c (flat_map f wanted)) chain
  = existsb (fun n => existsb (fun c => mem_cert c (f n)) chain) wanted.
Proof.
  apply eq_true_iff_eq. rewrite !existsb_exists. split.
  - intros (c & Hc & Hm). apply mem_cert_In, in_flat_map in Hm. destruct Hm as (n & Hn & Hcn).
    exists n. split; [exact Hn|]. apply existsb_exists. exists c. split; [exact Hc | now apply mem_cert_In].
  - intros (n & Hn & Hex). apply existsb_exists in Hex. destruct Hex as (c & Hc & Hm).
    exists c. split; [exact Hc|]. apply mem_cert_In, in_flat_map. exists n. split; [exact Hn | now apply mem_cert_In].
Qed.

(* on a list whose values all have the separator the step is the declarative one *)
Lemma auth_stage_char i st ty : store_type_of (i_scheme i) = Some ty ->
  forallb has_sep (st_stores st) = true ->
  auth_of i st = (expected_auth i ty (st_stores st), expected_calls (i_fs i) ty (st_stores st)).
Proof.
  intros Hty Hsep. unfold auth_of, auth_stage. rewrite Hty, (load_char0 _ _ _ Hsep). cbn [fst snd].
  f_equal. unfold expected_auth, spec_res.
  destruct (find _ (uniq (names_of_type ty (st_stores st)))); [reflexivity|].
  unfold verify_authenticity. rewrite exists_swap. reflexivity.
Qed.

Lemma tsa_in_policy_char stores : forallb has_sep stores = true ->
  exists b, tsa_in_policy stores = Some b /\ (b = false -> names_of_type ty_tsa stores = []).
Proof.
  induction stores as [|s rest IH]; [exists false; split; reflexivity|].
  cbn [forallb]. intros H. apply andb_true_iff in H. destruct H as [Hs Hr].
  cbn [tsa_in_policy]. rewrite names_cons. unfold names_one.
  destruct (cut_byte colon s) as [[t n]|] eqn:Ecut.
  2:{ apply cut_none in Ecut. unfold has_sep in Hs. congruence. }
  destruct (String.eqb t ty_tsa).
  - exists true. split; [reflexivity | discriminate].
  - destruct (IH Hr) as (b & Hb & Hn). exists b. split; [exact Hb | exact Hn].
Qed.

Lemma tsa_calls_char sch fs ts stores : forallb has_sep stores = true ->
  tsa_calls sch fs ts stores = if is_x509 sch && ts then expected_calls fs ty_tsa stores else [].
Proof.
  intros Hsep. unfold tsa_calls. destruct sch; try reflexivity. cbn [is_x509 andb].
  destruct (tsa_in_policy_char stores Hsep) as (b & -> & Hb). destruct b.
  - destruct ts; [|reflexivity]. now rewrite (load_char0 _ _ _ Hsep).
  - unfold expected_calls. rewrite (Hb eq_refl). now destruct ts.
Qed.

Lemma aclass_eqb_refl c : aclass_eqb c c = true.
Proof. destruct c; cbn; rewrite ?String.eqb_refl; reflexivity. Qed.

Lemma key_eqb_spec a b : key_eqb a b = true <-> a = b.
Proof.
  destruct a as [a1 a2], b as [b1 b2]. unfold key_eqb. cbn. rewrite andb_true_iff, !String.eqb_eq.
  split; [intros [-> ->]; reflexivity | intros H; inversion H; auto].
Qed.

Lemma calls_eqb_refl (l : list call) : list_eqb key_eqb l l = true.
Proof. apply (list_eqb_spec key_eqb key_eqb_spec). reflexivity. Qed.

Lemma valid_store_sep s : valid_store s = true -> has_sep s = true.
Proof.
  unfold valid_store, has_sep. destruct (cut_byte colon s) eqn:E; [|discriminate]. intros _.
  destruct (contains_byte colon s) eqn:C; [reflexivity|]. apply cut_none in C. congruence.
Qed.

(* ================= the theorems of props/C03_Property.v ================= *)

(* soundness: a pass has a witness in a listed store of the scheme's type *)
Theorem sound : forall i, o_auth (model i) = Some APass ->
  exists st ty name l c,
    select (i_policy i) (i_repo i) = Some st /\ store_type_of (i_scheme i) = Some ty /\
    In (store_value ty name) (st_stores st) /\ fs_get (i_fs i) ty name = Certs l /\
    In c l /\ In c (i_chain i).
Proof.
  intros i H. destruct (model_auth_inv i _ H) as (st & Hs & _ & Hc).
  symmetry in Hc. destruct (auth_stage_pass _ _ _ _ Hc) as (ty & name & l & c & R).
  exists st, ty, name, l, c. split; [exact Hs | exact R].
Qed.

(* what sits elsewhere never confers trust *)
Theorem never_from_elsewhere : forall i st ty,
  select (i_policy i) (i_repo i) = Some st -> store_type_of (i_scheme i) = Some ty ->
  (forall name l c, In (store_value ty name) (st_stores st) -> fs_get (i_fs i) ty name = Certs l ->
                    In c l -> ~ In c (i_chain i)) ->
  o_auth (model i) <> Some APass.
Proof.
  intros i st ty Hs Hty Hno H. destruct (sound i H) as (st' & ty' & name & l & c & Hs' & Hty' & Hin & Hfs & Hcl & Hcc).
  rewrite Hs in Hs'. inversion Hs'; subst st'. rewrite Hty in Hty'. inversion Hty'; subst ty'.
  exact (Hno name l c Hin Hfs Hcl Hcc).
Qed.

(* the authenticity result and its calls read the trust store only at listed stores of the type *)
Theorem fs_noninterference : forall i fs' st ty,
  select (i_policy i) (i_repo i) = Some st -> store_type_of (i_scheme i) = Some ty ->
  (forall name, In (store_value ty name) (st_stores st) -> fs_get (i_fs i) ty name = fs_get fs' ty name) ->
  o_auth (model (with_fs i fs')) = o_auth (model i) /\ o_stop (model (with_fs i fs')) = o_stop (model i).
Proof.
  intros i fs' st ty Hs Hty Hag.
  assert (Hs' : sel (with_fs i fs') = Some st) by exact Hs.
  assert (E : auth_of (with_fs i fs') st = auth_of i st).
  { unfold auth_of, auth_stage. cbn [with_fs i_scheme i_fs i_chain]. rewrite Hty.
    rewrite (load_ext fs' (i_fs i) ty (st_stores st) []); [reflexivity|].
    intros s name Hin Hcut. symmetry. apply Hag. now rewrite <- (cut_store_value _ _ _ Hcut). }
  destruct (st_action st) eqn:Ea.
  1,2: assert (Hn : st_action st <> SkipLevel) by congruence;
       rewrite (model_auth _ st Hs' Hn), (model_auth i st Hs Hn), (model_stop _ st Hs' Hn), (model_stop i st Hs Hn), E;
       split; reflexivity.
  unfold model. cbn [with_fs i_policy i_repo]. rewrite Hs, Ea. split; reflexivity.
Qed.

(* only the selected statement matters *)
Theorem other_statements : forall i p',
  select p' (i_repo i) = select (i_policy i) (i_repo i) -> model (with_policy i p') = model i.
Proof. intros i p' H. unfold model. cbn [with_policy i_policy i_repo i_scheme i_fs i_chain i_token]. now rewrite H. Qed.

(* completeness: with every listed store of the type loading, a witness gives a pass *)
Theorem complete : forall i st ty name l c,
  select (i_policy i) (i_repo i) = Some st -> st_action st <> SkipLevel ->
  store_type_of (i_scheme i) = Some ty ->
  (forall s, In s (st_stores st) -> contains_byte colon s = true) ->
  (forall n, In (store_value ty n) (st_stores st) -> fs_get (i_fs i) ty n <> LoadError) ->
  In (store_value ty name) (st_stores st) -> fs_get (i_fs i) ty name = Certs l ->
  In c l -> In c (i_chain i) ->
  o_auth (model i) = Some APass.
Proof.
  intros i st ty name l c Hs Ha Hty Hsep Hload Hin Hfs Hcl Hcc.
  rewrite (model_auth i st Hs Ha), (auth_stage_char i st ty Hty (has_sep_forallb _ Hsep)). cbn [fst].
  pose proof (store_type_no_colon _ _ Hty) as Hnc.
  unfold expected_auth.
  destruct (find _ (uniq (names_of_type ty (st_stores st)))) as [n|] eqn:Ef.
  { apply find_some in Ef. destruct Ef as [Hn Hbad]. apply uniq_In, (names_In_value _ _ _ Hnc) in Hn.
    specialize (Hload n Hn). unfold loads_ok in Hbad. destruct (fs_get (i_fs i) ty n); [discriminate | congruence]. }
  assert (Hname : In name (uniq (names_of_type ty (st_stores st)))) by (apply uniq_In, (names_In_value _ _ _ Hnc); exact Hin).
  assert (Hc : certs_of (i_fs i) ty name = l) by (unfold certs_of; now rewrite Hfs).
  destruct (flat_map _ _) eqn:Efm.
  { assert (Hx : In c (flat_map (certs_of (i_fs i) ty) (uniq (names_of_type ty (st_stores st))))).
    { apply in_flat_map. exists name. split; [exact Hname | now rewrite Hc]. }
    rewrite Efm in Hx. contradiction. }
  replace (existsb _ _) with true; [reflexivity|]. symmetry. apply existsb_exists.
  exists name. split; [exact Hname|]. apply existsb_exists. exists c. split; [exact Hcc|].
  apply mem_cert_In. now rewrite Hc.
Qed.

(* the calls, exactly *)
Theorem calls_exact : forall i st ty,
  select (i_policy i) (i_repo i) = Some st -> st_action st <> SkipLevel ->
  store_type_of (i_scheme i) = Some ty ->
  (forall s, In s (st_stores st) -> contains_byte colon s = true) ->
  o_calls (model i) =
  (expected_calls (i_fs i) ty (st_stores st) ++
   (if negb (o_stop (model i)) && is_x509 (i_scheme i) && i_token i && st_ts st
    then expected_calls (i_fs i) ty_tsa (st_stores st) else []))%list.
Proof.
  intros i st ty Hs Ha Hty Hsep. apply has_sep_forallb in Hsep.
  rewrite (model_calls i st Hs Ha), (auth_stage_char i st ty Hty Hsep). cbn [snd]. f_equal.
  rewrite (tsa_calls_char _ _ _ _ Hsep).
  destruct (o_stop (model i)); cbn [negb andb]; [reflexivity|]. now rewrite andb_assoc.
Qed.

Lemma upto_err_incl fs ty : forall l x, In x (upto_err fs ty l) -> In x l.
Proof.
  induction l as [|a l IH]; cbn; [tauto|]. intros x. destruct (loads_ok fs ty a).
  - intros [H|H]; [now left | right; now apply IH].
  - intros [H|[]]. now left.
Qed.

Lemma upto_err_prefix fs ty : forall l, exists k, upto_err fs ty l = firstn k l.
Proof.
  induction l as [|a l [k IH]]; [exists 0; reflexivity|]. cbn. destruct (loads_ok fs ty a).
  - exists (S k). cbn. now rewrite IH.
  - exists 1. reflexivity.
Qed.

Lemma uniq_NoDup l : NoDup (uniq l).
Proof.
  induction l as [|a l IH]; cbn; [constructor|]. constructor.
  - rewrite filter_In. intros [_ H]. now rewrite String.eqb_refl in H.
  - now apply NoDup_filter.
Qed.

(* every call, whatever the list: a listed store, of the scheme's type or - on the timestamp path - tsa *)
Theorem calls_only_listed : forall i t n, In (t, n) (o_calls (model i)) ->
  exists st, select (i_policy i) (i_repo i) = Some st /\ In (store_value t n) (st_stores st) /\
    (store_type_of (i_scheme i) = Some t \/
     (t = ty_tsa /\ i_scheme i = SX509 /\ i_token i = true /\ st_ts st = true /\ o_stop (model i) = false)).
Proof.
  intros i t n H. destruct (sel i) as [st|] eqn:Es.
  2:{ unfold sel in Es. unfold model in H. rewrite Es in H. contradiction. }
  destruct (st_action st) eqn:Ea.
  3:{ unfold sel in Es. unfold model in H. rewrite Es, Ea in H. contradiction. }
  1,2: assert (Hn : st_action st <> SkipLevel) by congruence; exists st; split; [exact Es|];
       rewrite (model_calls i st Es Hn) in H; apply in_app_or in H; destruct H as [H|H].
  1,3: unfold auth_of, auth_stage in H; destruct (store_type_of (i_scheme i)) as [ty|]; [|contradiction];
       cbn [snd] in H; apply load_calls_listed in H; destruct H as (-> & s & Hin & Hcut);
       rewrite <- (cut_store_value _ _ _ Hcut); auto.
  1,2: destruct (o_stop (model i)) eqn:Est; [contradiction|];
       unfold tsa_calls in H; destruct (i_scheme i) eqn:Esch; try contradiction;
       destruct (tsa_in_policy (st_stores st)) as [[|]|]; try contradiction;
       destruct (i_token i); [|contradiction]; destruct (st_ts st); [|contradiction];
       cbn [andb] in H; apply load_calls_listed in H; destruct H as (-> & s & Hin & Hcut);
       rewrite <- (cut_store_value _ _ _ Hcut); split; [exact Hin | right; repeat split; reflexivity].
Qed.

(* a listed store of the type that cannot be loaded: authenticity fails, with that answer *)
Theorem load_error : forall i st ty name,
  select (i_policy i) (i_repo i) = Some st -> st_action st <> SkipLevel ->
  store_type_of (i_scheme i) = Some ty ->
  (forall s, In s (st_stores st) -> contains_byte colon s = true) ->
  In (store_value ty name) (st_stores st) -> fs_get (i_fs i) ty name = LoadError ->
  exists n, o_auth (model i) = Some (ALoad ty n) /\ In (store_value ty n) (st_stores st) /\
            fs_get (i_fs i) ty n = LoadError.
Proof.
  intros i st ty name Hs Ha Hty Hsep Hin Hfs.
  rewrite (model_auth i st Hs Ha), (auth_stage_char i st ty Hty (has_sep_forallb _ Hsep)). cbn [fst].
  pose proof (store_type_no_colon _ _ Hty) as Hnc. unfold expected_auth.
  destruct (find _ (uniq (names_of_type ty (st_stores st)))) as [n|] eqn:Ef.
  - exists n. apply find_some in Ef. destruct Ef as [Hn Hbad]. apply uniq_In, (names_In_value _ _ _ Hnc) in Hn.
    repeat split; auto. unfold loads_ok in Hbad. now destruct (fs_get (i_fs i) ty n).
  - exfalso. assert (Hname : In name (uniq (names_of_type ty (st_stores st)))) by (apply uniq_In, (names_In_value _ _ _ Hnc); exact Hin).
    pose proof (find_none _ _ Ef name Hname) as Hx. cbv beta in Hx. unfold loads_ok in Hx. now rewrite Hfs in Hx.
Qed.

(* ... and is never ignored, whatever else the list contains *)
Theorem load_error_never_passes : forall i st ty name,
  select (i_policy i) (i_repo i) = Some st -> store_type_of (i_scheme i) = Some ty ->
  In (store_value ty name) (st_stores st) -> fs_get (i_fs i) ty name = LoadError ->
  o_auth (model i) <> Some APass.
Proof.
  intros i st ty name Hs Hty Hin Hfs H. destruct (model_auth_inv i _ H) as (st' & Hs' & _ & Hc).
  unfold sel in Hs'. rewrite Hs in Hs'. inversion Hs'; subst st'.
  unfold auth_of, auth_stage in Hc. rewrite Hty in Hc. cbn [fst] in Hc.
  pose proof (load_error_never_ok (i_fs i) ty (store_value ty name) name
                (listed_cut ty name (store_type_no_colon _ _ Hty)) Hfs (st_stores st) [] Hin (fun x => x)) as Hno.
  destruct (fst (load (i_fs i) ty (st_stores st) [])) as [cs| |]; try discriminate. now apply (Hno cs).
Qed.

(* scheme -> store type; an unrecognized scheme fails without consulting any store *)
Theorem scheme_type : store_type_of SX509 = Some ty_ca /\ store_type_of SSA = Some ty_sa /\
  forall i st, i_scheme i = SOther -> select (i_policy i) (i_repo i) = Some st -> st_action st <> SkipLevel ->
    o_auth (model i) = Some AScheme /\ o_calls (model i) = [].
Proof.
  repeat split; intros.
  - rewrite (model_auth i st H0 H1). unfold auth_of, auth_stage. now rewrite H.
  - rewrite (model_calls i st H0 H1). unfold auth_of, auth_stage, tsa_calls. rewrite H. cbn.
    now destruct (o_stop (model i)).
Qed.

(* nothing loaded at all is a failure *)
Theorem empty_fails : forall i st ty,
  select (i_policy i) (i_repo i) = Some st -> st_action st <> SkipLevel ->
  store_type_of (i_scheme i) = Some ty ->
  (forall s, In s (st_stores st) -> contains_byte colon s = true) ->
  (forall name, ~ In (store_value ty name) (st_stores st)) ->
  o_auth (model i) = Some AEmpty /\ o_calls (model i) =
     (if negb (o_stop (model i)) && is_x509 (i_scheme i) && i_token i && st_ts st
      then expected_calls (i_fs i) ty_tsa (st_stores st) else []).
Proof.
  intros i st ty Hs Ha Hty Hsep Hnone.
  assert (Hn : names_of_type ty (st_stores st) = []).
  { destruct (names_of_type ty (st_stores st)) as [|n r] eqn:E; [reflexivity|]. exfalso.
    apply (Hnone n). apply (names_In_value _ _ _ (store_type_no_colon _ _ Hty)). rewrite E. now left. }
  split.
  - rewrite (model_auth i st Hs Ha), (auth_stage_char i st ty Hty (has_sep_forallb _ Hsep)). cbn [fst].
    unfold expected_auth. now rewrite Hn.
  - rewrite (calls_exact i st ty Hs Ha Hty Hsep). unfold expected_calls at 1. now rewrite Hn.
Qed.

(* the authenticity error itself ends the verification exactly when the action is enforce *)
Theorem stop_iff : forall i, o_stop (model i) = true <->
  exists st c, select (i_policy i) (i_repo i) = Some st /\ st_action st = Enforce /\
               o_auth (model i) = Some c /\ c <> APass.
Proof.
  intros i. split.
  - intros H. destruct (sel i) as [st|] eqn:Es.
    2:{ unfold sel in Es. unfold model in H. rewrite Es in H. discriminate. }
    destruct (st_action st) eqn:Ea.
    3:{ unfold sel in Es. unfold model in H. rewrite Es, Ea in H. discriminate. }
    1,2: assert (Hn : st_action st <> SkipLevel) by congruence;
         rewrite (model_stop i st Es Hn), Ea in H; cbn [andb] in H; try discriminate.
    exists st, (fst (auth_of i st)). repeat split; auto.
    + now apply model_auth.
    + intros E. rewrite E in H. discriminate.
  - intros (st & c & Hs & Ha & Hc & Hne).
    assert (Hn : st_action st <> SkipLevel) by congruence.
    rewrite (model_stop i st Hs Hn), Ha. rewrite (model_auth i st Hs Hn) in Hc. inversion Hc; subst.
    destruct (fst (auth_of i st)); cbn; congruence.
Qed.

(* the oracle evaluated on the implementation's observations is met by the model *)
Theorem model_spec_ok : forall i, wf i = true -> spec_ok i (model i) = true.
Proof.
  intros i Hwf. unfold wf in Hwf. apply andb_true_iff in Hwf. destruct Hwf as [Hwf Hsch].
  apply andb_true_iff in Hwf. destruct Hwf as [Hval Hnd].
  unfold spec_ok. rewrite <- (select_applicable _ (i_repo i) Hnd).
  destruct (select (i_policy i) (i_repo i)) as [st|] eqn:Es.
  2:{ unfold model. now rewrite Es. }
  destruct (selected_in_scope _ _ _ Es) as [Hin _].
  assert (Hsep : forallb has_sep (st_stores st) = true).
  { rewrite forallb_forall in Hval. specialize (Hval st Hin). rewrite forallb_forall in Hval.
    apply forallb_forall. intros s Hs. apply valid_store_sep, Hval, Hs. }
  destruct (store_type_of (i_scheme i)) as [ty|] eqn:Hty.
  2:{ destruct (i_scheme i); cbn in Hty, Hsch; discriminate. }
  assert (Hcalls : forallb (call_allowed i st ty (o_stop (model i))) (o_calls (model i)) = true).
  { apply forallb_forall. intros [t n] Hk. destruct (calls_only_listed i t n Hk) as (st' & Hs' & Hl & Hor).
    rewrite Es in Hs'. inversion Hs'; subst st'. unfold call_allowed. cbn [fst snd].
    apply andb_true_iff. split; [now apply mem_str_In|].
    destruct Hor as [Hor | (-> & Hx & Ht & Hts & Hst)].
    - rewrite Hty in Hor. inversion Hor; subst. now rewrite String.eqb_refl.
    - rewrite Hx, Ht, Hts, Hst. cbn. apply orb_true_r. }
  destruct (st_action st) eqn:Ea.
  3:{ unfold model. now rewrite Es, Ea. }
  1,2: assert (Hn : st_action st <> SkipLevel) by congruence;
       rewrite Hcalls, (model_auth i st Es Hn), (model_stop i st Es Hn), Ea;
       rewrite (auth_stage_char i st ty Hty Hsep); cbn [fst];
       rewrite !eqb_reflx; reflexivity.
Qed.

(* no store is consulted twice *)
Lemma NoDup_app_intro {A} (l1 l2 : list A) : NoDup l1 -> NoDup l2 ->
  (forall x, In x l1 -> ~ In x l2) -> NoDup (l1 ++ l2).
Proof.
  induction l1 as [|a l1 IH]; cbn; [auto|]. intros H1 H2 Hd. inversion H1; subst. constructor.
  - intros Hin. apply in_app_or in Hin. destruct Hin as [Hin|Hin]; [contradiction|].
    exact (Hd a (or_introl eq_refl) Hin).
  - apply IH; auto; intros x Hx; apply Hd; now right.
Qed.

Lemma NoDup_firstn {A} k : forall (l : list A), NoDup l -> NoDup (firstn k l).
Proof.
  induction k as [|k IH]; intros l H; [constructor|]. destruct l as [|a l]; [constructor|].
  cbn. inversion H; subst. constructor; [|now apply IH].
  intros Hin. apply H2. revert Hin. clear. revert l. induction k as [|k IH]; intros l; cbn; [tauto|].
  destruct l; cbn; [tauto|]. intros [->|Hin]; [now left | right; now apply IH].
Qed.

Lemma NoDup_map_pair (ty : string) (l : list string) : NoDup l -> NoDup (map (fun x => (ty, x)) l).
Proof.
  induction l as [|a l IH]; cbn; intros H; [constructor|]. inversion H; subst. constructor; [|now apply IH].
  intros Hin. apply in_map_iff in Hin. destruct Hin as (x & E & Hx). inversion E; subst. contradiction.
Qed.

Lemma expected_calls_NoDup fs ty stores : NoDup (expected_calls fs ty stores).
Proof.
  unfold expected_calls. destruct (upto_err_prefix fs ty (uniq (names_of_type ty stores))) as [k ->].
  apply NoDup_map_pair, NoDup_firstn, uniq_NoDup.
Qed.

Theorem calls_nodup : forall i st ty,
  select (i_policy i) (i_repo i) = Some st -> st_action st <> SkipLevel ->
  store_type_of (i_scheme i) = Some ty ->
  (forall s, In s (st_stores st) -> contains_byte colon s = true) ->
  NoDup (o_calls (model i)).
Proof.
  intros i st ty Hs Ha Hty Hsep. rewrite (calls_exact i st ty Hs Ha Hty Hsep).
  apply NoDup_app_intro; [apply expected_calls_NoDup | |].
  - destruct (_ && _); [apply expected_calls_NoDup | constructor].
  - intros [t n] H1 H2. destruct (_ && _); [|contradiction].
    unfold expected_calls in H1, H2. apply in_map_iff in H1. apply in_map_iff in H2.
    destruct H1 as (x & E1 & _). destruct H2 as (y & E2 & _). inversion E1; inversion E2; subst.
    destruct (i_scheme i); cbn in Hty; inversion Hty; subst; discriminate.
Qed.
