(* C03_Proofs.v — lemmas about the trust-store loading loop, statement selection and
   the authenticity step of the C03 model. *)
From NV Require Import Base C03_Model.

(* ---------- strings.Cut ---------- *)
Definition store_value (ty name : string) : string := ty ++ String colon name.

Lemma cut_spec c s l r : cut_byte c s = Some (l, r) ->
  s = (l ++ String c r)%string /\ contains_byte c l = false.
Proof.
  revert l r. induction s as [|a s IH]; intros l r; cbn; [discriminate|].
  destruct (Ascii.eqb a c) eqn:E.
  - intros H. inversion H; subst. apply Ascii.eqb_eq in E. subst. split; reflexivity.
  - destruct (cut_byte c s) as [[l' r']|]; [|discriminate].
    intros H. inversion H; subst. destruct (IH l' r eq_refl) as [-> Hc].
    split; [reflexivity|]. cbn. now rewrite E.
Qed.

Lemma cut_none c s : cut_byte c s = None <-> contains_byte c s = false.
Proof.
  induction s as [|a s IH]; cbn; [tauto|].
  destruct (Ascii.eqb a c); cbn.
  - split; discriminate.
  - destruct (cut_byte c s) as [[l r]|].
    + split; [discriminate|]. intros H. apply IH in H. discriminate.
    + split; [intros _; now apply IH | reflexivity].
Qed.

Lemma cut_app c l r : contains_byte c l = false -> cut_byte c (l ++ String c r) = Some (l, r).
Proof.
  induction l as [|a l IH]; cbn.
  - intros _. now rewrite Ascii.eqb_refl.
  - destruct (Ascii.eqb a c); cbn; [discriminate|]. intros H. now rewrite (IH H).
Qed.

Lemma str_app_inv_head a b c : (a ++ b)%string = (a ++ c)%string -> b = c.
Proof. induction a as [|x a IH]; cbn; intros H; [exact H | inversion H; auto]. Qed.

Lemma cut_store_value s ty name : cut_byte colon s = Some (ty, name) -> s = store_value ty name.
Proof. intros H. now apply cut_spec in H. Qed.

Lemma mem_str_In x l : mem_str x l = true <-> In x l.
Proof.
  unfold mem_str. rewrite existsb_exists. split.
  - intros (y & Hy & E). apply String.eqb_eq in E. now subst.
  - intros H. exists x. split; [exact H | apply String.eqb_refl].
Qed.

Lemma mem_cert_In c l : mem_cert c l = true <-> In c l.
Proof.
  unfold mem_cert. rewrite existsb_exists. split.
  - intros (y & Hy & E). apply N.eqb_eq in E. now subst.
  - intros H. exists c. split; [exact H | apply N.eqb_refl].
Qed.

(* ---------- the loading loop: facts that hold for every list ---------- *)

(* every certificate loaded comes from a listed store of the wanted type *)
Lemma load_sound fs ty : forall stores P certs c,
  fst (load fs ty stores P) = LOk certs -> In c certs ->
  exists s name l, In s stores /\ cut_byte colon s = Some (ty, name) /\
                   fs_get fs ty name = Certs l /\ In c l.
Proof.
  induction stores as [|s rest IH]; intros P certs c; cbn.
  - intros H. inversion H; subst. contradiction.
  - destruct (mem_str s P).
    { intros H Hc. destruct (IH _ _ _ H Hc) as (s' & n & l & Hin & R). exists s', n, l. split; [now right | exact R]. }
    destruct (cut_byte colon s) as [[sty name]|] eqn:Ecut; [|cbn; discriminate].
    destruct (String.eqb ty sty) eqn:Ety; cbn [negb].
    2:{ intros H Hc. destruct (IH _ _ _ H Hc) as (s' & n & l & Hin & R). exists s', n, l. split; [now right | exact R]. }
    apply String.eqb_eq in Ety. subst sty.
    destruct (fs_get fs ty name) as [l|] eqn:Efs; [|cbn; discriminate].
    cbn [fst]. destruct (fst (load fs ty rest (s :: P))) as [cs| |] eqn:Er; try discriminate.
    intros H Hc. inversion H; subst. apply in_app_or in Hc. destruct Hc as [Hc|Hc].
    + exists s, name, l. repeat split; auto; now left.
    + destruct (IH _ _ _ Er Hc) as (s' & n & l' & Hin & R). exists s', n, l'. split; [now right | exact R].
Qed.

(* every call is for a listed store of the wanted type *)
Lemma load_calls_listed fs ty : forall stores P t n,
  In (t, n) (snd (load fs ty stores P)) ->
  t = ty /\ exists s, In s stores /\ cut_byte colon s = Some (ty, n).
Proof.
  induction stores as [|s rest IH]; intros P t n; cbn; [contradiction|].
  destruct (mem_str s P).
  { intros H. destruct (IH _ _ _ H) as (-> & s' & Hin & R). split; [reflexivity|]. exists s'. split; [now right | exact R]. }
  destruct (cut_byte colon s) as [[sty name]|] eqn:Ecut; [|cbn; contradiction].
  destruct (String.eqb ty sty) eqn:Ety; cbn [negb].
  2:{ intros H. destruct (IH _ _ _ H) as (-> & s' & Hin & R). split; [reflexivity|]. exists s'. split; [now right | exact R]. }
  apply String.eqb_eq in Ety. subst sty.
  destruct (fs_get fs ty name) as [l|] eqn:Efs; cbn [snd].
  - intros [H|H].
    + inversion H; subst. split; [reflexivity|]. exists s. split; [now left | exact Ecut].
    + destruct (IH _ _ _ H) as (-> & s' & Hin & R). split; [reflexivity|]. exists s'. split; [now right | exact R].
  - intros [H|[]]. inversion H; subst. split; [reflexivity|]. exists s. split; [now left | exact Ecut].
Qed.

(* a load error reported is the answer of a listed store of the wanted type *)
Lemma load_error_listed fs ty : forall stores P t n,
  fst (load fs ty stores P) = LErrLoad t n ->
  t = ty /\ fs_get fs ty n = LoadError /\ exists s, In s stores /\ cut_byte colon s = Some (ty, n).
Proof.
  induction stores as [|s rest IH]; intros P t n; cbn; [discriminate|].
  destruct (mem_str s P).
  { intros H. destruct (IH _ _ _ H) as (-> & Hf & s' & Hin & R). repeat split; auto. exists s'. split; [now right | exact R]. }
  destruct (cut_byte colon s) as [[sty name]|] eqn:Ecut; [|cbn; discriminate].
  destruct (String.eqb ty sty) eqn:Ety; cbn [negb].
  2:{ intros H. destruct (IH _ _ _ H) as (-> & Hf & s' & Hin & R). repeat split; auto. exists s'. split; [now right | exact R]. }
  apply String.eqb_eq in Ety. subst sty.
  destruct (fs_get fs ty name) as [l|] eqn:Efs; cbn [fst].
  - destruct (fst (load fs ty rest (s :: P))) as [cs|t' n'|] eqn:Er; try discriminate.
    intros H. inversion H; subst. destruct (IH _ _ _ Er) as (-> & Hf & s' & Hin & R).
    repeat split; auto. exists s'. split; [now right | exact R].
  - intros H. inversion H; subst. repeat split; auto. exists s. split; [now left | exact Ecut].
Qed.

(* the loop reads the trust store only at listed stores of the wanted type *)
Lemma load_ext fs fs' ty : forall stores P,
  (forall s name, In s stores -> cut_byte colon s = Some (ty, name) ->
                  fs_get fs ty name = fs_get fs' ty name) ->
  load fs ty stores P = load fs' ty stores P.
Proof.
  induction stores as [|s rest IH]; intros P H; cbn; [reflexivity|].
  assert (Hr : forall s0 name, In s0 rest -> cut_byte colon s0 = Some (ty, name) ->
                               fs_get fs ty name = fs_get fs' ty name)
    by (intros; eapply H; [right|]; eassumption).
  destruct (mem_str s P); [now apply IH|].
  destruct (cut_byte colon s) as [[sty name]|] eqn:Ecut; [|reflexivity].
  destruct (String.eqb ty sty) eqn:Ety; cbn [negb]; [|now apply IH].
  apply String.eqb_eq in Ety. subst sty.
  rewrite <- (H s name (or_introl eq_refl) Ecut).
  destruct (fs_get fs ty name); [|reflexivity]. now rewrite (IH _ Hr).
Qed.

(* ---------- the loop against the declarative description ---------- *)
Definition neq_str (x : string) : string -> bool := fun y => negb (String.eqb x y).

Lemma load_processed fs ty x : forall stores P P',
  (forall y, mem_str y P' = String.eqb y x || mem_str y P) ->
  load fs ty stores P' = load fs ty (filter (neq_str x) stores) P.
Proof.
  induction stores as [|s rest IH]; intros P P' HP; cbn [load filter]; [reflexivity|].
  rewrite HP. unfold neq_str at 1. rewrite (String.eqb_sym x s).
  destruct (String.eqb s x) eqn:Esx; cbn [negb orb].
  - now apply IH.
  - cbn [load]. destruct (mem_str s P) eqn:Em; [now apply IH|].
    destruct (cut_byte colon s) as [[sty name]|]; [|reflexivity].
    destruct (negb (String.eqb ty sty)); [now apply IH|].
    destruct (fs_get fs ty name); [|reflexivity].
    rewrite (IH (s :: P) (s :: P')); [reflexivity|].
    intros y. unfold mem_str. cbn [existsb]. fold (mem_str y P'). fold (mem_str y P).
    rewrite HP. destruct (String.eqb y s), (String.eqb y x); reflexivity.
Qed.

Lemma filter_filter_comm {A} (p q : A -> bool) l : filter p (filter q l) = filter q (filter p l).
Proof.
  induction l as [|a l IH]; cbn; [reflexivity|].
  destruct (p a) eqn:Ep, (q a) eqn:Eq; cbn; rewrite ?Ep, ?Eq, IH; reflexivity.
Qed.

Lemma filter_neq_absorb (p : string -> bool) x l : p x = false ->
  filter p (filter (neq_str x) l) = filter p l.
Proof.
  intros Hp. induction l as [|a l IH]; cbn; [reflexivity|].
  unfold neq_str at 1. destruct (String.eqb x a) eqn:E; cbn [negb].
  - apply String.eqb_eq in E. subst a. now rewrite Hp.
  - cbn. now rewrite IH.
Qed.

Lemma uniq_filter (p : string -> bool) l : uniq (filter p l) = filter p (uniq l).
Proof.
  induction l as [|x l IH]; cbn; [reflexivity|].
  destruct (p x) eqn:Ep; cbn.
  - rewrite IH. f_equal. apply filter_filter_comm.
  - rewrite IH. symmetry. now apply (filter_neq_absorb p x).
Qed.

Lemma filter_length_le {A} (p : A -> bool) l : List.length (filter p l) <= List.length l.
Proof. induction l as [|x l IH]; cbn; [lia|]. destruct (p x); cbn; lia. Qed.

(* removing the store value ty:name from the list removes name from the names of type ty *)
Definition names_one (ty s : string) : list string :=
  match cut_byte colon s with
  | Some (t, n) => if String.eqb t ty then [n] else []
  | None => []
  end.

Lemma names_cons ty s rest : names_of_type ty (s :: rest) = (names_one ty s ++ names_of_type ty rest)%list.
Proof. reflexivity. Qed.

Lemma names_one_value ty name : names_one ty (store_value ty name) = [name] \/ names_one ty (store_value ty name) = [].
Proof.
  unfold names_one. destruct (cut_byte colon (store_value ty name)) as [[t n]|] eqn:Ecut; [|now right].
  destruct (String.eqb t ty) eqn:Et; [|now right]. left.
  apply String.eqb_eq in Et. subst t. apply cut_spec in Ecut. destruct Ecut as [Heq _].
  unfold store_value in Heq. apply str_app_inv_head in Heq. now inversion Heq.
Qed.

Lemma names_filter ty name : forall stores,
  names_of_type ty (filter (neq_str (store_value ty name)) stores)
  = filter (neq_str name) (names_of_type ty stores).
Proof.
  induction stores as [|s rest IH]; [reflexivity|].
  rewrite names_cons, filter_app. cbn [filter]. unfold neq_str at 1.
  destruct (String.eqb (store_value ty name) s) eqn:E; cbn [negb].
  - apply String.eqb_eq in E. subst s. rewrite IH.
    destruct (names_one_value ty name) as [-> | ->]; cbn [filter app]; [|reflexivity].
    unfold neq_str at 2. now rewrite String.eqb_refl.
  - rewrite names_cons, IH. f_equal.
    unfold names_one. destruct (cut_byte colon s) as [[t n]|] eqn:Ecut; [|reflexivity].
    destruct (String.eqb t ty) eqn:Et; [|reflexivity].
    apply String.eqb_eq in Et. subst t. apply cut_store_value in Ecut. subst s.
    cbn [filter]. unfold neq_str.
    destruct (String.eqb name n) eqn:En; [|reflexivity].
    apply String.eqb_eq in En. subst n. now rewrite String.eqb_refl in E.
Qed.

Definition has_sep (s : string) : bool := contains_byte colon s.

Definition spec_res (fs : fsys) (ty : string) (wanted : list string) : lres :=
  match find (fun n => negb (loads_ok fs ty n)) wanted with
  | Some n => LErrLoad ty n
  | None => LOk (flat_map (certs_of fs ty) wanted)
  end.

Lemma forallb_filter {A} (p q : A -> bool) l : forallb p l = true -> forallb p (filter q l) = true.
Proof.
  induction l as [|a l IH]; cbn; [auto|]. intros H. apply andb_true_iff in H. destruct H as [Ha Hl].
  destruct (q a); cbn; [rewrite Ha|]; auto.
Qed.

(* on lists whose every value has the separator, the loop is: first occurrences of the
   names of the wanted type, consulted in order up to the first that fails *)
Lemma load_char fs ty : forall n stores, List.length stores <= n ->
  forallb has_sep stores = true ->
  load fs ty stores [] =
  (spec_res fs ty (uniq (names_of_type ty stores)),
   map (fun x => (ty, x)) (upto_err fs ty (uniq (names_of_type ty stores)))).
Proof.
  induction n as [|n IH]; intros stores Hlen Hsep.
  { destruct stores; [reflexivity | cbn in Hlen; lia]. }
  destruct stores as [|s rest]; [reflexivity|].
  cbn in Hlen. cbn [forallb] in Hsep. apply andb_true_iff in Hsep. destruct Hsep as [Hs Hrest].
  cbn [load mem_str existsb].
  destruct (cut_byte colon s) as [[sty name]|] eqn:Ecut.
  2:{ apply cut_none in Ecut. unfold has_sep in Hs. congruence. }
  unfold names_of_type. cbn [flat_map]. rewrite Ecut. fold (names_of_type ty rest).
  rewrite (String.eqb_sym sty ty).
  destruct (String.eqb ty sty) eqn:Ety; cbn [negb app].
  2:{ apply IH; [lia | exact Hrest]. }
  apply String.eqb_eq in Ety. subst sty. cbn [uniq]. fold (neq_str name).
  unfold spec_res. cbn [find upto_err flat_map map]. unfold loads_ok at 1 3, certs_of at 1.
  destruct (fs_get fs ty name) as [l|] eqn:Efs; cbn [negb]; [|reflexivity].
  rewrite (load_processed fs ty s rest [] [s]).
  2:{ intros y. cbn. now rewrite orb_false_r. }
  rewrite (cut_store_value _ _ _ Ecut).
  rewrite IH; [| pose proof (filter_length_le (neq_str (store_value ty name)) rest); lia
              | now apply forallb_filter].
  rewrite names_filter, uniq_filter. cbn [fst snd]. unfold spec_res.
  destruct (find _ _); reflexivity.
Qed.

Lemma load_char0 fs ty stores : forallb has_sep stores = true ->
  load fs ty stores [] =
  (spec_res fs ty (uniq (names_of_type ty stores)),
   map (fun x => (ty, x)) (upto_err fs ty (uniq (names_of_type ty stores)))).
Proof. apply (load_char fs ty (List.length stores)). lia. Qed.
