(* C08_GenProofs.v — the GoLite translations of the selection functions of
   verifier/trustpolicy (theories/C08_Gen.v, regenerated from /repo by `vh-gen` on every
   run, docs/GOLITE.md) against the hand-written C08 model (C08_Model.v).

   Part A: Go library functions as used by the code (strings.LastIndex + slicing,
           strings.TrimSpace) against the model's own functions (last_at, blank).
   Part B: abstraction of the generated records / results / errors to the model's.
   Part C: each generated function equals the model function that plays its role, for ALL
           inputs (a Go map is an arbitrary association list).
   Part D: validation (validateRegistryScopes, the two Validate methods with
           validatePolicyCore as an arbitrary oracle) gives the validity facts of the model.
   Part E: the theorems of props/C08_Property.v transported onto the generated functions.

   props/C08_Generated.v states the theorems and closes each with [exact]. *)
From Coq Require Import List Bool String Ascii NArith ZArith Permutation.
(* No [lia] in this file, and local lia-free versions of the few GoLib lemmas proved with it:
   Print Assumptions walks through the whole micromega development for every theorem that
   depends on one [lia] proof (0.4 s each, 25 theorems in props/C08_Generated.v). *)
From NV Require Import Base Regex Generated GoLib C08_Model C08_Proofs C08_Gen.
Import ListNotations.
Local Open Scope string_scope.
Local Open Scope list_scope.

(* ================================================================== *)
(* Part A — library functions                                          *)

(* ---- strings.LastIndex(ref, "@") and ref[:i] are the model's last_at ---- *)

Lemma last_index_from_at s : forall i acc,
  str_last_index_from "@" s i acc
  = match last_at s with
    | Some p => (i + Z.of_nat (String.length p))%Z
    | None => acc
    end.
Proof.
  induction s as [|a s IH]; intros i acc; [reflexivity|].
  cbn [str_last_index_from last_at has_prefix]. rewrite IH.
  destruct (last_at s) as [p|].
  - cbn [String.length]. rewrite Nat2Z.inj_succ, <- Z.add_1_l, Z.add_assoc. reflexivity.
  - rewrite andb_true_r, (ascii_eqb_sym "@" a).
    destruct (Ascii.eqb a "@"); [cbn [String.length Z.of_nat]; symmetry; apply Z.add_0_r|reflexivity].
Qed.

Lemma last_index_at s :
  str_last_index "@" s
  = match last_at s with Some p => Z.of_nat (String.length p) | None => (-1)%Z end.
Proof.
  unfold str_last_index. rewrite last_index_from_at. destruct (last_at s); reflexivity.
Qed.

Lemma last_at_take s : forall p, last_at s = Some p ->
  take (String.length p) s = p /\ (String.length p <= String.length s)%nat.
Proof.
  induction s as [|a s IH]; intros p H; [discriminate|].
  cbn [last_at] in H. destruct (last_at s) as [q|].
  - inversion H; subst p. destruct (IH q eq_refl) as [H1 H2]. cbn [String.length take].
    rewrite H1. split; [reflexivity|apply le_n_S; exact H2].
  - destruct (Ascii.eqb a "@"); [|discriminate]. inversion H; subst p.
    cbn [String.length take]. split; [reflexivity|apply Nat.le_0_l].
Qed.

Lemma slice_last_at s p : last_at s = Some p ->
  str_slice s 0 (Z.of_nat (String.length p)) = Some p.
Proof.
  intros H. destruct (last_at_take s p H) as [H1 H2]. unfold str_slice, str_len.
  replace ((0 <=? 0)%Z && (0 <=? Z.of_nat (String.length p))%Z
           && (Z.of_nat (String.length p) <=? Z.of_nat (String.length s))%Z) with true.
  - rewrite Z.sub_0_r, Nat2Z.id. cbn [Z.to_nat drop]. rewrite H1. reflexivity.
  - symmetry. rewrite !andb_true_iff. repeat split; apply Z.leb_le;
      first [apply Z.le_refl|apply Nat2Z.is_nonneg|apply Nat2Z.inj_le; exact H2].
Qed.

(* ---- strings.TrimSpace(n) == "" is the model's [blank n] ---- *)

Ltac split_ifs := repeat match goal with |- context [if ?b then _ else _] => destruct b end.

(* decide the comparisons between closed numbers *)
Ltac ground_neqb :=
  repeat match goal with
  | |- context [(?a =? ?b)%N] =>
      let v := eval vm_compute in (a =? b)%N in
      match v with
      | true => change (a =? b)%N with true
      | false => change (a =? b)%N with false
      end
  end; cbn [andb orb].

(* case analysis on the remaining comparisons, only as far as needed *)
Ltac solve_atoms :=
  first [ reflexivity
        | match goal with
          | |- context [(?v =? ?k)%N] => is_var v; destruct (v =? k)%N
          | |- context [(?k <=? ?v)%N] => is_var v; destruct (k <=? v)%N
          | |- context [(?v <=? ?k)%N] => is_var v; destruct (v <=? k)%N
          | b : bool |- _ => destruct b
          end; cbn [andb orb]; solve_atoms ].

Definition is_nil {A} (l : list A) : bool := match l with [] => true | _ => false end.

(* one unfolding of blank_b (cbn would unfold it along the whole literal prefix) *)
Lemma blank_b_cons c t :
  blank_b (c :: t)
  = if is_ascii_space c then blank_b t
    else match t with
         | x :: t' =>
             if (c =? 194)%N then ((x =? 133) || (x =? 160))%N && blank_b t'
             else match t' with
                  | y :: t'' =>
                      if (c =? 225)%N then (x =? 154)%N && (y =? 128)%N && blank_b t''
                      else if (c =? 226)%N then
                        (((x =? 128)%N && (((128 <=? y) && (y <=? 138))%N || (y =? 168)%N || (y =? 169)%N || (y =? 175)%N))
                         || ((x =? 129)%N && (y =? 159)%N)) && blank_b t''
                      else if (c =? 227)%N then (x =? 128)%N && (y =? 128)%N && blank_b t''
                      else false
                  | [] => false
                  end
         | [] => false
         end.
Proof. reflexivity. Qed.

(* one white-space rune at the head: blank_b continues behind it; none: blank only if empty *)
Lemma blank_b_step l :
  blank_b l = match space_prefix_len l with
              | O => is_nil l
              | n => blank_b (skipn n l)
              end.
Proof.
  destruct l as [|c [|x [|y t]]]; [reflexivity| | |];
    rewrite blank_b_cons; cbn [space_prefix_len]; unfold is_ascii_space;
    (destruct ((9 <=? c) && (c <=? 13) || (c =? 32))%N; [reflexivity|]);
    (destruct (N.eqb_spec c 194) as [->|_];
     [|destruct (N.eqb_spec c 225) as [->|_];
       [|destruct (N.eqb_spec c 226) as [->|_];
         [|destruct (N.eqb_spec c 227) as [->|_]]]]);
    ground_neqb;
    try match goal with
        | |- context [((128 <=? ?y) && (?y <=? 138) || (?y =? 168) || (?y =? 169) || (?y =? 175))%N] =>
            generalize ((128 <=? y) && (y <=? 138) || (y =? 168) || (y =? 169) || (y =? 175))%N; intros rng
        end;
    solve_atoms.
Qed.

(* k <= S (.. (S n)) for a literal k *)
Ltac le_closed := repeat apply le_n_S; apply Nat.le_0_l.

Lemma sub_le_fuel a n f : (a <= S f -> a - S n <= f)%nat.
Proof.
  destruct a as [|m]; intros H; [apply Nat.le_0_l|]. cbn [Nat.sub].
  apply (Nat.le_trans _ m); [apply Nat.le_sub_l|apply le_S_n; exact H].
Qed.

Lemma space_prefix_len_le l : (space_prefix_len l <= List.length l)%nat.
Proof.
  destruct l as [|c [|x [|y t]]]; cbn [space_prefix_len List.length]; split_ifs; le_closed.
Qed.

Lemma space_suffix_len_le l : (space_suffix_len l <= List.length l)%nat.
Proof.
  destruct l as [|c [|x [|y t]]]; cbn [space_suffix_len List.length]; split_ifs; le_closed.
Qed.

Lemma trim_prefix_spec : forall fuel l, (List.length l <= fuel)%nat ->
  space_prefix_len (trim_with space_prefix_len fuel l) = O
  /\ blank_b (trim_with space_prefix_len fuel l) = blank_b l.
Proof.
  induction fuel as [|fuel IH]; intros l Hl.
  - destruct l; [split; reflexivity|cbn in Hl; inversion Hl].
  - cbn [trim_with]. destruct (space_prefix_len l) as [|n] eqn:E; [split; [exact E|reflexivity]|].
    pose proof (space_prefix_len_le l) as Hle.
    assert (Hs : (List.length (skipn (S n) l) <= fuel)%nat) by (rewrite skipn_length; apply sub_le_fuel; exact Hl).
    destruct (IH _ Hs) as [H1 H2]. split; [exact H1|].
    rewrite H2. rewrite (blank_b_step l), E. reflexivity.
Qed.

(* a white-space rune in front stays one whatever follows *)
Lemma space_prefix_len_app p q : space_prefix_len p <> O -> space_prefix_len (p ++ q) <> O.
Proof.
  destruct p as [|a [|b [|c t]]]; cbn [app space_prefix_len]; split_ifs; congruence.
Qed.

(* a list that is, read backwards, exactly one white-space rune starts with one *)
Lemma whole_chunk r : r <> [] -> space_suffix_len r = List.length r -> space_prefix_len (rev r) <> O.
Proof.
  destruct r as [|c [|d [|e [|f t]]]]; intros Hne; [contradiction| | | |];
    cbn [space_suffix_len space_prefix_len rev app List.length]; split_ifs; discriminate.
Qed.

Lemma trim_suffix_nonempty : forall fuel r,
  r <> [] -> space_prefix_len (rev r) = O -> trim_with space_suffix_len fuel r <> [].
Proof.
  induction fuel as [|fuel IH]; intros r Hne Hp; [exact Hne|].
  cbn [trim_with]. destruct (space_suffix_len r) as [|n] eqn:E; [exact Hne|].
  pose proof (space_suffix_len_le r) as Hle.
  apply IH.
  - intros Hnil. apply (whole_chunk r Hne); [|exact Hp].
    assert (Hl : (List.length (skipn (S n) r) = 0)%nat) by (rewrite Hnil; reflexivity).
    rewrite skipn_length in Hl. apply Nat.sub_0_le in Hl. rewrite E in Hle.
    rewrite E. apply Nat.le_antisymm; assumption.
  - destruct (space_prefix_len (rev (skipn (S n) r))) eqn:E2; [reflexivity|]. exfalso.
    apply (space_prefix_len_app (rev (skipn (S n) r)) (rev (firstn (S n) r))); [congruence|].
    rewrite <- rev_app_distr, firstn_skipn. exact Hp.
Qed.

Lemma B_nil l : String.eqb (B l) "" = is_nil l.
Proof. destruct l; reflexivity. Qed.

Lemma is_nil_rev {A} (l : list A) : is_nil (rev l) = is_nil l.
Proof.
  destruct l as [|a l]; [reflexivity|]. cbn [rev is_nil].
  destruct (rev l ++ [a]) eqn:E; [|reflexivity]. exfalso. exact (app_cons_not_nil _ _ _ (eq_sym E)).
Qed.

Theorem trim_space_blank n : String.eqb (str_trim_space n) "" = blank n.
Proof.
  unfold str_trim_space, blank. cbv zeta. rewrite B_nil, is_nil_rev.
  destruct (trim_prefix_spec (List.length (bytes n)) (bytes n) (le_n _)) as [H1 H2].
  rewrite <- H2. set (l1 := trim_with space_prefix_len (List.length (bytes n)) (bytes n)) in *.
  rewrite (blank_b_step l1), H1.
  destruct l1 as [|a l1'] eqn:El; [reflexivity|]. cbn [is_nil].
  assert (Hr : rev (a :: l1') <> []).
  { cbn [rev]. intros E. exact (app_cons_not_nil _ _ _ (eq_sym E)). }
  pose proof (trim_suffix_nonempty (List.length (a :: l1')) (rev (a :: l1')) Hr) as Hn.
  rewrite rev_involutive in Hn. specialize (Hn H1).
  destruct (trim_with space_suffix_len (List.length (a :: l1')) (rev (a :: l1'))); [contradiction|reflexivity].
Qed.

(* ---- lia-free versions of four GoLib lemmas ---- *)

Lemma of_nat_gt1 n : (Z.of_nat n >? 1)%Z = Nat.ltb 1 n.
Proof.
  destruct n as [|[|n]]; [reflexivity|reflexivity|].
  cbn [Z.of_nat Pos.of_succ_nat]. destruct (Pos.of_succ_nat n); reflexivity.
Qed.

Lemma str_len_gt1' s : (str_len s >? 1)%Z = Nat.ltb 1 (String.length s).
Proof. apply of_nat_gt1. Qed.

Lemma list_len_gt1' {A} (l : list A) : (list_len l >? 1)%Z = Nat.ltb 1 (List.length l).
Proof. apply of_nat_gt1. Qed.

Lemma list_len_zero' {A} (l : list A) : (list_len l =? 0)%Z = is_nil l.
Proof. destruct l; reflexivity. Qed.

Lemma index_from_byte c s : forall i, (0 <= i)%Z ->
  (0 <=? str_index_from (String c EmptyString) s i)%Z = contains_byte c s.
Proof.
  induction s as [|a s IH]; intros i Hi; [reflexivity|].
  cbn [str_index_from has_prefix contains_byte]. rewrite andb_true_r, (ascii_eqb_sym c a).
  destruct (Ascii.eqb a c); cbn [orb].
  - apply Z.leb_le. exact Hi.
  - apply IH. rewrite Z.add_1_r. apply Z.le_le_succ_r. exact Hi.
Qed.

Lemma str_contains_byte' c s : str_contains (String c EmptyString) s = contains_byte c s.
Proof. unfold str_contains, str_index. apply index_from_byte. apply Z.le_refl. Qed.

(* ================================================================== *)
(* Part B — abstraction: generated records / results / errors          *)

Definition sv_of (sv : trustpolicy_SignatureVerification) : sigver :=
  mk_sv (SignatureVerification_VerificationLevel sv) (SignatureVerification_Override sv)
        (SignatureVerification_VerifyTimestamp sv).

(* field by field; an OCI statement has no global flag, a blob statement no scopes *)
Definition stmt_of_oci (s : trustpolicy_OCITrustPolicy) : stmt :=
  mk_stmt (OCITrustPolicy_Name s) (OCITrustPolicy_RegistryScopes s)
          (sv_of (OCITrustPolicy_SignatureVerification s))
          (OCITrustPolicy_TrustStores s) (OCITrustPolicy_TrustedIdentities s) false.

Definition stmt_of_blob (s : trustpolicy_BlobTrustPolicy) : stmt :=
  mk_stmt (BlobTrustPolicy_Name s) []
          (sv_of (BlobTrustPolicy_SignatureVerification s))
          (BlobTrustPolicy_TrustStores s) (BlobTrustPolicy_TrustedIdentities s)
          (BlobTrustPolicy_GlobalPolicy s).

Definition oci_stmts (d : trustpolicy_OCIDocument) : list stmt :=
  map stmt_of_oci (OCIDocument_TrustPolicies d).

Definition blob_stmts (d : trustpolicy_BlobDocument) : list stmt :=
  map stmt_of_blob (BlobDocument_TrustPolicies d).

(* the same statement value; the override maps are compared as maps (by look-up): a Go map
   has no order, clone() re-inserts the entries into a new map *)
Definition sv_same (a b : sigver) : Prop :=
  sv_level a = sv_level b
  /\ (forall k, lookup k (sv_override a) = lookup k (sv_override b))
  /\ sv_vts a = sv_vts b.

Definition stmt_same (a b : stmt) : Prop :=
  s_name a = s_name b /\ s_scopes a = s_scopes b /\ sv_same (s_sv a) (s_sv b)
  /\ s_stores a = s_stores b /\ s_ids a = s_ids b /\ s_global a = s_global b.

Lemma stmt_same_refl a : stmt_same a a.
Proof. repeat split; reflexivity. Qed.

(* it is the comparison the correspondence harness applies to statements (C08_Model.stmt_eqb) *)
Lemma lookup_not_key k (m : amap) : ~ In k (map fst m) -> lookup k m = None.
Proof.
  induction m as [|[k' v] m IH]; cbn; intros H; [reflexivity|].
  destruct (String.eqb k k') eqn:E.
  - apply String.eqb_eq in E. subst. exfalso. apply H. left. reflexivity.
  - apply IH. intros Hin. apply H. right. exact Hin.
Qed.

Lemma opt_str_eqb_eq (a b : option string) : opt_eqb String.eqb a b = true <-> a = b.
Proof.
  destruct a as [x|], b as [y|]; cbn; split; intros H; try discriminate; try reflexivity.
  - apply String.eqb_eq in H. subst. reflexivity.
  - inversion H. apply String.eqb_refl.
Qed.

Lemma amap_eqb_same a b : amap_eqb a b = true <-> forall k, lookup k a = lookup k b.
Proof.
  unfold amap_eqb. rewrite forallb_forall. split.
  - intros H k. destruct (in_dec string_dec k (map fst a ++ map fst b)) as [Hin|Hn].
    + apply opt_str_eqb_eq. apply H. exact Hin.
    + rewrite !lookup_not_key; [reflexivity| |]; intros Hin; apply Hn; apply in_or_app; [right|left]; exact Hin.
  - intros H k _. apply opt_str_eqb_eq. apply H.
Qed.

Theorem stmt_same_eqb a b : stmt_same a b <-> stmt_eqb a b = true.
Proof.
  unfold stmt_same, sv_same, stmt_eqb, sigver_eqb. rewrite !andb_true_iff.
  rewrite !String.eqb_eq, !list_eqb_str, amap_eqb_same.
  destruct (s_global a), (s_global b); cbn [Bool.eqb]; intuition congruence.
Qed.

(* error classes: the table of the correspondence harness (harness/cmd/vh-c08 errCode: the
   first phrase that occurs in the message decides), applied to the format string *)
Definition code_table : list (string * N) :=
  [("could not be parsed", 1%N);
   ("is not valid, make sure it is a fully qualified repository", 2%N);
   ("has no applicable oci trust policy statement", 3%N);
   ("policy name cannot be empty", 4%N);
   ("no applicable blob trust policy with name", 5%N);
   ("no global blob trust policy", 6%N)].

Fixpoint classify (t : list (string * N)) (f : string) : N :=
  match t with
  | [] => 0%N
  | (p, c) :: t' => if str_contains p f then c else classify t' f
  end.

Definition ecode (e : err) : N := classify code_table (err_fmt e).

(* a (pointer, error) result against the model's result: a statement handed out is a NEW
   object (PNew: made by &T{..} in the function) holding the same value; an error comes with
   a nil pointer and has the model's class *)
Definition sel_rel {T} (abs : T -> stmt) (r : ptr T * option err) (m : res) : Prop :=
  match m with
  | RSel s => exists c, r = (PNew c, None) /\ stmt_same (abs c) s
  | RErr n => exists e, r = (PNil, Some e) /\ ecode e = n
  end.

(* ================================================================== *)
(* Part C — the generated functions                                    *)

(* ---- slices.Contains ---- *)
Theorem gen_Contains l v : gen_slices_Contains_string l v = mem_str v l.
Proof.
  unfold gen_slices_Contains_string, mem_str.
  induction l as [|x l IH]; [reflexivity|]. cbn. destruct (String.eqb v x); [reflexivity|exact IH].
Qed.

(* ---- validateRegistryScopeFormat ---- *)
Lemma longer_than_1_ltb s : longer_than_1 s = Nat.ltb 1 (String.length s).
Proof. destruct s as [|a [|b s]]; reflexivity. Qed.

Theorem gen_scope_format sc :
  match gen_trustpolicy_validateRegistryScopeFormat sc with
  | None => scope_ok sc = true
  | Some e => scope_ok sc = false /\ ecode e = 2%N
  end.
Proof.
  unfold gen_trustpolicy_validateRegistryScopeFormat, scope_ok. cbv zeta.
  rewrite str_len_gt1', longer_than_1_ltb, str_contains_byte'.
  destruct (Nat.ltb 1 (String.length sc) && contains_byte "*" sc); [split; [reflexivity|vm_compute; reflexivity]|].
  rewrite str_cut_byte.
  destruct (cut_byte "/" sc) as [[d r]|]; [|split; [reflexivity|vm_compute; reflexivity]].
  cbn [negb]. unfold re_match.
  change (matches _ d) with (matches gen_re_domain d).
  change (matches _ r) with (matches gen_re_repository r).
  destruct (String.eqb d ""), (String.eqb r ""), (matches gen_re_domain d), (matches gen_re_repository r);
    cbn [negb orb andb]; try reflexivity; (split; [reflexivity|vm_compute; reflexivity]).
Qed.

Corollary gen_scope_format_none sc : is_none (gen_trustpolicy_validateRegistryScopeFormat sc) = scope_ok sc.
Proof.
  pose proof (gen_scope_format sc) as H.
  destruct (gen_trustpolicy_validateRegistryScopeFormat sc); cbn [is_none]; [destruct H as [H _]|]; congruence.
Qed.

(* ---- getArtifactPathFromReference: never panics (the slice bound is the index LastIndex
   returned); the path is the text before the last '@', accepted iff it is a valid scope ---- *)
Theorem gen_artifact_path ref :
  exists r, gen_trustpolicy_getArtifactPathFromReference ref = Some r /\
    match last_at ref with
    | None => fst r = "" /\ exists e, snd r = Some e /\ ecode e = 1%N
    | Some p => if scope_ok p then r = (p, None)
                else fst r = "" /\ exists e, snd r = Some e /\ ecode e = 2%N
    end.
Proof.
  unfold gen_trustpolicy_getArtifactPathFromReference. cbv zeta. rewrite last_index_at.
  destruct (last_at ref) as [p|] eqn:L.
  - replace (Z.of_nat (String.length p) <? 0)%Z with false by (symmetry; apply Z.ltb_ge; apply Nat2Z.is_nonneg).
    rewrite (slice_last_at ref p L).
    pose proof (gen_scope_format p) as F.
    destruct (gen_trustpolicy_validateRegistryScopeFormat p) as [e|]; cbn [is_none negb].
    + destruct F as [F1 F2]. rewrite F1. eexists; split; [reflexivity|].
      split; [reflexivity|]. exists e. split; [reflexivity|exact F2].
    + rewrite F. eexists; split; reflexivity.
  - change (-1 <? 0)%Z with true. cbv iota. eexists; split; [reflexivity|].
    split; [reflexivity|]. eexists; split; [reflexivity|vm_compute; reflexivity].
Qed.

(* ---- the clone methods: the same value in a new object ---- *)
Definition put (m : list (string * string)) (kv : string * string) : list (string * string) :=
  map_set String.eqb (fst kv) (snd kv) m.

Lemma sv_clone_loop sv l : forall acc,
  gen_trustpolicy_SignatureVerification_clone_loop1 sv l acc
  = set_SignatureVerification_Override (fold_left put l acc) sv.
Proof. induction l as [|kv l IH]; intros acc; [reflexivity|]. cbn. apply IH. Qed.

(* inserting the entries of a list with unique keys gives the list's own bindings *)
Lemma fold_put_get k l : forall acc, map_unique String.eqb l = true ->
  map_get String.eqb k (fold_left put l acc)
  = match map_get String.eqb k l with Some v => Some v | None => map_get String.eqb k acc end.
Proof.
  induction l as [|[k' v'] l IH]; intros acc U; [reflexivity|].
  cbn [map_unique] in U. apply andb_true_iff in U. destruct U as [U1 U2].
  apply negb_true_iff in U1. rewrite (existsb_key_get String.eqb) in U1.
  cbn [fold_left map_get]. rewrite (IH _ U2). unfold put. cbn [fst snd].
  rewrite (map_get_set String.eqb string_eqb_spec').
  destruct (String.eqb k k') eqn:E.
  - apply String.eqb_eq in E. subst k'. destruct (map_get String.eqb k l); [discriminate|reflexivity].
  - reflexivity.
Qed.

Theorem gen_sv_clone sv : sv_same (sv_of (gen_trustpolicy_SignatureVerification_clone sv)) (sv_of sv).
Proof.
  unfold gen_trustpolicy_SignatureVerification_clone.
  destruct (negb (map_len String.eqb (SignatureVerification_Override sv) =? 0)%Z);
    [|repeat split; reflexivity].
  rewrite sv_clone_loop. repeat split. intros k. cbn [sv_of sv_override SignatureVerification_Override
    set_SignatureVerification_Override].
  rewrite <- (map_get_lookup k (SignatureVerification_Override sv)), <- map_get_lookup.
  rewrite (fold_put_get k _ [] (map_entries_unique_keys String.eqb string_eqb_spec' _)).
  rewrite (map_get_entries String.eqb string_eqb_spec').
  destruct (map_get String.eqb k (SignatureVerification_Override sv)); reflexivity.
Qed.

Theorem gen_oci_clone t :
  exists c, gen_trustpolicy_OCITrustPolicy_clone t = PNew c /\ stmt_same (stmt_of_oci c) (stmt_of_oci t).
Proof.
  unfold gen_trustpolicy_OCITrustPolicy_clone. eexists; split; [reflexivity|].
  repeat split; try reflexivity; apply (gen_sv_clone (OCITrustPolicy_SignatureVerification t)).
Qed.

Theorem gen_blob_clone t :
  exists c, gen_trustpolicy_BlobTrustPolicy_clone t = PNew c /\ stmt_same (stmt_of_blob c) (stmt_of_blob t).
Proof.
  unfold gen_trustpolicy_BlobTrustPolicy_clone. eexists; split; [reflexivity|].
  repeat split; try reflexivity; apply (gen_sv_clone (BlobTrustPolicy_SignatureVerification t)).
Qed.

(* ---- OCIDocument.GetApplicableTrustPolicy ---- *)

(* a pointer variable of the loop against the model's optional statement *)
Definition pst_rel (p : ptr trustpolicy_OCITrustPolicy) (o : option stmt) : Prop :=
  match o with
  | None => p = PNil
  | Some s => exists c, p = PNew c /\ stmt_same (stmt_of_oci c) s
  end.

Definition res_of_pick (o : option stmt) : res :=
  match o with Some s => RSel s | None => RErr 3 end.

Lemma oci_loop_spec path l : forall w a wm am,
  pst_rel w wm -> pst_rel a am ->
  exists r, gen_trustpolicy_OCIDocument_GetApplicableTrustPolicy_loop1 path l w a = Some r
            /\ sel_rel stmt_of_oci r
                 (res_of_pick (oci_pick (fold_left (oci_step path) (map stmt_of_oci l) (wm, am)))).
Proof.
  induction l as [|s l IH]; intros w a wm am Hw Ha.
  - cbn [gen_trustpolicy_OCIDocument_GetApplicableTrustPolicy_loop1 map fold_left].
    unfold oci_pick. cbn [fst snd].
    destruct am as [sa|].
    + destruct Ha as [c [-> Hc]]. cbn [ptr_val]. eexists; split; [reflexivity|].
      exists c. split; [reflexivity|exact Hc].
    + cbn in Ha. subst a. cbn [ptr_val]. destruct wm as [sw|].
      * destruct Hw as [c [-> Hc]]. cbn [ptr_val]. eexists; split; [reflexivity|].
        exists c. split; [reflexivity|exact Hc].
      * cbn in Hw. subst w. cbn [ptr_val]. eexists; split; [reflexivity|].
        eexists; split; [reflexivity|vm_compute; reflexivity].
  - cbn [gen_trustpolicy_OCIDocument_GetApplicableTrustPolicy_loop1 map fold_left].
    rewrite !gen_Contains. unfold oci_step at 2. unfold has_scope, wildcard.
    cbn [stmt_of_oci s_scopes fst snd].
    destruct (gen_oci_clone s) as [c [Ec Hc]].
    destruct (mem_str "*" (OCITrustPolicy_RegistryScopes s)).
    + rewrite Ec. apply IH; [exists c; split; [reflexivity|exact Hc]|exact Ha].
    + destruct (mem_str path (OCITrustPolicy_RegistryScopes s)).
      * rewrite Ec. apply IH; [exact Hw|exists c; split; [reflexivity|exact Hc]].
      * apply IH; assumption.
Qed.

Theorem gen_oci_select d ref :
  exists r, gen_trustpolicy_OCIDocument_GetApplicableTrustPolicy d ref = Some r
            /\ sel_rel stmt_of_oci r (v_select (oci_stmts d) (QOci ref)).
Proof.
  unfold gen_trustpolicy_OCIDocument_GetApplicableTrustPolicy. cbn [v_select]. unfold v_oci, oci_stmts.
  destruct (gen_artifact_path ref) as [[p e] [Hr Hs]]. rewrite Hr.
  destruct (last_at ref) as [path|].
  - destruct (scope_ok path); cbn [negb].
    + inversion Hs; subst p e. cbn [is_none negb].
      apply (oci_loop_spec path (OCIDocument_TrustPolicies d) PNil PNil None None); reflexivity.
    + destruct Hs as [_ [x [Hx Hc]]]. cbn [snd] in Hx. subst e. cbn [is_none negb].
      eexists; split; [reflexivity|]. exists x. split; [reflexivity|exact Hc].
  - destruct Hs as [_ [x [Hx Hc]]]. cbn [snd] in Hx. subst e. cbn [is_none negb].
    eexists; split; [reflexivity|]. exists x. split; [reflexivity|exact Hc].
Qed.

(* ---- BlobDocument.GetApplicableTrustPolicy / GetGlobalTrustPolicy ---- *)

Lemma blob_name_loop n l :
  sel_rel stmt_of_blob (gen_trustpolicy_BlobDocument_GetApplicableTrustPolicy_loop1 n l)
    (match find (name_is n) (map stmt_of_blob l) with Some s => RSel s | None => RErr 5 end).
Proof.
  induction l as [|s l IH].
  - cbn. eexists; split; [reflexivity|vm_compute; reflexivity].
  - cbn [gen_trustpolicy_BlobDocument_GetApplicableTrustPolicy_loop1 map find].
    unfold name_is at 1. cbn [stmt_of_blob s_name].
    destruct (String.eqb (BlobTrustPolicy_Name s) n); [|exact IH].
    destruct (gen_blob_clone s) as [c [Ec Hc]]. rewrite Ec. exists c. split; [reflexivity|exact Hc].
Qed.

Theorem gen_blob_select_name d n :
  sel_rel stmt_of_blob (gen_trustpolicy_BlobDocument_GetApplicableTrustPolicy d n)
          (v_select (blob_stmts d) (QName n)).
Proof.
  unfold gen_trustpolicy_BlobDocument_GetApplicableTrustPolicy. cbn [v_select]. unfold v_name, blob_stmts.
  rewrite trim_space_blank. destruct (blank n).
  - eexists; split; [reflexivity|vm_compute; reflexivity].
  - apply blob_name_loop.
Qed.

Lemma blob_global_loop l :
  sel_rel stmt_of_blob (gen_trustpolicy_BlobDocument_GetGlobalTrustPolicy_loop1 l)
    (match find s_global (map stmt_of_blob l) with Some s => RSel s | None => RErr 6 end).
Proof.
  induction l as [|s l IH].
  - cbn. eexists; split; [reflexivity|vm_compute; reflexivity].
  - cbn [gen_trustpolicy_BlobDocument_GetGlobalTrustPolicy_loop1 map find].
    cbn [stmt_of_blob s_global].
    destruct (BlobTrustPolicy_GlobalPolicy s); [|exact IH].
    destruct (gen_blob_clone s) as [c [Ec Hc]]. rewrite Ec. exists c. split; [reflexivity|exact Hc].
Qed.

Theorem gen_blob_select_global d :
  sel_rel stmt_of_blob (gen_trustpolicy_BlobDocument_GetGlobalTrustPolicy d)
          (v_select (blob_stmts d) QGlobal).
Proof. apply blob_global_loop. Qed.

(* ================================================================== *)
(* Part D — validation gives the validity facts the property relies on *)

(* ---- validateRegistryScopes ---- *)

Fixpoint has_dup (l : list string) : bool :=
  match l with
  | [] => false
  | x :: r => mem_str x r || has_dup r
  end.

Lemma nodupb_has_dup l : nodupb l = negb (has_dup l).
Proof. induction l as [|x l IH]; [reflexivity|]. cbn. rewrite IH, negb_orb. reflexivity. Qed.

Definition cnt (k : string) (l : list string) : nat := List.length (filter (String.eqb k) l).

(* the counting map of the Go code holds the number of occurrences seen so far *)
Definition counts (m : list (string * Z)) (seen : list string) : Prop :=
  forall k, map_get_or String.eqb 0%Z k m = Z.of_nat (cnt k seen).

Lemma cnt_app k a b : cnt k (a ++ b) = (cnt k a + cnt k b)%nat.
Proof. unfold cnt. rewrite filter_app, app_length. reflexivity. Qed.

Lemma cnt_mem k l : mem_str k l = Nat.ltb 0 (cnt k l).
Proof.
  unfold mem_str, cnt. induction l as [|x l IH]; [reflexivity|].
  cbn [existsb filter]. destruct (String.eqb k x); [reflexivity|exact IH].
Qed.

Lemma cnt_cons k x l : cnt k (x :: l) = if String.eqb k x then S (cnt k l) else cnt k l.
Proof. unfold cnt. cbn [filter]. destruct (String.eqb k x); reflexivity. Qed.

Lemma has_dup_cnt l : has_dup l = true <-> exists k, (2 <= cnt k l)%nat.
Proof.
  induction l as [|x r IH]; cbn [has_dup].
  - split; [discriminate|]. intros [k H]. inversion H.
  - rewrite orb_true_iff, IH. split.
    + intros [H|[k H]].
      * exists x. rewrite cnt_cons, String.eqb_refl. apply le_n_S.
        rewrite cnt_mem in H. apply Nat.ltb_lt in H. exact H.
      * exists k. rewrite cnt_cons. destruct (String.eqb k x); [apply le_S; exact H|exact H].
    + intros [k H]. rewrite cnt_cons in H. destruct (String.eqb k x) eqn:E.
      * apply String.eqb_eq in E. subst x. left. rewrite cnt_mem. apply Nat.ltb_lt.
        apply le_S_n. exact H.
      * right. exists k. exact H.
Qed.

Lemma counts_add m seen sc :
  counts m seen ->
  counts (map_set String.eqb sc (map_get_or String.eqb 0%Z sc m + 1)%Z m) (seen ++ [sc]).
Proof.
  intros H k. unfold map_get_or. rewrite (map_get_set String.eqb string_eqb_spec').
  rewrite cnt_app, Nat2Z.inj_add. unfold cnt at 2. cbn [filter].
  destruct (String.eqb k sc) eqn:E.
  - apply String.eqb_eq in E. subst k. pose proof (H sc) as Hs. unfold map_get_or in Hs. rewrite Hs.
    reflexivity.
  - pose proof (H k) as Hk. unfold map_get_or in Hk. rewrite Hk. cbn [List.length Z.of_nat].
    symmetry. apply Z.add_0_r.
Qed.

Lemma dup_loop m : forall l,
  is_none (gen_trustpolicy_validateRegistryScopes_loop2 (fun _ => None) m l)
  = negb (existsb (fun kv => (map_get_or String.eqb 0%Z (fst kv) m >? 1)%Z) l).
Proof.
  induction l as [|kv l IH]; [reflexivity|].
  cbn [gen_trustpolicy_validateRegistryScopes_loop2 existsb].
  destruct (map_get_or String.eqb 0%Z (fst kv) m >? 1)%Z; [reflexivity|exact IH].
Qed.

Lemma map_get_in {V} (m : list (string * V)) k v : map_get String.eqb k m = Some v -> In (k, v) m.
Proof.
  induction m as [|[k' v'] m IH]; cbn; [discriminate|].
  destruct (String.eqb k k') eqn:E.
  - intros H. inversion H; subst. apply String.eqb_eq in E. subst. left. reflexivity.
  - intros H. right. apply IH. exact H.
Qed.

Lemma of_nat_gt1_iff c : (Z.of_nat c >? 1)%Z = true <-> (2 <= c)%nat.
Proof. rewrite of_nat_gt1. apply Nat.ltb_lt. Qed.

Lemma dup_check m seen :
  counts m seen ->
  existsb (fun kv => (map_get_or String.eqb 0%Z (fst kv) m >? 1)%Z) (map_entries String.eqb m) = has_dup seen.
Proof.
  intros H. apply eq_true_iff_eq. rewrite existsb_exists, has_dup_cnt. split.
  - intros [[k v] [_ Hk]]. cbn [fst] in Hk. exists k. rewrite H in Hk. apply of_nat_gt1_iff. exact Hk.
  - intros [k Hk]. pose proof (H k) as Hm. apply of_nat_gt1_iff in Hk. rewrite <- Hm in Hk.
    unfold map_get_or in Hk.
    destruct (map_get String.eqb k m) as [v|] eqn:G; [|discriminate Hk].
    exists (k, v). split.
    + apply map_get_in. rewrite (map_get_entries String.eqb string_eqb_spec'). exact G.
    + cbn [fst]. unfold map_get_or. rewrite G. exact Hk.
Qed.

(* what validateRegistryScopes demands of one scope / of the scopes of one statement *)
Definition scope_fine (sc : string) : bool := String.eqb sc "*" || scope_ok sc.

Definition scopes_fine (s : trustpolicy_OCITrustPolicy) : bool :=
  negb (is_nil (OCITrustPolicy_RegistryScopes s))
  && negb (Nat.ltb 1 (List.length (OCITrustPolicy_RegistryScopes s)) && mem_str "*" (OCITrustPolicy_RegistryScopes s))
  && forallb scope_fine (OCITrustPolicy_RegistryScopes s).

Definition all_scopes (ps : list trustpolicy_OCITrustPolicy) : list string :=
  flat_map OCITrustPolicy_RegistryScopes ps.

Definition scopes_valid (ps : list trustpolicy_OCITrustPolicy) : bool :=
  forallb scopes_fine ps && nodupb (all_scopes ps).

Lemma scopes_inner_loop K scs : forall m seen,
  counts m seen ->
  if forallb scope_fine scs
  then exists m', gen_trustpolicy_validateRegistryScopes_loop3 K scs m = K m' /\ counts m' (seen ++ scs)
  else exists e, gen_trustpolicy_validateRegistryScopes_loop3 K scs m = Some e.
Proof.
  induction scs as [|sc rest IH]; intros m seen Hc.
  - cbn. exists m. split; [reflexivity|]. rewrite app_nil_r. exact Hc.
  - cbn [gen_trustpolicy_validateRegistryScopes_loop3 forallb]. unfold scope_fine at 1.
    pose proof (IH _ (seen ++ [sc]) (counts_add m seen sc Hc)) as Hnext.
    rewrite <- app_assoc in Hnext. cbn [app] in Hnext.
    destruct (String.eqb sc "*"); cbn [negb orb andb]; [exact Hnext|].
    rewrite <- gen_scope_format_none.
    destruct (gen_trustpolicy_validateRegistryScopeFormat sc) as [e|]; cbn [is_none negb andb].
    + exists e. reflexivity.
    + exact Hnext.
Qed.

Lemma scopes_outer_loop : forall ss m seen,
  counts m seen ->
  is_none (gen_trustpolicy_validateRegistryScopes_loop1 ss m)
  = forallb scopes_fine ss && negb (has_dup (seen ++ all_scopes ss)).
Proof.
  induction ss as [|s rest IH]; intros m seen Hc.
  - cbn [gen_trustpolicy_validateRegistryScopes_loop1 forallb all_scopes flat_map andb].
    rewrite dup_loop, (dup_check m seen Hc), app_nil_r. reflexivity.
  - cbn [gen_trustpolicy_validateRegistryScopes_loop1 forallb all_scopes flat_map].
    unfold scopes_fine at 1. rewrite list_len_zero', list_len_gt1', gen_Contains.
    destruct (OCITrustPolicy_RegistryScopes s) as [|sc0 scs0] eqn:Es; [reflexivity|].
    rewrite <- Es. cbn [is_nil negb andb].
    replace (is_nil (OCITrustPolicy_RegistryScopes s)) with false by (rewrite Es; reflexivity).
    cbn [negb andb].
    destruct (Nat.ltb 1 (List.length (OCITrustPolicy_RegistryScopes s)) && mem_str "*" (OCITrustPolicy_RegistryScopes s));
      [reflexivity|]. cbn [negb andb].
    pose proof (scopes_inner_loop (fun m0 => gen_trustpolicy_validateRegistryScopes_loop1 rest m0)
                  (OCITrustPolicy_RegistryScopes s) m seen Hc) as Hin.
    destruct (forallb scope_fine (OCITrustPolicy_RegistryScopes s)).
    + destruct Hin as [m' [H1 H2]]. rewrite H1, (IH m' _ H2), <- app_assoc. reflexivity.
    + destruct Hin as [e H1]. rewrite H1. reflexivity.
Qed.

(* validateRegistryScopes returns nil exactly when every statement lists at least one scope,
   a wildcard only alone, every other scope in the registry/repository format, and no scope
   occurs twice in the document *)
Theorem gen_validate_scopes d :
  is_none (gen_trustpolicy_validateRegistryScopes d) = scopes_valid (OCIDocument_TrustPolicies d).
Proof.
  unfold gen_trustpolicy_validateRegistryScopes, scopes_valid. cbv zeta.
  rewrite (scopes_outer_loop _ [] []); [|intros k; reflexivity].
  cbn [app]. rewrite nodupb_has_dup. reflexivity.
Qed.

Lemma concat_scopes ps : List.concat (map s_scopes (map stmt_of_oci ps)) = all_scopes ps.
Proof. induction ps as [|s ps IH]; [reflexivity|]. cbn. rewrite IH. reflexivity. Qed.

Lemma scopes_fine_alone s : scopes_fine s = true ->
  negb (mem_str wildcard (OCITrustPolicy_RegistryScopes s))
  || list_eqb String.eqb (OCITrustPolicy_RegistryScopes s) [wildcard] = true.
Proof.
  unfold scopes_fine, wildcard. rewrite !andb_true_iff, !negb_true_iff. intros [[H1 H2] _].
  destruct (OCITrustPolicy_RegistryScopes s) as [|a [|b l]]; [discriminate| |].
  - unfold mem_str. cbn [existsb list_eqb]. rewrite orb_false_r, andb_true_r, (String.eqb_sym a "*").
    destruct (String.eqb "*" a); reflexivity.
  - cbn [List.length Nat.ltb Nat.leb andb] in H2. rewrite H2. reflexivity.
Qed.

(* the facts about registry scopes that C08_Model.valid_doc asks for, plus: every listed
   scope other than the wildcard passes the very test applied to the reference *)
Theorem gen_validate_scopes_facts d :
  gen_trustpolicy_validateRegistryScopes d = None ->
  scopes_unique (oci_stmts d) = true
  /\ wildcard_alone (oci_stmts d) = true
  /\ forall s sc, In s (OCIDocument_TrustPolicies d) -> In sc (OCITrustPolicy_RegistryScopes s) ->
       sc <> wildcard -> scope_ok sc = true.
Proof.
  intros H. pose proof (gen_validate_scopes d) as V. rewrite H in V. cbn [is_none] in V.
  symmetry in V. unfold scopes_valid in V. apply andb_true_iff in V. destruct V as [V1 V2].
  rewrite forallb_forall in V1. split; [|split].
  - unfold scopes_unique, oci_stmts. rewrite concat_scopes. exact V2.
  - unfold wildcard_alone, oci_stmts. rewrite forallb_forall. intros s Hs.
    apply in_map_iff in Hs. destruct Hs as [s0 [<- Hs0]]. cbn [stmt_of_oci s_scopes].
    apply scopes_fine_alone. apply V1. exact Hs0.
  - intros s sc Hs Hsc Hne. specialize (V1 s Hs). unfold scopes_fine in V1.
    apply andb_true_iff in V1. destruct V1 as [_ V1]. rewrite forallb_forall in V1.
    specialize (V1 sc Hsc). unfold scope_fine in V1. apply orb_true_iff in V1.
    destruct V1 as [V1|V1]; [|exact V1]. apply String.eqb_eq in V1. contradiction.
Qed.

(* ---- the name sets of the two Validate methods ---- *)

Lemma set_contains_add (pset : list (string * unit)) s x :
  gen_container_Set_Contains_string (gen_container_Set_Add_string pset s) x
  = String.eqb x s || gen_container_Set_Contains_string pset x.
Proof.
  unfold gen_container_Set_Contains_string, gen_container_Set_Add_string, map_get_ok.
  rewrite (map_get_set String.eqb string_eqb_spec').
  destruct (String.eqb x s); reflexivity.
Qed.

(* names never seen before, one after the other: no name twice *)
Lemma fresh_names_nodup {T} (name : T -> string) s rest names :
  (forall s', In s' rest -> mem_str (name s') (name s :: names) = false) ->
  nodupb (map name rest) = true ->
  mem_str (name s) names = false ->
  (forall s', In s' (s :: rest) -> mem_str (name s') names = false)
  /\ nodupb (map name (s :: rest)) = true.
Proof.
  intros Hr Hn Hs. split.
  - intros s' [<-|Hin]; [exact Hs|]. specialize (Hr s' Hin). cbn [mem_str existsb] in Hr.
    apply orb_false_iff in Hr. unfold mem_str. tauto.
  - cbn [map nodupb]. rewrite Hn, andb_true_r. apply negb_true_iff.
    destruct (mem_str (name s) (map name rest)) eqn:E; [|reflexivity]. exfalso.
    apply mem_str_In in E. apply in_map_iff in E. destruct E as [s' [E Hin]].
    specialize (Hr s' Hin). cbn [mem_str existsb] in Hr. rewrite E, String.eqb_refl in Hr. discriminate.
Qed.

(* ---- OCIDocument.Validate, for EVERY validatePolicyCore ---- *)
Section OCIValidate.
  Variable vpc : string -> trustpolicy_SignatureVerification -> list string -> list string -> option err.

  Lemma oci_validate_loop dv : forall ss pset names,
    (forall x, gen_container_Set_Contains_string pset x = mem_str x names) ->
    gen_trustpolicy_OCIDocument_Validate_loop1 vpc dv ss pset = None ->
    (forall s, In s ss -> mem_str (OCITrustPolicy_Name s) names = false)
    /\ nodupb (map OCITrustPolicy_Name ss) = true
    /\ gen_trustpolicy_validateRegistryScopes dv = None.
  Proof.
    induction ss as [|s rest IH]; intros pset names Hn H.
    - cbn [gen_trustpolicy_OCIDocument_Validate_loop1] in H.
      destruct (gen_trustpolicy_validateRegistryScopes dv); cbn [is_none negb] in H; [discriminate|].
      split; [intros s []|split; reflexivity].
    - cbn [gen_trustpolicy_OCIDocument_Validate_loop1] in H. rewrite Hn in H.
      destruct (mem_str (OCITrustPolicy_Name s) names) eqn:Es; [discriminate|].
      destruct (vpc _ _ _ _); cbn [is_none negb] in H; [discriminate|].
      assert (Hn' : forall x, gen_container_Set_Contains_string
                                (gen_container_Set_Add_string pset (OCITrustPolicy_Name s)) x
                              = mem_str x (OCITrustPolicy_Name s :: names))
        by (intros x; rewrite set_contains_add, Hn; reflexivity).
      destruct (IH _ _ Hn' H) as [H1 [H2 H3]].
      destruct (fresh_names_nodup OCITrustPolicy_Name s rest names H1 H2 Es) as [G1 G2].
      split; [exact G1|split; [exact G2|exact H3]].
  Qed.

  Lemma global_oci ps : filter s_global (map stmt_of_oci ps) = [].
  Proof. induction ps as [|s ps IH]; [reflexivity|exact IH]. Qed.

  (* a document the code's Validate accepts is non-nil and has the validity facts of the
     model, whatever validatePolicyCore says about the individual statements *)
  Theorem gen_oci_validate_valid p :
    gen_trustpolicy_OCIDocument_Validate vpc p = None ->
    exists d, ptr_val p = Some d
      /\ valid_doc (oci_stmts d) = true
      /\ gen_trustpolicy_validateRegistryScopes d = None.
  Proof.
    unfold gen_trustpolicy_OCIDocument_Validate. destruct (ptr_val p) as [d|]; [|discriminate].
    destruct (String.eqb (OCIDocument_Version d) ""); [discriminate|].
    destruct (negb _); [discriminate|].
    destruct (list_len (OCIDocument_TrustPolicies d) =? 0)%Z; [discriminate|].
    intros H. apply (oci_validate_loop d _ _ []) in H; [|intros x; reflexivity].
    destruct H as [_ [H2 H3]]. exists d. split; [reflexivity|]. split; [|exact H3].
    destruct (gen_validate_scopes_facts d H3) as [F1 [F2 _]].
    unfold valid_doc. rewrite F1, F2. unfold names_unique, global_unique, oci_stmts.
    rewrite global_oci.
    replace (map s_name (map stmt_of_oci (OCIDocument_TrustPolicies d)))
      with (map OCITrustPolicy_Name (OCIDocument_TrustPolicies d)) by (rewrite map_map; reflexivity).
    rewrite H2. reflexivity.
  Qed.
End OCIValidate.

(* ---- BlobDocument.Validate, for EVERY validatePolicyCore ---- *)
Section BlobValidate.
  Variable vpc : string -> trustpolicy_SignatureVerification -> list string -> list string -> option err.

  (* at most one global statement, none when one was found before *)
  Definition one_global {T} (fg : bool) (l : list T) : bool :=
    match l with [] => true | [_] => negb fg | _ => false end.

  Lemma blob_validate_loop : forall ss pset names fg,
    (forall x, gen_container_Set_Contains_string pset x = mem_str x names) ->
    gen_trustpolicy_BlobDocument_Validate_loop1 vpc ss pset fg = None ->
    (forall s, In s ss -> mem_str (BlobTrustPolicy_Name s) names = false)
    /\ nodupb (map BlobTrustPolicy_Name ss) = true
    /\ one_global fg (filter BlobTrustPolicy_GlobalPolicy ss) = true.
  Proof.
    induction ss as [|s rest IH]; intros pset names fg Hn H.
    - split; [intros s []|split; reflexivity].
    - cbn [gen_trustpolicy_BlobDocument_Validate_loop1] in H. rewrite Hn in H.
      destruct (mem_str (BlobTrustPolicy_Name s) names) eqn:Es; [discriminate|].
      destruct (vpc _ _ _ _); cbn [is_none negb] in H; [discriminate|].
      assert (Hn' : forall x, gen_container_Set_Contains_string
                                (gen_container_Set_Add_string pset (BlobTrustPolicy_Name s)) x
                              = mem_str x (BlobTrustPolicy_Name s :: names))
        by (intros x; rewrite set_contains_add, Hn; reflexivity).
      cbn [filter].
      destruct (BlobTrustPolicy_GlobalPolicy s).
      + destruct fg; [discriminate|].
        destruct (String.eqb _ _) in H; [discriminate|].
        destruct (IH _ _ _ Hn' H) as [H1 [H2 H3]].
        destruct (fresh_names_nodup BlobTrustPolicy_Name s rest names H1 H2 Es) as [G1 G2].
        split; [exact G1|split; [exact G2|]].
        destruct (filter BlobTrustPolicy_GlobalPolicy rest) as [|a [|b l]]; [reflexivity|discriminate H3|discriminate H3].
      + destruct (IH _ _ _ Hn' H) as [H1 [H2 H3]].
        destruct (fresh_names_nodup BlobTrustPolicy_Name s rest names H1 H2 Es) as [G1 G2].
        split; [exact G1|split; [exact G2|exact H3]].
  Qed.

  Lemma global_blob ps :
    filter s_global (map stmt_of_blob ps) = map stmt_of_blob (filter BlobTrustPolicy_GlobalPolicy ps).
  Proof.
    induction ps as [|s ps IH]; [reflexivity|]. cbn [map filter stmt_of_blob s_global].
    destruct (BlobTrustPolicy_GlobalPolicy s); cbn [map]; rewrite IH; reflexivity.
  Qed.

  Lemma concat_blob ps : List.concat (map s_scopes (map stmt_of_blob ps)) = [].
  Proof. induction ps as [|s ps IH]; [reflexivity|exact IH]. Qed.

  Lemma wildcard_alone_blob ps : wildcard_alone (map stmt_of_blob ps) = true.
  Proof. unfold wildcard_alone. induction ps as [|s ps IH]; [reflexivity|exact IH]. Qed.

  Theorem gen_blob_validate_valid p :
    gen_trustpolicy_BlobDocument_Validate vpc p = None ->
    exists d, ptr_val p = Some d /\ valid_doc (blob_stmts d) = true.
  Proof.
    unfold gen_trustpolicy_BlobDocument_Validate. destruct (ptr_val p) as [d|]; [|discriminate].
    destruct (String.eqb (BlobDocument_Version d) ""); [discriminate|].
    destruct (negb _); [discriminate|].
    destruct (list_len (BlobDocument_TrustPolicies d) =? 0)%Z; [discriminate|].
    intros H. apply (blob_validate_loop _ _ [] false) in H; [|intros x; reflexivity].
    destruct H as [_ [H2 H3]]. exists d. split; [reflexivity|].
    unfold valid_doc, scopes_unique, names_unique, global_unique, blob_stmts.
    rewrite concat_blob, wildcard_alone_blob, global_blob.
    replace (map s_name (map stmt_of_blob (BlobDocument_TrustPolicies d)))
      with (map BlobTrustPolicy_Name (BlobDocument_TrustPolicies d)) by (rewrite map_map; reflexivity).
    rewrite H2. cbn [nodupb andb].
    destruct (filter BlobTrustPolicy_GlobalPolicy (BlobDocument_TrustPolicies d)) as [|a [|b l]];
      [reflexivity|reflexivity|discriminate H3].
  Qed.
End BlobValidate.

(* ================================================================== *)
(* Part E — the property, on the functions as translated               *)

Lemma stmt_of_oci_inj a b : stmt_of_oci a = stmt_of_oci b -> a = b.
Proof.
  destruct a as [n1 [l1 o1 t1] st1 id1 sc1], b as [n2 [l2 o2 t2] st2 id2 sc2].
  unfold stmt_of_oci, sv_of. cbn. intros H. inversion H. reflexivity.
Qed.

Lemma stmt_of_blob_inj a b : stmt_of_blob a = stmt_of_blob b -> a = b.
Proof.
  destruct a as [n1 [l1 o1 t1] st1 id1 g1], b as [n2 [l2 o2 t2] st2 id2 g2].
  unfold stmt_of_blob, sv_of. cbn. intros H. inversion H. reflexivity.
Qed.

(* what "the generated selection hands out statement s of the document" means: a new object
   whose value is that of s *)
Definition hands_out_oci (r : ptr trustpolicy_OCITrustPolicy * option err) (s : trustpolicy_OCITrustPolicy) : Prop :=
  exists c, r = (PNew c, None) /\ stmt_same (stmt_of_oci c) (stmt_of_oci s).

Definition hands_out_blob (r : ptr trustpolicy_BlobTrustPolicy * option err) (s : trustpolicy_BlobTrustPolicy) : Prop :=
  exists c, r = (PNew c, None) /\ stmt_same (stmt_of_blob c) (stmt_of_blob s).

Definition refuses {T} (r : ptr T * option err) (n : N) : Prop :=
  exists e, r = (PNil, Some e) /\ ecode e = n.

Lemma in_oci_stmts d s : In s (OCIDocument_TrustPolicies d) -> In (stmt_of_oci s) (oci_stmts d).
Proof. apply in_map. Qed.

Lemma in_blob_stmts d s : In s (BlobDocument_TrustPolicies d) -> In (stmt_of_blob s) (blob_stmts d).
Proof. apply in_map. Qed.

(* ---- C08_selects on gen_..._OCIDocument_GetApplicableTrustPolicy ---- *)
Theorem gen_selects d p dg :
  valid_doc (oci_stmts d) = true -> contains_byte "@" dg = false -> scope_ok p = true ->
  exists r, gen_trustpolicy_OCIDocument_GetApplicableTrustPolicy d (p ++ "@" ++ dg) = Some r /\
    let ps := OCIDocument_TrustPolicies d in
    (forall s, In s ps -> In p (OCITrustPolicy_RegistryScopes s) ->
       hands_out_oci r s /\ forall s', In s' ps -> In p (OCITrustPolicy_RegistryScopes s') -> s' = s)
    /\ ((forall s, In s ps -> ~ In p (OCITrustPolicy_RegistryScopes s)) ->
        (forall w, In w ps -> In wildcard (OCITrustPolicy_RegistryScopes w) ->
           hands_out_oci r w /\ OCITrustPolicy_RegistryScopes w = [wildcard]
           /\ forall w', In w' ps -> In wildcard (OCITrustPolicy_RegistryScopes w') -> w' = w)
        /\ ((forall s, In s ps -> ~ In wildcard (OCITrustPolicy_RegistryScopes s)) -> refuses r 3%N)).
Proof.
  intros V Hd S. destruct (gen_oci_select d (p ++ "@" ++ dg)) as [r [Hr Hrel]].
  exists r. split; [exact Hr|]. cbv zeta.
  pose proof (selects (oci_stmts d) p dg V Hd S) as M. cbv zeta in M. destruct M as [M1 M2].
  split.
  - intros s Hs Ps. destruct (M1 (stmt_of_oci s) (in_oci_stmts d s Hs) Ps) as [E U].
    rewrite E in Hrel. split; [exact Hrel|].
    intros s' Hs' Ps'. apply stmt_of_oci_inj. apply U; [apply in_oci_stmts; exact Hs'|exact Ps'].
  - intros Hn.
    assert (Hn' : forall s, In s (oci_stmts d) -> ~ In p (s_scopes s)).
    { intros s Hs. apply in_map_iff in Hs. destruct Hs as [s0 [<- Hs0]]. apply Hn. exact Hs0. }
    destruct (M2 Hn') as [M3 M4]. split.
    + intros w Hw Pw. destruct (M3 (stmt_of_oci w) (in_oci_stmts d w Hw) Pw) as [E [A U]].
      rewrite E in Hrel. split; [exact Hrel|]. split; [exact A|].
      intros w' Hw' Pw'. apply stmt_of_oci_inj. apply U; [apply in_oci_stmts; exact Hw'|exact Pw'].
    + intros Hnw.
      assert (Hnw' : forall s, In s (oci_stmts d) -> ~ In wildcard (s_scopes s)).
      { intros s Hs. apply in_map_iff in Hs. destruct Hs as [s0 [<- Hs0]]. apply Hnw. exact Hs0. }
      rewrite (M4 Hnw') in Hrel. exact Hrel.
Qed.

(* ---- the same for a document the code's own Validate accepted (any validatePolicyCore):
   no hypothesis about the document is left; every listed scope other than the wildcard
   selects its own statement, nothing else does ---- *)
Theorem gen_selects_validated vpc q d p dg :
  gen_trustpolicy_OCIDocument_Validate vpc q = None -> ptr_val q = Some d ->
  contains_byte "@" dg = false ->
  exists r, gen_trustpolicy_OCIDocument_GetApplicableTrustPolicy d (p ++ "@" ++ dg) = Some r /\
    let ps := OCIDocument_TrustPolicies d in
    (forall s, In s ps -> In p (OCITrustPolicy_RegistryScopes s) -> p <> wildcard ->
       hands_out_oci r s /\ forall s', In s' ps -> In p (OCITrustPolicy_RegistryScopes s') -> s' = s)
    /\ (scope_ok p = true -> (forall s, In s ps -> ~ In p (OCITrustPolicy_RegistryScopes s)) ->
        (forall w, In w ps -> In wildcard (OCITrustPolicy_RegistryScopes w) -> hands_out_oci r w)
        /\ ((forall s, In s ps -> ~ In wildcard (OCITrustPolicy_RegistryScopes s)) -> refuses r 3%N))
    /\ (scope_ok p = false -> refuses r 2%N).
Proof.
  intros Hv Hq Hd. destruct (gen_oci_validate_valid vpc q Hv) as [d' [Hq' [V Hs]]].
  rewrite Hq in Hq'. inversion Hq'; subst d'. clear Hq'.
  destruct (gen_validate_scopes_facts d Hs) as [_ [_ Hok]].
  destruct (scope_ok p) eqn:S.
  - destruct (gen_selects d p dg V Hd S) as [r [Hr [G1 G2]]]. exists r. split; [exact Hr|]. cbv zeta.
    split; [intros s Hin Hp _; exact (G1 s Hin Hp)|]. split; [|discriminate].
    intros _ Hn. destruct (G2 Hn) as [G3 G4]. split; [|exact G4].
    intros w Hw Pw. exact (proj1 (G3 w Hw Pw)).
  - destruct (gen_oci_select d (p ++ "@" ++ dg)) as [r [Hr Hrel]]. exists r. split; [exact Hr|]. cbv zeta.
    rewrite (bad_path_refused (oci_stmts d) p dg Hd S) in Hrel.
    split; [|split; [discriminate|intros _; exact Hrel]].
    intros s Hin Hp Hne. rewrite (Hok s p Hin Hp Hne) in S. discriminate.
Qed.

(* ---- C08_exact: for EVERY document, a statement is handed out only because it lists the
   path itself, or the wildcard while every statement listing the path is a wildcard one ---- *)
Theorem gen_exact d ref q :
  gen_trustpolicy_OCIDocument_GetApplicableTrustPolicy d ref = Some (q, None) ->
  exists c s path, q = PNew c /\ In s (OCIDocument_TrustPolicies d)
    /\ stmt_same (stmt_of_oci c) (stmt_of_oci s)
    /\ last_at ref = Some path /\ scope_ok path = true
    /\ (In path (OCITrustPolicy_RegistryScopes s)
        \/ (In wildcard (OCITrustPolicy_RegistryScopes s)
            /\ forall s', In s' (OCIDocument_TrustPolicies d) ->
                 In wildcard (OCITrustPolicy_RegistryScopes s') \/ ~ In path (OCITrustPolicy_RegistryScopes s'))).
Proof.
  intros H. destruct (gen_oci_select d ref) as [r [Hr Hrel]]. rewrite H in Hr. inversion Hr; subst r. clear Hr.
  destruct (v_select (oci_stmts d) (QOci ref)) as [ms|n] eqn:E.
  - destruct Hrel as [c [Hc Hsame]]. inversion Hc; subst q.
    destruct (exact (oci_stmts d) ref ms E) as [path [L [S [Hin Hor]]]].
    apply in_map_iff in Hin. destruct Hin as [s [<- Hs]].
    exists c, s, path. split; [reflexivity|]. split; [exact Hs|]. split; [exact Hsame|].
    split; [exact L|]. split; [exact S|].
    destruct Hor as [Hp|[Hw Hall]]; [left; exact Hp|right]. split; [exact Hw|].
    intros s' Hs'. exact (Hall (stmt_of_oci s') (in_oci_stmts d s' Hs')).
  - destruct Hrel as [e [He _]]. discriminate He.
Qed.

(* ---- malformed references are refused whatever the document lists ---- *)
Theorem gen_malformed_refused d ref :
  exists r, gen_trustpolicy_OCIDocument_GetApplicableTrustPolicy d ref = Some r /\
    (contains_byte "@" ref = false -> refuses r 1%N)
    /\ (forall p dg : string, ref = (p ++ "@" ++ dg)%string -> contains_byte "@" dg = false ->
          scope_ok p = false -> refuses r 2%N).
Proof.
  destruct (gen_oci_select d ref) as [r [Hr Hrel]]. exists r. split; [exact Hr|]. split.
  - intros H. rewrite (no_at_refused (oci_stmts d) ref H) in Hrel. exact Hrel.
  - intros p dg -> Hd S. rewrite (bad_path_refused (oci_stmts d) p dg Hd S) in Hrel. exact Hrel.
Qed.

(* ---- C08_order: both orders of the statements are answered by the same model result ---- *)
Theorem gen_order d d' ref :
  valid_doc (oci_stmts d) = true ->
  Permutation (OCIDocument_TrustPolicies d) (OCIDocument_TrustPolicies d') ->
  exists m r r',
    gen_trustpolicy_OCIDocument_GetApplicableTrustPolicy d ref = Some r
    /\ gen_trustpolicy_OCIDocument_GetApplicableTrustPolicy d' ref = Some r'
    /\ sel_rel stmt_of_oci r m /\ sel_rel stmt_of_oci r' m.
Proof.
  intros V P. destruct (gen_oci_select d ref) as [r [Hr Hrel]].
  destruct (gen_oci_select d' ref) as [r' [Hr' Hrel']].
  exists (v_select (oci_stmts d) (QOci ref)), r, r'. repeat split; try assumption.
  rewrite <- (order (oci_stmts d) (oci_stmts d') (QOci ref) V (Permutation_map stmt_of_oci P)). exact Hrel'.
Qed.

Theorem gen_order_blob d d' :
  valid_doc (blob_stmts d) = true ->
  Permutation (BlobDocument_TrustPolicies d) (BlobDocument_TrustPolicies d') ->
  (forall n, exists m,
     sel_rel stmt_of_blob (gen_trustpolicy_BlobDocument_GetApplicableTrustPolicy d n) m
     /\ sel_rel stmt_of_blob (gen_trustpolicy_BlobDocument_GetApplicableTrustPolicy d' n) m)
  /\ exists m,
     sel_rel stmt_of_blob (gen_trustpolicy_BlobDocument_GetGlobalTrustPolicy d) m
     /\ sel_rel stmt_of_blob (gen_trustpolicy_BlobDocument_GetGlobalTrustPolicy d') m.
Proof.
  intros V P. pose proof (Permutation_map stmt_of_blob P) as P'. split.
  - intros n. exists (v_select (blob_stmts d) (QName n)). split; [apply gen_blob_select_name|].
    rewrite <- (order (blob_stmts d) (blob_stmts d') (QName n) V P'). apply gen_blob_select_name.
  - exists (v_select (blob_stmts d) QGlobal). split; [apply gen_blob_select_global|].
    rewrite <- (order (blob_stmts d) (blob_stmts d') QGlobal V P'). apply gen_blob_select_global.
Qed.

(* ---- blobs: exactly the requested name; blank names are refused; the global statement ---- *)
Theorem gen_blob_name d n :
  valid_doc (blob_stmts d) = true -> blank n = false ->
  let r := gen_trustpolicy_BlobDocument_GetApplicableTrustPolicy d n in
  let ps := BlobDocument_TrustPolicies d in
  (forall s, In s ps -> BlobTrustPolicy_Name s = n ->
     hands_out_blob r s /\ forall s', In s' ps -> BlobTrustPolicy_Name s' = n -> s' = s)
  /\ ((forall s, In s ps -> BlobTrustPolicy_Name s <> n) -> refuses r 5%N).
Proof.
  intros V Hb r ps. pose proof (gen_blob_select_name d n) as Hrel. fold r in Hrel.
  pose proof (blob_name (blob_stmts d) n V Hb) as M. cbv zeta in M. destruct M as [M1 M2]. split.
  - intros s Hs Ns. destruct (M1 (stmt_of_blob s) (in_blob_stmts d s Hs) Ns) as [E U].
    rewrite E in Hrel. split; [exact Hrel|].
    intros s' Hs' Ns'. apply stmt_of_blob_inj. apply U; [apply in_blob_stmts; exact Hs'|exact Ns'].
  - intros Hn. rewrite M2 in Hrel; [exact Hrel|].
    intros s Hs. apply in_map_iff in Hs. destruct Hs as [s0 [<- Hs0]]. apply Hn. exact Hs0.
Qed.

Theorem gen_blob_blank_or_exact d n :
  let r := gen_trustpolicy_BlobDocument_GetApplicableTrustPolicy d n in
  (blank n = true -> refuses r 4%N)
  /\ (forall q, r = (q, None) ->
        exists c s, q = PNew c /\ In s (BlobDocument_TrustPolicies d)
          /\ stmt_same (stmt_of_blob c) (stmt_of_blob s)
          /\ BlobTrustPolicy_Name s = n /\ blank n = false).
Proof.
  intros r. pose proof (gen_blob_select_name d n) as Hrel. fold r in Hrel. split.
  - intros Hb. rewrite (blob_blank (blob_stmts d) n Hb) in Hrel. exact Hrel.
  - intros q Hq. destruct (v_select (blob_stmts d) (QName n)) as [ms|k] eqn:E.
    + destruct Hrel as [c [Hc Hsame]]. rewrite Hq in Hc. inversion Hc; subst q.
      destruct (blob_name_exact (blob_stmts d) n ms E) as [Hin [Hn Hb]].
      apply in_map_iff in Hin. destruct Hin as [s [<- Hs]].
      exists c, s. split; [reflexivity|]. split; [exact Hs|]. split; [exact Hsame|]. split; [exact Hn|exact Hb].
    + destruct Hrel as [e [He _]]. rewrite Hq in He. discriminate He.
Qed.

Theorem gen_blob_global d :
  valid_doc (blob_stmts d) = true ->
  let r := gen_trustpolicy_BlobDocument_GetGlobalTrustPolicy d in
  let ps := BlobDocument_TrustPolicies d in
  (forall s, In s ps -> BlobTrustPolicy_GlobalPolicy s = true ->
     hands_out_blob r s /\ forall s', In s' ps -> BlobTrustPolicy_GlobalPolicy s' = true -> s' = s)
  /\ ((forall s, In s ps -> BlobTrustPolicy_GlobalPolicy s = false) -> refuses r 6%N).
Proof.
  intros V r ps. pose proof (gen_blob_select_global d) as Hrel. fold r in Hrel.
  pose proof (blob_global (blob_stmts d) V) as M. cbv zeta in M. destruct M as [M1 M2]. split.
  - intros s Hs Gs. destruct (M1 (stmt_of_blob s) (in_blob_stmts d s Hs) Gs) as [E U].
    rewrite E in Hrel. split; [exact Hrel|].
    intros s' Hs' Gs'. apply stmt_of_blob_inj. apply U; [apply in_blob_stmts; exact Hs'|exact Gs'].
  - intros Hn. rewrite M2 in Hrel; [exact Hrel|].
    intros s Hs. apply in_map_iff in Hs. destruct Hs as [s0 [<- Hs0]]. apply Hn. exact Hs0.
Qed.

(* ---- the blob clauses for a document the code's own Validate accepted ---- *)
Theorem gen_blob_validated vpc q d :
  gen_trustpolicy_BlobDocument_Validate vpc q = None -> ptr_val q = Some d ->
  let ps := BlobDocument_TrustPolicies d in
  (forall s, In s ps -> blank (BlobTrustPolicy_Name s) = false ->
     hands_out_blob (gen_trustpolicy_BlobDocument_GetApplicableTrustPolicy d (BlobTrustPolicy_Name s)) s)
  /\ (forall s, In s ps -> blank (BlobTrustPolicy_Name s) = true ->
     refuses (gen_trustpolicy_BlobDocument_GetApplicableTrustPolicy d (BlobTrustPolicy_Name s)) 4%N)
  /\ (forall s, In s ps -> BlobTrustPolicy_GlobalPolicy s = true ->
     hands_out_blob (gen_trustpolicy_BlobDocument_GetGlobalTrustPolicy d) s).
Proof.
  intros Hv Hq ps. destruct (gen_blob_validate_valid vpc q Hv) as [d' [Hq' V]].
  rewrite Hq in Hq'. inversion Hq'; subst d'. clear Hq'. split; [|split].
  - intros s Hs Hb. exact (proj1 (proj1 (gen_blob_name d _ V Hb) s Hs eq_refl)).
  - intros s Hs Hb. exact (proj1 (gen_blob_blank_or_exact d _) Hb).
  - intros s Hs Hg. exact (proj1 (proj1 (gen_blob_global d V) s Hs Hg)).
Qed.

(* ---- what is handed out, value level: never a pointer to (part of) the document, always
   an object made by the call (PNew) whose value is that of a statement of the document.
   (That the copy shares no slice / map with the document is a statement about aliasing:
   outside GoLite, proved on the heap model by C08_private_copy_frame.) ---- *)
Theorem gen_handed_out_is_new_copy :
  (forall d ref q, gen_trustpolicy_OCIDocument_GetApplicableTrustPolicy d ref = Some (q, None) ->
     exists c s, q = PNew c /\ In s (OCIDocument_TrustPolicies d) /\ stmt_same (stmt_of_oci c) (stmt_of_oci s))
  /\ (forall d n q, gen_trustpolicy_BlobDocument_GetApplicableTrustPolicy d n = (q, None) ->
     exists c s, q = PNew c /\ In s (BlobDocument_TrustPolicies d) /\ stmt_same (stmt_of_blob c) (stmt_of_blob s))
  /\ (forall d q, gen_trustpolicy_BlobDocument_GetGlobalTrustPolicy d = (q, None) ->
     exists c s, q = PNew c /\ In s (BlobDocument_TrustPolicies d) /\ stmt_same (stmt_of_blob c) (stmt_of_blob s)).
Proof.
  split; [|split].
  - intros d ref q H. destruct (gen_exact d ref q H) as [c [s [_ [E [Hs [Hsame _]]]]]].
    exists c, s. split; [exact E|]. split; [exact Hs|exact Hsame].
  - intros d n q H. destruct (proj2 (gen_blob_blank_or_exact d n) q H) as [c [s [E [Hs [Hsame _]]]]].
    exists c, s. split; [exact E|]. split; [exact Hs|exact Hsame].
  - intros d q H. pose proof (gen_blob_select_global d) as Hrel. rewrite H in Hrel.
    destruct (v_select (blob_stmts d) QGlobal) as [ms|k] eqn:E.
    + destruct Hrel as [c [Hc Hsame]]. inversion Hc; subst q.
      destruct (blob_global_exact (blob_stmts d) ms E) as [Hin _].
      apply in_map_iff in Hin. destruct Hin as [s [<- Hs]]. exists c, s. split; [reflexivity|]. split; [exact Hs|exact Hsame].
    + destruct Hrel as [e [He _]]. discriminate He.
Qed.
