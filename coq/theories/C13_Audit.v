(* C13_Audit.v — additions of the theorem audit (docs/audit/C13.md) over the base
   model C13_Model: definitions and proofs.
     1. the shallow view of the named store: GetCertificates depends on nothing
        but the kind of the store path and, per entry, its name, its kind and
        (regular files only) its content — never on what a sub-directory holds
        or on what a symbolic link points to;
     2. exact membership and size of the returned list;
     3. GetCertificates with BOTH Go return values ([]*x509.Certificate, error):
        every error site returns the literal nil, the accumulated slice
        [certificates] is never handed out together with an error;
     4. concrete trees for the non-vacuity examples of the property file.     *)
From NV Require Import Base Regex Generated C13_Model C13_Proofs.
Open Scope string_scope.
Open Scope list_scope.

(* ---------- 1. the shallow view ---------- *)

(* what ReadDir's entry and the read of a regular file show of an entry:
   sub-directories lose their content, links their target *)
Definition shallow_node (n : node) : node :=
  match n with
  | NFile c => NFile c
  | NDir _ => NDir []
  | NLink _ => NLink None
  end.

Definition shallow (es : list (string * node)) : list (string * node) :=
  map (fun e => (fst e, shallow_node (snd e))) es.

Inductive view :=
| VAbsent                               (* Lstat: ENOENT *)
| VInaccessible                         (* Lstat: another error *)
| VNotDir                               (* a file or a symbolic link *)
| VDir (es : list (string * node)).     (* a real directory: its entries, shallow *)

Definition store_view (root : node) (ty name : string) : view :=
  match lstat root (store_path ty name) with
  | LNotExist => VAbsent
  | LOther => VInaccessible
  | LNode (NDir es) => VDir (shallow es)
  | LNode _ => VNotDir
  end.

Definition of_view (tsa : bool) (v : view) : res :=
  match v with
  | VAbsent => Failed ETrustStore KNotExist ""
  | VInaccessible => Failed ETrustStore KAccess ""
  | VNotDir => Failed ETrustStore KNotDir ""
  | VDir es => load_entries tsa es []
  end.

Lemma load_entries_shallow tsa es : forall acc,
  load_entries tsa (shallow es) acc = load_entries tsa es acc.
Proof.
  induction es as [|[nm n] es IH]; intros acc; [reflexivity|].
  unfold shallow. cbn [map fst snd]. fold (shallow es).
  destruct n as [[|cs]|es0|t]; cbn [shallow_node load_entries]; try reflexivity.
  destruct (negb (validate_certificates cs)); [reflexivity|].
  destruct (tsa && negb (forallb is_root_ca cs)); [reflexivity|]. apply IH.
Qed.

Lemma get_certificates_by_view root ty name :
  known_type ty -> plain_name name ->
  get_certificates is_valid_file_name root ty name = of_view (is_tsa ty) (store_view root ty name).
Proof.
  intros Ht Hn. rewrite get_certificates_valid by assumption. unfold store_view.
  destruct (lstat root (store_path ty name)) as [| |[c|es|t]]; cbn [of_view]; try reflexivity.
  symmetry. apply load_entries_shallow.
Qed.

Theorem frame_view r1 r2 ty name :
  store_view r1 ty name = store_view r2 ty name ->
  get_certificates is_valid_file_name r1 ty name = get_certificates is_valid_file_name r2 ty name.
Proof.
  intros E.
  destruct (is_valid_store_type ty) eqn:Ht.
  2:{ unfold get_certificates. now rewrite Ht. }
  destruct (is_valid_file_name name) eqn:Hn.
  2:{ unfold get_certificates. now rewrite Ht, Hn. }
  apply is_valid_store_type_spec in Ht. apply is_valid_file_name_spec in Hn.
  rewrite !get_certificates_by_view by assumption. now rewrite E.
Qed.

(* the view is coarser than lstat: C13_frame is the special case *)
Lemma lstat_eq_view_eq r1 r2 ty name :
  lstat r1 (store_path ty name) = lstat r2 (store_path ty name) ->
  store_view r1 ty name = store_view r2 ty name.
Proof. unfold store_view. now intros ->. Qed.

(* ---------- 2. exactly the certificates of the files of the store ---------- *)

Fixpoint sum_nat (l : list nat) : nat :=
  match l with [] => 0 | x :: l' => x + sum_nat l' end.

Lemma flat_map_len {A B} (f : A -> list B) l :
  List.length (flat_map f l) = sum_nat (map (fun x => List.length (f x)) l).
Proof. induction l as [|x l IH]; [reflexivity|]. cbn [flat_map map sum_nat]. now rewrite app_length, IH. Qed.

Theorem exact_members root ty name l :
  get_certificates is_valid_file_name root ty name = Loaded l ->
  exists es, lstat root (store_path ty name) = LNode (NDir es) /\
    (forall nm n, In (nm, n) es -> exists cs, n = NFile (CCerts cs)) /\
    (forall c, In c l <-> exists nm cs, In (nm, NFile (CCerts cs)) es /\ In c cs) /\
    List.length l = sum_nat (map (fun e => List.length (certs_of_entry e)) es).
Proof.
  intros H. apply get_certificates_iff in H. destruct H as (_ & _ & es & E & F & -> & _).
  exists es. split; [exact E|]. split; [|split].
  - intros nm n Hin. rewrite Forall_forall in F. destruct (F _ Hin) as (cs & Ecs & _). cbn [snd] in Ecs. eauto.
  - intros c. rewrite in_flat_map. split.
    + intros ([nm n] & He & Hc). unfold certs_of_entry in Hc. cbn [snd] in Hc.
      destruct n as [[|cs]|?|?]; try contradiction. exists nm, cs. auto.
    + intros (nm & cs & He & Hc). exists (nm, NFile (CCerts cs)). split; [exact He | exact Hc].
  - apply flat_map_len.
Qed.

(* ---------- 3. both return values of the Go function ---------- *)

Definition goerr := (eclass * ekind * string)%type.
Definition goret := (list cert * option goerr)%type.    (* ([]*x509.Certificate, error) *)

(* return nil, XError{...} *)
Definition ret_err (c : eclass) (k : ekind) (e : string) : goret := ([], Some (c, k, e)).

Fixpoint load_entries_go (tsa : bool) (es : list (string * node)) (acc : list cert) : goret :=
  match es with
  | [] =>
      match acc with
      | [] => ret_err ECertificate KEmpty ""
      | _ => (acc, None)                                 (* return certificates, nil *)
      end
  | (nm, n) :: es' =>
      match n with
      | NDir _ | NLink _ => ret_err ECertificate KEntryKind nm
      | NFile CErr => ret_err ECertificate KRead nm
      | NFile (CCerts cs) =>
          if negb (validate_certificates cs) then ret_err ECertificate KValidate nm
          else if tsa && negb (forallb is_root_ca cs) then ret_err ECertificate KNotRoot nm
          else load_entries_go tsa es' (acc ++ cs)
      end
  end.

Definition get_certificates_go (name_ok : string -> bool) (root : node) (ty name : string) : goret :=
  if negb (is_valid_store_type ty) then ret_err ETrustStore KType ""
  else if negb (name_ok name) then ret_err ETrustStore KName ""
  else
    match sys_path ty name with
    | None => ret_err ETrustStore KNotExist ""
    | Some p =>
        match lstat root p with
        | LNotExist => ret_err ETrustStore KNotExist ""
        | LOther => ret_err ETrustStore KAccess ""
        | LNode (NDir es) => load_entries_go (is_tsa ty) es []
        | LNode _ => ret_err ETrustStore KNotDir ""
        end
    end.

Definition res_of_go (r : goret) : res :=
  match r with
  | (l, None) => Loaded l
  | (_, Some (c, k, e)) => Failed c k e
  end.

Lemma load_entries_go_res tsa es : forall acc,
  res_of_go (load_entries_go tsa es acc) = load_entries tsa es acc.
Proof.
  induction es as [|[nm n] es IH]; intros acc; cbn [load_entries_go load_entries].
  - destruct acc; reflexivity.
  - destruct n as [[|cs]|es0|t]; try reflexivity.
    destruct (negb (validate_certificates cs)); [reflexivity|].
    destruct (tsa && negb (forallb is_root_ca cs)); [reflexivity|]. apply IH.
Qed.

Lemma load_entries_go_err tsa es : forall acc f,
  snd (load_entries_go tsa es acc) = Some f -> fst (load_entries_go tsa es acc) = [].
Proof.
  induction es as [|[nm n] es IH]; intros acc f; cbn [load_entries_go].
  - destruct acc; cbn; [reflexivity | discriminate].
  - destruct n as [[|cs]|es0|t]; try reflexivity.
    destruct (negb (validate_certificates cs)); [reflexivity|].
    destruct (tsa && negb (forallb is_root_ca cs)); [reflexivity|]. apply IH.
Qed.

Lemma get_certificates_go_res nk root ty name :
  res_of_go (get_certificates_go nk root ty name) = get_certificates nk root ty name.
Proof.
  unfold get_certificates_go, get_certificates.
  destruct (negb (is_valid_store_type ty)); [reflexivity|].
  destruct (negb (nk name)); [reflexivity|].
  destruct (sys_path ty name) as [p|]; [|reflexivity].
  destruct (lstat root p) as [| |[c|es|t]]; try reflexivity. apply load_entries_go_res.
Qed.

Lemma get_certificates_go_err nk root ty name f :
  snd (get_certificates_go nk root ty name) = Some f -> fst (get_certificates_go nk root ty name) = [].
Proof.
  unfold get_certificates_go.
  destruct (negb (is_valid_store_type ty)); [reflexivity|].
  destruct (negb (nk name)); [reflexivity|].
  destruct (sys_path ty name) as [p|]; [|reflexivity].
  destruct (lstat root p) as [| |[c|es|t]]; try reflexivity. apply load_entries_go_err.
Qed.

Theorem two_values i :
  let r := get_certificates_go is_valid_file_name (i_root i) (i_ty i) (i_name i) in
  res_of_go r = load i /\
  (forall f, snd r = Some f ->
     fst r = [] /\ forall l, ~ loadable (i_root i) (i_ty i) (i_name i) l) /\
  (snd r = None -> loadable (i_root i) (i_ty i) (i_name i) (fst r)).
Proof.
  cbn zeta. pose proof (get_certificates_go_res is_valid_file_name (i_root i) (i_ty i) (i_name i)) as R.
  fold (load i) in R. split; [exact R|]. split.
  - intros f Hf. split; [exact (get_certificates_go_err _ _ _ _ f Hf)|].
    intros l L. apply load_iff in L. rewrite <- R in L.
    destruct (get_certificates_go is_valid_file_name (i_root i) (i_ty i) (i_name i)) as [l' [[[c k] e]|]];
      cbn in *; [discriminate | discriminate].
  - intros Hn. apply load_iff. rewrite <- R.
    destruct (get_certificates_go is_valid_file_name (i_root i) (i_ty i) (i_name i)) as [l' [f|]];
      cbn in *; [discriminate | reflexivity].
Qed.

(* ---------- 4. trees for the examples ---------- *)

(* differs from ex_tree everywhere but at ca/web; has an empty store, a store
   path that is a file, a dangling link, a type directory that is a file, a
   store with a sub-directory, a store with a link to a good file, and a type
   directory that is a symbolic link (followed by the kernel) *)
Definition ex_tree2 : node :=
  NDir [("truststore", NDir [("x509", NDir [
    ("ca", NDir [("afile", NFile (CCerts [ex_root]));
                 ("dangling", NLink None);
                 ("deep", NDir [("a.pem", NFile (CCerts [ex_root]));
                                ("sub", NDir [("x.pem", NFile (CCerts [ex_inter]))])]);
                 ("empty", NDir []);
                 ("viaLink", NDir [("a.pem", NFile (CCerts [ex_root]));
                                   ("l.pem", NLink (Some (NFile (CCerts [ex_root]))))]);
                 ("web", NDir [("a.pem", NFile (CCerts [ex_root; ex_inter])); ("b.der", NFile (CCerts [ex_root]))])]);
    ("signingAuthority", NFile CErr);
    ("tsa", NLink (Some (NDir [("roots", NDir [("r.cer", NFile (CCerts [ex_root]))])])));
    ("stray.pem", NFile (CCerts [ex_leaf]))])]);
   ("elsewhere", NDir [("x.pem", NFile (CCerts [ex_leaf]))])].

(* ex_tree2 with other content below the sub-directory and behind the link *)
Definition ex_tree3 : node :=
  NDir [("truststore", NDir [("x509", NDir [
    ("ca", NDir [("deep", NDir [("a.pem", NFile (CCerts [ex_root]));
                                ("sub", NDir [])]);
                 ("viaLink", NDir [("a.pem", NFile (CCerts [ex_root]));
                                   ("l.pem", NLink None)])])])])].
