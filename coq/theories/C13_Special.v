(* C13_Special.v — the model of GetCertificates over a LARGER alphabet of directory
   trees than the one the property quantifies over: besides regular files,
   directories and symbolic links a tree may hold "other" files (FIFOs, sockets,
   devices). The test the Go code applies to an entry is
       file.IsDir() || file.Type()&fs.ModeSymlink != 0      (truststore.go:98)
   and everything that passes it is handed to ReadCertificateFile; over the
   three-kind alphabet of C13_Model "passes" and "is a regular file" coincide,
   here they do not. Definitions, proofs, and the case type of the harness
   (base cases and cases over the larger alphabet in one list).               *)
From NV Require Import Base Regex Generated C13_Model C13_Proofs.
Open Scope string_scope.
Open Scope list_scope.

Inductive xnode :=
| XFile (c : content)                      (* regular file *)
| XDir (es : list (string * xnode))
| XLink (t : option xnode)
| XOther (c : content).                    (* FIFO, socket, device; c = what ReadCertificateFile
                                              answers when it opens and reads it *)

Fixpoint xfollow (n : xnode) : option xnode :=
  match n with
  | XLink None => None
  | XLink (Some m) => xfollow m
  | _ => Some n
  end.

Fixpoint xfind (k : string) (es : list (string * xnode)) : option xnode :=
  match es with
  | [] => None
  | (k', n) :: es' => if String.eqb k k' then Some n else xfind k es'
  end.

Inductive xlres := XLNotExist | XLOther | XLNode (n : xnode).

Fixpoint xlstat (d : xnode) (p : list string) : xlres :=
  match p with
  | [] => XLNode d
  | c :: p' =>
      match xfollow d with
      | None => XLNotExist
      | Some (XDir es) =>
          match xfind c es with
          | None => XLNotExist
          | Some n => xlstat n p'
          end
      | Some _ => XLOther
      end
  end.

(* the loop of GetCertificates: the only entries refused for their kind are
   directories and symbolic links *)
Fixpoint xload_entries (tsa : bool) (es : list (string * xnode)) (acc : list cert) : res :=
  match es with
  | [] =>
      match acc with
      | [] => Failed ECertificate KEmpty ""
      | _ => Loaded acc
      end
  | (nm, n) :: es' =>
      match n with
      | XDir _ | XLink _ => Failed ECertificate KEntryKind nm
      | XFile CErr | XOther CErr => Failed ECertificate KRead nm
      | XFile (CCerts cs) | XOther (CCerts cs) =>
          if negb (validate_certificates cs) then Failed ECertificate KValidate nm
          else if tsa && negb (forallb is_root_ca cs) then Failed ECertificate KNotRoot nm
          else xload_entries tsa es' (acc ++ cs)
      end
  end.

Definition xget_certificates (root : xnode) (ty name : string) : res :=
  if negb (is_valid_store_type ty) then Failed ETrustStore KType ""
  else if negb (is_valid_file_name name) then Failed ETrustStore KName ""
  else
    match sys_path ty name with
    | None => Failed ETrustStore KNotExist ""
    | Some p =>
        match xlstat root p with
        | XLNotExist => Failed ETrustStore KNotExist ""
        | XLOther => Failed ETrustStore KAccess ""
        | XLNode (XDir es) => xload_entries (is_tsa ty) es []
        | XLNode _ => Failed ETrustStore KNotDir ""      (* mode.IsDir() is false for every other kind *)
        end
    end.

(* ---------- erasure: every "other" file replaced by a regular file of the same content ---------- *)

Fixpoint erase (n : xnode) : node :=
  match n with
  | XFile c => NFile c
  | XOther c => NFile c
  | XDir es =>
      NDir ((fix go (l : list (string * xnode)) : list (string * node) :=
               match l with
               | [] => []
               | (k, m) :: l' => (k, erase m) :: go l'
               end) es)
  | XLink None => NLink None
  | XLink (Some m) => NLink (Some (erase m))
  end.

Fixpoint erase_entries (l : list (string * xnode)) : list (string * node) :=
  match l with
  | [] => []
  | (k, m) :: l' => (k, erase m) :: erase_entries l'
  end.

Lemma erase_dir es : erase (XDir es) = NDir (erase_entries es).
Proof.
  reflexivity.
Qed.

Definition erase_lres (r : xlres) : lres :=
  match r with
  | XLNotExist => LNotExist
  | XLOther => LOther
  | XLNode n => LNode (erase n)
  end.

Fixpoint follow_erase (n : xnode) : follow (erase n) = option_map erase (xfollow n).
Proof.
  destruct n as [c|es|[m|]|c].
  - reflexivity.
  - rewrite erase_dir. reflexivity.
  - cbn [erase follow xfollow]. apply follow_erase.
  - reflexivity.
  - reflexivity.
Qed.

Lemma find_erase k es : find_entry k (erase_entries es) = option_map erase (xfind k es).
Proof.
  induction es as [|[k' m] es IH]; [reflexivity|]. cbn [erase_entries find_entry xfind].
  destruct (String.eqb k k'); [reflexivity | exact IH].
Qed.

Lemma lstat_erase p : forall d, lstat (erase d) p = erase_lres (xlstat d p).
Proof.
  induction p as [|c p IH]; intros d; [reflexivity|].
  cbn [lstat xlstat]. rewrite follow_erase.
  destruct (xfollow d) as [[c0|es|t|c0]|]; cbn [option_map]; try reflexivity.
  - rewrite erase_dir, find_erase. destruct (xfind c es) as [n|]; cbn [option_map]; [apply IH | reflexivity].
  - destruct t as [m|]; reflexivity.
Qed.

Lemma load_erase tsa es : forall acc,
  load_entries tsa (erase_entries es) acc = xload_entries tsa es acc.
Proof.
  induction es as [|[nm n] es IH]; intros acc; [reflexivity|].
  cbn [erase_entries]. destruct n as [[|cs]|es0|[m|]|[|cs]];
    try rewrite erase_dir; cbn [erase load_entries xload_entries]; try reflexivity;
    (destruct (negb (validate_certificates cs)); [reflexivity|];
     destruct (tsa && negb (forallb is_root_ca cs)); [reflexivity|]; apply IH).
Qed.

(* GetCertificates cannot tell an "other" file from a regular one *)
Theorem xget_erase root ty name :
  xget_certificates root ty name = get_certificates is_valid_file_name (erase root) ty name.
Proof.
  unfold xget_certificates, get_certificates.
  destruct (negb (is_valid_store_type ty)); [reflexivity|].
  destruct (negb (is_valid_file_name name)); [reflexivity|].
  destruct (sys_path ty name) as [p|]; [|reflexivity].
  rewrite lstat_erase. destruct (xlstat root p) as [| |[c|es|t|c]]; cbn [erase_lres]; try reflexivity.
  - rewrite erase_dir. symmetry. apply load_erase.
  - destruct t; reflexivity.
Qed.

(* ---------- the declarative reading over the larger alphabet ---------- *)

(* an entry the loop reads and accepts: a regular OR other file holding >= 1 acceptable certificates *)
Definition xentry_read_good (tsa : bool) (e : string * xnode) : Prop :=
  exists cs, (snd e = XFile (CCerts cs) \/ snd e = XOther (CCerts cs)) /\ cs <> [] /\ Forall (cert_ok tsa) cs.

(* the property's wording: a regular file holding >= 1 acceptable certificates *)
Definition xentry_good (tsa : bool) (e : string * xnode) : Prop :=
  exists cs, snd e = XFile (CCerts cs) /\ cs <> [] /\ Forall (cert_ok tsa) cs.

Definition xcerts_of_entry (e : string * xnode) : list cert :=
  match snd e with
  | XFile (CCerts cs) | XOther (CCerts cs) => cs
  | _ => []
  end.

Definition is_other (n : xnode) : Prop := exists c, n = XOther c.

Lemma entry_good_erase tsa k m : entry_good tsa (k, erase m) <-> xentry_read_good tsa (k, m).
Proof.
  unfold entry_good, xentry_read_good. cbn [snd]. split.
  - intros (cs & E & N & F). exists cs. split; [|auto].
    destruct m as [c|es|[t|]|c]; try rewrite erase_dir in E; cbn [erase] in E; try discriminate;
      inversion E; subst; auto.
  - intros (cs & [E|E] & N & F); subst m; exists cs; cbn [erase]; auto.
Qed.

Lemma Forall_erase tsa es :
  Forall (entry_good tsa) (erase_entries es) <-> Forall (xentry_read_good tsa) es.
Proof.
  induction es as [|[k m] es IH]; cbn [erase_entries].
  - split; constructor.
  - split; intros H; inversion H; subst; constructor;
      try (apply entry_good_erase; assumption); apply IH; assumption.
Qed.

Lemma certs_erase es : flat_map certs_of_entry (erase_entries es) = flat_map xcerts_of_entry es.
Proof.
  induction es as [|[k m] es IH]; [reflexivity|]. cbn [erase_entries flat_map]. rewrite IH. f_equal.
  unfold certs_of_entry, xcerts_of_entry. cbn [snd].
  destruct m as [[|cs]|es0|[t|]|[|cs]]; try rewrite erase_dir; reflexivity.
Qed.

Lemma lstat_erase_dir root p es' :
  lstat (erase root) p = LNode (NDir es') <->
  exists es, xlstat root p = XLNode (XDir es) /\ es' = erase_entries es.
Proof.
  rewrite lstat_erase. split.
  - destruct (xlstat root p) as [| |[c|es|[t|]|c]]; cbn [erase_lres]; try rewrite erase_dir; cbn [erase];
      try discriminate. intros E. inversion E. eauto.
  - intros (es & -> & ->). cbn [erase_lres]. now rewrite erase_dir.
Qed.

(* full characterisation of success over the larger alphabet *)
Theorem xget_iff root ty name l :
  xget_certificates root ty name = Loaded l <->
  known_type ty /\ plain_name name /\
  exists es, xlstat root (store_path ty name) = XLNode (XDir es) /\
             Forall (xentry_read_good (is_tsa ty)) es /\
             l = flat_map xcerts_of_entry es /\ l <> [].
Proof.
  rewrite xget_erase, get_certificates_iff. unfold loadable. split.
  - intros (Ht & Hn & es' & E & F & L & N). split; [exact Ht|]. split; [exact Hn|].
    apply lstat_erase_dir in E. destruct E as (es & E & ->). exists es. split; [exact E|].
    split; [now apply Forall_erase|]. split; [now rewrite <- certs_erase | exact N].
  - intros (Ht & Hn & es & E & F & L & N). split; [exact Ht|]. split; [exact Hn|].
    exists (erase_entries es). split; [apply lstat_erase_dir; eauto|].
    split; [now apply Forall_erase|]. split; [now rewrite certs_erase | exact N].
Qed.

(* within the property's alphabet (no "other" file among the entries of the
   named store) the property's wording holds: every entry is a regular file *)
Theorem xget_regular root ty name l es :
  xget_certificates root ty name = Loaded l ->
  xlstat root (store_path ty name) = XLNode (XDir es) ->
  (forall e, In e es -> ~ is_other (snd e)) ->
  Forall (xentry_good (is_tsa ty)) es.
Proof.
  intros H E A. apply xget_iff in H. destruct H as (_ & _ & es0 & E0 & F & _ & _).
  rewrite E in E0. inversion E0; subst es0. rewrite Forall_forall in *. intros e He.
  destruct (F e He) as (cs & [Ec|Ec] & N & Fc).
  - exists cs. auto.
  - exfalso. apply (A e He). exists (CCerts cs). exact Ec.
Qed.

(* outside it the wording "every entry is a regular file" is false of the code:
   a store whose only entry is an "other" file delivering a certificate loads *)
Definition xex_cert : cert := mk_cert 1 true true true true.
Definition xex_tree : xnode :=
  XDir [("truststore", XDir [("x509", XDir [("ca", XDir [("s", XDir [("pipe", XOther (CCerts [xex_cert]))])])])])].

Lemma regular_only_refuted :
  exists root ty name l es,
    xget_certificates root ty name = Loaded l /\ l <> [] /\
    xlstat root (store_path ty name) = XLNode (XDir es) /\
    ~ Forall (fun e => exists c, snd e = XFile c) es.
Proof.
  exists xex_tree, "ca", "s", [xex_cert], [("pipe", XOther (CCerts [xex_cert]))].
  split; [reflexivity|]. split; [discriminate|]. split; [reflexivity|].
  intros F. inversion F as [|x l0 (c & E) _]; subst. discriminate.
Qed.

(* ---------- cases of the harness: base alphabet and larger alphabet in one list ---------- *)

Record xinput := mk_xinput { xi_ty : string; xi_name : string; xi_root : xnode }.
Definition xmodel (i : xinput) : obs := obs_of (xget_certificates (xi_root i) (xi_ty i) (xi_name i)).
Definition erase_input (i : xinput) : input := mk_input (xi_ty i) (xi_name i) (erase (xi_root i)).
Record xcase := mk_xcase { xc_id : N; xc_in : xinput; xc_obs : obs }.

Inductive gcase := GB (c : case) | GX (c : xcase).

Definition gid (g : gcase) : N := match g with GB c => c_id c | GX c => xc_id c end.
Definition gagree (g : gcase) : bool :=
  match g with
  | GB c => obs_eqb (model (c_in c)) (c_obs c)
  | GX c => obs_eqb (xmodel (xc_in c)) (xc_obs c)
  end.
(* a case over the larger alphabet is judged as follows: returned certificates
   must be exactly those of the store read with "regular file" widened to "file
   that is neither a directory nor a link" (nothing from elsewhere, no partial
   set); an error is accepted when the store is not loadable in the property's
   literal reading, i.e. also whenever an entry of the store is an other file -
   an implementation that refuses FIFOs is not reported as violating the property *)
Definition is_otherb (n : xnode) : bool := match n with XOther _ => true | _ => false end.
Definition store_has_other (i : xinput) : bool :=
  match xlstat (xi_root i) (store_path (xi_ty i) (xi_name i)) with
  | XLNode (XDir es) => existsb (fun e => is_otherb (snd e)) es
  | _ => false
  end.
Definition xspec_ok (i : xinput) (o : obs) : bool :=
  match o with
  | OOk _ => spec_ok (erase_input i) o
  | OErr _ _ _ =>
      store_has_other i || match expected (erase_input i) with None => true | Some _ => false end
  end.
Definition gok (g : gcase) : bool :=
  match g with
  | GB c => negb (wf (c_in c)) || spec_ok (c_in c) (c_obs c)
  | GX c => xspec_ok (xc_in c) (xc_obs c)
  end.
Definition gfp (g : gcase) : N :=
  match g with
  | GB c => fp (c_in c) (c_obs c)
  | GX c => fp (erase_input (xc_in c)) (xc_obs c)
  end.

Definition grun (cs : list gcase) : list (N * N * N) := run_cases gid gagree gok gfp cs.

(* on base cases grun is run *)
Lemma grun_base cs : grun (map GB cs) = run cs.
Proof.
  unfold grun, run, run_cases. induction cs as [|c cs IH]; [reflexivity|].
  cbn [map flat_map]. now rewrite IH.
Qed.

Lemma xmodel_erase i : xmodel i = model (erase_input i).
Proof. unfold xmodel, model, load, erase_input. cbn [i_root i_ty i_name]. now rewrite xget_erase. Qed.

Lemma xmodel_spec_ok i : spec_ok (erase_input i) (xmodel i) = true.
Proof. rewrite xmodel_erase. now apply model_spec_ok. Qed.

Lemma xmodel_xspec_ok i : xspec_ok i (xmodel i) = true.
Proof.
  pose proof (xmodel_spec_ok i) as H. unfold xspec_ok. destruct (xmodel i) as [ids|c k e]; [exact H|].
  unfold spec_ok in H. destruct (expected (erase_input i)); [discriminate|]. apply orb_true_r.
Qed.

Lemma xmodel_meets_oracles i :
  spec_ok (erase_input i) (xmodel i) = true /\ xspec_ok i (xmodel i) = true.
Proof. split; [exact (xmodel_spec_ok i) | exact (xmodel_xspec_ok i)]. Qed.
