(* C13_Special.v — the model of GetCertificates over a LARGER alphabet of directory
   trees than the one the property's quantifier lists: besides regular files,
   directories and symbolic links a tree may hold "other" files (FIFOs, sockets,
   devices). Two variants of the loop over the entries:
     [xload_entries]     the code as it is now (after fix 351e8a6): an entry is refused
                         unless   file.Type().IsRegular()          (truststore.go:99)
     [xload_entries_v0]  the code before that fix: an entry was refused only if
                         file.IsDir() || file.Type()&fs.ModeSymlink != 0
                         and everything else was handed to ReadCertificateFile.
   Over the three-kind alphabet of C13_Model the two tests coincide; here they do
   not. Definitions, proofs, and the case type of the harness (base cases and
   cases over the larger alphabet in one list).                               *)
From NV Require Import Base Regex Generated C13_Model C13_Proofs.
Open Scope string_scope.
Open Scope list_scope.

Inductive xnode :=
| XFile (c : content)                      (* regular file *)
| XDir (es : list (string * xnode))
| XLink (t : option xnode)
| XOther (c : content).                    (* FIFO, socket, device; c = what ReadCertificateFile
                                              would answer if it opened and read it *)

Fixpoint xfollow (n : xnode) : option xnode :=
  match n with
  | XLink None => None
  | XLink (Some m) => xfollow m
  | _ => Some n
  end.

Fixpoint xfind (k : string) (es : list (string * xnode)) : option xnode :=
  match es with
  | [] => None
  | (k', n) :: es' => if String.eqb k k' then Some n else xfind k es'
  end.

Inductive xlres := XLNotExist | XLOther | XLNode (n : xnode).

Fixpoint xlstat (d : xnode) (p : list string) : xlres :=
  match p with
  | [] => XLNode d
  | c :: p' =>
      match xfollow d with
      | None => XLNotExist
      | Some (XDir es) =>
          match xfind c es with
          | None => XLNotExist
          | Some n => xlstat n p'
          end
      | Some _ => XLOther
      end
  end.

(* the loop of GetCertificates as it is now: only regular files are read *)
Fixpoint xload_entries (tsa : bool) (es : list (string * xnode)) (acc : list cert) : res :=
  match es with
  | [] =>
      match acc with
      | [] => Failed ECertificate KEmpty ""
      | _ => Loaded acc
      end
  | (nm, n) :: es' =>
      match n with
      | XDir _ | XLink _ | XOther _ => Failed ECertificate KEntryKind nm     (* !file.Type().IsRegular() *)
      | XFile CErr => Failed ECertificate KRead nm
      | XFile (CCerts cs) =>
          if negb (validate_certificates cs) then Failed ECertificate KValidate nm
          else if tsa && negb (forallb is_root_ca cs) then Failed ECertificate KNotRoot nm
          else xload_entries tsa es' (acc ++ cs)
      end
  end.

(* the loop before fix 351e8a6: the only entries refused for their kind were
   directories and symbolic links *)
Fixpoint xload_entries_v0 (tsa : bool) (es : list (string * xnode)) (acc : list cert) : res :=
  match es with
  | [] =>
      match acc with
      | [] => Failed ECertificate KEmpty ""
      | _ => Loaded acc
      end
  | (nm, n) :: es' =>
      match n with
      | XDir _ | XLink _ => Failed ECertificate KEntryKind nm
      | XFile CErr | XOther CErr => Failed ECertificate KRead nm
      | XFile (CCerts cs) | XOther (CCerts cs) =>
          if negb (validate_certificates cs) then Failed ECertificate KValidate nm
          else if tsa && negb (forallb is_root_ca cs) then Failed ECertificate KNotRoot nm
          else xload_entries_v0 tsa es' (acc ++ cs)
      end
  end.

Definition xget_with (ld : bool -> list (string * xnode) -> list cert -> res)
           (root : xnode) (ty name : string) : res :=
  if negb (is_valid_store_type ty) then Failed ETrustStore KType ""
  else if negb (is_valid_file_name name) then Failed ETrustStore KName ""
  else
    match sys_path ty name with
    | None => Failed ETrustStore KNotExist ""
    | Some p =>
        match xlstat root p with
        | XLNotExist => Failed ETrustStore KNotExist ""
        | XLOther => Failed ETrustStore KAccess ""
        | XLNode (XDir es) => ld (is_tsa ty) es []
        | XLNode _ => Failed ETrustStore KNotDir ""      (* mode.IsDir() is false for every other kind *)
        end
    end.

Definition xget_certificates := xget_with xload_entries.          (* the code now *)
Definition xget_certificates_v0 := xget_with xload_entries_v0.    (* before 351e8a6 *)

Lemma xget_valid ld root ty name :
  known_type ty -> plain_name name ->
  xget_with ld root ty name =
  match xlstat root (store_path ty name) with
  | XLNotExist => Failed ETrustStore KNotExist ""
  | XLOther => Failed ETrustStore KAccess ""
  | XLNode (XDir es) => ld (is_tsa ty) es []
  | XLNode _ => Failed ETrustStore KNotDir ""
  end.
Proof.
  intros Ht Hn. unfold xget_with.
  apply is_valid_store_type_spec in Ht as Ht'. apply is_valid_file_name_spec in Hn as Hn'.
  rewrite Ht', Hn'. cbn [negb]. now rewrite sys_path_valid.
Qed.

Lemma xget_invalid ld root ty name :
  is_valid_store_type ty && is_valid_file_name name = false ->
  exists k, xget_with ld root ty name = Failed ETrustStore k "".
Proof.
  unfold xget_with. destruct (is_valid_store_type ty); cbn; [|eauto].
  destruct (is_valid_file_name name); cbn; [discriminate | eauto].
Qed.

(* ---------- erasure: every "other" file replaced by a regular file of the same content ---------- *)

Fixpoint erase (n : xnode) : node :=
  match n with
  | XFile c => NFile c
  | XOther c => NFile c
  | XDir es =>
      NDir ((fix go (l : list (string * xnode)) : list (string * node) :=
               match l with
               | [] => []
               | (k, m) :: l' => (k, erase m) :: go l'
               end) es)
  | XLink None => NLink None
  | XLink (Some m) => NLink (Some (erase m))
  end.

Fixpoint erase_entries (l : list (string * xnode)) : list (string * node) :=
  match l with
  | [] => []
  | (k, m) :: l' => (k, erase m) :: erase_entries l'
  end.

Lemma erase_dir es : erase (XDir es) = NDir (erase_entries es).
Proof. reflexivity. Qed.

Definition erase_lres (r : xlres) : lres :=
  match r with
  | XLNotExist => LNotExist
  | XLOther => LOther
  | XLNode n => LNode (erase n)
  end.

Fixpoint follow_erase (n : xnode) : follow (erase n) = option_map erase (xfollow n).
Proof.
  destruct n as [c|es|[m|]|c].
  - reflexivity.
  - rewrite erase_dir. reflexivity.
  - cbn [erase follow xfollow]. apply follow_erase.
  - reflexivity.
  - reflexivity.
Qed.

Lemma find_erase k es : find_entry k (erase_entries es) = option_map erase (xfind k es).
Proof.
  induction es as [|[k' m] es IH]; [reflexivity|]. cbn [erase_entries find_entry xfind].
  destruct (String.eqb k k'); [reflexivity | exact IH].
Qed.

(* path resolution does not distinguish an other file from a regular one *)
Lemma lstat_erase p : forall d, lstat (erase d) p = erase_lres (xlstat d p).
Proof.
  induction p as [|c p IH]; intros d; [reflexivity|].
  cbn [lstat xlstat]. rewrite follow_erase.
  destruct (xfollow d) as [[c0|es|t|c0]|]; cbn [option_map]; try reflexivity.
  - rewrite erase_dir, find_erase. destruct (xfind c es) as [n|]; cbn [option_map]; [apply IH | reflexivity].
  - destruct t as [m|]; reflexivity.
Qed.

Lemma lstat_erase_dir root p es' :
  lstat (erase root) p = LNode (NDir es') <->
  exists es, xlstat root p = XLNode (XDir es) /\ es' = erase_entries es.
Proof.
  rewrite lstat_erase. split.
  - destruct (xlstat root p) as [| |[c|es|[t|]|c]]; cbn [erase_lres]; try rewrite erase_dir; cbn [erase];
      try discriminate. intros E. inversion E. eauto.
  - intros (es & -> & ->). cbn [erase_lres]. now rewrite erase_dir.
Qed.

(* ========== the code as it is now ========== *)

(* an entry of the store as the present loop sees it: an other file is refused
   for its kind exactly like a (dangling) link; the rest as in [erase] *)
Definition strict_node (m : xnode) : node :=
  match m with
  | XOther _ => NLink None
  | _ => erase m
  end.

Fixpoint strict_entries (l : list (string * xnode)) : list (string * node) :=
  match l with
  | [] => []
  | (k, m) :: l' => (k, strict_node m) :: strict_entries l'
  end.

Lemma load_strict tsa es : forall acc,
  load_entries tsa (strict_entries es) acc = xload_entries tsa es acc.
Proof.
  induction es as [|[nm n] es IH]; intros acc; [reflexivity|].
  cbn [strict_entries]. destruct n as [[|cs]|es0|[m|]|c]; unfold strict_node;
    try rewrite erase_dir; cbn [erase load_entries xload_entries]; try reflexivity.
  destruct (negb (validate_certificates cs)); [reflexivity|].
  destruct (tsa && negb (forallb is_root_ca cs)); [reflexivity|]. apply IH.
Qed.

Lemma strict_entries_app a b : strict_entries (a ++ b) = strict_entries a ++ strict_entries b.
Proof. induction a as [|[k m] a IH]; [reflexivity|]. cbn [app strict_entries]. now rewrite IH. Qed.

(* the property's wording: a regular file holding >= 1 acceptable certificates *)
Definition xentry_good (tsa : bool) (e : string * xnode) : Prop :=
  exists cs, snd e = XFile (CCerts cs) /\ cs <> [] /\ Forall (cert_ok tsa) cs.

Definition xcerts_of_entry (e : string * xnode) : list cert :=
  match snd e with
  | XFile (CCerts cs) => cs
  | _ => []
  end.

Definition is_other (n : xnode) : Prop := exists c, n = XOther c.

(* the declarative reading of the property over the larger alphabet *)
Definition xloadable (root : xnode) (ty name : string) (l : list cert) : Prop :=
  known_type ty /\ plain_name name /\
  exists es, xlstat root (store_path ty name) = XLNode (XDir es) /\
             Forall (xentry_good (is_tsa ty)) es /\
             l = flat_map xcerts_of_entry es /\ l <> [].

Definition xentry_fault (tsa : bool) (n : xnode) : ekind :=
  match n with
  | XDir _ | XLink _ | XOther _ => KEntryKind
  | XFile CErr => KRead
  | XFile (CCerts cs) => if validate_certificates cs then KNotRoot else KValidate
  end.

Lemma entry_good_strict tsa k m : entry_good tsa (k, strict_node m) <-> xentry_good tsa (k, m).
Proof.
  unfold entry_good, xentry_good. cbn [snd]. split.
  - intros (cs & E & N & F). exists cs. split; [|auto].
    destruct m as [c|es|[t|]|c]; unfold strict_node in E; try rewrite erase_dir in E; cbn [erase] in E;
      try discriminate. inversion E; subst; auto.
  - intros (cs & E & N & F); subst m; exists cs; cbn; auto.
Qed.

Lemma Forall_strict tsa es :
  Forall (entry_good tsa) (strict_entries es) <-> Forall (xentry_good tsa) es.
Proof.
  induction es as [|[k m] es IH]; cbn [strict_entries].
  - split; constructor.
  - split; intros H; inversion H; subst; constructor;
      try (apply entry_good_strict; assumption); apply IH; assumption.
Qed.

Lemma certs_strict es : flat_map certs_of_entry (strict_entries es) = flat_map xcerts_of_entry es.
Proof.
  induction es as [|[k m] es IH]; [reflexivity|]. cbn [strict_entries flat_map]. rewrite IH. f_equal.
  unfold certs_of_entry, xcerts_of_entry, strict_node. cbn [snd].
  destruct m as [[|cs]|es0|[t|]|c]; try rewrite erase_dir; reflexivity.
Qed.

Lemma fault_strict tsa n : entry_fault tsa (strict_node n) = xentry_fault tsa n.
Proof. destruct n as [[|cs]|es0|[t|]|c]; unfold strict_node; try rewrite erase_dir; reflexivity. Qed.

Lemma xload_entries_ok tsa es acc l :
  xload_entries tsa es acc = Loaded l <->
  Forall (xentry_good tsa) es /\ l = acc ++ flat_map xcerts_of_entry es /\ l <> [].
Proof. rewrite <- load_strict, load_entries_ok, Forall_strict, certs_strict. reflexivity. Qed.

(* success, with exactly the certificates of the named store, iff the store is
   loadable: every entry a REGULAR file, over the larger alphabet, no restriction *)
Theorem xget_iff root ty name l :
  xget_certificates root ty name = Loaded l <-> xloadable root ty name l.
Proof.
  unfold xloadable, xget_certificates. split.
  - intros H.
    destruct (is_valid_store_type ty && is_valid_file_name name) eqn:V.
    2:{ destruct (xget_invalid xload_entries root ty name V) as (k & E). congruence. }
    apply andb_true_iff in V. destruct V as [Ht Hn].
    apply is_valid_store_type_spec in Ht. apply is_valid_file_name_spec in Hn.
    rewrite xget_valid in H by assumption. split; [exact Ht|]. split; [exact Hn|].
    destruct (xlstat root (store_path ty name)) as [| |[c|es|t|c]]; try discriminate.
    exists es. split; [reflexivity|]. apply xload_entries_ok in H. exact H.
  - intros (Ht & Hn & es & E & F & L & N). rewrite xget_valid by assumption. rewrite E.
    apply xload_entries_ok. cbn [app]. auto.
Qed.

Theorem xall_or_nothing root ty name :
  (exists l, xget_certificates root ty name = Loaded l /\ xloadable root ty name l) \/
  (exists c k e, xget_certificates root ty name = Failed c k e /\ forall l, ~ xloadable root ty name l).
Proof.
  destruct (xget_certificates root ty name) as [l|c k e] eqn:E.
  - left. exists l. split; [reflexivity | now apply xget_iff].
  - right. exists c, k, e. split; [reflexivity|]. intros l L. apply xget_iff in L. congruence.
Qed.

(* clause 4 stated directly: on success EVERY entry of the store directory is a
   regular file (none is a directory, a link, a FIFO, a socket or a device) *)
Theorem xevery_entry_regular root ty name l es :
  xget_certificates root ty name = Loaded l ->
  xlstat root (store_path ty name) = XLNode (XDir es) ->
  forall nm n, In (nm, n) es -> exists cs, n = XFile (CCerts cs) /\ cs <> [].
Proof.
  intros H E nm n Hin. apply xget_iff in H. destruct H as (_ & _ & es0 & E0 & F & _ & _).
  rewrite E in E0. inversion E0; subst es0. rewrite Forall_forall in F.
  destruct (F _ Hin) as (cs & Ecs & N & _). cbn [snd] in Ecs. eauto.
Qed.

(* one offending entry - of any kind - anywhere among good ones fails the store;
   the error names the first offender *)
Theorem xfirst_offender root ty name good nm n rest :
  known_type ty -> plain_name name ->
  xlstat root (store_path ty name) = XLNode (XDir (good ++ (nm, n) :: rest)) ->
  Forall (xentry_good (is_tsa ty)) good -> ~ xentry_good (is_tsa ty) (nm, n) ->
  xget_certificates root ty name = Failed ECertificate (xentry_fault (is_tsa ty) n) nm.
Proof.
  intros Ht Hn E F B. unfold xget_certificates. rewrite xget_valid by assumption. rewrite E.
  rewrite <- load_strict, strict_entries_app. cbn [strict_entries]. rewrite <- fault_strict.
  apply load_entries_first_bad; [now apply Forall_strict|]. intros G. apply B. now apply entry_good_strict.
Qed.

(* an other file is never opened: what a read of it would deliver is irrelevant *)
Theorem xframe_entries r1 r2 ty name es1 es2 :
  xlstat r1 (store_path ty name) = XLNode (XDir es1) ->
  xlstat r2 (store_path ty name) = XLNode (XDir es2) ->
  strict_entries es1 = strict_entries es2 ->
  xget_certificates r1 ty name = xget_certificates r2 ty name.
Proof.
  intros E1 E2 S. unfold xget_certificates.
  destruct (is_valid_store_type ty && is_valid_file_name name) eqn:V.
  - apply andb_true_iff in V. destruct V as [Ht Hn].
    apply is_valid_store_type_spec in Ht. apply is_valid_file_name_spec in Hn.
    rewrite !xget_valid by assumption. rewrite E1, E2, <- !load_strict. now rewrite S.
  - unfold xget_with. destruct (is_valid_store_type ty); cbn in *; [|reflexivity].
    destruct (is_valid_file_name name); cbn in *; [discriminate | reflexivity].
Qed.

(* ========== the code before fix 351e8a6 ========== *)

Lemma load_erase_v0 tsa es : forall acc,
  load_entries tsa (erase_entries es) acc = xload_entries_v0 tsa es acc.
Proof.
  induction es as [|[nm n] es IH]; intros acc; [reflexivity|].
  cbn [erase_entries]. destruct n as [[|cs]|es0|[m|]|[|cs]];
    try rewrite erase_dir; cbn [erase load_entries xload_entries_v0]; try reflexivity;
    (destruct (negb (validate_certificates cs)); [reflexivity|];
     destruct (tsa && negb (forallb is_root_ca cs)); [reflexivity|]; apply IH).
Qed.

(* the old code could not tell an other file from a regular one *)
Theorem xget_erase_v0 root ty name :
  xget_certificates_v0 root ty name = get_certificates is_valid_file_name (erase root) ty name.
Proof.
  unfold xget_certificates_v0, xget_with, get_certificates.
  destruct (negb (is_valid_store_type ty)); [reflexivity|].
  destruct (negb (is_valid_file_name name)); [reflexivity|].
  destruct (sys_path ty name) as [p|]; [|reflexivity].
  rewrite lstat_erase. destruct (xlstat root p) as [| |[c|es|t|c]]; cbn [erase_lres]; try reflexivity.
  - rewrite erase_dir. symmetry. apply load_erase_v0.
  - destruct t; reflexivity.
Qed.

(* an entry the old loop read and accepted: a regular OR other file delivering >= 1 acceptable certificates *)
Definition xentry_read_good (tsa : bool) (e : string * xnode) : Prop :=
  exists cs, (snd e = XFile (CCerts cs) \/ snd e = XOther (CCerts cs)) /\ cs <> [] /\ Forall (cert_ok tsa) cs.

Definition xcerts_read_of_entry (e : string * xnode) : list cert :=
  match snd e with
  | XFile (CCerts cs) | XOther (CCerts cs) => cs
  | _ => []
  end.

Lemma entry_good_erase tsa k m : entry_good tsa (k, erase m) <-> xentry_read_good tsa (k, m).
Proof.
  unfold entry_good, xentry_read_good. cbn [snd]. split.
  - intros (cs & E & N & F). exists cs. split; [|auto].
    destruct m as [c|es|[t|]|c]; try rewrite erase_dir in E; cbn [erase] in E; try discriminate;
      inversion E; subst; auto.
  - intros (cs & [E|E] & N & F); subst m; exists cs; cbn [erase]; auto.
Qed.

Lemma Forall_erase tsa es :
  Forall (entry_good tsa) (erase_entries es) <-> Forall (xentry_read_good tsa) es.
Proof.
  induction es as [|[k m] es IH]; cbn [erase_entries].
  - split; constructor.
  - split; intros H; inversion H; subst; constructor;
      try (apply entry_good_erase; assumption); apply IH; assumption.
Qed.

Lemma certs_erase es : flat_map certs_of_entry (erase_entries es) = flat_map xcerts_read_of_entry es.
Proof.
  induction es as [|[k m] es IH]; [reflexivity|]. cbn [erase_entries flat_map]. rewrite IH. f_equal.
  unfold certs_of_entry, xcerts_read_of_entry. cbn [snd].
  destruct m as [[|cs]|es0|[t|]|[|cs]]; try rewrite erase_dir; reflexivity.
Qed.

(* full characterisation of success of the old code over the larger alphabet *)
Theorem xget_iff_v0 root ty name l :
  xget_certificates_v0 root ty name = Loaded l <->
  known_type ty /\ plain_name name /\
  exists es, xlstat root (store_path ty name) = XLNode (XDir es) /\
             Forall (xentry_read_good (is_tsa ty)) es /\
             l = flat_map xcerts_read_of_entry es /\ l <> [].
Proof.
  rewrite xget_erase_v0, get_certificates_iff. unfold loadable. split.
  - intros (Ht & Hn & es' & E & F & L & N). split; [exact Ht|]. split; [exact Hn|].
    apply lstat_erase_dir in E. destruct E as (es & E & ->). exists es. split; [exact E|].
    split; [now apply Forall_erase|]. split; [now rewrite <- certs_erase | exact N].
  - intros (Ht & Hn & es & E & F & L & N). split; [exact Ht|]. split; [exact Hn|].
    exists (erase_entries es). split; [apply lstat_erase_dir; eauto|].
    split; [now apply Forall_erase|]. split; [now rewrite certs_erase | exact N].
Qed.

(* the old code met the property's wording only when the store held no other file *)
Theorem xget_regular_v0 root ty name l es :
  xget_certificates_v0 root ty name = Loaded l ->
  xlstat root (store_path ty name) = XLNode (XDir es) ->
  (forall e, In e es -> ~ is_other (snd e)) ->
  Forall (xentry_good (is_tsa ty)) es.
Proof.
  intros H E A. apply xget_iff_v0 in H. destruct H as (_ & _ & es0 & E0 & F & _ & _).
  rewrite E in E0. inversion E0; subst es0. rewrite Forall_forall in *. intros e He.
  destruct (F e He) as (cs & [Ec|Ec] & N & Fc).
  - exists cs. auto.
  - exfalso. apply (A e He). exists (CCerts cs). exact Ec.
Qed.

(* without that hypothesis the wording "every entry is a regular file" was false
   of the old code: a store whose only entry is an other file delivering a
   certificate loaded (replayed on the real code: harness family special-entry,
   finding fixed by 351e8a6); the present code refuses the same store *)
Definition xex_cert : cert := mk_cert 1 true true true true.
Definition xex_tree : xnode :=
  XDir [("truststore", XDir [("x509", XDir [("ca", XDir [("s", XDir [("pipe", XOther (CCerts [xex_cert]))])])])])].

Lemma regular_only_v0_refuted :
  exists root ty name l es,
    xget_certificates_v0 root ty name = Loaded l /\ l <> [] /\
    xlstat root (store_path ty name) = XLNode (XDir es) /\
    ~ Forall (fun e => exists c, snd e = XFile c) es /\
    xget_certificates root ty name = Failed ECertificate KEntryKind "pipe".
Proof.
  exists xex_tree, "ca", "s", [xex_cert], [("pipe", XOther (CCerts [xex_cert]))].
  split; [reflexivity|]. split; [discriminate|]. split; [reflexivity|]. split; [|reflexivity].
  intros F. inversion F as [|x l0 (c & E) _]; subst. discriminate.
Qed.

(* ========== old and new code, base model ========== *)

Definition is_otherb (n : xnode) : bool := match n with XOther _ => true | _ => false end.
Definition has_other (es : list (string * xnode)) : bool := existsb (fun e => is_otherb (snd e)) es.

Lemma strict_is_erase es : has_other es = false -> strict_entries es = erase_entries es.
Proof.
  induction es as [|[k m] es IH]; [reflexivity|]. unfold has_other. cbn [existsb snd strict_entries erase_entries].
  intros H. apply orb_false_iff in H. destruct H as [Hm Hes]. rewrite (IH Hes). f_equal. f_equal.
  destruct m; try reflexivity. discriminate.
Qed.

Lemma has_other_In es : has_other es = true <-> exists nm c, In (nm, XOther c) es.
Proof.
  unfold has_other. rewrite existsb_exists. split.
  - intros ([nm n] & Hin & H). cbn [snd] in H. destruct n; try discriminate. eauto.
  - intros (nm & c & Hin). exists (nm, XOther c). split; [exact Hin | reflexivity].
Qed.

(* whether the named store directory holds an other file *)
Definition store_has_other (root : xnode) (ty name : string) : bool :=
  match xlstat root (store_path ty name) with
  | XLNode (XDir es) => has_other es
  | _ => false
  end.

(* where the named store holds no other file (in particular on every tree of the
   property's alphabet) the present code, the old code and the base model agree *)
Theorem xget_conservative root ty name :
  store_has_other root ty name = false ->
  xget_certificates root ty name = get_certificates is_valid_file_name (erase root) ty name /\
  xget_certificates root ty name = xget_certificates_v0 root ty name.
Proof.
  intros H. assert (G : xget_certificates root ty name = xget_certificates_v0 root ty name).
  { unfold xget_certificates, xget_certificates_v0.
    destruct (is_valid_store_type ty && is_valid_file_name name) eqn:V.
    - apply andb_true_iff in V. destruct V as [Ht Hn].
      apply is_valid_store_type_spec in Ht. apply is_valid_file_name_spec in Hn.
      rewrite !xget_valid by assumption. unfold store_has_other in H.
      destruct (xlstat root (store_path ty name)) as [| |[c|es|t|c]]; try reflexivity.
      rewrite <- load_strict, <- load_erase_v0. now rewrite strict_is_erase.
    - unfold xget_with. destruct (is_valid_store_type ty); cbn in *; [|reflexivity].
      destruct (is_valid_file_name name); cbn in *; [discriminate | reflexivity]. }
  split; [rewrite G; apply xget_erase_v0 | exact G].
Qed.

(* a store that holds an other file never loads *)
Theorem xother_fails root ty name :
  store_has_other root ty name = true -> forall l, xget_certificates root ty name <> Loaded l.
Proof.
  unfold store_has_other. intros H l L.
  destruct (xlstat root (store_path ty name)) as [| |[c|es|t|c]] eqn:E; try discriminate.
  apply has_other_In in H. destruct H as (nm & c & Hin).
  destruct (xevery_entry_regular root ty name l es L E nm _ Hin) as (cs & Ecs & _). discriminate.
Qed.

(* ---------- cases of the harness: base alphabet and larger alphabet in one list ---------- *)

Record xinput := mk_xinput { xi_ty : string; xi_name : string; xi_root : xnode }.
Definition xmodel (i : xinput) : obs := obs_of (xget_certificates (xi_root i) (xi_ty i) (xi_name i)).
Definition erase_input (i : xinput) : input := mk_input (xi_ty i) (xi_name i) (erase (xi_root i)).
Record xcase := mk_xcase { xc_id : N; xc_in : xinput; xc_obs : obs }.

(* Some l: the named store is loadable (every entry a regular file ...) and holds exactly l *)
Definition xexpected (i : xinput) : option (list cert) :=
  if store_has_other (xi_root i) (xi_ty i) (xi_name i) then None else expected (erase_input i).

(* the property oracle over the larger alphabet, on observations only *)
Definition xspec_ok (i : xinput) (o : obs) : bool :=
  match xexpected i, o with
  | Some l, OOk ids => same_ids ids (map ct_id l) && negb (Nat.eqb (List.length ids) 0)
  | None, OErr _ _ _ => true
  | _, _ => false
  end.

(* footprints as in C13_Model.fp *)
Definition xfp (i : xinput) (o : obs) : N :=
  if xspec_ok i o then 0%N else
  match xexpected i, o with
  | None, OOk _ => 1
  | Some _, OErr _ _ _ => 2
  | Some _, OOk _ => 3
  | None, OErr _ _ _ => 0
  end%N.

Lemma Forall_good_no_other tsa es :
  Forall (xentry_good tsa) es <-> has_other es = false /\ Forall (xentry_read_good tsa) es.
Proof.
  split.
  - intros F. split.
    + destruct (has_other es) eqn:H; [|reflexivity]. apply has_other_In in H. destruct H as (nm & c & Hin).
      rewrite Forall_forall in F. destruct (F _ Hin) as (cs & E & _). discriminate.
    + rewrite Forall_forall in *. intros e He. destruct (F e He) as (cs & E & N & Fc). exists cs. auto.
  - intros [H F]. rewrite Forall_forall in *. intros e He. destruct (F e He) as (cs & [E|E] & N & Fc).
    + exists cs. auto.
    + exfalso. assert (T : has_other es = true).
      { apply has_other_In. destruct e as [nm n]. cbn [snd] in E. subst n. eauto. }
      congruence.
Qed.

Lemma certs_read_no_other es : has_other es = false -> flat_map xcerts_read_of_entry es = flat_map xcerts_of_entry es.
Proof.
  induction es as [|[k m] es IH]; [reflexivity|]. unfold has_other. cbn [existsb snd flat_map].
  intros H. apply orb_false_iff in H. destruct H as [Hm Hes]. rewrite (IH Hes). f_equal.
  destruct m as [[|cs]|?|?|?]; try reflexivity. discriminate.
Qed.

Lemma xexpected_spec i l :
  xexpected i = Some l <-> xloadable (xi_root i) (xi_ty i) (xi_name i) l.
Proof.
  unfold xexpected, xloadable, store_has_other. split.
  - destruct (xlstat (xi_root i) (store_path (xi_ty i) (xi_name i))) as [| |[c|es|t|c]] eqn:E;
      try (intros H; apply expected_spec in H; destruct H as (_ & _ & es' & E' & _);
           cbn [erase_input i_root i_ty i_name] in E'; apply lstat_erase_dir in E'; destruct E' as (es0 & E0 & _); congruence).
    destruct (has_other es) eqn:O; [discriminate|].
    intros H. apply expected_spec in H. destruct H as (Ht & Hn & es' & E' & F & L & N).
    cbn [erase_input i_root i_ty i_name] in *. apply lstat_erase_dir in E'. destruct E' as (es0 & E0 & ->).
    rewrite E in E0. inversion E0; subst es0. split; [exact Ht|]. split; [exact Hn|].
    exists es. split; [reflexivity|]. split; [apply Forall_good_no_other; split; [exact O | now apply Forall_erase]|].
    split; [|exact N]. now rewrite L, certs_erase, certs_read_no_other.
  - intros (Ht & Hn & es & E & F & L & N). rewrite E.
    apply Forall_good_no_other in F. destruct F as [O F]. rewrite O.
    apply expected_spec. cbn [erase_input i_root i_ty i_name]. split; [exact Ht|]. split; [exact Hn|].
    exists (erase_entries es). split; [apply lstat_erase_dir; eauto|]. split; [now apply Forall_erase|].
    split; [|exact N]. now rewrite L, certs_erase, certs_read_no_other.
Qed.

Lemma xmodel_xspec_ok i : xspec_ok i (xmodel i) = true.
Proof.
  unfold xspec_ok, xmodel.
  destruct (xget_certificates (xi_root i) (xi_ty i) (xi_name i)) as [l|c k e] eqn:E; cbn [obs_of].
  - apply xget_iff in E. pose proof E as (_ & _ & _ & _ & _ & _ & N).
    apply xexpected_spec in E. rewrite E. rewrite same_ids_refl. cbn [andb].
    destruct l; [congruence | reflexivity].
  - destruct (xexpected i) as [l|] eqn:X; [|reflexivity].
    apply xexpected_spec in X. apply xget_iff in X. congruence.
Qed.

(* ---------- the caller's context (GetCertificates' first parameter) ----------
   The code of today ignores ctx. The property leaves room for an implementation that honours
   it, but only in one way: a context that is done may turn the call into a FAILURE AS A WHOLE;
   it may never change what a successful call returns (a scan given up half-way must not hand
   out the certificates collected so far). [ctx_done_at] = Some n: the context reports done
   from its n-th poll on (0 = already cancelled); None: never. How often an implementation
   polls is not fixed, so the model is a relation: the result of the context-free model, or
   (when the context can be done) a failure. *)
Definition ctx_res_allowed (i : input) (ctx_done_at : option N) (r : res) : Prop :=
  r = load i \/ (ctx_done_at <> None /\ exists c k e, r = Failed c k e).

Definition is_oerr (o : obs) : bool := match o with OErr _ _ _ => true | OOk _ => false end.
Definition ctx_can_be_done (c : option N) : bool := match c with Some _ => true | None => false end.

(* correspondence for a call with a scripted context *)
Definition cagree (i : input) (ctx_done_at : option N) (o : obs) : bool :=
  obs_eqb (model i) o || (ctx_can_be_done ctx_done_at && is_oerr o).

(* the property oracle with a context: everything (when loadable) or an error; an error for a
   loadable store only when the context can be done; a proper subset never *)
Definition cspec_ok (i : input) (ctx_done_at : option N) (o : obs) : bool :=
  match expected i, o with
  | Some l, OOk ids => same_ids ids (map ct_id l) && negb (Nat.eqb (List.length ids) 0)
  | None, OErr _ _ _ => true
  | Some _, OErr _ _ _ => ctx_can_be_done ctx_done_at
  | None, OOk _ => false
  end.

Definition cfp (i : input) (ctx_done_at : option N) (o : obs) : N :=
  if cspec_ok i ctx_done_at o then 0%N else fp i o.

Record ccase := mk_ccase { cc_id : N; cc_in : input; cc_ctx : option N; cc_obs : obs }.

Lemma cspec_ok_none i o : cspec_ok i None o = spec_ok i o.
Proof. unfold cspec_ok, spec_ok. destruct (expected i), o; reflexivity. Qed.

Lemma cagree_none i o : cagree i None o = obs_eqb (model i) o.
Proof. unfold cagree. cbn [ctx_can_be_done andb]. apply orb_false_r. Qed.

Lemma obs_eqb_eq a b : obs_eqb a b = true -> a = b.
Proof.
  destruct a as [x|c k e], b as [y|c' k' e']; cbn [obs_eqb]; try discriminate.
  - intros H. f_equal. revert y H. induction x as [|a x IH]; intros [|b y]; cbn [list_eqb]; try discriminate.
    + reflexivity.
    + intros H. apply andb_true_iff in H. destruct H as [H1 H2]. apply N.eqb_eq in H1. subst.
      f_equal. now apply IH.
  - intros H. apply andb_true_iff in H. destruct H as [H H3]. apply andb_true_iff in H. destruct H as [H1 H2].
    apply String.eqb_eq in H3. subst.
    destruct c, c'; try discriminate; destruct k, k'; try discriminate; reflexivity.
Qed.

(* every behaviour the model allows satisfies the oracle *)
Lemma cagree_cspec_ok i c o : cagree i c o = true -> cspec_ok i c o = true.
Proof.
  unfold cagree. intros H. apply orb_true_iff in H. destruct H as [H|H].
  - apply obs_eqb_eq in H. subst o. pose proof (model_spec_ok i eq_refl) as M.
    rewrite <- cspec_ok_none in M. unfold cspec_ok in *.
    destruct (expected i), (model i); try assumption; try discriminate; reflexivity.
  - apply andb_true_iff in H. destruct H as [Hc Ho]. unfold cspec_ok.
    destruct o; [discriminate|]. destruct (expected i); [exact Hc | reflexivity].
Qed.

(* the oracle accepts returned certificates only for a loadable store and only as the full set *)
Lemma cspec_ok_ok i c ids :
  cspec_ok i c (OOk ids) = true ->
  exists l, loadable (i_root i) (i_ty i) (i_name i) l /\ same_ids ids (map ct_id l) = true /\ ids <> [].
Proof.
  unfold cspec_ok. destruct (expected i) as [l|] eqn:E; [|discriminate].
  intros H. apply andb_true_iff in H. destruct H as [H1 H2]. exists l.
  split; [now apply expected_spec|]. split; [exact H1|]. destruct ids; [discriminate | discriminate].
Qed.

Lemma cspec_ok_err_loadable i c cl k e l :
  loadable (i_root i) (i_ty i) (i_name i) l -> cspec_ok i c (OErr cl k e) = true -> c <> None.
Proof.
  intros L. apply expected_spec in L. unfold cspec_ok. rewrite L. destruct c; [discriminate | discriminate].
Qed.

(* all or nothing for every result the relation allows *)
Lemma ctx_all_or_nothing i c r :
  ctx_res_allowed i c r ->
  match r with
  | Loaded l => loadable (i_root i) (i_ty i) (i_name i) l
  | Failed _ _ _ => c <> None \/ forall l, ~ loadable (i_root i) (i_ty i) (i_name i) l
  end.
Proof.
  intros [->|[Hc (cl & k & e & ->)]].
  - destruct (load i) as [l|cl k e] eqn:E; [now apply load_iff|].
    right. intros l L. apply load_iff in L. congruence.
  - left. exact Hc.
Qed.

Inductive gcase := GB (c : case) | GX (c : xcase) | GC (c : ccase).

Definition gid (g : gcase) : N := match g with GB c => c_id c | GX c => xc_id c | GC c => cc_id c end.
Definition gagree (g : gcase) : bool :=
  match g with
  | GB c => obs_eqb (model (c_in c)) (c_obs c)
  | GX c => obs_eqb (xmodel (xc_in c)) (xc_obs c)
  | GC c => cagree (cc_in c) (cc_ctx c) (cc_obs c)
  end.
Definition gok (g : gcase) : bool :=
  match g with
  | GB c => negb (wf (c_in c)) || spec_ok (c_in c) (c_obs c)
  | GX c => xspec_ok (xc_in c) (xc_obs c)
  | GC c => cspec_ok (cc_in c) (cc_ctx c) (cc_obs c)
  end.
Definition gfp (g : gcase) : N :=
  match g with
  | GB c => fp (c_in c) (c_obs c)
  | GX c => xfp (xc_in c) (xc_obs c)
  | GC c => cfp (cc_in c) (cc_ctx c) (cc_obs c)
  end.

Definition grun (cs : list gcase) : list (N * N * N) := run_cases gid gagree gok gfp cs.

(* on base cases grun is run *)
Lemma grun_base cs : grun (map GB cs) = run cs.
Proof.
  unfold grun, run, run_cases. induction cs as [|c cs IH]; [reflexivity|].
  cbn [map flat_map]. now rewrite IH.
Qed.
