(* C07_Audit.v — statements added by the theorem audit (docs/audit/C07.md):
   unconditional ("for every input whatsoever") soundness of what verification
   reports, the signing agent, non-vacuity over the whole grid key spec x format
   x signer kind x {OCI, blob}, satisfiability of the codec hypotheses. *)
From NV Require Import Base Generated C07_Model C07_Proofs.
From Coq Require Import Lia.
Open Scope string_scope.
Open Scope list_scope.

(* ---------- verification reports what is in the signed payload: ALL inputs ---------- *)

Lemma add_meta_some : forall d m d', add_meta d m = Some d' ->
  d_mt d' = d_mt d /\ d_digest d' = d_digest d /\ d_size d' = d_size d.
Proof.
  intros d m d' H. unfold add_meta in H. destruct (existsb _ m); [discriminate|].
  inversion H; subst. repeat split.
Qed.

Definition reported (i : input) (o : obs) (p : descr) : Prop :=
  o_meta o = Some (d_anns p) /\ submap (i_vmeta i) (d_anns p) = true /\
  match i_vtarget i with
  | TOCI vd => o_ret o = Some vd /\ content_equal p vd = true
  | TBlob vb vmt vok =>
      o_ret o = Some p /\ b_readerr vb = false /\
      exists an, o_vhash o = Some an /\ verifier_algorithms (alg_hash (match o_env o with Some s => s_alg s | None => A0 end)) = Some an /\
                 d_digest p = blob_digest vb an /\ d_size p = b_size vb /\ (vmt = "" \/ vmt = d_mt p)
  end.

(* No hypothesis on the input: whenever the model's verification succeeds, the
   signer is trusted, the envelope carries a payload [p], the metadata read
   back is exactly the annotations of [p], the demanded metadata is part of
   them, and: OCI - the returned descriptor is the resolved one and has the
   content [p] names; blob - the returned descriptor IS [p], and [p] names the
   digest of the presented blob under the algorithm bound to the signature
   algorithm, its size and (if given) its media type. *)
Lemma verify_reports_payload : forall i s,
  o_env (model i) = Some s -> o_verify (model i) = 0%N ->
  i_trusted i = true /\ exists p, s_payload s = Some p /\ reported i (model i) p.
Proof.
  intros i s. unfold model, model_with, pipeline.
  destruct (r_env descr _) as [e|]; cbn [o_env o_verify o_meta o_ret o_vhash]; [|discriminate].
  intros Hs. inversion Hs; subst s. clear Hs. unfold reported. cbn [o_env o_verify o_meta o_ret o_vhash].
  unfold view at 1 2. cbn [s_payload s_alg].
  unfold verify. destruct (i_vtarget i) as [vd|vb vmt vok].
  - unfold verify_oci, user_metadata.
    destruct (i_trusted i); cbn [negb]; [|cbn; discriminate].
    destruct (dec_descr (e_payload descr e)) as [p|] eqn:D; [|cbn; discriminate].
    rewrite final_code_cases.
    destruct (content_equal p vd) eqn:C; destruct (submap (i_vmeta i) (d_anns p)) eqn:S; cbn; try discriminate.
    intros _. split; [reflexivity|]. exists p. repeat split; assumption.
  - unfold verify_blob, user_metadata.
    destruct (negb (vmt =? "") && negb vok); [cbn; discriminate|].
    destruct (negb _); [cbn; discriminate|].
    destruct (i_trusted i); cbn [negb]; [|cbn; discriminate].
    destruct (dec_descr (e_payload descr e)) as [p|] eqn:D; [|cbn; discriminate].
    destruct (verifier_algorithms (alg_hash (e_alg descr e))) as [an|] eqn:Hv; [|cbn; discriminate].
    destruct (b_readerr vb) eqn:Hr; [cbn; discriminate|].
    destruct (blob_descriptor vb vmt (i_vmeta i) an) as [desc|] eqn:Hb; [|cbn; discriminate].
    unfold blob_descriptor in Hb. apply add_meta_some in Hb. cbn [d_mt d_digest d_size] in Hb.
    destruct Hb as (E1 & E2 & E3). rewrite E1, E2, E3. rewrite final_code_cases.
    destruct (String.eqb (blob_digest vb an) (d_digest p)) eqn:Q1; cbn [negb orb andb]; [|destruct (submap _ _); cbn; discriminate].
    destruct (b_size vb =? d_size p)%Z eqn:Q2; cbn [negb orb andb]; [|destruct (submap _ _); cbn; discriminate].
    destruct (submap (i_vmeta i) (d_anns p)) eqn:S.
    2:{ destruct (negb (vmt =? "") && negb (String.eqb vmt (d_mt p))); cbn; discriminate. }
    destruct (vmt =? "") eqn:Q3; cbn [negb orb andb].
    + cbn. intros _. split; [reflexivity|]. exists p. repeat split; try assumption.
      exists an. apply String.eqb_eq in Q1, Q3. apply Z.eqb_eq in Q2. repeat split; auto.
    + destruct (String.eqb vmt (d_mt p)) eqn:Q4; cbn; [|discriminate].
      intros _. split; [reflexivity|]. exists p. repeat split; try assumption.
      exists an. apply String.eqb_eq in Q1, Q4. apply Z.eqb_eq in Q2. repeat split; auto.
Qed.

(* ... and nothing is returned when verification does not succeed: ALL inputs *)
Lemma verify_failure_returns_nothing : forall i,
  o_verify (model i) <> 0%N -> o_ret (model i) = None /\ o_meta (model i) = None.
Proof.
  intros i. unfold model, model_with, pipeline.
  destruct (r_env descr _) as [e|]; cbn [o_verify o_meta o_ret]; [|split; reflexivity].
  unfold verify. destruct (i_vtarget i) as [vd|vb vmt vok].
  - unfold verify_oci.
    destruct (negb (i_trusted i)); [split; reflexivity|].
    destruct (dec_descr (e_payload descr e)) as [p|]; [|split; reflexivity].
    destruct (final_code _ _ _); cbn; [congruence|split; reflexivity..].
  - unfold verify_blob.
    destruct (negb (vmt =? "") && negb vok); [split; reflexivity|].
    destruct (negb _); [split; reflexivity|].
    destruct (negb (i_trusted i)); [split; reflexivity|].
    destruct (dec_descr (e_payload descr e)) as [p|]; [|split; reflexivity].
    destruct (verifier_algorithms _) as [an|]; [|split; reflexivity].
    destruct (b_readerr vb); [split; reflexivity|].
    destruct (blob_descriptor vb vmt (i_vmeta i) an) as [desc|]; [|split; reflexivity].
    destruct (final_code _ _ _); cbn; [congruence|split; reflexivity..].
Qed.

(* nothing is verified that was not signed: ALL inputs *)
Lemma no_signature_no_verification : forall i,
  o_sign (model i) <> 0%N -> o_env (model i) = None /\ o_verify (model i) = 7%N /\ o_ret (model i) = None /\ o_meta (model i) = None.
Proof.
  intros i. unfold model, model_with, pipeline.
  destruct (r_env descr _) as [e|] eqn:E; cbn [o_sign o_env o_verify o_ret o_meta]; [|repeat split].
  intros H. exfalso. apply H. clear H.
  (* an envelope is produced only together with the result 0 *)
  revert E. unfold sign.
  destruct (negb (validate_sign_args _ _)); [discriminate|].
  destruct (i_target i) as [d|b mt ok].
  - destruct (add_meta d (i_meta i)) as [desc|]; [|discriminate].
    unfold signer_sign. destruct (i_signer i) as [|cs ce ds].
    + destruct (generic_sign _ _ _ _ _ _ _ _ _ _ _); [reflexivity|discriminate].
    + destruct cs.
      * destruct (decode_keyspec ds) as [ks|]; [|discriminate]. unfold plugin_generate.
        destruct (core_sign _ _ _ _ _ _ _ _); [|discriminate].
        destruct (encode_keyspec ks), (hash_from_keyspec ks); try discriminate.
        destruct (generic_sign _ _ _ _ _ _ _ _ _ _ _); [reflexivity|discriminate].
      * destruct ce; [|discriminate].
        destruct (plugin_envelope _ _ _ _ _ _ _ _ _ _ _ _) as [secs [e'|]]; [reflexivity|discriminate].
  - destruct ((mt =? "") || negb ok); [discriminate|].
    unfold signer_sign_blob. destruct (i_signer i) as [|cs ce ds].
    + destruct (signer_algorithms _) as [an|]; [|discriminate].
      destruct (b_readerr b); [discriminate|].
      destruct (blob_descriptor b mt (i_meta i) an) as [desc|]; [|discriminate].
      destruct (generic_sign _ _ _ _ _ _ _ _ _ _ _); [reflexivity|discriminate].
    + destruct (decode_keyspec ds) as [ks|]; [|discriminate].
      destruct (signer_algorithms _) as [an|]; [|discriminate].
      destruct (b_readerr b); [discriminate|].
      destruct (blob_descriptor b mt (i_meta i) an) as [desc|]; [|discriminate].
      destruct cs.
      * unfold plugin_generate.
        destruct (core_sign _ _ _ _ _ _ _ _); [|discriminate].
        destruct (encode_keyspec ks), (hash_from_keyspec ks); try discriminate.
        destruct (generic_sign _ _ _ _ _ _ _ _ _ _ _); [reflexivity|discriminate].
      * destruct ce; [|discriminate].
        destruct (plugin_envelope _ _ _ _ _ _ _ _ _ _ _ _) as [secs [e'|]]; [reflexivity|discriminate].
Qed.

(* ---------- the signing agent ---------- *)

Lemma agent_in_envelope : forall i kn a hn an,
  wf i = true -> spec_row (i_ks i) spec_table = Some (kn, a, hn, an) ->
  exists s, o_env (model i) = Some s /\
    s_agent s = match i_signer i with
                | Local => if i_agent i =? "" then c_agent0 (i_consts i) else i_agent i
                | Plug true _ _ => (c_agent0 (i_consts i) ++ " " ++ c_pname (i_consts i) ++ "/" ++ c_pver (i_consts i))%string
                | Plug false _ _ => c_penv_agent (i_consts i)
                end.
Proof.
  intros i kn a hn an Hwf Hrow.
  pose proof (model_closed true i kn a hn an Hwf Hrow) as C. cbv zeta in C.
  unfold model. rewrite C. cbn [o_env]. exists (exp_sobs i a an). split; reflexivity.
Qed.

(* ---------- non-vacuity over the whole grid ---------- *)

Definition grid_signers (kn : string) : list signer := [Local; Plug true false kn; Plug false true kn; Plug true true kn].
Definition grid_formats : list string := [mt_jws; mt_cose].

Definition grid_oci (k : keyspec) (fmt : string) (sg : signer) : input :=
  mk_input (TOCI (ex_desc 528)) sg k fmt [("buildId", "42")] (3600 * second) "agent/1"
           1700000000123456789 ex_consts true (TOCI (ex_desc 528)) [("buildId", "42")].

Definition grid_blob (k : keyspec) (fmt : string) (sg : signer) : input :=
  mk_input (TBlob ex_blob_b "text/plain" true) sg k fmt [("releasedBy", "me")] 0
           "" 1700000000999999999 ex_consts true (TBlob ex_blob_b "text/plain" true) [("releasedBy", "me")].

Definition grid_ok (i : input) : bool :=
  wf i && (o_sign (model i) =? 0)%N && (o_verify (model i) =? 0)%N
  && match o_meta (model i) with Some m => amap_eqb m (target_anns (i_target i) ++ i_meta i) | None => false end.

Definition grid_all : bool :=
  forallb (fun row => let '(k, (kn, _, _, _)) := row in
    forallb (fun fmt => forallb (fun sg => grid_ok (grid_oci k fmt sg) && grid_ok (grid_blob k fmt sg)) (grid_signers kn))
            grid_formats) spec_table.

Lemma grid_all_true : grid_all = true.
Proof. vm_compute. reflexivity. Qed.

Lemma grid_nonvacuous : forall k kn a hn an fmt sg,
  In (k, (kn, a, hn, an)) spec_table -> In fmt grid_formats -> In sg (grid_signers kn) ->
  grid_ok (grid_oci k fmt sg) = true /\ grid_ok (grid_blob k fmt sg) = true.
Proof.
  intros k kn a hn an fmt sg Hk Hf Hs.
  unfold spec_table in Hk. cbn [In] in Hk.
  repeat (destruct Hk as [Hk|Hk]; [inversion Hk; subst; clear Hk|]); try contradiction;
    cbn [In grid_formats grid_signers] in Hf, Hs;
    repeat (destruct Hf as [Hf|Hf]; [subst fmt|]); try contradiction;
    repeat (destruct Hs as [Hs|Hs]; [subst sg|]); try contradiction;
    split; vm_compute; reflexivity.
Qed.

(* a request the property does NOT promise success for (hypothesis of
   negative_rejected): the untrusted twin of the example *)
Definition ex_untrusted : input :=
  mk_input (TOCI (ex_desc 528)) Local (mk_ks KRSA 3072) mt_cose [("buildId", "42")] (3600 * second) ""
           1700000000123456789 ex_consts false (TOCI (ex_desc 528)) [].

Lemma example_negative :
  wf ex_untrusted = true /\ positive ex_untrusted (expected_signed ex_untrusted "sha384") "sha384" = false /\
  o_sign (model ex_untrusted) = 0%N /\ o_verify (model ex_untrusted) = 1%N /\ o_ret (model ex_untrusted) = None.
Proof. repeat split; vm_compute; reflexivity. Qed.

(* ---------- the hypotheses of any_codec_spec_ok are satisfiable ---------- *)

Lemma codec_hypotheses_satisfiable :
  (forall d, in_int64 (d_size d) -> dec_descr ((fun d => d) d) = Some (json_rt d)) /\
  (forall d : descr, (fun _ : descr => ["targetArtifact"]) d = ["targetArtifact"]) /\
  (forall d, present_keys ((fun d => d) d) = present_keys d) /\
  (forall d, c_recode ((fun d => d) d) = (fun d => d) (set_size d (jws_number (d_size d)))).
Proof. repeat split. exact concrete_rt. Qed.
