(* C08_Model.v — model of the selection of the trust policy statement that applies
   to an artifact. Definitions only. Mirrors
     verifier/trustpolicy/oci.go   getArtifactPathFromReference, validateRegistryScopeFormat,
                                   OCIDocument.GetApplicableTrustPolicy, OCITrustPolicy.clone
     verifier/trustpolicy/blob.go  BlobDocument.GetApplicableTrustPolicy, GetGlobalTrustPolicy,
                                   BlobTrustPolicy.clone
     verifier/trustpolicy/trustpolicy.go  SignatureVerification.clone (after fix 355ef9e)
     verifier/verifier.go          SkipVerify / Verify / VerifyBlob: selection, error wrapping,
                                   dispatch on TrustPolicyName == "" (lines 244-247, 272-279, 358-361)
   Two layers:
     value level  (v_select)  which statement is chosen, as a function of the statement values;
     heap level   (h_select)  the same loops over a heap of Go objects (statement structs,
                              backing arrays of []string, maps), with clone() allocating
                              fresh objects — this is where "private copy" lives.
   The correspondence model [model] is the heap-level one; C08_Proofs shows that it
   refines the value level. *)
From NV Require Import Base Regex Generated.
Open Scope string_scope.

(* ------------------------------------------------------------------ *)
(* statements as values                                                *)

Record sigver := mk_sv { sv_level : string; sv_override : amap; sv_vts : string }.

(* one record for both document kinds: an OCI statement has s_global = false,
   a blob statement has s_scopes = [] *)
Record stmt := mk_stmt {
  s_name : string; s_scopes : list string; s_sv : sigver;
  s_stores : list string; s_ids : list string; s_global : bool }.

(* trustpolicy.Wildcard (not in Generated.v) *)
Definition wildcard : string := "*".

(* ------------------------------------------------------------------ *)
(* getArtifactPathFromReference                                        *)

(* artifactReference[:strings.LastIndex(artifactReference, "@")]; None when there is no '@' *)
Fixpoint last_at (s : string) : option string :=
  match s with
  | EmptyString => None
  | String a s' =>
      match last_at s' with
      | Some p => Some (String a p)
      | None => if Ascii.eqb a "@" then Some EmptyString else None
      end
  end.

Definition longer_than_1 (s : string) : bool :=
  match s with String _ (String _ _) => true | _ => false end.

(* validateRegistryScopeFormat(scope) == nil *)
Definition scope_ok (scope : string) : bool :=
  if longer_than_1 scope && contains_byte "*" scope then false
  else match cut_byte "/" scope with
       | None => false
       | Some (dom, repo) =>
           negb (String.eqb dom "") && negb (String.eqb repo "")
           && matches gen_re_domain dom && matches gen_re_repository repo
       end.

(* ------------------------------------------------------------------ *)
(* strings.TrimSpace(s) == "" : s consists of white-space runes only
   (ASCII \t \n \v \f \r space; U+0085 U+00A0; U+1680 U+2000..U+200A U+2028 U+2029
   U+202F U+205F U+3000, in UTF-8). Anything else, including invalid UTF-8, is
   not white space. *)
Definition is_ascii_space (c : N) : bool :=
  ((9 <=? c) && (c <=? 13))%N || (c =? 32)%N.

Fixpoint blank_b (l : list N) : bool :=
  match l with
  | [] => true
  | c :: t =>
      if is_ascii_space c then blank_b t
      else match t with
           | x :: t' =>
               if (c =? 194)%N then ((x =? 133) || (x =? 160))%N && blank_b t'
               else match t' with
                    | y :: t'' =>
                        if (c =? 225)%N then (x =? 154)%N && (y =? 128)%N && blank_b t''
                        else if (c =? 226)%N then
                          (((x =? 128)%N && (((128 <=? y) && (y <=? 138))%N || (y =? 168)%N || (y =? 169)%N || (y =? 175)%N))
                           || ((x =? 129)%N && (y =? 159)%N)) && blank_b t''
                        else if (c =? 227)%N then (x =? 128)%N && (y =? 128)%N && blank_b t''
                        else false
                    | [] => false
                    end
           | [] => false
           end
  end.

Definition blank (s : string) : bool := blank_b (bytes s).

(* ------------------------------------------------------------------ *)
(* value level                                                         *)

Inductive query :=
| QOci (ref : string)      (* OCIDocument.GetApplicableTrustPolicy(ref) *)
| QName (name : string)    (* BlobDocument.GetApplicableTrustPolicy(name) *)
| QGlobal.                 (* BlobDocument.GetGlobalTrustPolicy() *)

(* error classes (stable tokens of the messages):
   1 reference has no '@'           2 registry/repository part is not a valid scope
   3 no applicable OCI statement    4 blank policy name
   5 no blob statement of that name 6 no global blob statement *)
Inductive res := RSel (s : stmt) | RErr (e : N).

Definition has_scope (p : string) (s : stmt) : bool := mem_str p (s_scopes s).

(* one iteration of the loop of OCIDocument.GetApplicableTrustPolicy:
   state = (wildcardPolicy, applicablePolicy) *)
Definition oci_step (path : string) (st : option stmt * option stmt) (s : stmt)
  : option stmt * option stmt :=
  if has_scope wildcard s then (Some s, snd st)
  else if has_scope path s then (fst st, Some s)
  else st.

Definition oci_pick {A} (st : option A * option A) : option A :=
  match snd st with
  | Some a => Some a                (* exact match takes precedence *)
  | None => fst st
  end.

Definition v_oci (d : list stmt) (ref : string) : res :=
  match last_at ref with
  | None => RErr 1
  | Some path =>
      if negb (scope_ok path) then RErr 2
      else match oci_pick (fold_left (oci_step path) d (None, None)) with
           | Some s => RSel s
           | None => RErr 3
           end
  end.

Definition name_is (n : string) (s : stmt) : bool := String.eqb (s_name s) n.

Definition v_name (d : list stmt) (n : string) : res :=
  if blank n then RErr 4
  else match find (name_is n) d with      (* first match returns *)
       | Some s => RSel s
       | None => RErr 5
       end.

Definition v_global (d : list stmt) : res :=
  match find s_global d with
  | Some s => RSel s
  | None => RErr 6
  end.

Definition v_select (d : list stmt) (q : query) : res :=
  match q with
  | QOci ref => v_oci d ref
  | QName n => v_name d n
  | QGlobal => v_global d
  end.

(* ------------------------------------------------------------------ *)
(* heap level                                                          *)

Definition oid := nat.     (* index into the heap; heaps here have a few dozen objects *)

Inductive obj :=
| OArr (l : list string)                         (* backing array of a []string *)
| OMap (m : amap)                                (* a Go map *)
| OStmt (name : string) (scopes : option oid)    (* a statement struct; None = nil slice / nil map *)
        (level : string) (ovr : option oid) (vts : string)
        (stores ids : option oid) (global : bool).

Definition heap := list obj.

Definition alloc (h : heap) (o : obj) : heap * oid := ((h ++ [o])%list, List.length h).

Fixpoint upd {A} (l : list A) (k : nat) (x : A) : list A :=
  match l, k with
  | [], _ => []
  | _ :: t, O => x :: t
  | y :: t, S k' => y :: upd t k' x
  end.

Definition get_arr (h : heap) (r : option oid) : list string :=
  match r with
  | None => []
  | Some o => match nth_error h o with Some (OArr l) => l | _ => [] end
  end.

Definition get_map (h : heap) (r : option oid) : amap :=
  match r with
  | None => []
  | Some o => match nth_error h o with Some (OMap m) => m | _ => [] end
  end.

Definition dummy_stmt : stmt := mk_stmt "" [] (mk_sv "" [] "") [] [] false.

(* the value of the statement stored at [sid] (nil and empty are the same value) *)
Definition view (h : heap) (sid : oid) : stmt :=
  match nth_error h sid with
  | Some (OStmt n sc lv ov vts st ids g) =>
      mk_stmt n (get_arr h sc) (mk_sv lv (get_map h ov) vts) (get_arr h st) (get_arr h ids) g
  | _ => dummy_stmt
  end.

(* append([]string(nil), xs...) : nil for an empty xs, else a fresh backing array *)
Definition clone_arr (h : heap) (r : option oid) : heap * option oid :=
  match get_arr h r with
  | [] => (h, None)
  | l => let '(h', o) := alloc h (OArr l) in (h', Some o)
  end.

(* SignatureVerification.clone: a non-nil override map is copied into a fresh map
   ([deep] = true, the code after fix 355ef9e); [deep] = false is the code before
   the fix, which copied the struct by value and so shared the map *)
Definition clone_map (deep : bool) (h : heap) (r : option oid) : heap * option oid :=
  match r with
  | None => (h, None)
  | Some o =>
      if deep then let '(h', o') := alloc h (OMap (get_map h r)) in (h', Some o')
      else (h, Some o)
  end.

(* OCITrustPolicy.clone / BlobTrustPolicy.clone (field order of the composite literal:
   Name, SignatureVerification, TrustedIdentities, TrustStores, RegistryScopes|GlobalPolicy) *)
Definition h_clone (deep : bool) (h : heap) (sid : oid) : heap * oid :=
  match nth_error h sid with
  | Some (OStmt n sc lv ov vts st ids g) =>
      let '(h1, ov') := clone_map deep h ov in
      let '(h2, ids') := clone_arr h1 ids in
      let '(h3, st') := clone_arr h2 st in
      let '(h4, sc') := clone_arr h3 sc in
      alloc h4 (OStmt n sc' lv ov' vts st' ids' g)
  | _ => alloc h (OStmt "" None "" None "" None None false)
  end.

Inductive hres := HSel (p : oid) | HErr (e : N).

(* loop state: heap, wildcardPolicy, applicablePolicy (pointers to clones) *)
Definition h_oci_step (deep : bool) (path : string)
           (st : heap * (option oid * option oid)) (sid : oid)
  : heap * (option oid * option oid) :=
  let '(h, wa) := st in
  let s := view h sid in
  if has_scope wildcard s then
    let '(h', p) := h_clone deep h sid in (h', (Some p, snd wa))
  else if has_scope path s then
    let '(h', p) := h_clone deep h sid in (h', (fst wa, Some p))
  else st.

Definition h_oci (deep : bool) (h : heap) (doc : list oid) (ref : string) : heap * hres :=
  match last_at ref with
  | None => (h, HErr 1)
  | Some path =>
      if negb (scope_ok path) then (h, HErr 2)
      else let '(h', wa) := fold_left (h_oci_step deep path) doc (h, (None, None)) in
           match oci_pick wa with
           | Some p => (h', HSel p)
           | None => (h', HErr 3)
           end
  end.

Fixpoint h_find (f : stmt -> bool) (h : heap) (doc : list oid) : option oid :=
  match doc with
  | [] => None
  | sid :: doc' => if f (view h sid) then Some sid else h_find f h doc'
  end.

Definition h_name (deep : bool) (h : heap) (doc : list oid) (n : string) : heap * hres :=
  if blank n then (h, HErr 4)
  else match h_find (name_is n) h doc with
       | Some sid => let '(h', p) := h_clone deep h sid in (h', HSel p)
       | None => (h, HErr 5)
       end.

Definition h_global (deep : bool) (h : heap) (doc : list oid) : heap * hres :=
  match h_find s_global h doc with
  | Some sid => let '(h', p) := h_clone deep h sid in (h', HSel p)
  | None => (h, HErr 6)
  end.

Definition h_select (deep : bool) (h : heap) (doc : list oid) (q : query) : heap * hres :=
  match q with
  | QOci ref => h_oci deep h doc ref
  | QName n => h_name deep h doc n
  | QGlobal => h_global deep h doc
  end.

Definition res_view (hr : heap * hres) : res :=
  match snd hr with
  | HSel p => RSel (view (fst hr) p)
  | HErr e => RErr e
  end.

(* ---- what a caller can do with the statement it was handed ---- *)

Inductive fld := FScopes | FStores | FIds.

Inductive wr :=
| WName (v : string) | WLevel (v : string) | WVts (v : string) | WGlobal (b : bool)
| WElem (f : fld) (i : nat) (v : string)      (* p.f[i] = v   (skipped when i >= len) *)
| WFill (f : fld) (v : string)                (* for i := range p.f { p.f[i] = v } *)
| WAppend (f : fld) (v : string)              (* p.f = append(p.f, v) *)
| WMapSet (k v : string)                      (* p.Override[k] = v (a nil map is first replaced by a new one) *)
| WMapDel (k : string)                        (* delete(p.Override, k) *)
| WMapFill (v : string).                      (* for k := range p.Override { p.Override[k] = v } *)

Definition fld_of (f : fld) (o : obj) : option oid :=
  match o with
  | OStmt _ sc _ _ _ st ids _ => match f with FScopes => sc | FStores => st | FIds => ids end
  | _ => None
  end.

Definition set_fld (f : fld) (r : option oid) (o : obj) : obj :=
  match o with
  | OStmt n sc lv ov vts st ids g =>
      match f with
      | FScopes => OStmt n r lv ov vts st ids g
      | FStores => OStmt n sc lv ov vts r ids g
      | FIds => OStmt n sc lv ov vts st r g
      end
  | _ => o
  end.

Definition ovr_of (o : obj) : option oid :=
  match o with OStmt _ _ _ ov _ _ _ _ => ov | _ => None end.

(* an in-place write into the backing array / map an object field points to *)
Definition wr_arr (h : heap) (r : option oid) (g : list string -> list string) : heap :=
  match r with
  | Some a => match nth_error h a with Some (OArr l) => upd h a (OArr (g l)) | _ => h end
  | None => h
  end.

Definition wr_map (h : heap) (r : option oid) (g : amap -> amap) : heap :=
  match r with
  | Some a => match nth_error h a with Some (OMap m) => upd h a (OMap (g m)) | _ => h end
  | None => h
  end.

(* Appending through a slice whose capacity exceeds its length writes behind the
   length of every other slice header onto the same array, so it is never visible
   through the document; it is modelled as a new array. *)
Definition apply_wr (p : oid) (h : heap) (w : wr) : heap :=
  match nth_error h p with
  | Some (OStmt n sc lv ov vts st ids g as so) =>
      match w with
      | WName v => upd h p (OStmt v sc lv ov vts st ids g)
      | WLevel v => upd h p (OStmt n sc v ov vts st ids g)
      | WVts v => upd h p (OStmt n sc lv ov v st ids g)
      | WGlobal b => upd h p (OStmt n sc lv ov vts st ids b)
      | WElem f i v => wr_arr h (fld_of f so) (fun l => upd l i v)
      | WFill f v => wr_arr h (fld_of f so) (map (fun _ => v))
      | WAppend f v =>
          let '(h', a) := alloc h (OArr (get_arr h (fld_of f so) ++ [v])%list) in
          upd h' p (set_fld f (Some a) so)
      | WMapSet k v =>
          match ov with
          | Some _ => wr_map h ov (set_key k v)
          | None => let '(h', a) := alloc h (OMap [(k, v)]) in
                    upd h' p (OStmt n sc lv (Some a) vts st ids g)
          end
      | WMapDel k => wr_map h ov (remove_key k)
      | WMapFill v => wr_map h ov (map (fun kv => (fst kv, v)))
      end
  | _ => h
  end.

Definition apply_ws (p : oid) (h : heap) (ws : list wr) : heap := fold_left (apply_wr p) ws h.

(* "change everything reachable": every element of every slice, every override
   entry plus a new one, the scalar fields, then grow every slice *)
Definition wall (v : string) : list wr :=
  [WFill FScopes v; WFill FStores v; WFill FIds v; WMapFill v; WMapSet "revocation" v; WMapSet v v;
   WName v; WLevel v; WVts v; WAppend FScopes v; WAppend FStores v; WAppend FIds v].

(* ---- objects reachable from a statement struct ---- *)
Definition olist (r : option oid) : list oid := match r with Some o => [o] | None => [] end.

Definition ptr_fields (o : obj) : list oid :=
  match o with
  | OStmt _ sc _ ov _ st ids _ => (olist sc ++ olist ov ++ olist st ++ olist ids)%list
  | _ => []
  end.

Definition reach (h : heap) (p : oid) : list oid :=
  p :: match nth_error h p with Some o => ptr_fields o | None => [] end.

(* ---- a caller's whole session with one document: any number of selections,
   interleaved with writes through any of the statements handed out so far ---- *)
Inductive op :=
| OSel (q : query)              (* select; the pointer received is remembered *)
| OWr (k : nat) (w : wr).       (* write through the k-th pointer received so far *)

Fixpoint session (deep : bool) (doc : list oid) (h : heap) (ptrs : list oid) (ops : list op)
  : list res * heap :=
  match ops with
  | [] => ([], h)
  | OSel q :: ops' =>
      let hr := h_select deep h doc q in
      let ptrs' := match snd hr with HSel p => (ptrs ++ [p])%list | HErr _ => ptrs end in
      let '(rs, hf) := session deep doc (fst hr) ptrs' ops' in
      (res_view hr :: rs, hf)
  | OWr k w :: ops' =>
      match nth_error ptrs k with
      | Some p => session deep doc (apply_wr p h w) ptrs ops'
      | None => session deep doc h ptrs ops'
      end
  end.

Fixpoint sel_queries (ops : list op) : list query :=
  match ops with
  | [] => []
  | OSel q :: ops' => q :: sel_queries ops'
  | OWr _ _ :: ops' => sel_queries ops'
  end.

(* ---- a document value laid out on a heap, every slice and map its own object ---- *)

(* [rep] = how an EMPTY slice / map of the document is represented in memory:
   false = nil, true = empty but non-nil ([]string{}, map[...]...{}): an object of its own.
   Both are the same value; clone() treats them differently (a non-nil empty map is
   copied into a fresh map, append([]string(nil), empty...) is nil). *)
Definition load_arr (rep : bool) (h : heap) (l : list string) : heap * option oid :=
  match l with
  | [] => if rep then let '(h', o) := alloc h (OArr []) in (h', Some o) else (h, None)
  | _ => let '(h', o) := alloc h (OArr l) in (h', Some o)
  end.

Definition load_map (rep : bool) (h : heap) (m : amap) : heap * option oid :=
  match m with
  | [] => if rep then let '(h', o) := alloc h (OMap []) in (h', Some o) else (h, None)
  | _ => let '(h', o) := alloc h (OMap m) in (h', Some o)
  end.

Definition load_stmt (rep : bool) (h : heap) (s : stmt) : heap * oid :=
  let '(h1, sc) := load_arr rep h (s_scopes s) in
  let '(h2, ov) := load_map rep h1 (sv_override (s_sv s)) in
  let '(h3, st) := load_arr rep h2 (s_stores s) in
  let '(h4, ids) := load_arr rep h3 (s_ids s) in
  alloc h4 (OStmt (s_name s) sc (sv_level (s_sv s)) ov (sv_vts (s_sv s)) st ids (s_global s)).

Fixpoint load_doc (rep : bool) (h : heap) (d : list stmt) : heap * list oid :=
  match d with
  | [] => (h, [])
  | s :: d' =>
      let '(h1, sid) := load_stmt rep h s in
      let '(h2, doc) := load_doc rep h1 d' in
      (h2, sid :: doc)
  end.

(* ------------------------------------------------------------------ *)
(* verifier level: what SkipVerify / Verify / VerifyBlob do with the selection *)

(* which statement the verifier used is observed through the first trust store of
   type "ca" it asks the injected trust store for (x509 signing scheme) *)
Fixpoint first_ca (stores : list string) : option string :=
  match stores with
  | [] => None
  | x :: t => if has_prefix "ca:" x then Some (drop 3 x) else first_ca t
  end.

Inductive vres :=
| VNA                            (* not observed *)
| VNoPolicy                      (* notation.ErrorNoApplicableTrustPolicy *)
| VSkip                          (* level skip: outcome without error, nothing consulted *)
| VUsed (ca : option string)     (* proceeded with the statement: first "ca" store consulted *)
| VOther.                        (* any other error before a statement was used *)

(* VerifyBlob: TrustPolicyName == "" selects the global statement *)
Definition ver_query (q : query) : query :=
  match q with
  | QName n => if String.eqb n "" then QGlobal else q
  | _ => q
  end.

Definition is_skip (s : stmt) : bool := String.eqb (sv_level (s_sv s)) "skip".

Definition ver_of (r : res) : vres :=
  match r with
  | RErr _ => VNoPolicy
  | RSel s => if is_skip s then VSkip else VUsed (first_ca (s_stores s))
  end.

(* SkipVerify (OCI only): 0 = ErrorNoApplicableTrustPolicy, 1 = skip, 2 = do not skip,
   3 = another error, 9 = not observed *)
Definition skipverify_of (r : res) : N :=
  match r with
  | RErr _ => 0
  | RSel s => if is_skip s then 1 else 2
  end.

(* ------------------------------------------------------------------ *)
(* cases                                                               *)

Record input := mk_input {
  i_doc : list stmt;       (* the document, in the order of its statements *)
  i_accepted : bool;       (* oracle: the real Validate() accepted this document *)
  i_q1 : query;            (* first selection *)
  i_ws : list wr;          (* what the caller then does to the statement it received *)
  i_q2 : query;            (* a later selection on the same document *)
  i_ver : bool;            (* the verifier level was observed too (needs an accepted document) *)
  i_rep : bool }.          (* empty slices / maps of the document are non-nil (see load_arr) *)

Record obs := mk_obs {
  o_r1 : res;              (* first selection, before the caller touches it *)
  o_r2 : res;              (* later selection *)
  o_same : bool;           (* the document is deeply equal to a pristine instance at the end *)
  o_sv : N;                (* SkipVerify on q1 (9 when not observed) *)
  o_ver : vres }.          (* Verify / VerifyBlob on q1 *)

(* ---------- boolean equalities (maps compared as maps: by look-up) ---------- *)
Definition amap_eqb (a b : amap) : bool :=
  forallb (fun k => opt_eqb String.eqb (lookup k a) (lookup k b)) (map fst a ++ map fst b)%list.

Definition sigver_eqb (a b : sigver) : bool :=
  String.eqb (sv_level a) (sv_level b) && amap_eqb (sv_override a) (sv_override b)
  && String.eqb (sv_vts a) (sv_vts b).

Definition stmt_eqb (a b : stmt) : bool :=
  String.eqb (s_name a) (s_name b) && list_eqb String.eqb (s_scopes a) (s_scopes b)
  && sigver_eqb (s_sv a) (s_sv b) && list_eqb String.eqb (s_stores a) (s_stores b)
  && list_eqb String.eqb (s_ids a) (s_ids b) && Bool.eqb (s_global a) (s_global b).

Definition res_eqb (a b : res) : bool :=
  match a, b with
  | RSel s, RSel t => stmt_eqb s t
  | RErr e, RErr f => (e =? f)%N
  | _, _ => false
  end.

Definition vres_eqb (a b : vres) : bool :=
  match a, b with
  | VNA, VNA | VNoPolicy, VNoPolicy | VSkip, VSkip | VOther, VOther => true
  | VUsed x, VUsed y => opt_eqb String.eqb x y
  | _, _ => false
  end.

Definition obs_eqb (a b : obs) : bool :=
  res_eqb (o_r1 a) (o_r1 b) && res_eqb (o_r2 a) (o_r2 b) && Bool.eqb (o_same a) (o_same b)
  && (o_sv a =? o_sv b)%N && vres_eqb (o_ver a) (o_ver b).

(* ---------- the model run by the correspondence check ---------- *)
Definition is_oci (q : query) : bool := match q with QOci _ => true | _ => false end.

Definition model (i : input) : obs :=
  let '(h0, doc) := load_doc (i_rep i) [] (i_doc i) in
  (* first selection, then the caller's writes through the pointer it received *)
  let hr1 := h_select true h0 doc (i_q1 i) in
  let h2 := match snd hr1 with
            | HSel p => apply_ws p (fst hr1) (i_ws i)
            | HErr _ => fst hr1
            end in
  (* a later selection on the same document object *)
  let hr2 := h_select true h2 doc (i_q2 i) in
  (* the verifier works on its own instance of the document *)
  let rv := res_view (h_select true h0 doc (ver_query (i_q1 i))) in
  mk_obs (res_view hr1) (res_view hr2)
         (list_eqb stmt_eqb (map (view (fst hr2)) doc) (i_doc i))
         (if i_ver i && is_oci (i_q1 i) then skipverify_of rv else 9%N)
         (if i_ver i then ver_of rv else VNA).

(* ------------------------------------------------------------------ *)
(* validity facts of a document used by the property (C09 owns validation; these
   are consequences of OCIDocument.Validate / BlobDocument.Validate)            *)
Fixpoint nodupb (l : list string) : bool :=
  match l with
  | [] => true
  | x :: t => negb (mem_str x t) && nodupb t
  end.

Definition scopes_unique (d : list stmt) : bool := nodupb (List.concat (map s_scopes d)).
Definition names_unique (d : list stmt) : bool := nodupb (map s_name d).
Definition global_unique (d : list stmt) : bool :=
  match filter s_global d with [] | [_] => true | _ => false end.

(* a statement that uses the wildcard scope uses nothing else *)
Definition wildcard_alone (d : list stmt) : bool :=
  forallb (fun s => negb (mem_str wildcard (s_scopes s))
                    || list_eqb String.eqb (s_scopes s) [wildcard]) d.

Definition valid_doc (d : list stmt) : bool :=
  scopes_unique d && names_unique d && global_unique d && wildcard_alone d.

Definition wf (i : input) : bool := valid_doc (i_doc i).

(* ------------------------------------------------------------------ *)
(* the property oracle, on observations only (it does not call [model] or the
   selection loops; it is insensitive to the order of the statements)           *)

(* every way of reading ref as before ++ "@" ++ after *)
Fixpoint at_splits (s : string) : list (string * string) :=
  match s with
  | EmptyString => []
  | String a s' =>
      ((if Ascii.eqb a "@" then [(EmptyString, s')] else [])
       ++ map (fun pq => (String a (fst pq), snd pq)) (at_splits s'))%list
  end.

(* the registry/repository of registry/repository@digest: the digest has no '@' *)
Definition ref_path (ref : string) : option string :=
  match filter (fun pq => negb (contains_byte "@" (snd pq))) (at_splits ref) with
  | pq :: _ => Some (fst pq)
  | [] => None
  end.

Definition is_err (r : res) : bool := match r with RErr _ => true | RSel _ => false end.

(* r hands out (a copy of) a statement of d that satisfies f *)
Definition res_in (f : stmt -> bool) (d : list stmt) (r : res) : bool :=
  match r with
  | RSel s => f s && existsb (stmt_eqb s) d
  | RErr _ => false
  end.

Definition sel_ok (d : list stmt) (q : query) (r : res) : bool :=
  match q with
  | QOci ref =>
      match ref_path ref with
      | None => is_err r
      | Some p =>
          if negb (scope_ok p) then is_err r
          else if existsb (has_scope p) d then res_in (has_scope p) d r
          else if existsb (has_scope wildcard) d then res_in (has_scope wildcard) d r
          else is_err r
      end
  | QName n =>
      if blank n then is_err r
      else if existsb (name_is n) d then res_in (name_is n) d r
      else is_err r
  | QGlobal =>
      if existsb s_global d then res_in s_global d r else is_err r
  end.

(* some statement of d that is a legitimate answer to q and satisfies f *)
Definition legit (d : list stmt) (q : query) (f : stmt -> bool) : bool :=
  existsb (fun s => sel_ok d q (RSel s) && f s) d.

Definition ver_ok (d : list stmt) (q : query) (sv : N) (v : vres) : bool :=
  let q' := ver_query q in
  (match v with
   | VNA => true
   | VNoPolicy => sel_ok d q' (RErr 0)
   | VSkip => legit d q' is_skip
   | VUsed ca => legit d q' (fun s => negb (is_skip s) && opt_eqb String.eqb (first_ca (s_stores s)) ca)
   | VOther => false
   end)
  && (if (sv =? 9)%N then true
      else if (sv =? 0)%N then sel_ok d q' (RErr 0)
      else if (sv =? 1)%N then legit d q' is_skip
      else if (sv =? 2)%N then legit d q' (fun s => negb (is_skip s))
      else false).

Definition spec_ok (i : input) (o : obs) : bool :=
  sel_ok (i_doc i) (i_q1 i) (o_r1 o)          (* the statement scoped to the artifact / named *)
  && sel_ok (i_doc i) (i_q2 i) (o_r2 o)       (* ... also after the caller changed what it got *)
  && o_same o                                 (* ... and the document itself is untouched *)
  && ver_ok (i_doc i) (i_q1 i) (o_sv o) (o_ver o)
  && (negb (i_ver i) || negb (vres_eqb (o_ver o) VNA)).

(* ---------- cases ---------- *)
Record case := mk_case { c_id : N; c_in : input; c_obs : obs }.

(* agreement also checks that a document the real Validate() accepted has the
   validity facts the theorems assume *)
Definition run (cs : list case) : list (N * N * N) :=
  run_cases c_id
    (fun c => obs_eqb (model (c_in c)) (c_obs c)
              && (negb (i_accepted (c_in c)) || valid_doc (i_doc (c_in c))))
    (fun c => negb (wf (c_in c)) || spec_ok (c_in c) (c_obs c))
    (fun _ => 0%N) cs.
