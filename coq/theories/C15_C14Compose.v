(* C15_C14Compose.v — the CRL cache of C15 on top of the shared directory of C14.

   C15_Model runs FileCache.Get / Set one after the other (Set is one atomic
   [aset]).  C14_Model is the directory shared by any number of concurrent
   writers (file.WriteFile as called by Set) and readers (os.ReadFile in Get),
   with crashes anywhere.  This file puts the continuation of FileCache.Get
   after os.ReadFile (json.Unmarshal, x509.ParseRevocationList, checkExpiry:
   [get_entry] of C15_Model) on top of a completed read of C14 and proves what
   a Get can answer under EVERY interleaving.  No new model: only definitions of
   C14_Model and C15_Model are used. *)
From Coq Require Import List String ZArith Ascii.
From NV Require Import Base C15_Model C15_Proofs.
From NV Require C14_Model C14_Proofs.
Import ListNotations.
Open Scope string_scope.

Module M14 := C14_Model.

Section Compose.
  Variable sha14 : string -> list N.
  Variable enc : bool -> string -> option string -> string.
  Variable dec : string -> option (string * option string).
  Variable parse : string -> crlfact.

  (* FileCache.Get after os.ReadFile returned: a missing file is ErrCacheMiss,
     content goes through json.Unmarshal and then [get_entry] *)
  Definition cget (r : M14.rres) (t : Z) : res :=
    match r with
    | M14.Miss => RMiss 0
    | M14.Hit c =>
        match dec (M14.str_of c) with
        | None => RErr 2
        | Some (b, d) => get_entry parse b d t
        end
    end.

  (* the view that C15's sequential [get] has of one regular file *)
  Definition view (n : option node) : option M14.rres :=
    match n with
    | None => Some M14.Miss
    | Some None => None
    | Some (Some c) => Some (M14.Hit (M14.dat_of c))
    end.

  Lemma str_dat : forall s, M14.str_of (M14.dat_of s) = s.
  Proof. intros s. unfold M14.str_of, M14.dat_of. apply string_of_list_ascii_of_string. Qed.

  (* [cget] is the Get of C15_Model on the file that was read *)
  Lemma cget_is_get : forall sha (f : fs) u t r,
    view (alookup (file_name sha u) f) = Some r ->
    get sha dec parse f u t = cget r t.
  Proof.
    intros sha f u t r V. unfold get. destruct (alookup (file_name sha u) f) as [[c|]|]; cbn in V.
    - inversion V; subst r. cbn [cget]. rewrite str_dat. reflexivity.
    - discriminate.
    - inversion V; subst r. reflexivity.
  Qed.

  (* get_entry never reports the decoding error *)
  Lemma get_entry_not_decode_error : forall b d t, get_entry parse b d t <> RErr 2.
  Proof.
    intros b d t. unfold get_entry, check_expiry.
    destruct (parse b) as [|rb nb]; [discriminate|].
    destruct d as [dd|].
    - destruct (parse dd) as [|rd nd]; [discriminate|].
      destruct nb as [n|]; [|discriminate]. destruct (t >? n)%Z; [discriminate|].
      destruct nd as [m|]; [|discriminate]. destruct (t >? m)%Z; discriminate.
    - destruct nb as [n|]; [|discriminate]. destruct (t >? n)%Z; discriminate.
  Qed.

  (* every writer stores the encoding of a bundle that encoding/json reads back *)
  Definition sets_only (tr : list M14.event) : Prop :=
    forall w u c tt, In (M14.ECreate w u c tt) tr ->
      exists e b d, c = M14.dat_of (enc e b d) /\ dec (enc e b d) = Some (b, norm d).

  Theorem get_concurrent : forall tr s,
    forallb M14.safe tr = true -> M14.exec sha14 M14.init tr = Some s -> sets_only tr ->
    forall r rr res t, M14.getN r (M14.s_r s) = Some rr -> M14.r_st rr = M14.RDone res ->
      cget res t = RMiss 0 \/
      exists w u e b d tt,
        In (M14.ECreate w u (M14.dat_of (enc e b d)) tt) tr /\ In (M14.ERename w) tr /\
        M14.key sha14 u = M14.key sha14 (M14.r_url rr) /\
        cget res t = get_entry parse b (norm d) t.
  Proof.
    intros tr s S H En r rr res t G R.
    destruct (C14_Proofs.read_thm sha14 _ _ S H _ _ _ G R) as [_ [Hm|[w [wr [tt [Gw [E [K [Ic Ir]]]]]]]]].
    - left. subst res. reflexivity.
    - right. destruct (En _ _ _ _ Ic) as [e [b [d [Ec Ed]]]].
      exists w, (M14.w_url wr), e, b, d, tt. rewrite <- Ec.
      split; [exact Ic|]. split; [exact Ir|]. split; [exact K|].
      subst res. cbn [cget]. rewrite Ec, str_dat, Ed. reflexivity.
  Qed.

  (* never a decoding error: no Get sees a half-written or mixed entry *)
  Theorem get_concurrent_decodes : forall tr s,
    forallb M14.safe tr = true -> M14.exec sha14 M14.init tr = Some s -> sets_only tr ->
    forall r rr res t, M14.getN r (M14.s_r s) = Some rr -> M14.r_st rr = M14.RDone res ->
      cget res t <> RErr 2.
  Proof.
    intros tr s S H En r rr res t G R.
    destruct (get_concurrent _ _ S H En _ _ _ t G R) as [E|[w [u [e [b [d [tt [_ [_ [_ E]]]]]]]]]];
      rewrite E; [discriminate|apply get_entry_not_decode_error].
  Qed.

  (* a bundle answered under any interleaving is the Raw of base and delta of a
     bundle that some Set stored and renamed for a URL with the same key, and
     both were fresh at the time of the call *)
  Theorem get_concurrent_hit : forall tr s,
    forallb M14.safe tr = true -> M14.exec sha14 M14.init tr = Some s -> sets_only tr ->
    forall r rr res t b' d', M14.getN r (M14.s_r s) = Some rr -> M14.r_st rr = M14.RDone res ->
      cget res t = RHit b' d' ->
      exists w u e b d tt,
        In (M14.ECreate w u (M14.dat_of (enc e b d)) tt) tr /\ In (M14.ERename w) tr /\
        M14.key sha14 u = M14.key sha14 (M14.r_url rr) /\
        (exists nb, parse b = POk b' (Some nb) /\ (t <= nb)%Z) /\
        match norm d with
        | None => d' = None
        | Some dd => exists rd nd, d' = Some rd /\ parse dd = POk rd (Some nd) /\ (t <= nd)%Z
        end.
  Proof.
    intros tr s S H En r rr res t b' d' G R Hh.
    destruct (get_concurrent _ _ S H En _ _ _ t G R) as [E|[w [u [e [b [d [tt [Ic [Ir [K E]]]]]]]]]].
    - rewrite E in Hh. discriminate.
    - exists w, u, e, b, d, tt. split; [exact Ic|]. split; [exact Ir|]. split; [exact K|].
      rewrite E in Hh. apply (hit_iff parse) in Hh. exact Hh.
  Qed.
  (* a Get that opens the key after the rename of a Set for that key does not miss:
     it answers what the sequential model answers for the bundle of that Set or of
     one that renamed later (before the open) *)
  Theorem get_concurrent_fresh : forall tr1 tr2 tr3 w r u s,
    let tr := (tr1 ++ M14.ERename w :: tr2 ++ M14.EOpen r u :: tr3)%list in
    forallb M14.safe tr = true -> M14.exec sha14 M14.init tr = Some s -> sets_only tr ->
    forall wr, M14.getN w (M14.s_w s) = Some wr -> M14.key sha14 (M14.w_url wr) = M14.key sha14 u ->
    forall rr res t, M14.getN r (M14.s_r s) = Some rr -> M14.r_st rr = M14.RDone res ->
      exists w' wr' e b d,
        M14.getN w' (M14.s_w s) = Some wr' /\ (w' = w \/ In (M14.ERename w') tr2) /\
        M14.key sha14 (M14.w_url wr') = M14.key sha14 u /\
        M14.w_content wr' = M14.dat_of (enc e b d) /\
        cget res t = get_entry parse b (norm d) t /\ cget res t <> RMiss 0.
  Proof.
    intros tr1 tr2 tr3 w r u s tr S H En wr Gw K rr res t Gr R.
    destruct (C14_Proofs.fresh_thm sha14 _ _ _ _ _ _ _ S H _ Gw K _ _ Gr R)
      as [w' [wr' [G' [_ [E [K' O]]]]]].
    destruct (C14_Proofs.read_thm sha14 _ _ S H _ _ _ Gr R)
      as [_ [Hm|[w1 [wr1 [tt [G1 [E1 [K1 [Ic Ir]]]]]]]]].
    - rewrite Hm in E. discriminate.
    - destruct (En _ _ _ _ Ic) as [e [b [d [Ec Ed]]]].
      assert (C : M14.w_content wr' = M14.w_content wr1).
      { rewrite E in E1. inversion E1. reflexivity. }
      assert (Q : cget res t = get_entry parse b (norm d) t).
      { rewrite E. cbn [cget]. rewrite C, Ec, str_dat, Ed. reflexivity. }
      exists w', wr', e, b, d. split; [exact G'|]. split; [exact O|]. split; [exact K'|].
      split; [rewrite C; exact Ec|]. split; [exact Q|].
      rewrite Q. unfold get_entry, check_expiry.
      destruct (parse b) as [|rb nb]; [discriminate|].
      destruct (norm d) as [dd|].
      + destruct (parse dd) as [|rd nd]; [discriminate|].
        destruct nb as [n|]; [|discriminate]. destruct (t >? n)%Z; [discriminate|].
        destruct nd as [m|]; [|discriminate]. destruct (t >? m)%Z; discriminate.
      + destruct nb as [n|]; [|discriminate]. destruct (t >? n)%Z; discriminate.
  Qed.
End Compose.

(* non-vacuity: a run with two writers for one URL and a reader between their
   renames; the reader ends with the complete first entry *)
Definition ex_enc (e : bool) (b : string) (d : option string) : string := b.
Definition ex_dec (c : string) : option (string * option string) := Some (c, None).
Definition ex_parse (x : string) : crlfact := POk x (Some 10%Z).
Definition ex_sha : string -> list N := fun _ => [171%N].
Definition ex_tr : list M14.event :=
  [M14.ECreate 0 "u" (M14.dat_of "AAAA") (M14.tmp_prefix ++ "1" ++ M14.tmp_suffix);
   M14.EWrite 0 3; M14.EWrite 0 1; M14.EClose 0;
   M14.ECreate 1 "u" (M14.dat_of "BBBBBB") (M14.tmp_prefix ++ "22" ++ M14.tmp_suffix); M14.EWrite 1 2;
   M14.ERename 0; M14.EOpen 7 "u"; M14.ERead 7 2; M14.EWrite 1 4; M14.EClose 1; M14.ERename 1;
   M14.ERead 7 9; M14.EEof 7].

Lemma ex_sets_only : sets_only ex_enc ex_dec ex_tr.
Proof.
  intros w u c tt Hin. unfold ex_tr in Hin. cbn [In] in Hin.
  repeat (destruct Hin as [Hin|Hin]; [try discriminate Hin|]); try contradiction.
  - inversion Hin; subst. exists false, "AAAA", None. split; reflexivity.
  - inversion Hin; subst. exists false, "BBBBBB", None. split; reflexivity.
Qed.

Lemma ex_run :
  forallb M14.safe ex_tr = true /\
  exists s rr, M14.exec ex_sha M14.init ex_tr = Some s /\ M14.getN 7%N (M14.s_r s) = Some rr /\
    M14.r_st rr = M14.RDone (M14.Hit (M14.dat_of "AAAA")) /\
    cget ex_dec ex_parse (M14.Hit (M14.dat_of "AAAA")) 5 = RHit "AAAA" None /\
    cget ex_dec ex_parse (M14.Hit (M14.dat_of "AAAA")) 11 = RMiss 1.
Proof.
  split; [vm_compute; reflexivity|].
  destruct (M14.exec ex_sha M14.init ex_tr) as [s|] eqn:E; [|vm_compute in E; discriminate].
  destruct (M14.getN 7%N (M14.s_r s)) as [rr|] eqn:G.
  - exists s, rr. split; [reflexivity|]. split; [exact G|].
    vm_compute in E. inversion E; subst s. vm_compute in G. inversion G; subst rr.
    split; [vm_compute; reflexivity|]. split; vm_compute; reflexivity.
  - vm_compute in E. inversion E; subst s. vm_compute in G. discriminate.
Qed.
