(* C02_GenProofs.v — property C02: the proofs behind props/C02_Generated.v.

   theories/C02_Gen.v holds the GoLite translations (docs/GOLITE.md) of the function bodies of
   /repo listed in harness/cmd/vh-gen/targets_c02.go; it is regenerated from the sources on every
   run of bin/check. This file proves, for ALL inputs of each generated function, that it equals
   the hand-written model function that plays the same role (C02_Levels, VerifyCore,
   C02_Versions), or characterises it directly. Calls that leave /repo's own logic (x/mod/semver,
   notation-core-go, the trust store, the revocation validator, the plugin) are oracles: Section
   variables of C02_Gen.v, hypotheses "the oracle answers like the model of it" here.

   Part 1: isCriticalFailure, GetVerificationLevel, IsValid, isRequiredVerificationPluginVer,
           checkRevocationResults + revocationFinalResult.                                        *)
From Coq Require Import List Bool String Ascii NArith ZArith Lia.
From NV Require Import Base Regex Generated C02_Levels VerifyCore C02_Model C02_Core C02_Proofs
                       C20_Semver C02_Versions.
(* GoLib last: its [err], [is_none], [is_some] are the ones the generated code uses
   (the model's error classes are [VerifyCore.err]) *)
From NV Require Import GoLib C02_Gen.
Import ListNotations.
Local Open Scope string_scope.
Local Open Scope list_scope.

(* ---------- small tools (as in props/C09_Generated.v) ---------- *)

Ltac case_const c x :=
  let E := fresh "E" in
  destruct (String.eqb c x) eqn:E; [apply String.eqb_eq in E; subst x|].

Ltac ground_eqb :=
  repeat match goal with
  | |- context [String.eqb ?a ?b] =>
      let v := eval vm_compute in (String.eqb a b) in
      match v with
      | true => change (String.eqb a b) with true
      | false => change (String.eqb a b) with false
      end
  end; cbn [negb orb andb].

Lemma eqb_sym_false a b : String.eqb a b = false -> String.eqb b a = false.
Proof. rewrite String.eqb_sym. auto. Qed.

Ltac use_neq :=
  repeat match goal with
  | H : String.eqb ?c ?x = false |- context [String.eqb ?x ?c] => rewrite (eqb_sym_false _ _ H)
  end; cbn [orb negb].

(* ====================================================================== *)
(* 1. isCriticalFailure                                                   *)
(* ====================================================================== *)

(* how the model reads a reported result: its action through [parse_action] (processSignature only
   ever compares an action with "enforce" and "skip"), failed = its Error is not nil *)
Definition vr_action (r : notation_go_ValidationResult) : action := parse_action (ValidationResult_Action r).
Definition vr_failed (r : notation_go_ValidationResult) : bool := negb (is_none (ValidationResult_Error r)).

Lemma gen_isCriticalFailure_equiv r :
  gen_verifier_isCriticalFailure r = is_critical_failure (vr_action r) (vr_failed r).
Proof.
  unfold gen_verifier_isCriticalFailure, is_critical_failure, vr_action, vr_failed, parse_action.
  destruct (ValidationResult_Error r), (String.eqb (ValidationResult_Action r) "enforce"),
           (String.eqb (ValidationResult_Action r) "skip"); reflexivity.
Qed.

Lemma gen_isCriticalFailure_iff r :
  gen_verifier_isCriticalFailure r = true
  <-> ValidationResult_Action r = "enforce" /\ ValidationResult_Error r <> None.
Proof.
  rewrite gen_isCriticalFailure_equiv.
  unfold is_critical_failure, vr_action, vr_failed, parse_action.
  destruct (String.eqb_spec (ValidationResult_Action r) "enforce") as [E|E].
  - destruct (ValidationResult_Error r); cbn; intuition congruence.
  - destruct (String.eqb (ValidationResult_Action r) "skip"); intuition congruence.
Qed.

(* logVerificationResult has no effect the translation keeps: it is the unit value *)
Lemma gen_logVerificationResult_unit r : gen_verifier_logVerificationResult r = tt.
Proof. destruct (gen_verifier_logVerificationResult r). reflexivity. Qed.

(* ====================================================================== *)
(* 2. GetVerificationLevel                                                *)
(* ====================================================================== *)

Definition lerr_table : list (string * level_error) :=
  [("signature verification level is empty or missing", ErrEmptyLevel);
   ("invalid signature verification level", ErrUnknownLevel);
   ("can't be used to customize signature verification", ErrSkipCustom);
   ("verification type %q in custom signature verification is not supported", ErrUnknownType);
   ("verification action %q in custom signature verification is not supported", ErrUnknownAction);
   ("can not be overridden in custom signature verification", ErrIntegrityOverride);
   ("can not be skipped in custom signature verification", ErrSkipNotRevocation)].

Fixpoint lerr_classify (t : list (string * level_error)) (f : string) : option level_error :=
  match t with
  | [] => None
  | (p, c) :: t' => if str_contains p f then Some c else lerr_classify t' f
  end.

(* which error of the model an error value of the code is: by its format string *)
Definition lerr_of (e : GoLib.err) : option level_error := lerr_classify lerr_table (err_fmt e).

Definition sv_lvl := SignatureVerification_VerificationLevel.
(* the override as the map it denotes: every key once, first binding *)
Definition sv_ov (sv : trustpolicy_SignatureVerification) : amap :=
  map_entries String.eqb (SignatureVerification_Override sv).

(* a returned level against the model's (name, enforcement): equal as maps *)
Definition level_rel (p : ptr trustpolicy_VerificationLevel) (name : string) (enf : amap) : Prop :=
  exists l, ptr_val p = Some l /\ VerificationLevel_Name l = name
            /\ forall k, map_get String.eqb k (VerificationLevel_Enforcement l) = lookup k enf.

Lemma map_set_rel (m : amap) enf k v :
  (forall x, map_get String.eqb x m = lookup x enf) ->
  forall x, map_get String.eqb x (map_set String.eqb k v m) = lookup x (set_key k v enf).
Proof.
  intros H x. rewrite map_get_set by apply string_eqb_spec'.
  unfold set_key. cbn [lookup]. destruct (String.eqb x k) eqn:E; [reflexivity|].
  rewrite H. clear H. induction enf as [|[k' v'] enf IH]; cbn; [reflexivity|].
  destruct (String.eqb k k') eqn:E2.
  - apply String.eqb_eq in E2. subst k'. rewrite E. exact IH.
  - cbn. destruct (String.eqb x k'); [reflexivity|exact IH].
Qed.

Lemma search_loop3 K value l : forall d,
  gen_trustpolicy_SignatureVerification_GetVerificationLevel_loop3 K value l d
  = K (if existsb (fun a => String.eqb a value) l then value else d).
Proof.
  induction l as [|a l IH]; intros d; [reflexivity|].
  cbn [gen_trustpolicy_SignatureVerification_GetVerificationLevel_loop3 existsb].
  destruct (String.eqb a value) eqn:E; [apply String.eqb_eq in E; subst a; reflexivity|]. apply IH.
Qed.

Lemma search_loop4 K key l : forall d,
  gen_trustpolicy_SignatureVerification_GetVerificationLevel_loop4 K key l d
  = K (if existsb (fun a => String.eqb a key) l then key else d).
Proof.
  induction l as [|a l IH]; intros d; [reflexivity|].
  cbn [gen_trustpolicy_SignatureVerification_GetVerificationLevel_loop4 existsb].
  destruct (String.eqb a key) eqn:E; [apply String.eqb_eq in E; subst a; reflexivity|]. apply IH.
Qed.

Definition copy_entry (c : trustpolicy_VerificationLevel) (kv : string * string) : trustpolicy_VerificationLevel :=
  set_VerificationLevel_Enforcement (map_set String.eqb (fst kv) (snd kv) (VerificationLevel_Enforcement c)) c.

Lemma copy_loop5 K l : forall c,
  gen_trustpolicy_SignatureVerification_GetVerificationLevel_loop5 K l c = K (fold_left copy_entry l c).
Proof. induction l as [|kv l IH]; intros c; [reflexivity|]. cbn. apply IH. Qed.

Lemma override_loop2 K : forall es c enf,
  VerificationLevel_Name c = "custom" ->
  (forall k, map_get String.eqb k (VerificationLevel_Enforcement c) = lookup k enf) ->
  match apply_overrides enf es with
  | inl e => exists x, gen_trustpolicy_SignatureVerification_GetVerificationLevel_loop2 K es c = Some (PNil, Some x)
                       /\ lerr_of x = Some e
  | inr enf' => exists c', gen_trustpolicy_SignatureVerification_GetVerificationLevel_loop2 K es c = K c'
                           /\ VerificationLevel_Name c' = "custom"
                           /\ forall k, map_get String.eqb k (VerificationLevel_Enforcement c') = lookup k enf'
  end.
Proof.
  induction es as [|[key value] es IH]; intros c enf Hn Hm.
  - cbn. eexists; split; [reflexivity|]. split; assumption.
  - cbn [apply_overrides apply_override gen_trustpolicy_SignatureVerification_GetVerificationLevel_loop2 fst snd].
    rewrite search_loop4.
    unfold mem_str; cbn [gen_validation_types gen_validation_actions trustpolicy_ValidationTypes trustpolicy_ValidationActions existsb].
    case_const "integrity" key; [|case_const "authenticity" key; [|case_const "authenticTimestamp" key; [|case_const "expiry" key; [|case_const "revocation" key]]]];
      ground_eqb.
    6:{ use_neq. eexists; split; [reflexivity|vm_compute; reflexivity]. }
    all: rewrite search_loop3; cbn [existsb trustpolicy_ValidationActions].
    all: (case_const "enforce" value; [|case_const "log" value; [|case_const "skip" value]]; ground_eqb).
    all: use_neq.
    all: try (eexists; split; [reflexivity|vm_compute; reflexivity]).
    all: match goal with |- context [apply_overrides (set_key ?k ?v ?enf) ?es] =>
           specialize (IH (set_VerificationLevel_Enforcement (map_set String.eqb k v (VerificationLevel_Enforcement c)) c)
                          (set_key k v enf) Hn (map_set_rel _ _ k v Hm));
           destruct (apply_overrides (set_key k v enf) es); exact IH
         end.
Qed.

(* the table of levels the generated code searches is the table of Generated.v *)
Lemma gen_levels_pinned :
  map (fun p => match ptr_val p with
                | Some l => (VerificationLevel_Name l, VerificationLevel_Enforcement l)
                | None => ("", [])
                end) trustpolicy_VerificationLevels = gen_levels.
Proof. reflexivity. Qed.

Lemma gen_GetVerificationLevel_equiv :
  forall sv,
    match get_level (sv_lvl sv) (sv_ov sv) with
    | inl e => exists x, gen_trustpolicy_SignatureVerification_GetVerificationLevel sv = Some (PNil, Some x)
                         /\ lerr_of x = Some e
    | inr (name, enf) => exists p, gen_trustpolicy_SignatureVerification_GetVerificationLevel sv = Some (p, None)
                                   /\ level_rel p name enf
    end.
Proof.
  intros [lvl ov ts]. unfold gen_trustpolicy_SignatureVerification_GetVerificationLevel, sv_lvl, sv_ov, get_level.
  cbn [SignatureVerification_VerificationLevel SignatureVerification_Override].
  destruct (String.eqb lvl "") eqn:E0.
  { eexists; split; [reflexivity|vm_compute; reflexivity]. }
  set (sv := mk_SignatureVerification lvl ov ts).
  assert (H1 : gen_trustpolicy_SignatureVerification_GetVerificationLevel_loop1 sv trustpolicy_VerificationLevels PNil
               = gen_trustpolicy_SignatureVerification_GetVerificationLevel_loop1 sv []
                   (if String.eqb "skip" lvl then trustpolicy_LevelSkip
                    else if String.eqb "audit" lvl then trustpolicy_LevelAudit
                    else if String.eqb "permissive" lvl then trustpolicy_LevelPermissive
                    else if String.eqb "strict" lvl then trustpolicy_LevelStrict else PNil)).
  { unfold trustpolicy_VerificationLevels.
    cbn [gen_trustpolicy_SignatureVerification_GetVerificationLevel_loop1 trustpolicy_LevelStrict trustpolicy_LevelPermissive
         trustpolicy_LevelAudit trustpolicy_LevelSkip ptr_val trustpolicy_LevelStrict_v trustpolicy_LevelPermissive_v
         trustpolicy_LevelAudit_v trustpolicy_LevelSkip_v VerificationLevel_Name sv SignatureVerification_VerificationLevel].
    destruct (String.eqb "strict" lvl), (String.eqb "permissive" lvl), (String.eqb "audit" lvl), (String.eqb "skip" lvl); reflexivity. }
  rewrite H1. clear H1.
  cbn [gen_trustpolicy_SignatureVerification_GetVerificationLevel_loop1].
  unfold map_len. subst sv. cbn [SignatureVerification_Override].
  remember (map_entries String.eqb ov) as es eqn:Ees. clear Ees ov.
  case_const "skip" lvl; [|case_const "audit" lvl; [|case_const "permissive" lvl; [|case_const "strict" lvl]]].
  5:{ assert (F : find_level lvl gen_levels = None).
      { cbn [find_level gen_levels]. rewrite E, E1, E2, E3. reflexivity. }
      rewrite F. cbn [ptr_val]. eexists; split; [reflexivity|vm_compute; reflexivity]. }
  all: cbn [find_level gen_levels]; ground_eqb.
  all: cbn [ptr_val trustpolicy_LevelSkip trustpolicy_LevelAudit trustpolicy_LevelPermissive trustpolicy_LevelStrict].
  all: destruct es as [|kv es'];
    [ cbn [List.length Z.of_nat Z.eqb]; eexists; split; [reflexivity|];
      eexists; split; [reflexivity|]; split; [reflexivity|]; intros k; apply map_get_lookup
    | replace (Z.of_nat (List.length (kv :: es')) =? 0)%Z with false
        by (symmetry; apply Z.eqb_neq; cbn [List.length]; lia) ].
  all: cbn [ptr_eqb_glob]; ground_eqb.
  { eexists; split; [reflexivity|vm_compute; reflexivity]. }
  all: rewrite copy_loop5.
  all: match goal with |- context [fold_left copy_entry ?l ?c] =>
         let v := eval vm_compute in (fold_left copy_entry l c) in change (fold_left copy_entry l c) with v
       end.
  all: match goal with |- context [apply_overrides ?base ?es] =>
         match goal with |- context [gen_trustpolicy_SignatureVerification_GetVerificationLevel_loop2 ?K es ?c] =>
           pose proof (override_loop2 K es c base eq_refl) as H8
         end
       end.
  all: match type of H8 with ?A -> _ =>
         assert (Hm : A) by (intros k; cbn [VerificationLevel_Enforcement map_get lookup];
           repeat match goal with |- context [String.eqb k ?s] =>
             let E := fresh "E" in
             destruct (String.eqb k s) eqn:E; [apply String.eqb_eq in E; subst k; ground_eqb; try reflexivity|]
           end; reflexivity);
         specialize (H8 Hm); clear Hm
       end.
  all: match goal with |- context [apply_overrides ?base ?es] => destruct (apply_overrides base es) as [e|enf'] end.
  all: try (destruct H8 as [x [Hx1 Hx2]]; exists x; split; assumption).
  all: destruct H8 as [c' [Hc1 [Hc2 Hc3]]]; eexists; split; [exact Hc1|];
       exists c'; split; [reflexivity|split; assumption].
Qed.

(* the typed view processSignature takes of a level it was handed: Enforcement[t] with the zero
   value "" for a missing key, read through [parse_action] *)
Definition enf_get (l : trustpolicy_VerificationLevel) (t : string) : string :=
  map_get_or String.eqb "" t (VerificationLevel_Enforcement l).
Definition glevel_of (l : trustpolicy_VerificationLevel) : level :=
  mk_level (parse_action (enf_get l "authenticity")) (parse_action (enf_get l "authenticTimestamp"))
           (parse_action (enf_get l "expiry")) (parse_action (enf_get l "revocation")).

Lemma level_rel_level_of p name enf l :
  level_rel p name enf -> ptr_val p = Some l -> glevel_of l = level_of enf /\ VerificationLevel_Name l = name.
Proof.
  intros (l' & P & N & M) E. rewrite P in E. injection E as ->. split; [|exact N].
  unfold glevel_of, level_of, enf_action, enf_get, map_get_or, lookup_default. now rewrite !M.
Qed.

(* transported C02_levels_legal: whatever level the code's GetVerificationLevel returns without
   error for a level name other than "skip" is one of the 24 enforcement maps the property
   quantifies over, and its integrity action is "enforce" *)
Lemma gen_GetVerificationLevel_reachable sv p l :
  gen_trustpolicy_SignatureVerification_GetVerificationLevel sv = Some (p, None) -> ptr_val p = Some l ->
  (sv_lvl sv = "skip" /\ VerificationLevel_Name l = "skip")
  \/ (In (sv_lvl sv) base_names /\ In (glevel_of l) all_24 /\ enf_get l "integrity" = "enforce").
Proof.
  intros G P. pose proof (gen_GetVerificationLevel_equiv sv) as H.
  destruct (get_level (sv_lvl sv) (sv_ov sv)) as [e|[name enf]] eqn:GL.
  - destruct H as (x & Hx & _). rewrite G in Hx. discriminate.
  - destruct H as (p' & Hp & R). rewrite G in Hp. injection Hp as <-.
    destruct (level_rel_level_of _ _ _ _ R P) as [LO NM].
    destruct (levels_legal_thm _ _ _ _ GL) as [[S O]|(B & _ & I & A)].
    + left. split; [exact S|]. rewrite NM. unfold get_level in GL. rewrite S, O in GL.
      cbn in GL. injection GL as <- _. reflexivity.
    + right. split; [exact B|]. rewrite LO. split; [exact A|].
      destruct R as (l' & P' & _ & M). rewrite P in P'. injection P' as <-.
      unfold enf_get, map_get_or. rewrite M. exact I.
Qed.

(* and every legal configuration is accepted by the code (transported C02_levels_complete) *)
Lemma gen_GetVerificationLevel_complete sv :
  In (sv_lvl sv) base_names -> Forall legal_entry (sv_ov sv) ->
  exists p l, gen_trustpolicy_SignatureVerification_GetVerificationLevel sv = Some (p, None) /\ ptr_val p = Some l.
Proof.
  intros B L. destruct (get_level_complete _ _ B L) as (nm & enf & GL).
  pose proof (gen_GetVerificationLevel_equiv sv) as H. rewrite GL in H.
  destruct H as (p & Hp & (l & P & _)). exists p, l. split; assumption.
Qed.

(* ====================================================================== *)
(* 3. versions                                                            *)
(* ====================================================================== *)

Lemma gen_IsValid_equiv s : gen_semver_IsValid s = sv_valid s.
Proof. reflexivity. Qed.

Definition sign_of (z : Z) : comparison := (z ?= 0)%Z.

(* the oracle hypothesis on golang.org/x/mod/semver.Compare, exactly on the arguments
   processSignature can pass: a valid plugin version against a valid minimum version or against
   the empty string (no minimum demanded). [xcompare] is C20's mirror of that function. *)
Definition compare_agrees (gcmp : string -> string -> Z) : Prop :=
  forall v w, sv_valid v = true -> sv_valid w = true \/ w = "" ->
    sign_of (gcmp (String.append "v" v) (String.append "v" w)) = xcompare (bytes v) (bytes w).

(* semver.Compare returns -1, 0 or +1 *)
Definition compare_range (gcmp : string -> string -> Z) : Prop :=
  forall a b, gcmp a b = (-1)%Z \/ gcmp a b = 0%Z \/ gcmp a b = 1%Z.

Lemma gen_isRequired_equiv gcmp : compare_agrees gcmp -> compare_range gcmp ->
  forall v min, sv_valid v = true ->
    match min with VerifyCore.AStr m => sv_valid m = true | AAbsent => True | _ => False end ->
    gen_verifier_isRequiredVerificationPluginVer gcmp v (minver_string min) = ver_ge v min.
Proof.
  intros HA HR v min V M. unfold gen_verifier_isRequiredVerificationPluginVer, ver_ge.
  assert (W : sv_valid (minver_string min) = true \/ minver_string min = "")
    by (destruct min; cbn; try tauto).
  rewrite <- (HA v (minver_string min) V W). unfold sign_of.
  destruct (HR (String.append "v" v) (String.append "v" (minver_string min))) as [E|[E|E]]; rewrite E; reflexivity.
Qed.

(* ====================================================================== *)
(* 4. the shape and the verdict of the revocation validator's answer      *)
(* ====================================================================== *)

Section Rev.
Variable C : Type.
Variable subjs : C -> string.

Definition res_nonnil (p : ptr result_CertRevocationResult) : bool := is_some (ptr_val p).
(* ResultOK = 1, ResultNonRevokable = 2 (constants folded by the translator) *)
Definition res_ok (p : ptr result_CertRevocationResult) : bool :=
  match ptr_val p with
  | Some r => ((CertRevocationResult_Result r =? 1) || (CertRevocationResult_Result r =? 2))%Z
  | None => false
  end.
Lemma check_loop l : forall i,
  gen_verifier_checkRevocationResults_loop1 l i = None <-> forallb res_nonnil l = true.
Proof.
  induction l as [|p l IH]; intros i; [cbn; tauto|].
  cbn [gen_verifier_checkRevocationResults_loop1 forallb]. unfold res_nonnil at 1.
  destruct (ptr_val p); cbn [is_some andb]; [apply IH|]. split; discriminate.
Qed.

(* checkRevocationResults returns nil exactly when there is one non-nil result per certificate *)
Lemma gen_checkRevocationResults_iff results (chain : list C) :
  gen_verifier_checkRevocationResults C results chain = None
  <-> List.length results = List.length chain /\ forallb res_nonnil results = true.
Proof.
  unfold gen_verifier_checkRevocationResults, list_len. cbv zeta.
  match goal with |- context [Z.eqb ?a ?b] => destruct (Z.eqb_spec a b) as [E|N] end; cbn [negb].
  - rewrite check_loop. split; [intros H; split; [lia|exact H]|tauto].
  - split; [discriminate|]. intros [L _]. exfalso. apply N. now rewrite L.
Qed.

(* the inner loop over the server results only logs; since fix a146158 it skips nil entries *)
Lemma servers_loop K r l : gen_verifier_revocationFinalResult_loop2 K r l = K tt.
Proof.
  induction l as [|p l IH]; [reflexivity|].
  cbn [gen_verifier_revocationFinalResult_loop2]. cbv zeta. rewrite ?IH.
  destruct (ptr_val p) as [sv|]; cbn [obind]; [|reflexivity].
  repeat match goal with |- context [if ?c then _ else _] => destruct c end; reflexivity.
Qed.

Fixpoint count_ok (ps : list (ptr result_CertRevocationResult)) : Z :=
  match ps with [] => 0 | p :: ps' => (if res_ok p then 1 else 0) + count_ok ps' end.

Lemma count_ok_bounds ps : (0 <= count_ok ps <= list_len ps)%Z.
Proof.
  induction ps as [|p ps IH]; [cbn; lia|]. rewrite list_len_cons. cbn [count_ok]. destruct (res_ok p); lia.
Qed.

Lemma count_ok_all ps : count_ok ps = list_len ps <-> forallb res_ok ps = true.
Proof.
  induction ps as [|p ps IH]; [cbn; tauto|]. rewrite list_len_cons. cbn [count_ok forallb].
  pose proof (count_ok_bounds ps). destruct (res_ok p); cbn [andb].
  - rewrite <- IH. lia.
  - split; [lia|discriminate].
Qed.

Lemma count_ok_app a b : count_ok (a ++ b) = (count_ok a + count_ok b)%Z.
Proof. induction a as [|p a IH]; [reflexivity|]. cbn [app count_ok]. rewrite IH. lia. Qed.

Lemma count_ok_rev ps : count_ok (rev ps) = count_ok ps.
Proof. induction ps as [|p ps IH]; [reflexivity|]. cbn [rev count_ok]. rewrite count_ok_app, IH. cbn. lia. Qed.

(* the main loop, over indexes paired with the elements they select *)
Lemma final_loop results (chain : list C) : forall idxs ps cs fin nok prob rf rs,
  Forall2 (fun i p => list_get results i = Some p) idxs ps ->
  Forall2 (fun i c => list_get chain i = Some c) idxs cs ->
  forallb res_nonnil ps = true ->
  fin <> 1%Z ->
  exists z s, gen_verifier_revocationFinalResult_loop1 C subjs results chain idxs fin nok prob rf rs = Some (z, s)
              /\ (z = 1%Z <-> (nok + count_ok ps)%Z = list_len results).
Proof.
  induction idxs as [|i idxs IH]; intros ps cs fin nok prob rf rs HP HC NN F.
  - inversion HP; subst. cbn [gen_verifier_revocationFinalResult_loop1 count_ok].
    destruct rf; destruct (Z.eqb_spec nok (list_len results)) as [E|E];
      eexists; eexists; (split; [reflexivity|]); split; intros; try lia; try congruence.
  - inversion HP as [|? p ? ps' Hp HP']; subst. inversion HC as [|? c ? cs' Hc HC']; subst.
    cbn [forallb] in NN. apply andb_true_iff in NN. destruct NN as [N1 NN].
    cbn [gen_verifier_revocationFinalResult_loop1]. rewrite Hc, Hp.
    unfold res_nonnil in N1. cbn [count_ok]. unfold res_ok at 1.
    destruct (ptr_val p) as [r|]; [|discriminate].
    rewrite servers_loop.
    destruct ((CertRevocationResult_Result r =? 1)%Z || (CertRevocationResult_Result r =? 2)%Z) eqn:OK.
    + destruct (IH ps' cs' fin (nok + 1)%Z prob rf rs HP' HC' NN F) as (z & s & E & I).
      exists z, s. split; [exact E|]. rewrite I. lia.
    + assert (F' : CertRevocationResult_Result r <> 1%Z).
      { apply orb_false_iff in OK. destruct OK as [O _]. now apply Z.eqb_neq. }
      destruct (CertRevocationResult_Result r =? 3)%Z.
      * destruct (IH ps' cs' (CertRevocationResult_Result r) nok (subjs c) true (subjs c) HP' HC' NN F') as (z & s & E & I).
        exists z, s. split; [exact E|]. rewrite I. lia.
      * destruct (IH ps' cs' (CertRevocationResult_Result r) nok (subjs c) rf rs HP' HC' NN F') as (z & s & E & I).
        exists z, s. split; [exact E|]. rewrite I. lia.
Qed.

Lemma index_list {A} (pre l : list A) :
  Forall2 (fun i x => list_get (pre ++ l) i = Some x) (map Z.of_nat (seq (List.length pre) (List.length l))) l.
Proof.
  revert pre. induction l as [|x l IH]; intros pre; [constructor|].
  cbn [List.length seq map]. constructor.
  - rewrite list_get_nth, nth_error_app2 by lia. now rewrite Nat.sub_diag.
  - specialize (IH (pre ++ [x])). rewrite <- app_assoc, app_length in IH. cbn in IH.
    now rewrite Nat.add_1_r in IH.
Qed.

Lemma forall2_rev {A B} (R : A -> B -> Prop) l1 l2 : Forall2 R l1 l2 -> Forall2 R (rev l1) (rev l2).
Proof.
  induction 1; [constructor|]. cbn. apply Forall2_app; [assumption|]. constructor; [assumption|constructor].
Qed.

Lemma forallb_rev {A} (f : A -> bool) l : forallb f (rev l) = forallb f l.
Proof.
  induction l as [|x l IH]; [reflexivity|]. cbn [rev forallb]. rewrite forallb_app, IH. cbn.
  rewrite andb_true_r. apply andb_comm.
Qed.

(* after checkRevocationResults passed: revocationFinalResult is total and returns ResultOK
   exactly when every certificate is OK or non-revokable *)
Lemma gen_revocationFinalResult_ok_iff results (chain : list C) :
  List.length results = List.length chain -> forallb res_nonnil results = true ->
  exists z s, gen_verifier_revocationFinalResult C subjs results chain = Some (z, s)
              /\ (z = 1%Z <-> forallb res_ok results = true).
Proof.
  intros L NN. unfold gen_verifier_revocationFinalResult, list_len. cbv zeta. rewrite zrange_down_zero.
  pose proof (forall2_rev _ _ _ (index_list [] results)) as HP. cbn [app List.length] in HP.
  pose proof (forall2_rev _ _ _ (index_list [] chain)) as HC. cbn [app List.length] in HC. rewrite <- L in HC.
  destruct (final_loop results chain _ _ _ 0%Z 0%Z "" false "" HP HC) as (z & s & E & I).
  - now rewrite forallb_rev.
  - discriminate.
  - exists z, s. split; [exact E|]. rewrite I, count_ok_rev, Z.add_0_l. apply count_ok_all.
Qed.

(* both together: "the native revocation validation passes" for an answer (results, nil) of the
   validator *)
Definition rev_answer_ok (results : list (ptr result_CertRevocationResult)) (chain : list C) : Prop :=
  List.length results = List.length chain /\ forallb res_ok results = true.

Lemma gen_revocation_passes_iff results (chain : list C) :
  (gen_verifier_checkRevocationResults C results chain = None
   /\ exists s, gen_verifier_revocationFinalResult C subjs results chain = Some (1%Z, s))
  <-> rev_answer_ok results chain.
Proof.
  unfold rev_answer_ok. rewrite gen_checkRevocationResults_iff. split.
  - intros [[L NN] (s & E)]. split; [exact L|].
    destruct (gen_revocationFinalResult_ok_iff results chain L NN) as (z & s' & E' & I).
    rewrite E in E'. injection E' as <- <-. now apply I.
  - intros [L OK].
    assert (NN : forallb res_nonnil results = true).
    { clear L. induction results as [|p ps IH]; [reflexivity|]. cbn [forallb] in *.
      apply andb_true_iff in OK. destruct OK as [O1 O2]. rewrite (IH O2), andb_true_r.
      unfold res_ok in O1. unfold res_nonnil. destruct (ptr_val p); [reflexivity|discriminate]. }
    split; [split; assumption|].
    destruct (gen_revocationFinalResult_ok_iff results chain L NN) as (z & s' & E' & I).
    exists s'. rewrite E'. apply I in OK. now subst z.
Qed.

End Rev.

(* ====================================================================== *)
(* 5. the extended attributes: plugin headers and what is left for the    *)
(*    plugin (verifier/helpers.go)                                        *)
(* ====================================================================== *)

(* How the model's scenario reads the extended attributes the code sees
   (SignerInfo.SignedAttributes.ExtendedAttributes, keys and values of type any). *)

(* SignerInfo.ExtendedAttribute(key): the first attribute whose key is the Go string [key] *)
Fixpoint find_attr (key : string) (l : list signature_Attribute) : option signature_Attribute :=
  match l with
  | [] => None
  | a :: l' => if anyv_eqb (Attribute_Key a) (GoLib.AStr "string" key) then Some a else find_attr key l'
  end.

(* the state of a plugin header: [attr] of VerifyCore *)
Definition attr_state (key : string) (l : list signature_Attribute) : attr :=
  match find_attr key l with
  | None => AAbsent
  | Some a =>
      if Attribute_Critical a then
        match Attribute_Value a with
        | GoLib.AStr ty s => if String.eqb ty "string" then VerifyCore.AStr s else ANotString
        | _ => ANotString
        end
      else ANotCritical
  end.

Definition hdr_plugin := "io.cncf.notary.verificationPlugin".
Definition hdr_minver := "io.cncf.notary.verificationPluginMinVersion".

(* the key of an attribute when it is a Go string *)
Definition str_key (a : signature_Attribute) : option string :=
  match Attribute_Key a with
  | GoLib.AStr ty k => if String.eqb ty "string" then Some k else None
  | _ => None
  end.

(* [s_other]: the attributes with a string key other than the two plugin headers, (key, critical) *)
Definition other_of (l : list signature_Attribute) : list (string * bool) :=
  flat_map (fun a => match str_key a with
                     | Some k => if mem_str k [hdr_plugin; hdr_minver] then [] else [(k, Attribute_Critical a)]
                     | None => []
                     end) l.

(* [s_nonstring_crit] *)
Definition nonstring_crit_of (l : list signature_Attribute) : bool :=
  existsb (fun a => match str_key a with None => Attribute_Critical a | Some _ => false end) l.

(* how processSignature reads the (value, error) pair of the three extraction functions:
   err == errExtendedAttributeNotExist / another error / nil *)
Inductive xres := XAbsent | XErr | XVal (s : string).
Definition xres_of (r : string * option GoLib.err) : xres :=
  match snd r with
  | None => XVal (fst r)
  | Some e => if err_same (Some e) verifier_errExtendedAttributeNotExist then XAbsent else XErr
  end.

(* the model's decisions on a header *)
Definition extract_res (a : attr) : xres :=
  match a with AAbsent => XAbsent | ANotCritical | ANotString => XErr | VerifyCore.AStr s => XVal s end.
Definition plugin_res (a : attr) : xres :=
  match a with VerifyCore.AStr n => if blank n then XErr else XVal n | _ => extract_res a end.
Definition minver_res (a : attr) : xres :=
  match a with VerifyCore.AStr v => if blank v || negb (sv_valid v) then XErr else XVal v | _ => extract_res a end.

(* the model's copy of strings.TrimSpace is GoLib's (the one the generated code uses) *)
Lemma trim_space_is_golib s : VerifyCore.trim_space s = GoLib.str_trim_space s.
Proof. reflexivity. Qed.
Lemma blank_golib s : blank s = String.eqb (str_trim_space s) "".
Proof. reflexivity. Qed.

Section Attrs.
Variable C : Type.
Notation ext_attrs si := (SignedAttributes_ExtendedAttributes (SignerInfo_SignedAttributes C si)).

Lemma ext_loop key l :
  gen_signature_SignerInfo_ExtendedAttribute_loop1 key l
  = match find_attr key l with
    | Some a => (a, None)
    | None => (fst (gen_signature_SignerInfo_ExtendedAttribute_loop1 key []),
               snd (gen_signature_SignerInfo_ExtendedAttribute_loop1 key []))
    end.
Proof.
  induction l as [|a l IH]; [reflexivity|].
  cbn [gen_signature_SignerInfo_ExtendedAttribute_loop1 find_attr]. cbv zeta.
  destruct (anyv_eqb (Attribute_Key a) (GoLib.AStr "string" key)); [reflexivity|exact IH].
Qed.

Lemma ext_notfound key : snd (gen_signature_SignerInfo_ExtendedAttribute_loop1 key []) <> None.
Proof. cbn. discriminate. Qed.

Lemma any_str_value v :
  any_str "string" v
  = match v with
    | GoLib.AStr ty s => if String.eqb ty "string" then (s, true) else ("", false)
    | _ => ("", false)
    end.
Proof. destruct v; reflexivity. Qed.

Lemma gen_extract_equiv si key :
  xres_of (gen_verifier_extractCriticalStringExtendedAttribute C si key) = extract_res (attr_state key (ext_attrs si))
  /\ (snd (gen_verifier_extractCriticalStringExtendedAttribute C si key) <> None ->
      fst (gen_verifier_extractCriticalStringExtendedAttribute C si key) = "").
Proof.
  unfold gen_verifier_extractCriticalStringExtendedAttribute, gen_signature_SignerInfo_ExtendedAttribute, attr_state.
  rewrite ext_loop. pose proof (ext_notfound key) as NF.
  destruct (find_attr key (ext_attrs si)) as [a|].
  - cbn [is_none negb]. destruct (Attribute_Critical a); cbn [negb].
    + rewrite any_str_value. destruct (Attribute_Value a) as [|ty s| | | |]; try (split; [reflexivity|reflexivity]).
      destruct (String.eqb ty "string"); split; try reflexivity. cbn. intros H. now elim H.
    + split; reflexivity.
  - destruct (snd (gen_signature_SignerInfo_ExtendedAttribute_loop1 key [])) as [e|]; [|now elim NF].
    cbn [is_none negb]. split; reflexivity.
Qed.

(* getVerificationPlugin = the head of VerifyCore.discover *)
Lemma gen_getVerificationPlugin_equiv si :
  xres_of (gen_verifier_getVerificationPlugin C si) = plugin_res (attr_state hdr_plugin (ext_attrs si))
  /\ (snd (gen_verifier_getVerificationPlugin C si) <> None -> fst (gen_verifier_getVerificationPlugin C si) = "").
Proof.
  unfold gen_verifier_getVerificationPlugin.
  destruct (gen_extract_equiv si hdr_plugin) as [H1 H2]. fold hdr_plugin.
  destruct (gen_verifier_extractCriticalStringExtendedAttribute C si hdr_plugin) as [name e].
  cbn [fst snd] in H2. unfold xres_of in *. cbn [fst snd] in *.
  destruct e as [e|]; cbn [is_none negb].
  - split; [|reflexivity]. cbn [snd].
    destruct (attr_state hdr_plugin (ext_attrs si)); cbn [extract_res plugin_res] in *;
      destruct (err_same (Some e) verifier_errExtendedAttributeNotExist); try discriminate; reflexivity.
  - destruct (attr_state hdr_plugin (ext_attrs si)) as [| | |n]; cbn [extract_res] in H1; try discriminate.
    injection H1 as ->. cbn [plugin_res]. rewrite blank_golib.
    destruct (String.eqb (str_trim_space n) ""); split; try reflexivity. cbn. intros H. now elim H.
Qed.

(* getVerificationPluginMinVersion = VerifyCore.minver_error (validity computed, C02_Versions) *)
Lemma gen_getVerificationPluginMinVersion_equiv si :
  xres_of (gen_verifier_getVerificationPluginMinVersion C si) = minver_res (attr_state hdr_minver (ext_attrs si))
  /\ (snd (gen_verifier_getVerificationPluginMinVersion C si) <> None -> fst (gen_verifier_getVerificationPluginMinVersion C si) = "").
Proof.
  unfold gen_verifier_getVerificationPluginMinVersion.
  destruct (gen_extract_equiv si hdr_minver) as [H1 H2]. fold hdr_minver.
  destruct (gen_verifier_extractCriticalStringExtendedAttribute C si hdr_minver) as [v e].
  cbn [fst snd] in H2. unfold xres_of in *. cbn [fst snd] in *.
  destruct e as [e|]; cbn [is_none negb].
  - split; [|reflexivity]. cbn [snd].
    destruct (attr_state hdr_minver (ext_attrs si)); cbn [extract_res minver_res] in *;
      destruct (err_same (Some e) verifier_errExtendedAttributeNotExist); try discriminate; reflexivity.
  - destruct (attr_state hdr_minver (ext_attrs si)) as [| | |n]; cbn [extract_res] in H1; try discriminate.
    injection H1 as ->. cbn [minver_res]. rewrite blank_golib, gen_IsValid_equiv.
    destruct (String.eqb (str_trim_space n) ""); cbn [orb]; [split; [reflexivity|reflexivity]|].
    destruct (sv_valid n); cbn [negb]; split; try reflexivity. cbn. intros H. now elim H.
Qed.

Lemma contains_loop v l : gen_slices_Contains_string_loop1 v l = mem_str v l.
Proof.
  induction l as [|a l IH]; [reflexivity|]. cbn [gen_slices_Contains_string_loop1 mem_str existsb]. cbv zeta.
  destruct (String.eqb v a); [reflexivity|exact IH].
Qed.

Lemma gen_Contains_equiv l v : gen_slices_Contains_string l v = mem_str v l.
Proof. apply contains_loop. Qed.

Lemma headers_pinned : verifier_VerificationPluginHeaders = [hdr_plugin; hdr_minver].
Proof. reflexivity. Qed.

(* (key, critical) of an attribute handed to the plugin *)
Definition attr_kc (a : signature_Attribute) : string * bool :=
  (fst (any_str "string" (Attribute_Key a)), Attribute_Critical a).

Lemma nonplugin_loop l : forall acc,
  gen_verifier_getNonPluginExtendedCriticalAttributes_loop1 l acc
  = acc ++ filter (fun a => match str_key a with
                            | Some k => negb (mem_str k [hdr_plugin; hdr_minver])
                            | None => false
                            end) l.
Proof.
  induction l as [|a l IH]; intros acc; [cbn; now rewrite app_nil_r|].
  cbn [gen_verifier_getNonPluginExtendedCriticalAttributes_loop1 filter]. cbv zeta.
  rewrite any_str_value. unfold str_key at 1.
  destruct (Attribute_Key a) as [|ty k| | | |]; cbn [andb]; try apply IH.
  destruct (String.eqb ty "string"); cbn [andb]; [|apply IH].
  rewrite gen_Contains_equiv, headers_pinned.
  destruct (mem_str k [hdr_plugin; hdr_minver]); cbn [negb]; [apply IH|].
  rewrite IH, <- app_assoc. reflexivity.
Qed.

(* getNonPluginExtendedCriticalAttributes = [other_keys] / [s_other] of the scenario *)
Lemma gen_getNonPlugin_equiv si :
  map attr_kc (gen_verifier_getNonPluginExtendedCriticalAttributes C si) = other_of (ext_attrs si)
  /\ Forall (fun a => exists k, Attribute_Key a = GoLib.AStr "string" k)
            (gen_verifier_getNonPluginExtendedCriticalAttributes C si).
Proof.
  unfold gen_verifier_getNonPluginExtendedCriticalAttributes. cbv zeta. rewrite nonplugin_loop. cbn [app].
  generalize (ext_attrs si). intros l. split.
  - induction l as [|a l IH]; [reflexivity|]. cbn [filter other_of flat_map]. fold (other_of l).
    destruct (str_key a) as [k|] eqn:SK; [|exact IH].
    destruct (mem_str k [hdr_plugin; hdr_minver]); cbn [negb app]; [exact IH|].
    cbn [map]. rewrite IH. f_equal. unfold attr_kc. unfold str_key in SK.
    destruct (Attribute_Key a) as [|ty k'| | | |]; try discriminate. cbn [any_str].
    destruct (String.eqb ty "string"); [|discriminate]. injection SK as ->. reflexivity.
  - apply Forall_forall. intros a Ha. apply filter_In in Ha. destruct Ha as [_ Ha].
    unfold str_key in Ha. destruct (Attribute_Key a) as [|ty k| | | |]; try discriminate.
    destruct (String.eqb ty "string") eqn:T; [|discriminate]. apply String.eqb_eq in T. subst ty. now exists k.
Qed.

End Attrs.

(* the attributes a plugin reports as processed: the Go strings among them *)
Definition strs_of (l : list anyv) : list string :=
  flat_map (fun x => match x with GoLib.AStr ty s => if String.eqb ty "string" then [s] else [] | _ => [] end) l.

(* slices.ContainsAny(response.ProcessedAttributes, attr.Key) for a string key: total, and
   = mem_str on the strings (the test of [crit_processed]) *)
Lemma containsany_loop k l :
  gen_slices_ContainsAny_loop1 (GoLib.AStr "string" k) l = Some (mem_str k (strs_of l)).
Proof.
  induction l as [|x l IH]; [reflexivity|].
  cbn [gen_slices_ContainsAny_loop1 strs_of flat_map]. cbv zeta. fold (strs_of l).
  destruct x as [|ty s| | | |]; cbn [anyv_eq_opt anyv_cmp_panics anyv_eqb app]; try exact IH.
  destruct (String.eqb ty "string") eqn:T; cbn [andb app].
  - unfold mem_str. cbn [existsb]. rewrite (String.eqb_sym k s).
    destruct (String.eqb s k); [reflexivity|exact IH].
  - exact IH.
Qed.

Lemma gen_ContainsAny_equiv l k :
  gen_slices_ContainsAny l (GoLib.AStr "string" k) = Some (mem_str k (strs_of l)).
Proof. apply containsany_loop. Qed.

(* ---------- the link to the place in the model where these decisions are made ---------- *)

(* VerifyCore.discover decides on the plugin header exactly through [plugin_res] *)
Lemma discover_by_plugin_res sc :
  discover sc
  = match plugin_res (s_plugin_attr sc) with
    | XErr => DErr EOther []
    | XAbsent => if s_nonstring_crit sc then DErr EInconclusive [] else DNoPlugin
    | XVal name => if s_nonstring_crit sc then DErr EInconclusive [] else lookup_plugin sc name
    end.
Proof.
  unfold discover, plugin_res. destruct (s_plugin_attr sc) as [| | |n]; cbn [extract_res]; try reflexivity.
  destruct (blank n); reflexivity.
Qed.

(* VerifyCore.minver_error is [minver_res] = XErr when the validity fact is the computed one *)
Lemma minver_error_by_minver_res sc :
  s_minver_valid sc = minver_valid_of (s_minver_attr sc) ->
  minver_error sc = match minver_res (s_minver_attr sc) with XErr => true | _ => false end.
Proof.
  intros V. unfold minver_error, minver_res. rewrite V.
  destruct (s_minver_attr sc) as [| | |v]; cbn [extract_res minver_valid_of]; try reflexivity.
  destruct (blank v || negb (sv_valid v)); reflexivity.
Qed.

(* the scenario components read off a signer info are the model's [other_keys] / [other_crit] *)
Lemma other_keys_of sc l : s_other sc = other_of l -> other_keys sc = map fst (other_of l).
Proof. intros H. unfold other_keys. now rewrite H. Qed.

(* transported clause "an executed plugin must list every CRITICAL attribute it was handed":
   the model's [crit_processed] is the conjunction of the code's ContainsAny tests *)
Lemma crit_processed_by_ContainsAny sc (l : list signature_Attribute) (processed : list anyv) :
  s_other sc = other_of l ->
  crit_processed sc (strs_of processed)
  = forallb (fun kc => match gen_slices_ContainsAny processed (GoLib.AStr "string" (fst kc)) with
                       | Some b => b | None => false end)
            (filter snd (other_of l)).
Proof.
  intros H. unfold crit_processed, other_crit. rewrite H.
  induction (filter snd (other_of l)) as [|kc r IH]; [reflexivity|].
  cbn [map forallb]. now rewrite IH, gen_ContainsAny_equiv.
Qed.

(* ====================================================================== *)
(* 6. ( *verifier).verifyRevocation: the native revocation validation       *)
(* ====================================================================== *)

Section VerifyRev.
Variable C : Type.
Variable subjs : C -> string.
Variable ast : ptr (signature_SignerInfo C) -> Z * option GoLib.err.   (* SignerInfo.AuthenticSigningTime *)
Variable PM : Type.

(* the instant handed to the validator: the authentic signing time under the signing-authority
   scheme, the zero time otherwise *)
Definition rev_time (env : signature_EnvelopeContent C) : Z :=
  if String.eqb (SignedAttributes_SigningScheme (SignerInfo_SignedAttributes C (EnvelopeContent_SignerInfo C env)))
                "notary.x509.signingAuthority"
  then fst (ast (PNew (EnvelopeContent_SignerInfo C env))) else time_zero.

(* what the configured validator answers for this signature: the code-signing validator when there
   is one, the (deprecated) revocation client otherwise, None when neither is configured *)
Definition rev_answer (v : verifier_verifier C PM) (env : signature_EnvelopeContent C)
  : option (list (ptr result_CertRevocationResult) * option GoLib.err) :=
  let chain := SignerInfo_CertificateChain C (EnvelopeContent_SignerInfo C env) in
  match ptr_val (verifier_revocationCodeSigningValidator C PM v) with
  | Some f => Some (f (mk_ValidateContextOptions C chain (rev_time env)))
  | None => match ptr_val (verifier_revocationClient C PM v) with
            | Some g => Some (g chain (rev_time env))
            | None => None
            end
  end.

(* [s_rev_ok] of the scenario, read off the validator's answer *)
Definition rev_ok_of (v : verifier_verifier C PM) (env : signature_EnvelopeContent C) : Prop :=
  exists results, rev_answer v env = Some (results, None)
                  /\ rev_answer_ok C results (SignerInfo_CertificateChain C (EnvelopeContent_SignerInfo C env)).

Lemma gen_verifyRevocation_spec v outcome o env lvl :
  ptr_val outcome = Some o ->
  ptr_val (VerificationOutcome_EnvelopeContent C o) = Some env ->
  ptr_val (VerificationOutcome_VerificationLevel C o) = Some lvl ->
  exists r, gen_verifier_verifier_verifyRevocation C subjs ast PM v outcome = Some (PNew r)
            /\ ValidationResult_Type r = "revocation"
            /\ ValidationResult_Action r = enf_get lvl "revocation"
            /\ (ValidationResult_Error r = None <-> rev_ok_of v env).
Proof.
  intros HO HE HL. unfold gen_verifier_verifier_verifyRevocation, rev_ok_of, rev_answer.
  rewrite !ptr_is_nil_val, HO. cbv zeta beta. rewrite ?HE, ?HL. fold (enf_get lvl "revocation").
  set (chain := SignerInfo_CertificateChain C (EnvelopeContent_SignerInfo C env)).
  (* the time *)
  assert (T : forall K : Z -> option (ptr notation_go_ValidationResult),
            (if String.eqb (SignedAttributes_SigningScheme (SignerInfo_SignedAttributes C (EnvelopeContent_SignerInfo C env)))
                           "notary.x509.signingAuthority"
             then let '(t, _) := ast (PNew (EnvelopeContent_SignerInfo C env)) in K t
             else K time_zero) = K (rev_time env)).
  { intros K. unfold rev_time.
    destruct (String.eqb _ "notary.x509.signingAuthority"); [|reflexivity].
    destruct (ast (PNew (EnvelopeContent_SignerInfo C env))); reflexivity. }
  destruct (ptr_val (verifier_revocationCodeSigningValidator C PM v)) as [f|] eqn:EF;
    destruct (ptr_val (verifier_revocationClient C PM v)) as [g|] eqn:EG; cbn [is_none andb negb].
  4:{ eexists. split; [reflexivity|]. cbn. repeat split; try discriminate.
      intros (rs & H & _). discriminate. }
  all: rewrite T; clear T.
  all: match goal with |- context [let '(a, b) := ?x in _] => destruct x as [results e] eqn:ANS end.
  all: destruct e as [e|]; cbn [is_none negb];
    [eexists; split; [reflexivity|]; cbn; repeat split; try discriminate; intros (rs & H & _); congruence|].
  all: pose proof (gen_checkRevocationResults_iff C results chain) as CK;
       pose proof (gen_revocation_passes_iff C subjs results chain) as PS.
  all: fold chain; destruct (gen_verifier_checkRevocationResults C results chain) as [ce|] eqn:CE; cbn [is_none negb].
  all: try (eexists; split; [reflexivity|]; cbn; repeat split; try discriminate;
            intros (rs & H & OK); injection H as <-; apply PS in OK; destruct OK as [OK _]; discriminate).
  all: destruct CK as [CK _]; destruct (CK eq_refl) as [L NN];
       destruct (gen_revocationFinalResult_ok_iff C subjs results chain L NN) as (z & s & FE & ZI).
  all: rewrite FE.
  all: destruct (Z.eqb_spec z 1) as [Z1|Z1].
  all: try (subst z; eexists; split; [reflexivity|]; cbn; repeat split; try reflexivity;
            intros _; exists results; split; [reflexivity|]; apply PS; split; [reflexivity|now exists s]).
  all: destruct (z =? 3)%Z; eexists; (split; [reflexivity|]); cbn; repeat split; try discriminate;
       intros (rs & H & OK); injection H as <-; apply PS in OK; destruct OK as [_ (s' & OK)];
       rewrite FE in OK; injection OK as -> _; now elim Z1.
Qed.

End VerifyRev.

(* ====================================================================== *)
(* 7. executePlugin: the verify-signature request and the nil answer       *)
(* ====================================================================== *)

Section Exec.
Variable C : Type.
Variable vsig : ptr plugin_VerifySignatureRequest -> ptr plugin_VerifySignatureResponse * option GoLib.err.
Variable VP : Type.
Variable raw : C -> list Z.

(* what executePlugin makes of the plugin's answer: a nil response without error is an error
   (fix 686cc56), anything else is handed on unchanged *)
Definition exec_post (r out : ptr plugin_VerifySignatureResponse * option GoLib.err) : Prop :=
  if is_none (snd r) && ptr_is_nil (fst r) then fst out = PNil /\ snd out <> None else out = r.

Lemma exec_loop2 K l : forall acc,
  gen_verifier_executePlugin_loop2 C raw K l acc = K (acc ++ map raw l).
Proof.
  induction l as [|c l IH]; intros acc; [cbn; now rewrite app_nil_r|].
  cbn [gen_verifier_executePlugin_loop2 map]. cbv zeta. rewrite IH, <- app_assoc. reflexivity.
Qed.

Definition key_text (a : signature_Attribute) : string := fst (any_str "string" (Attribute_Key a)).

Lemma exec_loop1 payload si ids caps cfg : forall l atp ext,
  Forall (fun a => exists k, Attribute_Key a = GoLib.AStr "string" k) l ->
  exists req out,
    gen_verifier_executePlugin_loop1 C vsig raw payload si ids caps cfg l atp ext = Some out
    /\ exec_post (vsig (PNew req)) out
    /\ TrustPolicy_SignatureVerification (VerifySignatureRequest_TrustPolicy req) = caps
    /\ TrustPolicy_TrustedIdentities (VerifySignatureRequest_TrustPolicy req) = ids
    /\ Signature_UnprocessedAttributes (VerifySignatureRequest_Signature req) = atp ++ map key_text l
    /\ VerifySignatureRequest_PluginConfig req = cfg.
Proof.
  induction l as [|a l IH]; intros atp ext F.
  - cbn [gen_verifier_executePlugin_loop1]. cbv zeta. rewrite exec_loop2.
    destruct (String.eqb (SignedAttributes_SigningScheme (SignerInfo_SignedAttributes C si)) "notary.x509.signingAuthority");
      (match goal with |- context [vsig (PNew ?r)] => exists r; destruct (vsig (PNew r)) as [resp e] end;
       unfold exec_post; cbn [fst snd];
       destruct e as [e|], resp as [|nm rv|rv]; cbn [is_none ptr_is_nil andb orb negb];
       eexists; (split; [reflexivity|]);
       cbn [fst snd map VerifySignatureRequest_TrustPolicy VerifySignatureRequest_Signature VerifySignatureRequest_PluginConfig
            TrustPolicy_SignatureVerification TrustPolicy_TrustedIdentities Signature_UnprocessedAttributes];
       rewrite ?app_nil_r; repeat split; try reflexivity; discriminate).
  - inversion F as [|? ? (k & K) F']; subst.
    cbn [gen_verifier_executePlugin_loop1]. cbv zeta. rewrite K. cbn [any_str_opt any_str String.eqb Ascii.eqb Bool.eqb].
    destruct (IH (atp ++ [k]) (map_set String.eqb k (Attribute_Value a) ext) F') as (req & out & E & P & H1 & H2 & H3 & H4).
    exists req, out. split; [exact E|]. split; [exact P|]. repeat split; try assumption.
    rewrite H3, <- app_assoc. cbn [map app]. unfold key_text at 2. rewrite K. reflexivity.
Qed.

(* executePlugin: with a plugin and an envelope, the plugin is asked exactly once, for exactly the
   capabilities to verify, with the trusted identities of the statement, and is handed the keys of
   getNonPluginExtendedCriticalAttributes = [other_keys] of the scenario as attributes to process
   ([o_exec] of the model's observation); a nil answer without error is refused *)
Lemma gen_executePlugin_spec plugin p caps envelope env ids cfg :
  ptr_val plugin = Some p -> ptr_val envelope = Some env ->
  exists req out,
    gen_verifier_executePlugin C vsig VP raw plugin caps envelope ids cfg = Some out
    /\ exec_post (vsig (PNew req)) out
    /\ TrustPolicy_SignatureVerification (VerifySignatureRequest_TrustPolicy req) = caps
    /\ TrustPolicy_TrustedIdentities (VerifySignatureRequest_TrustPolicy req) = ids
    /\ Signature_UnprocessedAttributes (VerifySignatureRequest_Signature req)
       = map fst (other_of (SignedAttributes_ExtendedAttributes (SignerInfo_SignedAttributes C (EnvelopeContent_SignerInfo C env))))
    /\ VerifySignatureRequest_PluginConfig req = cfg.
Proof.
  intros HP HE. unfold gen_verifier_executePlugin. rewrite HP, HE. cbv zeta. cbn [ptr_val].
  destruct (gen_getNonPlugin_equiv C (EnvelopeContent_SignerInfo C env)) as [M F].
  destruct (exec_loop1 (EnvelopeContent_Payload C env) (EnvelopeContent_SignerInfo C env) ids caps cfg _ [] [] F)
    as (req & out & E & P & H1 & H2 & H3 & H4).
  exists req, out. split; [exact E|]. split; [exact P|]. repeat split; try assumption.
  rewrite H3. cbn [app]. rewrite <- M, map_map. reflexivity.
Qed.

(* without a plugin nothing is asked: an error *)
Lemma gen_executePlugin_nil plugin caps envelope ids cfg :
  ptr_val plugin = None ->
  exists e, gen_verifier_executePlugin C vsig VP raw plugin caps envelope ids cfg = Some (PNil, Some e).
Proof. intros HP. unfold gen_verifier_executePlugin. rewrite HP. eexists. reflexivity. Qed.

End Exec.

(* ====================================================================== *)
(* 8. stages of VerifyCore on the generated functions                      *)
(* ====================================================================== *)

(* The revocation stage of VerifyCore.native
       revocationResult := v.verifyRevocation(ctx, outcome); ...; if isCriticalFailure(revocationResult) { return }
   on the code's own two functions: the reported result is the model's
   [mk_res TRev (l_rev lvl) (negb s_rev_ok)] and the early exit is the model's [is_critical_failure]. *)
Lemma gen_revocation_stage (C : Type) (subjs : C -> string) ast (PM : Type) (v : verifier_verifier C PM) outcome o env lvl b :
  ptr_val outcome = Some o ->
  ptr_val (VerificationOutcome_EnvelopeContent C o) = Some env ->
  ptr_val (VerificationOutcome_VerificationLevel C o) = Some lvl ->
  (rev_ok_of C ast PM v env <-> b = true) ->            (* b = s_rev_ok of the scenario *)
  exists r, gen_verifier_verifier_verifyRevocation C subjs ast PM v outcome = Some (PNew r)
            /\ ValidationResult_Type r = "revocation"
            /\ vr_action r = l_rev (glevel_of lvl) /\ vr_failed r = negb b
            /\ gen_verifier_isCriticalFailure r = is_critical_failure (l_rev (glevel_of lvl)) (negb b).
Proof.
  intros HO HE HL HB.
  destruct (gen_verifyRevocation_spec C subjs ast PM v outcome o env lvl HO HE HL) as (r & E & T & A & ER).
  exists r. split; [exact E|]. split; [exact T|].
  assert (VA : vr_action r = l_rev (glevel_of lvl)) by (unfold vr_action; rewrite A; reflexivity).
  assert (VF : vr_failed r = negb b).
  { unfold vr_failed. destruct b.
    - assert (N : ValidationResult_Error r = None) by (apply ER, HB; reflexivity). rewrite N. reflexivity.
    - destruct (ValidationResult_Error r) as [e|] eqn:EE; [reflexivity|]. exfalso.
      assert (R : rev_ok_of C ast PM v env) by (apply ER; reflexivity). apply HB in R. discriminate. }
  split; [exact VA|]. split; [exact VF|]. rewrite gen_isCriticalFailure_equiv, VA, VF. reflexivity.
Qed.

(* The version gate of VerifyCore.lookup_plugin on the code's own two functions: a scenario whose
   version facts are what the generated IsValid / isRequiredVerificationPluginVer answer *)
Lemma gen_version_gate gcmp : compare_agrees gcmp -> compare_range gcmp ->
  forall version min caps,
    match min with VerifyCore.AStr m => sv_valid m = true | AAbsent => True | _ => False end ->
    PMPlugin (gen_semver_IsValid version)
             (gen_semver_IsValid version && gen_verifier_isRequiredVerificationPluginVer gcmp version (minver_string min)) caps
    = PMPlugin (sv_valid version) (sv_valid version && ver_ge version min) caps.
Proof.
  intros HA HR version min caps M. rewrite gen_IsValid_equiv.
  destruct (sv_valid version) eqn:V; [|reflexivity]. cbn [andb].
  now rewrite (gen_isRequired_equiv gcmp HA HR version min V M).
Qed.

(* transported C02_too_old_rejects: when the code's own version test says "too old", the model
   rejects the signature as inconclusive right after integrity, whatever the level *)
Lemma gen_too_old_rejects gcmp : compare_agrees gcmp -> compare_range gcmp ->
  forall lvl sc version caps n m,
  s_integrity_ok sc = true -> s_nonstring_crit sc = false ->
  s_plugin_attr sc = VerifyCore.AStr n -> blank n = false ->
  s_minver_attr sc = VerifyCore.AStr m -> blank m = false -> gen_semver_IsValid m = true ->
  gen_semver_IsValid version = true ->
  gen_verifier_isRequiredVerificationPluginVer gcmp version m = false ->
  verify_core lvl (versioned sc version caps)
  = mk_obs EInconclusive [mk_res TIntegrity Enforce false] false [n] None.
Proof.
  intros HA HR lvl sc version caps n m IO NS PA BN MA BM VM VV TO.
  rewrite gen_IsValid_equiv in VM, VV.
  assert (GE : ver_ge version (VerifyCore.AStr m) = false).
  { rewrite <- (gen_isRequired_equiv gcmp HA HR version (VerifyCore.AStr m) VV VM). exact TO. }
  unfold verify_core, process_signature, process_signature_gen, versioned, plugin_of, minver_valid_of.
  cbn [s_integrity_ok]. rewrite IO. cbn [negb].
  unfold discover, lookup_plugin, minver_error.
  cbn [s_plugin_attr s_minver_attr s_minver_valid s_nonstring_crit s_pm].
  rewrite PA, BN, NS, MA, BM, VM, VV, GE. reflexivity.
Qed.
