(* C02_GenProofs.v — property C02: the proofs behind props/C02_Generated.v.

   theories/C02_Gen.v holds the GoLite translations (docs/GOLITE.md) of the function bodies of
   /repo listed in harness/cmd/vh-gen/targets_c02.go; it is regenerated from the sources on every
   run of bin/check. This file proves, for ALL inputs of each generated function, that it equals
   the hand-written model function that plays the same role (C02_Levels, VerifyCore,
   C02_Versions), or characterises it directly. Calls that leave /repo's own logic (x/mod/semver,
   notation-core-go, the trust store, the revocation validator, the plugin) are oracles: Section
   variables of C02_Gen.v, hypotheses "the oracle answers like the model of it" here.

   Part 1: isCriticalFailure, GetVerificationLevel, IsValid, isRequiredVerificationPluginVer,
           checkRevocationResults + revocationFinalResult.                                        *)
From Coq Require Import List Bool String Ascii NArith ZArith Lia.
From NV Require Import Base Regex Generated C02_Levels VerifyCore C02_Model C02_Core C02_Proofs
                       C20_Semver C02_Versions.
(* GoLib last: its [err], [is_none], [is_some] are the ones the generated code uses
   (the model's error classes are [VerifyCore.err]) *)
From NV Require Import GoLib C02_Gen.
Import ListNotations.
Local Open Scope string_scope.
Local Open Scope list_scope.

(* ---------- small tools (as in props/C09_Generated.v) ---------- *)

Ltac case_const c x :=
  let E := fresh "E" in
  destruct (String.eqb c x) eqn:E; [apply String.eqb_eq in E; subst x|].

Ltac ground_eqb :=
  repeat match goal with
  | |- context [String.eqb ?a ?b] =>
      let v := eval vm_compute in (String.eqb a b) in
      match v with
      | true => change (String.eqb a b) with true
      | false => change (String.eqb a b) with false
      end
  end; cbn [negb orb andb].

Lemma eqb_sym_false a b : String.eqb a b = false -> String.eqb b a = false.
Proof. rewrite String.eqb_sym. auto. Qed.

Ltac use_neq :=
  repeat match goal with
  | H : String.eqb ?c ?x = false |- context [String.eqb ?x ?c] => rewrite (eqb_sym_false _ _ H)
  end; cbn [orb negb].

(* ====================================================================== *)
(* 1. isCriticalFailure                                                   *)
(* ====================================================================== *)

(* how the model reads a reported result: its action through [parse_action] (processSignature only
   ever compares an action with "enforce" and "skip"), failed = its Error is not nil *)
Definition vr_action (r : notation_go_ValidationResult) : action := parse_action (ValidationResult_Action r).
Definition vr_failed (r : notation_go_ValidationResult) : bool := negb (is_none (ValidationResult_Error r)).

Lemma gen_isCriticalFailure_equiv r :
  gen_verifier_isCriticalFailure r = is_critical_failure (vr_action r) (vr_failed r).
Proof.
  unfold gen_verifier_isCriticalFailure, is_critical_failure, vr_action, vr_failed, parse_action.
  destruct (ValidationResult_Error r), (String.eqb (ValidationResult_Action r) "enforce"),
           (String.eqb (ValidationResult_Action r) "skip"); reflexivity.
Qed.

Lemma gen_isCriticalFailure_iff r :
  gen_verifier_isCriticalFailure r = true
  <-> ValidationResult_Action r = "enforce" /\ ValidationResult_Error r <> None.
Proof.
  rewrite gen_isCriticalFailure_equiv.
  unfold is_critical_failure, vr_action, vr_failed, parse_action.
  destruct (String.eqb_spec (ValidationResult_Action r) "enforce") as [E|E].
  - destruct (ValidationResult_Error r); cbn; intuition congruence.
  - destruct (String.eqb (ValidationResult_Action r) "skip"); intuition congruence.
Qed.

(* logVerificationResult has no effect the translation keeps: it is the unit value *)
Lemma gen_logVerificationResult_unit r : gen_verifier_logVerificationResult r = tt.
Proof. destruct (gen_verifier_logVerificationResult r). reflexivity. Qed.

(* ====================================================================== *)
(* 2. GetVerificationLevel                                                *)
(* ====================================================================== *)

Definition lerr_table : list (string * level_error) :=
  [("signature verification level is empty or missing", ErrEmptyLevel);
   ("invalid signature verification level", ErrUnknownLevel);
   ("can't be used to customize signature verification", ErrSkipCustom);
   ("verification type %q in custom signature verification is not supported", ErrUnknownType);
   ("verification action %q in custom signature verification is not supported", ErrUnknownAction);
   ("can not be overridden in custom signature verification", ErrIntegrityOverride);
   ("can not be skipped in custom signature verification", ErrSkipNotRevocation)].

Fixpoint lerr_classify (t : list (string * level_error)) (f : string) : option level_error :=
  match t with
  | [] => None
  | (p, c) :: t' => if str_contains p f then Some c else lerr_classify t' f
  end.

(* which error of the model an error value of the code is: by its format string *)
Definition lerr_of (e : GoLib.err) : option level_error := lerr_classify lerr_table (err_fmt e).

Definition sv_lvl := SignatureVerification_VerificationLevel.
(* the override as the map it denotes: every key once, first binding *)
Definition sv_ov (sv : trustpolicy_SignatureVerification) : amap :=
  map_entries String.eqb (SignatureVerification_Override sv).

(* a returned level against the model's (name, enforcement): equal as maps *)
Definition level_rel (p : ptr trustpolicy_VerificationLevel) (name : string) (enf : amap) : Prop :=
  exists l, ptr_val p = Some l /\ VerificationLevel_Name l = name
            /\ forall k, map_get String.eqb k (VerificationLevel_Enforcement l) = lookup k enf.

Lemma map_set_rel (m : amap) enf k v :
  (forall x, map_get String.eqb x m = lookup x enf) ->
  forall x, map_get String.eqb x (map_set String.eqb k v m) = lookup x (set_key k v enf).
Proof.
  intros H x. rewrite map_get_set by apply string_eqb_spec'.
  unfold set_key. cbn [lookup]. destruct (String.eqb x k) eqn:E; [reflexivity|].
  rewrite H. clear H. induction enf as [|[k' v'] enf IH]; cbn; [reflexivity|].
  destruct (String.eqb k k') eqn:E2.
  - apply String.eqb_eq in E2. subst k'. rewrite E. exact IH.
  - cbn. destruct (String.eqb x k'); [reflexivity|exact IH].
Qed.

Lemma search_loop3 K value l : forall d,
  gen_trustpolicy_SignatureVerification_GetVerificationLevel_loop3 K value l d
  = K (if existsb (fun a => String.eqb a value) l then value else d).
Proof.
  induction l as [|a l IH]; intros d; [reflexivity|].
  cbn [gen_trustpolicy_SignatureVerification_GetVerificationLevel_loop3 existsb].
  destruct (String.eqb a value) eqn:E; [apply String.eqb_eq in E; subst a; reflexivity|]. apply IH.
Qed.

Lemma search_loop4 K key l : forall d,
  gen_trustpolicy_SignatureVerification_GetVerificationLevel_loop4 K key l d
  = K (if existsb (fun a => String.eqb a key) l then key else d).
Proof.
  induction l as [|a l IH]; intros d; [reflexivity|].
  cbn [gen_trustpolicy_SignatureVerification_GetVerificationLevel_loop4 existsb].
  destruct (String.eqb a key) eqn:E; [apply String.eqb_eq in E; subst a; reflexivity|]. apply IH.
Qed.

Definition copy_entry (c : trustpolicy_VerificationLevel) (kv : string * string) : trustpolicy_VerificationLevel :=
  set_VerificationLevel_Enforcement (map_set String.eqb (fst kv) (snd kv) (VerificationLevel_Enforcement c)) c.

Lemma copy_loop5 K l : forall c,
  gen_trustpolicy_SignatureVerification_GetVerificationLevel_loop5 K l c = K (fold_left copy_entry l c).
Proof. induction l as [|kv l IH]; intros c; [reflexivity|]. cbn. apply IH. Qed.

Lemma override_loop2 K : forall es c enf,
  VerificationLevel_Name c = "custom" ->
  (forall k, map_get String.eqb k (VerificationLevel_Enforcement c) = lookup k enf) ->
  match apply_overrides enf es with
  | inl e => exists x, gen_trustpolicy_SignatureVerification_GetVerificationLevel_loop2 K es c = Some (PNil, Some x)
                       /\ lerr_of x = Some e
  | inr enf' => exists c', gen_trustpolicy_SignatureVerification_GetVerificationLevel_loop2 K es c = K c'
                           /\ VerificationLevel_Name c' = "custom"
                           /\ forall k, map_get String.eqb k (VerificationLevel_Enforcement c') = lookup k enf'
  end.
Proof.
  induction es as [|[key value] es IH]; intros c enf Hn Hm.
  - cbn. eexists; split; [reflexivity|]. split; assumption.
  - cbn [apply_overrides apply_override gen_trustpolicy_SignatureVerification_GetVerificationLevel_loop2 fst snd].
    rewrite search_loop4.
    unfold mem_str; cbn [gen_validation_types gen_validation_actions trustpolicy_ValidationTypes trustpolicy_ValidationActions existsb].
    case_const "integrity" key; [|case_const "authenticity" key; [|case_const "authenticTimestamp" key; [|case_const "expiry" key; [|case_const "revocation" key]]]];
      ground_eqb.
    6:{ use_neq. eexists; split; [reflexivity|vm_compute; reflexivity]. }
    all: rewrite search_loop3; cbn [existsb trustpolicy_ValidationActions].
    all: (case_const "enforce" value; [|case_const "log" value; [|case_const "skip" value]]; ground_eqb).
    all: use_neq.
    all: try (eexists; split; [reflexivity|vm_compute; reflexivity]).
    all: match goal with |- context [apply_overrides (set_key ?k ?v ?enf) ?es] =>
           specialize (IH (set_VerificationLevel_Enforcement (map_set String.eqb k v (VerificationLevel_Enforcement c)) c)
                          (set_key k v enf) Hn (map_set_rel _ _ k v Hm));
           destruct (apply_overrides (set_key k v enf) es); exact IH
         end.
Qed.

(* the table of levels the generated code searches is the table of Generated.v *)
Lemma gen_levels_pinned :
  map (fun p => match ptr_val p with
                | Some l => (VerificationLevel_Name l, VerificationLevel_Enforcement l)
                | None => ("", [])
                end) trustpolicy_VerificationLevels = gen_levels.
Proof. reflexivity. Qed.

Lemma gen_GetVerificationLevel_equiv :
  forall sv,
    match get_level (sv_lvl sv) (sv_ov sv) with
    | inl e => exists x, gen_trustpolicy_SignatureVerification_GetVerificationLevel sv = Some (PNil, Some x)
                         /\ lerr_of x = Some e
    | inr (name, enf) => exists p, gen_trustpolicy_SignatureVerification_GetVerificationLevel sv = Some (p, None)
                                   /\ level_rel p name enf
    end.
Proof.
  intros [lvl ov ts]. unfold gen_trustpolicy_SignatureVerification_GetVerificationLevel, sv_lvl, sv_ov, get_level.
  cbn [SignatureVerification_VerificationLevel SignatureVerification_Override].
  destruct (String.eqb lvl "") eqn:E0.
  { eexists; split; [reflexivity|vm_compute; reflexivity]. }
  set (sv := mk_SignatureVerification lvl ov ts).
  assert (H1 : gen_trustpolicy_SignatureVerification_GetVerificationLevel_loop1 sv trustpolicy_VerificationLevels PNil
               = gen_trustpolicy_SignatureVerification_GetVerificationLevel_loop1 sv []
                   (if String.eqb "skip" lvl then trustpolicy_LevelSkip
                    else if String.eqb "audit" lvl then trustpolicy_LevelAudit
                    else if String.eqb "permissive" lvl then trustpolicy_LevelPermissive
                    else if String.eqb "strict" lvl then trustpolicy_LevelStrict else PNil)).
  { unfold trustpolicy_VerificationLevels.
    cbn [gen_trustpolicy_SignatureVerification_GetVerificationLevel_loop1 trustpolicy_LevelStrict trustpolicy_LevelPermissive
         trustpolicy_LevelAudit trustpolicy_LevelSkip ptr_val trustpolicy_LevelStrict_v trustpolicy_LevelPermissive_v
         trustpolicy_LevelAudit_v trustpolicy_LevelSkip_v VerificationLevel_Name sv SignatureVerification_VerificationLevel].
    destruct (String.eqb "strict" lvl), (String.eqb "permissive" lvl), (String.eqb "audit" lvl), (String.eqb "skip" lvl); reflexivity. }
  rewrite H1. clear H1.
  cbn [gen_trustpolicy_SignatureVerification_GetVerificationLevel_loop1].
  unfold map_len. subst sv. cbn [SignatureVerification_Override].
  remember (map_entries String.eqb ov) as es eqn:Ees. clear Ees ov.
  case_const "skip" lvl; [|case_const "audit" lvl; [|case_const "permissive" lvl; [|case_const "strict" lvl]]].
  5:{ assert (F : find_level lvl gen_levels = None).
      { cbn [find_level gen_levels]. rewrite E, E1, E2, E3. reflexivity. }
      rewrite F. cbn [ptr_val]. eexists; split; [reflexivity|vm_compute; reflexivity]. }
  all: cbn [find_level gen_levels]; ground_eqb.
  all: cbn [ptr_val trustpolicy_LevelSkip trustpolicy_LevelAudit trustpolicy_LevelPermissive trustpolicy_LevelStrict].
  all: destruct es as [|kv es'];
    [ cbn [List.length Z.of_nat Z.eqb]; eexists; split; [reflexivity|];
      eexists; split; [reflexivity|]; split; [reflexivity|]; intros k; apply map_get_lookup
    | replace (Z.of_nat (List.length (kv :: es')) =? 0)%Z with false
        by (symmetry; apply Z.eqb_neq; cbn [List.length]; lia) ].
  all: cbn [ptr_eqb_glob]; ground_eqb.
  { eexists; split; [reflexivity|vm_compute; reflexivity]. }
  all: rewrite copy_loop5.
  all: match goal with |- context [fold_left copy_entry ?l ?c] =>
         let v := eval vm_compute in (fold_left copy_entry l c) in change (fold_left copy_entry l c) with v
       end.
  all: match goal with |- context [apply_overrides ?base ?es] =>
         match goal with |- context [gen_trustpolicy_SignatureVerification_GetVerificationLevel_loop2 ?K es ?c] =>
           pose proof (override_loop2 K es c base eq_refl) as H8
         end
       end.
  all: match type of H8 with ?A -> _ =>
         assert (Hm : A) by (intros k; cbn [VerificationLevel_Enforcement map_get lookup];
           repeat match goal with |- context [String.eqb k ?s] =>
             let E := fresh "E" in
             destruct (String.eqb k s) eqn:E; [apply String.eqb_eq in E; subst k; ground_eqb; try reflexivity|]
           end; reflexivity);
         specialize (H8 Hm); clear Hm
       end.
  all: match goal with |- context [apply_overrides ?base ?es] => destruct (apply_overrides base es) as [e|enf'] end.
  all: try (destruct H8 as [x [Hx1 Hx2]]; exists x; split; assumption).
  all: destruct H8 as [c' [Hc1 [Hc2 Hc3]]]; eexists; split; [exact Hc1|];
       exists c'; split; [reflexivity|split; assumption].
Qed.

(* the typed view processSignature takes of a level it was handed: Enforcement[t] with the zero
   value "" for a missing key, read through [parse_action] *)
Definition enf_get (l : trustpolicy_VerificationLevel) (t : string) : string :=
  map_get_or String.eqb "" t (VerificationLevel_Enforcement l).
Definition glevel_of (l : trustpolicy_VerificationLevel) : level :=
  mk_level (parse_action (enf_get l "authenticity")) (parse_action (enf_get l "authenticTimestamp"))
           (parse_action (enf_get l "expiry")) (parse_action (enf_get l "revocation")).

Lemma level_rel_level_of p name enf l :
  level_rel p name enf -> ptr_val p = Some l -> glevel_of l = level_of enf /\ VerificationLevel_Name l = name.
Proof.
  intros (l' & P & N & M) E. rewrite P in E. injection E as ->. split; [|exact N].
  unfold glevel_of, level_of, enf_action, enf_get, map_get_or, lookup_default. now rewrite !M.
Qed.

(* transported C02_levels_legal: whatever level the code's GetVerificationLevel returns without
   error for a level name other than "skip" is one of the 24 enforcement maps the property
   quantifies over, and its integrity action is "enforce" *)
Lemma gen_GetVerificationLevel_reachable sv p l :
  gen_trustpolicy_SignatureVerification_GetVerificationLevel sv = Some (p, None) -> ptr_val p = Some l ->
  (sv_lvl sv = "skip" /\ VerificationLevel_Name l = "skip")
  \/ (In (sv_lvl sv) base_names /\ In (glevel_of l) all_24 /\ enf_get l "integrity" = "enforce").
Proof.
  intros G P. pose proof (gen_GetVerificationLevel_equiv sv) as H.
  destruct (get_level (sv_lvl sv) (sv_ov sv)) as [e|[name enf]] eqn:GL.
  - destruct H as (x & Hx & _). rewrite G in Hx. discriminate.
  - destruct H as (p' & Hp & R). rewrite G in Hp. injection Hp as <-.
    destruct (level_rel_level_of _ _ _ _ R P) as [LO NM].
    destruct (levels_legal_thm _ _ _ _ GL) as [[S O]|(B & _ & I & A)].
    + left. split; [exact S|]. rewrite NM. unfold get_level in GL. rewrite S, O in GL.
      cbn in GL. injection GL as <- _. reflexivity.
    + right. split; [exact B|]. rewrite LO. split; [exact A|].
      destruct R as (l' & P' & _ & M). rewrite P in P'. injection P' as <-.
      unfold enf_get, map_get_or. rewrite M. exact I.
Qed.

(* and every legal configuration is accepted by the code (transported C02_levels_complete) *)
Lemma gen_GetVerificationLevel_complete sv :
  In (sv_lvl sv) base_names -> Forall legal_entry (sv_ov sv) ->
  exists p l, gen_trustpolicy_SignatureVerification_GetVerificationLevel sv = Some (p, None) /\ ptr_val p = Some l.
Proof.
  intros B L. destruct (get_level_complete _ _ B L) as (nm & enf & GL).
  pose proof (gen_GetVerificationLevel_equiv sv) as H. rewrite GL in H.
  destruct H as (p & Hp & (l & P & _)). exists p, l. split; assumption.
Qed.

(* ====================================================================== *)
(* 3. versions                                                            *)
(* ====================================================================== *)

Lemma gen_IsValid_equiv s : gen_semver_IsValid s = sv_valid s.
Proof. reflexivity. Qed.

Definition sign_of (z : Z) : comparison := (z ?= 0)%Z.

(* the oracle hypothesis on golang.org/x/mod/semver.Compare, exactly on the arguments
   processSignature can pass: a valid plugin version against a valid minimum version or against
   the empty string (no minimum demanded). [xcompare] is C20's mirror of that function. *)
Definition compare_agrees (gcmp : string -> string -> Z) : Prop :=
  forall v w, sv_valid v = true -> sv_valid w = true \/ w = "" ->
    sign_of (gcmp (String.append "v" v) (String.append "v" w)) = xcompare (bytes v) (bytes w).

(* semver.Compare returns -1, 0 or +1 *)
Definition compare_range (gcmp : string -> string -> Z) : Prop :=
  forall a b, gcmp a b = (-1)%Z \/ gcmp a b = 0%Z \/ gcmp a b = 1%Z.

Lemma gen_isRequired_equiv gcmp : compare_agrees gcmp -> compare_range gcmp ->
  forall v min, sv_valid v = true ->
    match min with AStr m => sv_valid m = true | AAbsent => True | _ => False end ->
    gen_verifier_isRequiredVerificationPluginVer gcmp v (minver_string min) = ver_ge v min.
Proof.
  intros HA HR v min V M. unfold gen_verifier_isRequiredVerificationPluginVer, ver_ge.
  assert (W : sv_valid (minver_string min) = true \/ minver_string min = "")
    by (destruct min; cbn; try tauto).
  rewrite <- (HA v (minver_string min) V W). unfold sign_of.
  destruct (HR (String.append "v" v) (String.append "v" (minver_string min))) as [E|[E|E]]; rewrite E; reflexivity.
Qed.

(* ====================================================================== *)
(* 4. the shape and the verdict of the revocation validator's answer      *)
(* ====================================================================== *)

Section Rev.
Variable C : Type.
Variable subjs : C -> string.

Definition res_nonnil (p : ptr result_CertRevocationResult) : bool := is_some (ptr_val p).
(* ResultOK = 1, ResultNonRevokable = 2 (constants folded by the translator) *)
Definition res_ok (p : ptr result_CertRevocationResult) : bool :=
  match ptr_val p with
  | Some r => ((CertRevocationResult_Result r =? 1) || (CertRevocationResult_Result r =? 2))%Z
  | None => false
  end.
Lemma check_loop l : forall i,
  gen_verifier_checkRevocationResults_loop1 l i = None <-> forallb res_nonnil l = true.
Proof.
  induction l as [|p l IH]; intros i; [cbn; tauto|].
  cbn [gen_verifier_checkRevocationResults_loop1 forallb]. unfold res_nonnil at 1.
  destruct (ptr_val p); cbn [is_some andb]; [apply IH|]. split; discriminate.
Qed.

(* checkRevocationResults returns nil exactly when there is one non-nil result per certificate *)
Lemma gen_checkRevocationResults_iff results (chain : list C) :
  gen_verifier_checkRevocationResults C results chain = None
  <-> List.length results = List.length chain /\ forallb res_nonnil results = true.
Proof.
  unfold gen_verifier_checkRevocationResults, list_len. cbv zeta.
  match goal with |- context [Z.eqb ?a ?b] => destruct (Z.eqb_spec a b) as [E|N] end; cbn [negb].
  - rewrite check_loop. split; [intros H; split; [lia|exact H]|tauto].
  - split; [discriminate|]. intros [L _]. exfalso. apply N. now rewrite L.
Qed.

(* the inner loop over the server results only logs; since fix a146158 it skips nil entries *)
Lemma servers_loop K r l : gen_verifier_revocationFinalResult_loop2 K r l = K tt.
Proof.
  induction l as [|p l IH]; [reflexivity|].
  cbn [gen_verifier_revocationFinalResult_loop2]. cbv zeta. rewrite ?IH.
  destruct (ptr_val p) as [sv|]; cbn [obind]; [|reflexivity].
  repeat match goal with |- context [if ?c then _ else _] => destruct c end; reflexivity.
Qed.

Fixpoint count_ok (ps : list (ptr result_CertRevocationResult)) : Z :=
  match ps with [] => 0 | p :: ps' => (if res_ok p then 1 else 0) + count_ok ps' end.

Lemma count_ok_bounds ps : (0 <= count_ok ps <= list_len ps)%Z.
Proof.
  induction ps as [|p ps IH]; [cbn; lia|]. rewrite list_len_cons. cbn [count_ok]. destruct (res_ok p); lia.
Qed.

Lemma count_ok_all ps : count_ok ps = list_len ps <-> forallb res_ok ps = true.
Proof.
  induction ps as [|p ps IH]; [cbn; tauto|]. rewrite list_len_cons. cbn [count_ok forallb].
  pose proof (count_ok_bounds ps). destruct (res_ok p); cbn [andb].
  - rewrite <- IH. lia.
  - split; [lia|discriminate].
Qed.

Lemma count_ok_app a b : count_ok (a ++ b) = (count_ok a + count_ok b)%Z.
Proof. induction a as [|p a IH]; [reflexivity|]. cbn [app count_ok]. rewrite IH. lia. Qed.

Lemma count_ok_rev ps : count_ok (rev ps) = count_ok ps.
Proof. induction ps as [|p ps IH]; [reflexivity|]. cbn [rev count_ok]. rewrite count_ok_app, IH. cbn. lia. Qed.

(* the main loop, over indexes paired with the elements they select *)
Lemma final_loop results (chain : list C) : forall idxs ps cs fin nok prob rf rs,
  Forall2 (fun i p => list_get results i = Some p) idxs ps ->
  Forall2 (fun i c => list_get chain i = Some c) idxs cs ->
  forallb res_nonnil ps = true ->
  fin <> 1%Z ->
  exists z s, gen_verifier_revocationFinalResult_loop1 C subjs results chain idxs fin nok prob rf rs = Some (z, s)
              /\ (z = 1%Z <-> (nok + count_ok ps)%Z = list_len results).
Proof.
  induction idxs as [|i idxs IH]; intros ps cs fin nok prob rf rs HP HC NN F.
  - inversion HP; subst. cbn [gen_verifier_revocationFinalResult_loop1 count_ok].
    destruct rf; destruct (Z.eqb_spec nok (list_len results)) as [E|E];
      eexists; eexists; (split; [reflexivity|]); split; intros; try lia; try congruence.
  - inversion HP as [|? p ? ps' Hp HP']; subst. inversion HC as [|? c ? cs' Hc HC']; subst.
    cbn [forallb] in NN. apply andb_true_iff in NN. destruct NN as [N1 NN].
    cbn [gen_verifier_revocationFinalResult_loop1]. rewrite Hc, Hp.
    unfold res_nonnil in N1. cbn [count_ok]. unfold res_ok at 1.
    destruct (ptr_val p) as [r|]; [|discriminate].
    rewrite servers_loop.
    destruct ((CertRevocationResult_Result r =? 1)%Z || (CertRevocationResult_Result r =? 2)%Z) eqn:OK.
    + destruct (IH ps' cs' fin (nok + 1)%Z prob rf rs HP' HC' NN F) as (z & s & E & I).
      exists z, s. split; [exact E|]. rewrite I. lia.
    + assert (F' : CertRevocationResult_Result r <> 1%Z).
      { apply orb_false_iff in OK. destruct OK as [O _]. now apply Z.eqb_neq. }
      destruct (CertRevocationResult_Result r =? 3)%Z.
      * destruct (IH ps' cs' (CertRevocationResult_Result r) nok (subjs c) true (subjs c) HP' HC' NN F') as (z & s & E & I).
        exists z, s. split; [exact E|]. rewrite I. lia.
      * destruct (IH ps' cs' (CertRevocationResult_Result r) nok (subjs c) rf rs HP' HC' NN F') as (z & s & E & I).
        exists z, s. split; [exact E|]. rewrite I. lia.
Qed.

Lemma index_list {A} (pre l : list A) :
  Forall2 (fun i x => list_get (pre ++ l) i = Some x) (map Z.of_nat (seq (List.length pre) (List.length l))) l.
Proof.
  revert pre. induction l as [|x l IH]; intros pre; [constructor|].
  cbn [List.length seq map]. constructor.
  - rewrite list_get_nth, nth_error_app2 by lia. now rewrite Nat.sub_diag.
  - specialize (IH (pre ++ [x])). rewrite <- app_assoc, app_length in IH. cbn in IH.
    now rewrite Nat.add_1_r in IH.
Qed.

Lemma forall2_rev {A B} (R : A -> B -> Prop) l1 l2 : Forall2 R l1 l2 -> Forall2 R (rev l1) (rev l2).
Proof.
  induction 1; [constructor|]. cbn. apply Forall2_app; [assumption|]. constructor; [assumption|constructor].
Qed.

Lemma forallb_rev {A} (f : A -> bool) l : forallb f (rev l) = forallb f l.
Proof.
  induction l as [|x l IH]; [reflexivity|]. cbn [rev forallb]. rewrite forallb_app, IH. cbn.
  rewrite andb_true_r. apply andb_comm.
Qed.

(* after checkRevocationResults passed: revocationFinalResult is total and returns ResultOK
   exactly when every certificate is OK or non-revokable *)
Lemma gen_revocationFinalResult_ok_iff results (chain : list C) :
  List.length results = List.length chain -> forallb res_nonnil results = true ->
  exists z s, gen_verifier_revocationFinalResult C subjs results chain = Some (z, s)
              /\ (z = 1%Z <-> forallb res_ok results = true).
Proof.
  intros L NN. unfold gen_verifier_revocationFinalResult, list_len. cbv zeta. rewrite zrange_down_zero.
  pose proof (forall2_rev _ _ _ (index_list [] results)) as HP. cbn [app List.length] in HP.
  pose proof (forall2_rev _ _ _ (index_list [] chain)) as HC. cbn [app List.length] in HC. rewrite <- L in HC.
  destruct (final_loop results chain _ _ _ 0%Z 0%Z "" false "" HP HC) as (z & s & E & I).
  - now rewrite forallb_rev.
  - discriminate.
  - exists z, s. split; [exact E|]. rewrite I, count_ok_rev, Z.add_0_l. apply count_ok_all.
Qed.

(* both together: "the native revocation validation passes" for an answer (results, nil) of the
   validator *)
Definition rev_answer_ok (results : list (ptr result_CertRevocationResult)) (chain : list C) : Prop :=
  List.length results = List.length chain /\ forallb res_ok results = true.

Lemma gen_revocation_passes_iff results (chain : list C) :
  (gen_verifier_checkRevocationResults C results chain = None
   /\ exists s, gen_verifier_revocationFinalResult C subjs results chain = Some (1%Z, s))
  <-> rev_answer_ok results chain.
Proof.
  unfold rev_answer_ok. rewrite gen_checkRevocationResults_iff. split.
  - intros [[L NN] (s & E)]. split; [exact L|].
    destruct (gen_revocationFinalResult_ok_iff results chain L NN) as (z & s' & E' & I).
    rewrite E in E'. injection E' as <- <-. now apply I.
  - intros [L OK].
    assert (NN : forallb res_nonnil results = true).
    { clear L. induction results as [|p ps IH]; [reflexivity|]. cbn [forallb] in *.
      apply andb_true_iff in OK. destruct OK as [O1 O2]. rewrite (IH O2), andb_true_r.
      unfold res_ok in O1. unfold res_nonnil. destruct (ptr_val p); [reflexivity|discriminate]. }
    split; [split; assumption|].
    destruct (gen_revocationFinalResult_ok_iff results chain L NN) as (z & s' & E' & I).
    exists s'. rewrite E'. apply I in OK. now subst z.
Qed.

End Rev.
