(* C03_WithC08.v — the statement the C03 theorems call "selected" is the statement that
   C08 proves to be the one applied, for both entry points:

     Verify      C08_Model.v_oci d ref  (getArtifactPathFromReference + the loop of
                 OCIDocument.GetApplicableTrustPolicy)  against  C03_Model.select on the
                 artifact path;
     VerifyBlob  C08_Model.v_name / v_global (BlobDocument.GetApplicableTrustPolicy by name,
                 GetGlobalTrustPolicy)  against  C03_Model.select on the ENCODING the C03 driver
                 uses for blob cases (harness/cmd/vh-c03/main.go, "the statement applicable to
                 this entry point"): every blob statement gets the single scope <its name>, the
                 global statement gets the scope "*" when the call names no policy, and the
                 "repository" is the policy name.

   [g] gives the two fields of a C03 statement that are derived from the statement's
   signatureVerification (action of authenticity, verifyTimestamp demand); C02/C09 own that
   derivation, nothing here depends on it. *)
From NV Require Import Base C03_Model C03_Proofs C03_Audit.
From NV Require C08_Model.

Module M8 := C08_Model.

Definition tr (g : M8.stmt -> action * bool) (s : M8.stmt) : stmt :=
  mk_stmt (M8.s_name s) (M8.s_scopes s) (M8.s_stores s) (fst (g s)) (snd (g s)).

(* the driver's encoding of a blob statement; [glob] = the call names no policy *)
Definition enc (g : M8.stmt -> action * bool) (glob : bool) (s : M8.stmt) : stmt :=
  mk_stmt (M8.s_name s) (if glob && M8.s_global s then [wildcard] else [M8.s_name s])
          (M8.s_stores s) (fst (g s)) (snd (g s)).

(* ---------- Verify ---------- *)
Lemma oci_fold g path : forall d w a,
  fold_left (sel_step path) (map (tr g) d) (option_map (tr g) w, option_map (tr g) a)
  = (option_map (tr g) (fst (fold_left (M8.oci_step path) d (w, a))),
     option_map (tr g) (snd (fold_left (M8.oci_step path) d (w, a)))).
Proof.
  induction d as [|s r IH]; intros w a; [reflexivity|].
  cbn [map fold_left]. unfold sel_step at 2, M8.oci_step at 2 4. cbn [fst snd].
  change (has_scope wildcard (tr g s)) with (M8.has_scope M8.wildcard s).
  change (has_scope path (tr g s)) with (M8.has_scope path s).
  destruct (M8.has_scope M8.wildcard s).
  - exact (IH (Some s) a).
  - destruct (M8.has_scope path s); [exact (IH w (Some s)) | exact (IH w a)].
Qed.

Lemma oci_select g d path :
  select (map (tr g) d) path = option_map (tr g) (M8.oci_pick (fold_left (M8.oci_step path) d (None, None))).
Proof.
  unfold select. pose proof (oci_fold g path d None None) as H. cbn [option_map] in H.
  rewrite H. cbn [fst snd]. unfold M8.oci_pick.
  destruct (snd (fold_left (M8.oci_step path) d (None, None))); reflexivity.
Qed.

Theorem verify_selects : forall g d ref s, M8.v_oci d ref = M8.RSel s ->
  exists path, M8.last_at ref = Some path /\ select (map (tr g) d) path = Some (tr g s).
Proof.
  intros g d ref s. unfold M8.v_oci. destruct (M8.last_at ref) as [path|]; [|discriminate].
  destruct (negb (M8.scope_ok path)); [discriminate|].
  destruct (M8.oci_pick _) as [x|] eqn:E; [|discriminate]. intros H. inversion H; subst x.
  exists path. split; [reflexivity|]. now rewrite oci_select, E.
Qed.

Theorem verify_selects_none : forall g d ref, M8.v_oci d ref = M8.RErr 3 ->
  exists path, M8.last_at ref = Some path /\ select (map (tr g) d) path = None.
Proof.
  intros g d ref. unfold M8.v_oci. destruct (M8.last_at ref) as [path|]; [|discriminate].
  destruct (negb (M8.scope_ok path)); [discriminate|].
  destruct (M8.oci_pick _) as [x|] eqn:E; [discriminate|]. intros _.
  exists path. split; [reflexivity|]. now rewrite oci_select, E.
Qed.

(* ---------- VerifyBlob ---------- *)
Lemma find_last_find_unique {A} (p : A -> bool) : forall l,
  (forall x y, In x l -> In y l -> p x = true -> p y = true -> x = y) ->
  find_last p l = find p l.
Proof.
  induction l as [|a l IH]; intros H; [reflexivity|]. cbn [find_last find].
  destruct (p a) eqn:Ea.
  - destruct (find_last p l) as [y|] eqn:E; [|reflexivity].
    apply find_last_some in E. destruct E as [Hy Hpy]. f_equal.
    apply H; auto; [now right | now left].
  - rewrite IH by (intros x y Hx Hy; apply H; now right). now destruct (find p l).
Qed.

Lemma names_unique_eq : forall d x y, M8.names_unique d = true ->
  In x d -> In y d -> M8.s_name x = M8.s_name y -> x = y.
Proof.
  unfold M8.names_unique. induction d as [|a r IH]; intros x y Hu Hx Hy E; [contradiction|].
  cbn [map M8.nodupb] in Hu. apply andb_true_iff in Hu. destruct Hu as [Ha Hr].
  apply negb_true_iff in Ha.
  assert (Hno : forall z, In z r -> M8.s_name z <> M8.s_name a).
  { intros z Hz Ez. assert (mem_str (M8.s_name a) (map M8.s_name r) = true).
    { apply mem_str_In, in_map_iff. exists z. split; [exact Ez | exact Hz]. } congruence. }
  destruct Hx as [<-|Hx], Hy as [<-|Hy]; auto.
  - exfalso. apply (Hno y Hy). now symmetry.
  - exfalso. now apply (Hno x Hx).
Qed.

Lemma global_unique_eq : forall d x y, M8.global_unique d = true ->
  In x d -> In y d -> M8.s_global x = true -> M8.s_global y = true -> x = y.
Proof.
  intros d x y Hu Hx Hy Gx Gy. unfold M8.global_unique in Hu.
  assert (Fx : In x (filter M8.s_global d)) by (apply filter_In; auto).
  assert (Fy : In y (filter M8.s_global d)) by (apply filter_In; auto).
  destruct (filter M8.s_global d) as [|z [|z' t]]; [contradiction | | discriminate].
  destruct Fx as [<-|[]], Fy as [<-|[]]. reflexivity.
Qed.

Lemma mem_str_single x y : mem_str x [y] = String.eqb x y.
Proof. unfold mem_str. cbn. apply orb_false_r. Qed.

(* a call that names a policy *)
Lemma blob_name_select g d n :
  M8.names_unique d = true -> (forall x, In x d -> M8.s_name x <> wildcard) ->
  select (map (enc g false) d) n = option_map (enc g false) (find (M8.name_is n) d).
Proof.
  intros Hu Hstar. rewrite select_eq, !find_last_map.
  assert (Hw : forall x, In x d -> is_wild (enc g false x) = false).
  { intros x Hx. unfold is_wild, has_scope, enc. cbn [andb st_scopes]. rewrite mem_str_single.
    apply String.eqb_neq. intros E. apply (Hstar x Hx). now symmetry. }
  rewrite (find_last_none (fun x => is_wild (enc g false x))) by exact Hw.
  assert (He : find_last (fun x => is_exact n (enc g false x)) d = find (M8.name_is n) d).
  { rewrite find_last_find_unique.
    - clear Hu. induction d as [|a r IH]; [reflexivity|]. cbn [find].
      assert (E : is_exact n (enc g false a) = M8.name_is n a).
      { unfold is_exact. fold (is_wild (enc g false a)). rewrite (Hw a (or_introl eq_refl)). cbn [negb andb].
        unfold has_scope, enc. cbn [andb st_scopes]. rewrite mem_str_single. unfold M8.name_is.
        apply String.eqb_sym. }
      rewrite E. destruct (M8.name_is n a); [reflexivity|]. apply IH.
      + intros x Hx. apply Hstar. now right.
      + intros x Hx. apply Hw. now right.
    - intros x y Hx Hy Px Py. apply (names_unique_eq d x y Hu Hx Hy).
      unfold is_exact, has_scope, enc in Px, Py. cbn [andb st_scopes] in Px, Py.
      rewrite !mem_str_single in Px, Py. apply andb_true_iff in Px. apply andb_true_iff in Py.
      destruct Px as [_ Px], Py as [_ Py]. apply String.eqb_eq in Px. apply String.eqb_eq in Py. congruence. }
  rewrite He. now destruct (find (M8.name_is n) d).
Qed.

Theorem verifyblob_named_selects : forall g d n s,
  M8.names_unique d = true -> (forall x, In x d -> M8.s_name x <> wildcard) ->
  M8.v_name d n = M8.RSel s ->
  select (map (enc g false) d) n = Some (enc g false s).
Proof.
  intros g d n s Hu Hstar. unfold M8.v_name. destruct (M8.blank n); [discriminate|].
  rewrite (blob_name_select g d n Hu Hstar).
  destruct (find (M8.name_is n) d); [|discriminate]. intros H. now inversion H.
Qed.

Theorem verifyblob_named_none : forall g d n,
  M8.names_unique d = true -> (forall x, In x d -> M8.s_name x <> wildcard) ->
  M8.v_name d n = M8.RErr 5 ->
  select (map (enc g false) d) n = None.
Proof.
  intros g d n Hu Hstar. unfold M8.v_name. destruct (M8.blank n); [discriminate|].
  rewrite (blob_name_select g d n Hu Hstar).
  now destruct (find (M8.name_is n) d).
Qed.

(* a call that names no policy: the global statement *)
Lemma blob_global_select g d :
  M8.global_unique d = true ->
  (forall x, In x d -> M8.s_name x <> wildcard /\ M8.s_name x <> "") ->
  select (map (enc g true) d) "" = option_map (enc g true) (find M8.s_global d).
Proof.
  intros Hu Hn. rewrite select_eq, !find_last_map.
  assert (Hw : forall x, In x d -> is_wild (enc g true x) = M8.s_global x).
  { intros x Hx. unfold is_wild, has_scope, enc. cbn [andb st_scopes].
    destruct (M8.s_global x); rewrite mem_str_single; [reflexivity|].
    apply String.eqb_neq. intros E. apply (proj1 (Hn x Hx)). now symmetry. }
  assert (Hex : forall x, In x d -> is_exact "" (enc g true x) = false).
  { intros x Hx. unfold is_exact. fold (is_wild (enc g true x)). rewrite (Hw x Hx).
    destruct (M8.s_global x) eqn:G; [reflexivity|]. cbn [negb andb].
    unfold has_scope, enc. cbn [andb st_scopes]. rewrite G, mem_str_single.
    apply String.eqb_neq. intros E. apply (proj2 (Hn x Hx)). now symmetry. }
  rewrite (find_last_none (fun x => is_exact "" (enc g true x))) by exact Hex. cbn [opt_or option_map].
  assert (He : find_last (fun x => is_wild (enc g true x)) d = find M8.s_global d).
  { rewrite find_last_find_unique.
    - clear Hu Hex. induction d as [|a r IH]; [reflexivity|]. cbn [find].
      rewrite (Hw a (or_introl eq_refl)). destruct (M8.s_global a); [reflexivity|]. apply IH.
      + intros x Hx. apply Hn. now right.
      + intros x Hx. apply Hw. now right.
    - intros x y Hx Hy Px Py. rewrite (Hw x Hx) in Px. rewrite (Hw y Hy) in Py.
      exact (global_unique_eq d x y Hu Hx Hy Px Py). }
  now rewrite He.
Qed.

Theorem verifyblob_global_selects : forall g d s,
  M8.global_unique d = true ->
  (forall x, In x d -> M8.s_name x <> wildcard /\ M8.s_name x <> "") ->
  M8.v_global d = M8.RSel s ->
  select (map (enc g true) d) "" = Some (enc g true s).
Proof.
  intros g d s Hu Hn. unfold M8.v_global. rewrite (blob_global_select g d Hu Hn).
  destruct (find M8.s_global d); [|discriminate]. intros H. now inversion H.
Qed.

Theorem verifyblob_global_none : forall g d,
  M8.global_unique d = true ->
  (forall x, In x d -> M8.s_name x <> wildcard /\ M8.s_name x <> "") ->
  M8.v_global d = M8.RErr 6 ->
  select (map (enc g true) d) "" = None.
Proof.
  intros g d Hu Hn. unfold M8.v_global. rewrite (blob_global_select g d Hu Hn).
  now destruct (find M8.s_global d).
Qed.

(* ---------- the soundness clause, worded on the statement C08 selects ---------- *)
Theorem verify_sound : forall g d ref s sch fs chain tok path,
  M8.v_oci d ref = M8.RSel s -> M8.last_at ref = Some path ->
  o_auth (model (mk_input sch (map (tr g) d) path fs chain tok)) = Some APass ->
  exists ty name l c, store_type_of sch = Some ty /\ In (store_value ty name) (M8.s_stores s) /\
    fs_get fs ty name = Certs l /\ In c l /\ In c chain.
Proof.
  intros g d ref s sch fs chain tok path Hv Hp H.
  destruct (verify_selects g d ref s Hv) as (path' & Hp' & Hs). rewrite Hp in Hp'. inversion Hp'; subst path'.
  destruct (sound _ H) as (st & ty & name & l & c & Hs' & Hty & Hin & Hfs & Hcl & Hcc).
  cbn [i_policy i_repo i_scheme i_fs i_chain] in *. rewrite Hs in Hs'. inversion Hs'; subst st.
  exists ty, name, l, c. auto.
Qed.

Theorem verifyblob_sound : forall g d q s sch fs chain tok,
  M8.names_unique d = true -> M8.global_unique d = true ->
  (forall x, In x d -> M8.s_name x <> wildcard /\ M8.s_name x <> "") ->
  M8.v_select d q = M8.RSel s ->
  match q with
  | M8.QOci _ => True
  | M8.QName n =>
      o_auth (model (mk_input sch (map (enc g false) d) n fs chain tok)) = Some APass ->
      exists ty name l c, store_type_of sch = Some ty /\ In (store_value ty name) (M8.s_stores s) /\
        fs_get fs ty name = Certs l /\ In c l /\ In c chain
  | M8.QGlobal =>
      o_auth (model (mk_input sch (map (enc g true) d) "" fs chain tok)) = Some APass ->
      exists ty name l c, store_type_of sch = Some ty /\ In (store_value ty name) (M8.s_stores s) /\
        fs_get fs ty name = Certs l /\ In c l /\ In c chain
  end.
Proof.
  intros g d q s sch fs chain tok Hnu Hgu Hn Hv. destruct q as [ref|n|]; [exact I| |]; intros H;
    destruct (sound _ H) as (st & ty & name & l & c & Hs' & Hty & Hin & Hfs & Hcl & Hcc);
    cbn [i_policy i_repo i_scheme i_fs i_chain] in *.
  - rewrite (verifyblob_named_selects g d n s Hnu (fun x Hx => proj1 (Hn x Hx)) Hv) in Hs'.
    inversion Hs'; subst st. exists ty, name, l, c. auto.
  - rewrite (verifyblob_global_selects g d s Hgu Hn Hv) in Hs'.
    inversion Hs'; subst st. exists ty, name, l, c. auto.
Qed.
