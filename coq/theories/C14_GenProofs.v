(* C14_GenProofs.v — proofs about the definitions GoLite generates for C14 (theories/C14_Gen.v,
   re-translated from the Go sources on every run).  The statements are repeated in
   props/C14_Generated.v, which the driver re-checks with Print Assumptions. *)
From Coq Require Import List Bool String Ascii NArith ZArith Lia.
From NV Require Import Base Generated GoLib C14_Model C14_Proofs C14_Writer C14_Gen.
Import ListNotations.
Open Scope list_scope.
Open Scope string_scope.

(* ---------- strings ---------- *)
Lemma string_rev_ind : forall P : string -> Prop,
  P "" -> (forall s a, P s -> P (s ++ String a "")) -> forall s, P s.
Proof.
  intros P H0 HS s. rewrite <- (string_of_list_ascii_of_string s).
  induction (list_ascii_of_string s) as [|a l IH] using rev_ind; [exact H0|].
  replace (string_of_list_ascii (l ++ [a])%list) with (string_of_list_ascii l ++ String a "").
  - apply HS. exact IH.
  - clear. induction l as [|b l IH]; cbn; [reflexivity|]. rewrite IH. reflexivity.
Qed.

Lemma sapp_assoc : forall a b c : string, ((a ++ b) ++ c = a ++ (b ++ c))%string.
Proof. induction a as [|x a IH]; intros; cbn; [reflexivity|]. rewrite IH. reflexivity. Qed.

Lemma sapp_nil_r : forall a : string, (a ++ "")%string = a.
Proof. induction a as [|x a IH]; cbn; [reflexivity|]. rewrite IH. reflexivity. Qed.

Lemma slen_app : forall a b : string, String.length (a ++ b) = (String.length a + String.length b)%nat.
Proof. induction a as [|x a IH]; intros; cbn; [reflexivity|]. rewrite IH. reflexivity. Qed.

Lemma get_app_len : forall pre a suf, String.get (String.length pre) (pre ++ String a suf) = Some a.
Proof. induction pre as [|x pre IH]; intros; cbn; [reflexivity|]. apply IH. Qed.

Lemma str_get_app_len : forall pre a suf,
  str_get (pre ++ String a suf) (Z.of_nat (String.length pre)) = Some (Z.of_N (N_of_ascii a)).
Proof.
  intros. unfold str_get. destruct (Z.of_nat (String.length pre) <? 0)%Z eqn:E; [apply Z.ltb_lt in E; lia|].
  rewrite Nat2Z.id, get_app_len. reflexivity.
Qed.

Lemma take_app_len : forall x r, take (String.length x) (x ++ r) = x.
Proof. induction x as [|a x IH]; intros; cbn; [destruct r; reflexivity|]. rewrite IH. reflexivity. Qed.

Lemma drop_app_len : forall x r, drop (String.length x) (x ++ r) = r.
Proof. induction x as [|a x IH]; intros; cbn; [reflexivity|]. apply IH. Qed.

Lemma take_all : forall y, take (String.length y) y = y.
Proof. intros y. rewrite <- (sapp_nil_r y) at 2. apply take_app_len. Qed.

Lemma byte_is_star : forall a, Z.eqb (Z.of_N (N_of_ascii a)) 42 = Ascii.eqb a "*".
Proof. intros a. destruct a as [[] [] [] [] [] [] [] []]; reflexivity. Qed.

Lemma byte_is_slash : forall a, Z.eqb 47 (Z.of_N (N_of_ascii a)) = Ascii.eqb a "/".
Proof. intros a. destruct a as [[] [] [] [] [] [] [] []]; reflexivity. Qed.

(* ---------- the model's split at the last '*' ---------- *)
Lemma sls_snoc : forall pre a,
  split_last_star (pre ++ String a "") =
  if Ascii.eqb a "*" then Some (pre, "")
  else match split_last_star pre with Some (x, y) => Some (x, (y ++ String a "")%string) | None => None end.
Proof.
  induction pre as [|b pre IH]; intros a.
  - cbn. destruct (Ascii.eqb a "*"); reflexivity.
  - cbn [append split_last_star]. rewrite IH.
    destruct (Ascii.eqb a "*"); [reflexivity|].
    destruct (split_last_star pre) as [[x y]|]; [reflexivity|].
    destruct (Ascii.eqb b "*"); reflexivity.
Qed.

Lemma sls_spec : forall p x y, split_last_star p = Some (x, y) -> p = (x ++ String "*" y)%string.
Proof.
  induction p as [|a p IH]; intros x y H; cbn in H; [discriminate|].
  destruct (split_last_star p) as [[x1 y1]|].
  - inversion H; subst. cbn. rewrite (IH x1 y eq_refl). reflexivity.
  - destruct (Ascii.eqb a "*") eqn:E; [|discriminate].
    inversion H; subst. apply Ascii.eqb_eq in E. subst a. reflexivity.
Qed.

(* ---------- internal/bytealg.LastIndexByteString(s, '*') ---------- *)
Definition last_star_pos (s : string) : Z :=
  match split_last_star s with Some (x, _) => Z.of_nat (String.length x) | None => (-1)%Z end.

Lemma last_loop : forall pre suf,
  gen_bytealg_LastIndexByteString_loop1 (pre ++ suf) 42
    (rev (map Z.of_nat (seq 0 (String.length pre)))) = Some (last_star_pos pre).
Proof.
  intros pre. induction pre as [|pre a IH] using string_rev_ind; intros suf; [reflexivity|].
  rewrite slen_app. cbn [String.length]. rewrite Nat.add_1_r, seq_S, map_app, rev_app_distr.
  cbn [map rev app plus gen_bytealg_LastIndexByteString_loop1].
  rewrite sapp_assoc. cbn [append]. rewrite str_get_app_len, byte_is_star.
  unfold last_star_pos. rewrite sls_snoc.
  destruct (Ascii.eqb a "*"); [reflexivity|].
  rewrite IH. unfold last_star_pos. destruct (split_last_star pre) as [[x y]|]; reflexivity.
Qed.

Lemma gen_LastIndexByteString_star : forall s,
  gen_bytealg_LastIndexByteString s 42 = Some (last_star_pos s).
Proof.
  intros s. unfold gen_bytealg_LastIndexByteString, str_len. rewrite zrange_down_zero.
  rewrite <- (sapp_nil_r s) at 1. apply last_loop.
Qed.

(* ---------- os.prefixAndSuffix ---------- *)
Definition prefix_suffix_model (p : string) : string * string * option err :=
  if contains_byte "/" p then ("", "", os_errPatternHasSeparator)
  else match split_last_star p with Some (a, b) => (a, b, None) | None => (p, "", None) end.

Lemma sep_loop : forall rest done pre suf,
  gen_os_prefixAndSuffix_loop1 pre suf (done ++ rest)
    (map (fun k => (0 + Z.of_nat k)%Z) (seq (String.length done) (String.length rest))) =
  if contains_byte "/" rest then Some ("", "", os_errPatternHasSeparator)
  else gen_os_prefixAndSuffix_loop1 pre suf (done ++ rest) [].
Proof.
  induction rest as [|a rest IH]; intros done pre suf; [reflexivity|].
  cbn [String.length seq map contains_byte].
  change (gen_os_prefixAndSuffix_loop1 pre suf (done ++ String a rest)
            ((0 + Z.of_nat (String.length done))%Z :: ?l))
    with (match str_get (done ++ String a rest) (0 + Z.of_nat (String.length done))%Z with
          | Some o => if gen_os_IsPathSeparator o then Some ("", "", os_errPatternHasSeparator)
                      else gen_os_prefixAndSuffix_loop1 pre suf (done ++ String a rest) l
          | None => None
          end).
  rewrite Z.add_0_l, str_get_app_len. unfold gen_os_IsPathSeparator. rewrite byte_is_slash.
  destruct (Ascii.eqb a "/"); [reflexivity|]. cbn [orb].
  specialize (IH (done ++ String a "")%string pre suf).
  rewrite sapp_assoc, slen_app in IH. cbn [append String.length] in IH.
  rewrite Nat.add_1_r in IH. exact IH.
Qed.

Theorem gen_prefixAndSuffix_equiv : forall p,
  gen_os_prefixAndSuffix p = Some (prefix_suffix_model p).
Proof.
  intros p. unfold gen_os_prefixAndSuffix, zrange_up, str_len, prefix_suffix_model.
  rewrite Z.sub_0_r, Nat2Z.id.
  pose proof (sep_loop p "" "" "") as L. cbn [append String.length] in L. rewrite L. clear L.
  destruct (contains_byte "/" p); [reflexivity|].
  cbn [gen_os_prefixAndSuffix_loop1]. rewrite gen_LastIndexByteString_star.
  unfold last_star_pos.
  destruct (split_last_star p) as [[x y]|] eqn:E; [|reflexivity].
  apply sls_spec in E. subst p.
  replace (negb (Z.of_nat (String.length x) =? -1)%Z) with true
    by (symmetry; apply negb_true_iff, Z.eqb_neq; lia).
  unfold str_slice, str_len. rewrite slen_app. cbn [String.length].
  replace ((0 <=? 0)%Z && (0 <=? Z.of_nat (String.length x))%Z
           && (Z.of_nat (String.length x) <=? Z.of_nat (String.length x + S (String.length y)))%Z) with true
    by (symmetry; rewrite !andb_true_iff; repeat split; apply Z.leb_le; lia).
  replace ((0 <=? Z.of_nat (String.length x) + 1)%Z
           && (Z.of_nat (String.length x) + 1 <=? Z.of_nat (String.length x + S (String.length y)))%Z
           && (Z.of_nat (String.length x + S (String.length y)) <=? Z.of_nat (String.length x + S (String.length y)))%Z)
    with true by (symmetry; rewrite !andb_true_iff; repeat split; apply Z.leb_le; lia).
  rewrite Z.sub_0_r, Nat2Z.id. cbn [Z.to_nat drop].
  change (drop 0 (x ++ String "*" y)) with (x ++ String "*" y)%string.
  rewrite take_app_len.
  replace (Z.to_nat (Z.of_nat (String.length x + S (String.length y)) - (Z.of_nat (String.length x) + 1)))
    with (String.length y) by lia.
  replace (Z.to_nat (Z.of_nat (String.length x) + 1)) with (S (String.length x)) by lia.
  replace (S (String.length x)) with (String.length (x ++ String "*" "")) by (rewrite slen_app; cbn; lia).
  replace (x ++ String "*" y)%string with ((x ++ String "*" "") ++ y)%string by (rewrite sapp_assoc; reflexivity).
  rewrite drop_app_len, take_all. reflexivity.
Qed.

(* the pattern of the code: the model's prefix and suffix of a temporary name are what Go's own
   prefixAndSuffix computes for tempFileNamePrefix *)
Lemma gen_prefixAndSuffix_pattern :
  gen_os_prefixAndSuffix gen_temp_file_pattern = Some (tmp_prefix, tmp_suffix, None).
Proof. rewrite gen_prefixAndSuffix_equiv. vm_compute. reflexivity. Qed.

(* a name built the way os.CreateTemp builds it (prefix ++ decimal digits ++ suffix, the two parts
   being what Go's prefixAndSuffix returns for the code's pattern) is a temporary name of the model *)
Lemma created_name_is_temp : forall pre suf ds,
  gen_os_prefixAndSuffix gen_temp_file_pattern = Some (pre, suf, None) ->
  ds <> [] -> forallb is_digit ds = true ->
  is_temp (pre ++ string_of_list_ascii ds ++ suf) = true.
Proof.
  intros pre suf ds H Hne Hd. rewrite gen_prefixAndSuffix_pattern in H. inversion H; subst pre suf. clear H.
  change tmp_suffix with "". rewrite sapp_nil_r.
  unfold is_temp. change tmp_suffix with "". change tmp_prefix with "notation-".
  cbn [has_prefix append list_ascii_of_string String.length skipn List.length Ascii.eqb Bool.eqb andb].
  rewrite list_ascii_of_string_of_list_ascii, Nat.sub_0_r, firstn_all, skipn_all.
  destruct ds as [|d ds]; [contradiction|]. rewrite Hd. reflexivity.
Qed.

(* ---------- crl.FileCache.fileName ---------- *)
(* the hash function the code computes keys with, as the model's parameter [sha]: bytes as N *)
Definition sha_of_sum (sum : list Z -> list Z) (u : string) : list N := map Z.to_N (sum (bytes_of_str u)).

Lemma gen_fileName_key : forall (sum : list Z -> list Z) (hexenc : list Z -> string) c url,
  (forall l, hexenc l = hex (map Z.to_N l)) ->
  gen_crl_FileCache_fileName sum hexenc c url = key (sha_of_sum sum) url.
Proof. intros sum hexenc c url H. unfold gen_crl_FileCache_fileName, key, sha_of_sum. apply H. Qed.

Lemma gen_fileName_not_temp : forall (sum : list Z -> list Z) (hexenc : list Z -> string) c url,
  (forall l, hexenc l = hex (map Z.to_N l)) ->
  is_temp (gen_crl_FileCache_fileName sum hexenc c url) = false.
Proof. intros. rewrite gen_fileName_key by assumption. apply key_not_temp. Qed.

(* ---------- crl.FileCache.Get: the one access to the directory ---------- *)
Section GetAccess.
Variable sum : list Z -> list Z.
Variable hexenc : list Z -> string.
Variable join : list string -> string.
Variable parse : list Z -> ptr x509_RevocationList * option err.
Variable now : Z.
Variable unmarshal : list Z -> crl_fileCacheContent -> crl_fileCacheContent * option err.

(* the path Get reads: <root>/<fileName url> *)
Definition get_path (c : crl_FileCache) (url : string) : string :=
  join [FileCache_root c; gen_crl_FileCache_fileName sum hexenc c url].

(* Get consults the file system through ONE path: two behaviours of os.ReadFile that agree on the
   key path give the same result *)
Lemma gen_Get_reads_key_only : forall (rf rf' : string -> list Z * option err) c url,
  rf (get_path c url) = rf' (get_path c url) ->
  gen_crl_FileCache_Get sum hexenc join rf parse now unmarshal c url =
  gen_crl_FileCache_Get sum hexenc join rf' parse now unmarshal c url.
Proof. intros rf rf' c url H. unfold gen_crl_FileCache_Get. fold (get_path c url). rewrite H. reflexivity. Qed.

(* os.ReadFile failed: a miss exactly when the error is (wraps) fs.ErrNotExist, otherwise an error
   that is not a miss; nothing is decoded *)
Lemma gen_Get_read_error : forall (rf : string -> list Z * option err) c url e,
  snd (rf (get_path c url)) = Some e ->
  exists r, gen_crl_FileCache_Get sum hexenc join rf parse now unmarshal c url = Some (PNil, r) /\
    if err_is (Some e) fs_ErrNotExist then r = crl_ErrCacheMiss
    else exists f w, r = Some (Err "fmt" f w).
Proof.
  intros rf c url e H. unfold gen_crl_FileCache_Get. fold (get_path c url).
  destruct (rf (get_path c url)) as [bytes oe]. cbn [snd] in H. subst oe. cbn [is_none negb].
  destruct (err_is (Some e) fs_ErrNotExist); eexists; (split; [reflexivity|]); [reflexivity|eauto].
Qed.
End GetAccess.
