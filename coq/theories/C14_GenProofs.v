(* C14_GenProofs.v — proofs about the definitions GoLite generates for C14 (theories/C14_Gen.v,
   re-translated from the Go sources on every run).  The statements are repeated in
   props/C14_Generated.v, which the driver re-checks with Print Assumptions. *)
From Coq Require Import List Bool String Ascii NArith ZArith Lia.
From NV Require Import Base Generated GoLib C14_Model C14_Proofs C14_Writer C14_Gen.
Import ListNotations.
Open Scope list_scope.
Open Scope string_scope.

(* ---------- strings ---------- *)
Lemma string_rev_ind : forall P : string -> Prop,
  P "" -> (forall s a, P s -> P (s ++ String a "")) -> forall s, P s.
Proof.
  intros P H0 HS s. rewrite <- (string_of_list_ascii_of_string s).
  induction (list_ascii_of_string s) as [|a l IH] using rev_ind; [exact H0|].
  replace (string_of_list_ascii (l ++ [a])%list) with (string_of_list_ascii l ++ String a "").
  - apply HS. exact IH.
  - clear. induction l as [|b l IH]; cbn; [reflexivity|]. rewrite IH. reflexivity.
Qed.

Lemma sapp_assoc : forall a b c : string, ((a ++ b) ++ c = a ++ (b ++ c))%string.
Proof. induction a as [|x a IH]; intros; cbn; [reflexivity|]. rewrite IH. reflexivity. Qed.

Lemma sapp_nil_r : forall a : string, (a ++ "")%string = a.
Proof. induction a as [|x a IH]; cbn; [reflexivity|]. rewrite IH. reflexivity. Qed.

Lemma slen_app : forall a b : string, String.length (a ++ b) = (String.length a + String.length b)%nat.
Proof. induction a as [|x a IH]; intros; cbn; [reflexivity|]. rewrite IH. reflexivity. Qed.

Lemma get_app_len : forall pre a suf, String.get (String.length pre) (pre ++ String a suf) = Some a.
Proof. induction pre as [|x pre IH]; intros; cbn; [reflexivity|]. apply IH. Qed.

Lemma str_get_app_len : forall pre a suf,
  str_get (pre ++ String a suf) (Z.of_nat (String.length pre)) = Some (Z.of_N (N_of_ascii a)).
Proof.
  intros. unfold str_get. destruct (Z.of_nat (String.length pre) <? 0)%Z eqn:E; [apply Z.ltb_lt in E; lia|].
  rewrite Nat2Z.id, get_app_len. reflexivity.
Qed.

Lemma take_app_len : forall x r, take (String.length x) (x ++ r) = x.
Proof. induction x as [|a x IH]; intros; cbn; [destruct r; reflexivity|]. rewrite IH. reflexivity. Qed.

Lemma drop_app_len : forall x r, drop (String.length x) (x ++ r) = r.
Proof. induction x as [|a x IH]; intros; cbn; [reflexivity|]. apply IH. Qed.

Lemma take_all : forall y, take (String.length y) y = y.
Proof. intros y. rewrite <- (sapp_nil_r y) at 2. apply take_app_len. Qed.

Lemma byte_is_star : forall a, Z.eqb (Z.of_N (N_of_ascii a)) 42 = Ascii.eqb a "*".
Proof. intros a. destruct a as [[] [] [] [] [] [] [] []]; reflexivity. Qed.

Lemma byte_is_slash : forall a, Z.eqb 47 (Z.of_N (N_of_ascii a)) = Ascii.eqb a "/".
Proof. intros a. destruct a as [[] [] [] [] [] [] [] []]; reflexivity. Qed.

(* ---------- the model's split at the last '*' ---------- *)
Lemma sls_snoc : forall pre a,
  split_last_star (pre ++ String a "") =
  if Ascii.eqb a "*" then Some (pre, "")
  else match split_last_star pre with Some (x, y) => Some (x, (y ++ String a "")%string) | None => None end.
Proof.
  induction pre as [|b pre IH]; intros a.
  - cbn. destruct (Ascii.eqb a "*"); reflexivity.
  - cbn [append split_last_star]. rewrite IH.
    destruct (Ascii.eqb a "*"); [reflexivity|].
    destruct (split_last_star pre) as [[x y]|]; [reflexivity|].
    destruct (Ascii.eqb b "*"); reflexivity.
Qed.

Lemma sls_spec : forall p x y, split_last_star p = Some (x, y) -> p = (x ++ String "*" y)%string.
Proof.
  induction p as [|a p IH]; intros x y H; cbn in H; [discriminate|].
  destruct (split_last_star p) as [[x1 y1]|].
  - inversion H; subst. cbn. rewrite (IH x1 y eq_refl). reflexivity.
  - destruct (Ascii.eqb a "*") eqn:E; [|discriminate].
    inversion H; subst. apply Ascii.eqb_eq in E. subst a. reflexivity.
Qed.

(* ---------- internal/bytealg.LastIndexByteString(s, '*') ---------- *)
Definition last_star_pos (s : string) : Z :=
  match split_last_star s with Some (x, _) => Z.of_nat (String.length x) | None => (-1)%Z end.

Lemma last_loop : forall pre suf,
  gen_bytealg_LastIndexByteString_loop1 (pre ++ suf) 42
    (rev (map Z.of_nat (seq 0 (String.length pre)))) = Some (last_star_pos pre).
Proof.
  intros pre. induction pre as [|pre a IH] using string_rev_ind; intros suf; [reflexivity|].
  rewrite slen_app. cbn [String.length]. rewrite Nat.add_1_r, seq_S, map_app, rev_app_distr.
  cbn [map rev app plus gen_bytealg_LastIndexByteString_loop1].
  rewrite sapp_assoc. cbn [append]. rewrite str_get_app_len, byte_is_star.
  unfold last_star_pos. rewrite sls_snoc.
  destruct (Ascii.eqb a "*"); [reflexivity|].
  rewrite IH. unfold last_star_pos. destruct (split_last_star pre) as [[x y]|]; reflexivity.
Qed.

Lemma gen_LastIndexByteString_star : forall s,
  gen_bytealg_LastIndexByteString s 42 = Some (last_star_pos s).
Proof.
  intros s. unfold gen_bytealg_LastIndexByteString, str_len. rewrite zrange_down_zero.
  rewrite <- (sapp_nil_r s) at 1. apply last_loop.
Qed.

(* ---------- os.prefixAndSuffix ---------- *)
Definition prefix_suffix_model (p : string) : string * string * option err :=
  if contains_byte "/" p then ("", "", os_errPatternHasSeparator)
  else match split_last_star p with Some (a, b) => (a, b, None) | None => (p, "", None) end.

Lemma sep_loop : forall rest done pre suf,
  gen_os_prefixAndSuffix_loop1 pre suf (done ++ rest)
    (map (fun k => (0 + Z.of_nat k)%Z) (seq (String.length done) (String.length rest))) =
  if contains_byte "/" rest then Some ("", "", os_errPatternHasSeparator)
  else gen_os_prefixAndSuffix_loop1 pre suf (done ++ rest) [].
Proof.
  induction rest as [|a rest IH]; intros done pre suf; [reflexivity|].
  cbn [String.length seq map contains_byte].
  change (gen_os_prefixAndSuffix_loop1 pre suf (done ++ String a rest)
            ((0 + Z.of_nat (String.length done))%Z :: ?l))
    with (match str_get (done ++ String a rest) (0 + Z.of_nat (String.length done))%Z with
          | Some o => if gen_os_IsPathSeparator o then Some ("", "", os_errPatternHasSeparator)
                      else gen_os_prefixAndSuffix_loop1 pre suf (done ++ String a rest) l
          | None => None
          end).
  rewrite Z.add_0_l, str_get_app_len. unfold gen_os_IsPathSeparator. rewrite byte_is_slash.
  destruct (Ascii.eqb a "/"); [reflexivity|]. cbn [orb].
  specialize (IH (done ++ String a "")%string pre suf).
  rewrite sapp_assoc, slen_app in IH. cbn [append String.length] in IH.
  rewrite Nat.add_1_r in IH. exact IH.
Qed.

Theorem gen_prefixAndSuffix_equiv : forall p,
  gen_os_prefixAndSuffix p = Some (prefix_suffix_model p).
Proof.
  intros p. unfold gen_os_prefixAndSuffix, zrange_up, str_len, prefix_suffix_model.
  rewrite Z.sub_0_r, Nat2Z.id.
  pose proof (sep_loop p "" "" "") as L. cbn [append String.length] in L. rewrite L. clear L.
  destruct (contains_byte "/" p); [reflexivity|].
  cbn [gen_os_prefixAndSuffix_loop1]. rewrite gen_LastIndexByteString_star.
  unfold last_star_pos.
  destruct (split_last_star p) as [[x y]|] eqn:E; [|reflexivity].
  apply sls_spec in E. subst p.
  replace (negb (Z.of_nat (String.length x) =? -1)%Z) with true
    by (symmetry; apply negb_true_iff, Z.eqb_neq; lia).
  unfold str_slice, str_len. rewrite slen_app. cbn [String.length].
  replace ((0 <=? 0)%Z && (0 <=? Z.of_nat (String.length x))%Z
           && (Z.of_nat (String.length x) <=? Z.of_nat (String.length x + S (String.length y)))%Z) with true
    by (symmetry; rewrite !andb_true_iff; repeat split; apply Z.leb_le; lia).
  replace ((0 <=? Z.of_nat (String.length x) + 1)%Z
           && (Z.of_nat (String.length x) + 1 <=? Z.of_nat (String.length x + S (String.length y)))%Z
           && (Z.of_nat (String.length x + S (String.length y)) <=? Z.of_nat (String.length x + S (String.length y)))%Z)
    with true by (symmetry; rewrite !andb_true_iff; repeat split; apply Z.leb_le; lia).
  rewrite Z.sub_0_r, Nat2Z.id. cbn [Z.to_nat drop].
  change (drop 0 (x ++ String "*" y)) with (x ++ String "*" y)%string.
  rewrite take_app_len.
  replace (Z.to_nat (Z.of_nat (String.length x + S (String.length y)) - (Z.of_nat (String.length x) + 1)))
    with (String.length y) by lia.
  replace (Z.to_nat (Z.of_nat (String.length x) + 1)) with (S (String.length x)) by lia.
  replace (S (String.length x)) with (String.length (x ++ String "*" "")) by (rewrite slen_app; cbn; lia).
  replace (x ++ String "*" y)%string with ((x ++ String "*" "") ++ y)%string by (rewrite sapp_assoc; reflexivity).
  rewrite drop_app_len, take_all. reflexivity.
Qed.

(* the pattern of the code: the model's prefix and suffix of a temporary name are what Go's own
   prefixAndSuffix computes for tempFileNamePrefix *)
Lemma gen_prefixAndSuffix_pattern :
  gen_os_prefixAndSuffix gen_temp_file_pattern = Some (tmp_prefix, tmp_suffix, None).
Proof. rewrite gen_prefixAndSuffix_equiv. vm_compute. reflexivity. Qed.

(* a name built the way os.CreateTemp builds it (prefix ++ decimal digits ++ suffix, the two parts
   being what Go's prefixAndSuffix returns for the code's pattern) is a temporary name of the model *)
Lemma created_name_is_temp : forall pre suf ds,
  gen_os_prefixAndSuffix gen_temp_file_pattern = Some (pre, suf, None) ->
  ds <> [] -> forallb is_digit ds = true ->
  is_temp (pre ++ string_of_list_ascii ds ++ suf) = true.
Proof.
  intros pre suf ds H Hne Hd. rewrite gen_prefixAndSuffix_pattern in H. inversion H; subst pre suf. clear H.
  change tmp_suffix with "". rewrite sapp_nil_r.
  unfold is_temp. change tmp_suffix with "". change tmp_prefix with "notation-".
  cbn [has_prefix append list_ascii_of_string String.length skipn List.length Ascii.eqb Bool.eqb andb].
  rewrite list_ascii_of_string_of_list_ascii, Nat.sub_0_r, firstn_all, skipn_all.
  destruct ds as [|d ds]; [contradiction|]. rewrite Hd. reflexivity.
Qed.

(* ---------- crl.FileCache.fileName ---------- *)
(* the hash function the code computes keys with, as the model's parameter [sha]: bytes as N *)
Definition sha_of_sum (sum : list Z -> list Z) (u : string) : list N := map Z.to_N (sum (bytes_of_str u)).

Lemma gen_fileName_key : forall (sum : list Z -> list Z) (hexenc : list Z -> string) c url,
  (forall l, hexenc l = hex (map Z.to_N l)) ->
  gen_crl_FileCache_fileName sum hexenc c url = key (sha_of_sum sum) url.
Proof. intros sum hexenc c url H. unfold gen_crl_FileCache_fileName, key, sha_of_sum. apply H. Qed.

Lemma gen_fileName_not_temp : forall (sum : list Z -> list Z) (hexenc : list Z -> string) c url,
  (forall l, hexenc l = hex (map Z.to_N l)) ->
  is_temp (gen_crl_FileCache_fileName sum hexenc c url) = false.
Proof. intros. rewrite gen_fileName_key by assumption. apply key_not_temp. Qed.

(* ---------- crl.FileCache.Get: the one access to the directory ---------- *)
Section GetAccess.
Variable sum : list Z -> list Z.
Variable hexenc : list Z -> string.
Variable join : list string -> string.
Variable parse : list Z -> ptr x509_RevocationList * option err.
Variable now : Z.
Variable unmarshal : list Z -> crl_fileCacheContent -> crl_fileCacheContent * option err.

(* the path Get reads: <root>/<fileName url> *)
Definition get_path (c : crl_FileCache) (url : string) : string :=
  join [FileCache_root c; gen_crl_FileCache_fileName sum hexenc c url].

(* Get consults the file system through ONE path: two behaviours of os.ReadFile that agree on the
   key path give the same result *)
Lemma gen_Get_reads_key_only : forall (rf rf' : string -> list Z * option err) c url,
  rf (get_path c url) = rf' (get_path c url) ->
  gen_crl_FileCache_Get sum hexenc join rf parse now unmarshal c url =
  gen_crl_FileCache_Get sum hexenc join rf' parse now unmarshal c url.
Proof. intros rf rf' c url H. unfold gen_crl_FileCache_Get. fold (get_path c url). rewrite H. reflexivity. Qed.

(* os.ReadFile failed: a miss exactly when the error is (wraps) fs.ErrNotExist, otherwise an error
   that is not a miss; nothing is decoded *)
Lemma gen_Get_read_error : forall (rf : string -> list Z * option err) c url e,
  snd (rf (get_path c url)) = Some e ->
  exists r, gen_crl_FileCache_Get sum hexenc join rf parse now unmarshal c url = Some (PNil, r) /\
    if err_is (Some e) fs_ErrNotExist then r = crl_ErrCacheMiss
    else exists f w, r = Some (Err "fmt" f w).
Proof.
  intros rf c url e H. unfold gen_crl_FileCache_Get. fold (get_path c url).
  destruct (rf (get_path c url)) as [bytes oe]. cbn [snd] in H. subst oe. cbn [is_none negb].
  destruct (err_is (Some e) fs_ErrNotExist); eexists; (split; [reflexivity|]); [reflexivity|eauto].
Qed.
End GetAccess.

(* ---------- internal/file.WriteFile = the writer program of C14_Writer ---------- *)
(* GoLite types an effect oracle `world -> args -> world * results` with the results flattened
   into one left-nested tuple; the hand-written program nests to the right *)
Definition nest3 {A B C} (x : A * B * C) : A * (B * C) := (fst (fst x), (snd (fst x), snd x)).
Definition flat3 {A B C} (x : A * (B * C)) : A * B * C := (fst x, fst (snd x), snd (snd x)).
Lemma flat3_nest3 {A B C} (x : A * B * C) : flat3 (nest3 x) = x.
Proof. destruct x as [[a b] c]. reflexivity. Qed.
Lemma nest3_flat3 {A B C} (x : A * (B * C)) : nest3 (flat3 x) = x.
Proof. destruct x as [a [b c]]. reflexivity. Qed.

Lemma writer_prog_ext : forall W F create create' write write' close name rename remove,
  (forall w d p, create w d p = create' w d p) -> (forall w f b, write w f b = write' w f b) ->
  forall w dir path content,
  writer_prog W F create write close name rename remove w dir path content =
  writer_prog W F create' write' close name rename remove w dir path content.
Proof.
  intros W F create create' write write' close name rename remove Hc Hw w dir path content.
  unfold writer_prog. rewrite Hc. destruct (snd (snd (create' w dir gen_temp_file_pattern))); [reflexivity|].
  rewrite Hw. reflexivity.
Qed.

Section WriteFileEquiv.
Variables F W : Type.
Variable create : W -> string -> string -> W * F * option err.
Variable write : W -> F -> list Z -> W * Z * option err.
Variable close : W -> F -> W * option err.
Variable name : F -> string.
Variable rename : W -> string -> string -> W * option err.
Variable remove : W -> string -> W * option err.

Definition gen_write := gen_file_WriteFile F W create write close name rename remove.
Definition model_write :=
  writer_prog W F (fun w d p => nest3 (create w d p)) (fun w f b => nest3 (write w f b)) close name rename remove.

(* for EVERY world type, every type of file handles and every behaviour of the six calls: the
   generated WriteFile transforms the world exactly as the program does, and returns nil exactly
   when the program reports success *)
Lemma gen_WriteFile_equiv : forall w dir path content,
  (fst (gen_write w dir path content), is_none (snd (gen_write w dir path content)))
  = model_write w dir path content.
Proof.
  intros w dir path content.
  unfold gen_write, model_write, gen_file_WriteFile, writer_prog, cleanup, nest3.
  change gen_temp_file_pattern with "notation-*".
  destruct (create w dir "notation-*") as [[w1 f] [e1|]]; cbn [fst snd is_none negb olist]; [reflexivity|].
  destruct (write w1 f content) as [[w2 n] [e2|]]; cbn [fst snd is_none negb olist].
  { destruct (close w2 f) as [w3 r3]. cbn [fst snd].
    destruct (remove w3 (name f)) as [w4 r4]. reflexivity. }
  destruct (close w2 f) as [w3 [e3|]]; cbn [fst snd is_none negb olist].
  { destruct (close w3 f) as [w4 r4]. cbn [fst snd].
    destruct (remove w4 (name f)) as [w5 r5]. reflexivity. }
  destruct (rename w3 (name f) path) as [w4 [e4|]]; cbn [fst snd is_none negb olist]; [|reflexivity].
  destruct (close w4 f) as [w5 r5]. cbn [fst snd].
  destruct (remove w5 (name f)) as [w6 r6]. reflexivity.
Qed.

(* the error WriteFile returns wraps (or is) the error of the call that failed *)
End WriteFileEquiv.

(* ---------- the world as the history of calls ---------- *)
Section Logged.
Variable F : Type.
Variable name : F -> string.
Variable B : behaviour F.

(* the generated WriteFile run against behaviour B, from the empty history *)
Definition gen_write_logged (dir path : string) (content : list Z) : list (call F) * option err :=
  gen_file_WriteFile F (list (call F))
    (fun w d p => flat3 (l_create F B w d p)) (fun w f b => flat3 (l_write F B w f b))
    (l_close F B) name (l_rename F B) (l_remove F B) [] dir path content.

Lemma gen_write_logged_run : forall dir path content,
  (fst (gen_write_logged dir path content), is_none (snd (gen_write_logged dir path content)))
  = run_logged F name B dir path content.
Proof.
  intros. unfold gen_write_logged.
  pose proof (gen_WriteFile_equiv F (list (call F))
    (fun w d p => flat3 (l_create F B w d p)) (fun w f b => flat3 (l_write F B w f b))
    (l_close F B) name (l_rename F B) (l_remove F B) [] dir path content) as E.
  unfold gen_write, model_write in E. rewrite E. unfold run_logged.
  apply writer_prog_ext; intros; apply nest3_flat3.
Qed.
End Logged.

Section LoggedThms.
Variable F : Type.
Variable name : F -> string.

Lemma gen_WriteFile_steps : forall (B : behaviour F) dir path content,
  writer_run F name dir path content
    (fst (gen_write_logged F name B dir path content))
    (is_none (snd (gen_write_logged F name B dir path content))).
Proof.
  intros B dir path content.
  pose proof (gen_write_logged_run F name B dir path content) as E.
  pose proof (writer_steps F name B dir path content) as R.
  rewrite <- E in R. exact R.
Qed.

Lemma gen_WriteFile_runs_model : forall sha nm (B : behaviour F) dir path content wid u s,
  getN wid (s_w s) = None -> getN wid (s_ino s) = None ->
  (forall f, b_create F B [] dir gen_temp_file_pattern = (f, None) ->
      is_temp (nm (name f)) = true /\ getS (nm (name f)) (s_dir s) = None) ->
  nm path = key sha u ->
  let r := gen_write_logged F name B dir path content in
  exists s', exec sha s (events F name wid u (data_of_bytes content) nm false (fst r)) = Some s' /\
             end_state sha s s' wid u (data_of_bytes content) (is_none (snd r)).
Proof.
  intros sha nm B dir path content wid u s Gw Gi HC HP r.
  pose proof (gen_write_logged_run F name B dir path content) as E. fold r in E.
  pose proof (writer_runs_model sha F name nm B dir path content wid u s Gw Gi HC HP) as M.
  cbv zeta in M. rewrite <- E in M. exact M.
Qed.
End LoggedThms.

(* ---------- crl.FileCache.Set ---------- *)
Section SetEquiv.
Variable sum : list Z -> list Z.
Variable hexenc : list Z -> string.
Variables F W : Type.
Variable create : W -> string -> string -> W * F * option err.
Variable write : W -> F -> list Z -> W * Z * option err.
Variable close : W -> F -> W * option err.
Variable name : F -> string.
Variable rename : W -> string -> string -> W * option err.
Variable remove : W -> string -> W * option err.
Variable join : list string -> string.
Variable marshal : crl_fileCacheContent -> list Z * option err.

(* the bytes Set stores: the encoding of the two raw CRLs; None: nothing is stored (nil bundle, nil
   base CRL, or json.Marshal failed) *)
Definition set_content (bundle : ptr crl_Bundle) : option crl_fileCacheContent :=
  match ptr_val bundle with
  | None => None
  | Some b =>
      match ptr_val (Bundle_BaseCRL b) with
      | None => None
      | Some base =>
          Some (mk_fileCacheContent (RevocationList_Raw base)
                  (match ptr_val (Bundle_DeltaCRL b) with Some d => RevocationList_Raw d | None => [] end))
      end
  end.
Definition set_bytes (bundle : ptr crl_Bundle) : option (list Z) :=
  match set_content bundle with
  | None => None
  | Some c => match snd (marshal c) with None => Some (fst (marshal c)) | Some _ => None end
  end.

(* the path Set stores under: <root>/<fileName url> - the same expression as [get_path] *)
Definition set_path (c : crl_FileCache) (url : string) : string :=
  join [FileCache_root c; gen_crl_FileCache_fileName sum hexenc c url].

Definition gen_set := gen_crl_FileCache_Set sum hexenc F W create write close name rename remove join marshal.

(* Set never panics; without bytes to store it leaves the world alone and returns an error; otherwise
   it is WriteFile(root, <root>/<fileName url>, bytes): temporary file in the cache root itself *)
Lemma gen_Set_equiv : forall w c url bundle,
  exists r, gen_set w c url bundle = Some r /\
    match set_bytes bundle with
    | None => r = (w, snd r) /\ is_none (snd r) = false
    | Some bytes =>
        (fst r, is_none (snd r)) =
        (fst (gen_write F W create write close name rename remove w (FileCache_root c) (set_path c url) bytes),
         is_none (snd (gen_write F W create write close name rename remove w (FileCache_root c) (set_path c url) bytes)))
    end.
Proof.
  intros w c url bundle. unfold gen_set, gen_crl_FileCache_Set, set_bytes, set_content, gen_write.
  fold (set_path c url).
  destruct bundle as [|gn b|b]; cbn [ptr_val]; try (eexists; split; [reflexivity|split; reflexivity]).
  all: rewrite ptr_is_nil_val;
    destruct (ptr_val (Bundle_BaseCRL b)) as [base|]; cbn [is_none negb];
    try (eexists; split; [reflexivity|split; reflexivity]).
  all: rewrite ptr_is_nil_val;
    destruct (ptr_val (Bundle_DeltaCRL b)) as [d|]; cbn [is_none negb];
    unfold set_fileCacheContent_DeltaCRL; cbn [fileCacheContent_BaseCRL fileCacheContent_DeltaCRL].
  all: match goal with |- context [marshal ?x] => destruct (marshal x) as [bytes [e|]] end; cbn [fst snd is_none negb];
    try (eexists; split; [reflexivity|split; reflexivity]).
  all: destruct (gen_file_WriteFile F W create write close name rename remove w (FileCache_root c) (set_path c url) bytes)
         as [w' [e2|]];
    cbn [fst snd is_none negb]; eexists; (split; [reflexivity|reflexivity]).
Qed.
End SetEquiv.

(* ---------- Set, end to end: a run of the generated Set is a writer of the model ---------- *)
Section SetRuns.
Variable sum : list Z -> list Z.
Variable hexenc : list Z -> string.
Variable F : Type.
Variable name : F -> string.
Variable join : list string -> string.
Variable marshal : crl_fileCacheContent -> list Z * option err.
Variable nm : string -> string.

Definition gen_set_logged (B : behaviour F) (c : crl_FileCache) (url : string) (bundle : ptr crl_Bundle) :=
  gen_crl_FileCache_Set sum hexenc F (list (call F))
    (fun w d p => flat3 (l_create F B w d p)) (fun w f b => flat3 (l_write F B w f b))
    (l_close F B) name (l_rename F B) (l_remove F B) join marshal [] c url bundle.

Definition stored_bytes (bundle : ptr crl_Bundle) : list Z :=
  match set_bytes marshal bundle with Some b => b | None => [] end.

Lemma gen_Set_runs_model : forall (B : behaviour F) c url bundle wid s,
  (forall l, hexenc l = hex (map Z.to_N l)) ->
  (forall k, nm (join [FileCache_root c; k]) = k) ->
  getN wid (s_w s) = None -> getN wid (s_ino s) = None ->
  (forall f, b_create F B [] (FileCache_root c) gen_temp_file_pattern = (f, None) ->
      is_temp (nm (name f)) = true /\ getS (nm (name f)) (s_dir s) = None) ->
  exists r, gen_set_logged B c url bundle = Some r /\
  exists s', exec (sha_of_sum sum) s
               (events F name wid url (data_of_bytes (stored_bytes bundle)) nm false (fst r)) = Some s' /\
             end_state (sha_of_sum sum) s s' wid url (data_of_bytes (stored_bytes bundle)) (is_none (snd r)).
Proof.
  intros B c url bundle wid s Hh Hn Gw Gi HC.
  destruct (gen_Set_equiv sum hexenc F (list (call F))
              (fun w d p => flat3 (l_create F B w d p)) (fun w f b => flat3 (l_write F B w f b))
              (l_close F B) name (l_rename F B) (l_remove F B) join marshal [] c url bundle) as [r [E S]].
  exists r. split; [exact E|]. unfold stored_bytes.
  destruct (set_bytes marshal bundle) as [bytes|].
  - assert (nm (set_path sum hexenc join c url) = key (sha_of_sum sum) url) as HP.
    { unfold set_path. rewrite Hn. apply gen_fileName_key. exact Hh. }
    pose proof (gen_WriteFile_runs_model F name (sha_of_sum sum) nm B (FileCache_root c)
                  (set_path sum hexenc join c url) bytes wid url s Gw Gi HC HP) as M.
    cbv zeta in M. unfold gen_write_logged in M. unfold gen_write in S.
    inversion S as [[S1 S2]]. rewrite S1, S2. exact M.
  - destruct S as [S1 S2]. rewrite S1. cbn [fst snd]. rewrite S2.
    exists s. split; [reflexivity|]. left. reflexivity.
Qed.
End SetRuns.

(* ---------- consequences of the five sequences, for the generated WriteFile ---------- *)
Lemma gen_WriteFile_writes_only_temp : forall F name (B : behaviour F) dir path content,
  writes_only_temp F dir (fst (gen_write_logged F name B dir path content)).
Proof. intros. eapply run_writes_only_temp. apply gen_WriteFile_steps. Qed.

Lemma gen_WriteFile_failure_removes : forall F name (B : behaviour F) dir path content,
  snd (gen_write_logged F name B dir path content) <> None ->
  let log := fst (gen_write_logged F name B dir path content) in
  (exists f e, log = [CCreate dir gen_temp_file_pattern (f, Some e)]) \/
  (exists f r0 mid rr, log = CCreate dir gen_temp_file_pattern (f, r0) :: mid ++ [CRemove (name f) rr])%list.
Proof.
  intros F name B dir path content H log. apply (run_failure_removes F name dir path content).
  pose proof (gen_WriteFile_steps F name B dir path content) as R.
  destruct (snd (gen_write_logged F name B dir path content)); [exact R|contradiction].
Qed.

(* the destination is touched by one call only: the final Rename, and only after Write and Close of the
   temporary file succeeded *)
Lemma gen_WriteFile_success_shape : forall F name (B : behaviour F) dir path content,
  snd (gen_write_logged F name B dir path content) = None ->
  exists f n, fst (gen_write_logged F name B dir path content) =
    [CCreate dir gen_temp_file_pattern (f, None); CWrite f content (n, None); CClose f None;
     CRename (name f) path None].
Proof.
  intros F name B dir path content H.
  pose proof (gen_WriteFile_steps F name B dir path content) as R. rewrite H in R. cbn [is_none] in R.
  inversion R. eauto.
Qed.

(* ---------- transport: the generated Set extends the traces the property theorems quantify over ---------- *)
Lemma events_safe : forall F name wid u c nm log failed,
  forallb safe (events F name wid u c nm failed log) = true.
Proof.
  intros F name wid u c nm log. induction log as [|x log IH]; intros failed; [reflexivity|].
  destruct x as [d p [f [e|]]|f b [n [e|]]|f [e|]|a b [e|]|p [e|]]; destruct failed; cbn [events forallb safe andb];
    try apply IH; try reflexivity.
Qed.

Lemma gen_Set_extends_trace :
  forall sum hexenc F name join marshal nm (B : behaviour F) c url bundle wid tr s,
  (forall l, hexenc l = hex (map Z.to_N l)) ->
  (forall k, nm (join [FileCache_root c; k]) = k) ->
  forallb safe tr = true -> exec (sha_of_sum sum) init tr = Some s ->
  getN wid (s_w s) = None -> getN wid (s_ino s) = None ->
  (forall f, b_create F B [] (FileCache_root c) gen_temp_file_pattern = (f, None) ->
      is_temp (nm (name f)) = true /\ getS (nm (name f)) (s_dir s) = None) ->
  exists r s', gen_set_logged sum hexenc F name join marshal B c url bundle = Some r /\
    let tr' := (tr ++ events F name wid url (data_of_bytes (stored_bytes marshal bundle)) nm false (fst r))%list in
    forallb safe tr' = true /\ exec (sha_of_sum sum) init tr' = Some s' /\
    (snd r = None -> getS (key (sha_of_sum sum) url) (s_dir s') = Some wid /\
                     getN wid (s_ino s') = Some (data_of_bytes (stored_bytes marshal bundle))).
Proof.
  intros sum hexenc F name join marshal nm B c url bundle wid tr s Hh Hn St Ex Gw Gi HC.
  destruct (gen_Set_runs_model sum hexenc F name join marshal nm B c url bundle wid s Hh Hn Gw Gi HC)
    as [r [E [s' [X En]]]].
  exists r, s'. split; [exact E|]. cbv zeta. split; [|split].
  - rewrite forallb_app, St, events_safe. reflexivity.
  - rewrite exec_app, Ex. exact X.
  - intros Ok. rewrite Ok in En. cbn [is_none] in En. unfold end_state in En.
    destruct En as [t [_ [K [I _]]]]. split; assumption.
Qed.
