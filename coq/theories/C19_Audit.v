(* C19_Audit.v — proofs added by the theorem audit (docs/audit/C19.md):
   the listing stated over the OPERATIONS of the history (iff), the exact
   outcome of a push, frame and persistence of listings, the unconditional
   "no content above the cap is fetched", the content-level round trip, the
   two corners where the literal statement is false of the faithful model
   (a manifest digest squatted before the push; the empty media type), and the
   tie between the observations of [model] and the stores the theorems speak of.
   No axioms. *)
From Coq Require Import Permutation.
From NV Require Import Base Generated C19_Model C19_Proofs.
Open Scope list_scope.
Open Scope N_scope.

(* ---------- histories: prefixes, one more operation ---------- *)
Lemma state_after_snoc : forall ops o, state_after (ops ++ [o]) = fst (step (state_after ops) o).
Proof. intros ops o. unfold state_after. rewrite run_ops_app, run_ops_cons. reflexivity. Qed.

Lemma state_after_app : forall a b, state_after (a ++ b) = fst (run_ops (state_after a) b).
Proof. intros a b. unfold state_after. apply run_ops_app. Qed.

Lemma state_after_mid : forall ops1 o ops2,
  state_after (ops1 ++ o :: ops2) = fst (run_ops (fst (step (state_after ops1) o)) ops2).
Proof. intros. rewrite state_after_app, run_ops_cons. reflexivity. Qed.

Lemma wf_app : forall a b, forallb wf_op (a ++ b) = true ->
  forallb wf_op a = true /\ forallb wf_op b = true.
Proof. intros a b H. rewrite forallb_app in H. now apply andb_true_iff in H. Qed.

Lemma wf_mid : forall a o b, forallb wf_op (a ++ o :: b) = true ->
  forallb wf_op a = true /\ wf_op o = true /\ forallb wf_op b = true.
Proof.
  intros a o b H. apply wf_app in H as [H1 H2]. cbn [forallb] in H2.
  apply andb_true_iff in H2 as [H2 H3]. auto.
Qed.

Lemma in_step_persists : forall ops1 o ops2 e, forallb wf_op (ops1 ++ o :: ops2) = true ->
  In e (fst (step (state_after ops1) o)) -> In e (state_after (ops1 ++ o :: ops2)).
Proof.
  intros ops1 o ops2 e W H. destruct (wf_mid _ _ _ W) as (W1 & Wo & W2).
  rewrite state_after_mid.
  destruct (step_sim _ o (state_after_inv ops1 W1) Wo) as (_ & _ & I1 & _).
  destruct (run_inv ops2 _ I1 W2) as [_ G]. eapply grows_in; eauto.
Qed.

Lemma in_prefix_persists : forall a b e, forallb wf_op (a ++ b) = true ->
  In e (state_after a) -> In e (state_after (a ++ b)).
Proof.
  intros a b e W H. destruct (wf_app _ _ W) as [Wa Wb]. rewrite state_after_app.
  destruct (run_inv b _ (state_after_inv a Wa) Wb) as [_ G]. eapply grows_in; eauto.
Qed.

Lemma in_notnew : forall st e, In e st -> lookup_dg st (dg_of e) <> None.
Proof.
  intros st e H L. apply lookup_none_notin in L. apply L. now apply in_map.
Qed.

(* ---------- provenance, step by step ----------
   every stored content was added by ONE operation of the history, at a moment
   when its digest was new to the store *)
Lemma provenance_step : forall ops e, forallb wf_op ops = true -> In e (state_after ops) ->
  exists ops1 o ops2, ops = ops1 ++ o :: ops2 /\
    lookup_dg (state_after ops1) (dg_of e) = None /\ In e (fst (step (state_after ops1) o)).
Proof.
  induction ops as [|o ops IH] using rev_ind; intros e W H; [destruct H|].
  destruct (wf_app _ _ W) as [W1 Wo]. cbn [forallb] in Wo. apply andb_true_iff in Wo as [Wo _].
  rewrite state_after_snoc in H.
  destruct (lookup_dg (state_after ops) (dg_of e)) as [e'|] eqn:L.
  - apply lookup_some_in in L as [Hi Hg].
    destruct (step_sim _ o (state_after_inv ops W1) Wo) as (_ & _ & I1 & G).
    assert (e' = e).
    { apply (NoDup_map_inj_in dg_of (fst (step (state_after ops) o))); auto.
      - apply I1.
      - eapply grows_in; eauto. }
    subst e'. destruct (IH e W1 Hi) as (ops1 & o' & ops2 & -> & L' & H').
    exists ops1, o', (ops2 ++ [o]). split; [|auto]. now rewrite <- app_assoc.
  - exists ops, o, []. auto.
Qed.

(* what the adding operation was *)
Lemma step_adds : forall st o e, lookup_dg st (dg_of e) = None -> In e (fst (step st o)) ->
  match o with
  | OpPush p =>
      (e = env_entry p /\ lookup_dg st (p_bdg p) = None) \/
      e = cfg_entry \/
      (exists a s', push_sig st p = (s', RPush 0 (blob_desc p) (man_desc p) a) /\ e = man_entry p a)
  | OpRaw d c =>
      e = mk_entry d c /\ (e_succ e <> None -> snd (step st (OpRaw d c)) = RRaw 0)
  | _ => False
  end.
Proof.
  intros st o e L H. pose proof (fun X => in_notnew st e X L) as NI.
  destruct o as [p|d c|q|d].
  - cbn [step] in H.
    destruct (push_sig_cases st p) as [(_ & E)|[(Lb & _ & E)|[(Lb & _ & E)|(Lb & a' & EC & E)]]];
      rewrite E in H; cbn [fst] in H.
    + contradiction.
    + destruct H as [<-|H]; [left; auto|contradiction].
    + apply add_absent_in in H as [[<-|H]| ->]; [left; auto|contradiction|right; left; reflexivity].
    + apply add_absent_in in H as [H| ->].
      * apply add_absent_in in H as [[<-|H]| ->]; [left; auto|contradiction|right; left; reflexivity].
      * right; right. exists a'. eexists. split; [exact E|reflexivity].
  - cbn [step] in H |- *.
    destruct (push1_spec st d c) as [(_ & E)|[(_ & _ & E)|[(_ & _ & U & E)|(_ & _ & U & E)]]];
      rewrite E in H |- *; cbn [fst snd pres_code] in *.
    + contradiction.
    + contradiction.
    + destruct H as [<-|H]; [|contradiction]. split; [reflexivity|].
      intros X. exfalso. apply X. unfold mk_entry; cbn. exact U.
    + destruct H as [<-|H]; [|contradiction]. split; reflexivity.
  - cbn [step] in H. destruct (list_sigs st q) as [[its|er] lg]; cbn in H; contradiction.
  - cbn [step] in H. destruct (fetch_sig st d) as [[b bd|er] lg]; cbn in H; contradiction.
Qed.

(* ---------- the outcome of a push ---------- *)
Lemma push_sig_badjson : forall st p, lookup_dg st (p_bdg p) = None ->
  successors (d_mt (blob_desc p)) (p_bc p) = None ->
  push_sig st p = (env_entry p :: st, RPush 3 d0 d0 []).
Proof.
  intros st p L U. unfold push_sig.
  destruct (push1_spec st (blob_desc p) (p_bc p)) as [(L' & _)|[(_ & S & _)|[(_ & _ & _ & ->)|(_ & _ & U' & _)]]].
  - exfalso. apply L'. exact L.
  - exfalso. apply S. reflexivity.
  - reflexivity.
  - congruence.
Qed.

Theorem push_outcome : forall st p s' e bd md a, push_sig st p = (s', RPush e bd md a) ->
  (e = 0 /\ bd = blob_desc p /\ md = man_desc p /\
   ensure_created (p_ann p) (p_now p) (p_cvalid p) = Some a /\ lookup_dg st (p_bdg p) = None) \/
  (e = 1 /\ lookup_dg st (p_bdg p) <> None /\ s' = st) \/
  (e = 3 /\ lookup_dg st (p_bdg p) = None /\ is_graph_mt (d_mt (blob_desc p)) = true /\
   successors (d_mt (blob_desc p)) (p_bc p) = None) \/
  (e = 4 /\ lookup_dg st (p_bdg p) = None /\ has_key K_CREATED (p_ann p) = true /\ p_cvalid p = false).
Proof.
  intros st p s' e bd md a H.
  destruct (push_sig_cases st p) as [(L & E)|[(L & U & E)|[(L & EC & E)|(L & a' & EC & E)]]];
    rewrite H in E; inversion E; subst.
  - right; left. auto.
  - right; right; left. repeat split; auto. eapply successors_none_graph; eauto.
  - right; right; right. apply ensure_none in EC. apply andb_true_iff in EC as [K V].
    repeat split; auto. now destruct (p_cvalid p).
  - left. auto.
Qed.

Theorem push_result_shape : forall st p, exists e bd md a, snd (push_sig st p) = RPush e bd md a.
Proof.
  intros st p.
  destruct (push_sig_cases st p) as [(_ & E)|[(_ & _ & E)|[(_ & _ & E)|(_ & a' & _ & E)]]];
    rewrite E; cbn [snd]; eauto.
Qed.

Theorem push_succeeds_iff : forall st p,
  (exists s' bd md a, push_sig st p = (s', RPush 0 bd md a)) <->
  (lookup_dg st (p_bdg p) = None /\ successors (d_mt (blob_desc p)) (p_bc p) <> None /\
   ensure_created (p_ann p) (p_now p) (p_cvalid p) <> None).
Proof.
  intros st p. split.
  - intros (s' & bd & md & a & H).
    destruct (push_outcome _ _ _ _ _ _ _ H) as [(_ & _ & _ & EC & L)|[(X & _)|[(X & _)|(X & _)]]];
      try discriminate X.
    split; [exact L|]. split; [|congruence].
    intros U. rewrite (push_sig_badjson st p L U) in H. discriminate H.
  - intros (L & U & EC).
    destruct (push_sig_cases st p) as [(L' & _)|[(_ & U' & _)|[(_ & EC' & _)|(_ & a' & _ & E)]]];
      try congruence.
    eauto.
Qed.

(* an envelope media type that is not one of the five manifest / index types
   never makes the push fail on JSON *)
Lemma not_graph_successors : forall mt c, is_graph_mt mt = false -> successors mt c = Some [].
Proof.
  intros mt c H. unfold is_graph_mt in H. repeat (apply orb_false_iff in H as [H ?]).
  unfold successors. rewrite H1, H, H0, H2, H3. reflexivity.
Qed.

Lemma not_graph_not_sigmt : forall mt, is_graph_mt mt = false -> is_sigmt mt = false.
Proof.
  intros mt H. unfold is_graph_mt in H. repeat (apply orb_false_iff in H as [H ?]).
  unfold is_sigmt. rewrite H3, H. reflexivity.
Qed.

(* ---------- the discipline of manifest digests ----------
   Digest numbers stand for sha256 digests. The manifest PackManifest marshals
   embeds the digest of the envelope, so it is neither the envelope nor "{}",
   and it is new to the store unless the identical bytes were stored before.
   [pushes_fresh] states exactly that, for the pushes that reported success. *)
Definition fresh_manifest (s : state) (p : push) : Prop :=
  lookup_dg s (p_mdg p) = None /\ p_mdg p <> p_bdg p /\ p_mdg p <> DG_EMPTY.

Definition pushes_fresh (ops : list op) : Prop :=
  forall ops1 p ops2 s' bd md a, ops = ops1 ++ OpPush p :: ops2 ->
    push_sig (state_after ops1) p = (s', RPush 0 bd md a) -> fresh_manifest (state_after ops1) p.

Definition fresh_manifestb (s : state) (p : push) : bool :=
  match lookup_dg s (p_mdg p) with None => true | Some _ => false end &&
  negb (p_mdg p =? p_bdg p) && negb (p_mdg p =? DG_EMPTY).

Fixpoint freshb (st : state) (ops : list op) : bool :=
  match ops with
  | [] => true
  | o :: ops' =>
      match o with OpPush p => fresh_manifestb st p | _ => true end && freshb (fst (step st o)) ops'
  end.

Lemma fresh_manifestb_ok : forall s p, fresh_manifestb s p = true -> fresh_manifest s p.
Proof.
  intros s p H. unfold fresh_manifestb in H. apply andb_true_iff in H as [H H3].
  apply andb_true_iff in H as [H1 H2]. apply negb_true_iff in H2, H3.
  apply N.eqb_neq in H2, H3. split; [|auto]. now destruct (lookup_dg s (p_mdg p)).
Qed.

Lemma freshb_at : forall ops1 st p ops2, freshb st (ops1 ++ OpPush p :: ops2) = true ->
  fresh_manifest (fst (run_ops st ops1)) p.
Proof.
  induction ops1 as [|o ops1 IH]; intros st p ops2 H.
  - cbn in H. apply andb_true_iff in H as [H _]. now apply fresh_manifestb_ok.
  - cbn [app freshb] in H. apply andb_true_iff in H as [_ H]. rewrite run_ops_cons. cbn [fst].
    eapply IH; eauto.
Qed.

Lemma freshb_sound : forall ops, freshb [] ops = true -> pushes_fresh ops.
Proof. intros ops H ops1 p ops2 s' bd md a -> _. eapply freshb_at; eauto. Qed.

(* ---------- the listing, over the operations of the history (iff) ---------- *)
Definition pushed_for (ops : list op) (q : desc) (it : item) : Prop :=
  exists ops1 p ops2 s' a, ops = ops1 ++ OpPush p :: ops2 /\
    push_sig (state_after ops1) p = (s', RPush 0 (blob_desc p) (man_desc p) a) /\
    p_subj p = q /\ it = I (man_desc p) MT_NOTATION a.

(* a direct push (through oras) of a content that is itself a signature
   manifest of q, accepted and indexed by the store *)
Definition put_directly_for (ops : list op) (q : desc) (it : item) : Prop :=
  exists ops1 d c ops2, ops = ops1 ++ OpRaw d c :: ops2 /\
    snd (step (state_after ops1) (OpRaw d c)) = RRaw 0 /\
    sig_manifest_of q (mk_entry d c) /\ it = item_of (mk_entry d c).

(* degenerate: an ENVELOPE handed to PushSignature under a manifest media type
   that reads as a signature manifest of q *)
Definition envelope_is_manifest_for (ops : list op) (q : desc) (it : item) : Prop :=
  exists ops1 p ops2, ops = ops1 ++ OpPush p :: ops2 /\
    lookup_dg (state_after ops1) (p_bdg p) = None /\
    sig_manifest_of q (env_entry p) /\ it = item_of (env_entry p).

Lemma item_of_man_entry : forall p a, item_of (man_entry p a) = I (man_desc p) MT_NOTATION a.
Proof. reflexivity. Qed.

Lemma listing_ok_expected : forall ops q its lg, forallb wf_op ops = true ->
  list_sigs (state_after ops) q = (LOk its, lg) -> its = expected (state_after ops) q.
Proof.
  intros ops q its lg W HL. pose proof (list_sigs_spec _ q (state_after_inv ops W)) as HS.
  rewrite HL in HS. cbn [fst] in HS.
  destruct (existsb (oversize_ref q) (state_after ops)); [discriminate|]. now inversion HS.
Qed.

Theorem listing_is_the_pushes : forall ops q its lg,
  forallb wf_op ops = true -> pushes_fresh ops ->
  list_sigs (state_after ops) q = (LOk its, lg) ->
  NoDup (map item_dg its) /\
  forall it, In it its <->
    (pushed_for ops q it \/ put_directly_for ops q it \/ envelope_is_manifest_for ops q it).
Proof.
  intros ops q its lg W F HL. pose proof (state_after_inv ops W) as IV.
  rewrite (listing_ok_expected ops q its lg W HL). split; [apply expected_nodup; apply IV|].
  intros it. rewrite expected_in. split.
  - intros (e & Hi & Hs & ->).
    destruct (provenance_step ops e W Hi) as (ops1 & o & ops2 & -> & L & Hadd).
    pose proof (step_adds _ o e L Hadd) as A. destruct o as [p|d c|q'|d]; try contradiction.
    + destruct A as [(-> & Lb)|[->|(a & s' & HP & ->)]].
      * right; right. exists ops1, p, ops2. auto.
      * exfalso. destruct Hs as (_ & _ & _ & Hsub & _). cbn in Hsub. discriminate.
      * left. exists ops1, p, ops2, s', a. split; [reflexivity|]. split; [exact HP|].
        destruct Hs as (_ & _ & _ & Hsub & _). cbn in Hsub. inversion Hsub. auto.
    + destruct A as [-> R]. right; left. exists ops1, d, c, ops2.
      split; [reflexivity|]. split; [apply R; apply Hs|auto].
  - intros [(ops1 & p & ops2 & s' & a & -> & HP & <- & ->)
           |[(ops1 & d & c & ops2 & -> & HR & Hs & ->)|(ops1 & p & ops2 & -> & Lb & Hs & ->)]].
    + destruct (F ops1 p ops2 s' _ _ a eq_refl HP) as (F1 & F2 & F3).
      destruct (push_entries_present ops1 p ops2 s' _ _ a W HP F1 F2 F3) as (_ & Hm & _).
      exists (man_entry p a). split; [exact Hm|]. split; [apply man_entry_sig|reflexivity].
    + exists (mk_entry d c). split; [|auto]. apply in_step_persists; [exact W|].
      cbn [step] in HR |- *.
      destruct (push1_spec (state_after ops1) d c) as [(_ & E)|[(_ & _ & E)|[(_ & _ & _ & E)|(_ & _ & _ & E)]]];
        rewrite E in HR |- *; cbn [fst snd pres_code] in *; try discriminate HR.
      left; reflexivity.
    + exists (env_entry p). split; [|auto]. apply in_step_persists; [exact W|]. cbn [step].
      destruct (push_sig_cases (state_after ops1) p) as [(L' & _)|[(_ & _ & E)|[(_ & _ & E)|(_ & a' & _ & E)]]];
        [congruence| | |]; rewrite E; cbn [fst].
      * left; reflexivity.
      * apply in_add_absent. left; reflexivity.
      * apply in_add_absent. apply in_add_absent. left; reflexivity.
Qed.

(* the clause as the property words it: when whatever else was put into the
   layout is foreign (not a signature manifest of q) and envelopes carry an
   envelope media type, the listing of q is exactly the manifests of the
   successful PushSignature calls for q *)
Theorem listing_is_the_pushes_clean : forall ops q its lg,
  forallb wf_op ops = true -> pushes_fresh ops ->
  (forall d c, In (OpRaw d c) ops -> ~ sig_manifest_of q (mk_entry d c)) ->
  (forall p, In (OpPush p) ops -> is_graph_mt (d_mt (blob_desc p)) = false) ->
  list_sigs (state_after ops) q = (LOk its, lg) ->
  NoDup (map item_dg its) /\ forall it, In it its <-> pushed_for ops q it.
Proof.
  intros ops q its lg W F HR HE HL.
  destruct (listing_is_the_pushes ops q its lg W F HL) as [ND H]. split; [exact ND|].
  intros it. rewrite H. split; [|auto].
  intros [X|[(ops1 & d & c & ops2 & -> & _ & Hs & _)|(ops1 & p & ops2 & -> & _ & Hs & _)]]; [exact X| |].
  - exfalso. apply (HR d c); [apply in_or_app; right; left; reflexivity|exact Hs].
  - exfalso. assert (G : is_graph_mt (d_mt (blob_desc p)) = false)
      by (apply HE; apply in_or_app; right; left; reflexivity).
    destruct Hs as (_ & Hm & _). change (e_d (env_entry p)) with (blob_desc p) in Hm.
    unfold is_graph_mt in G. destruct Hm as [Hm|Hm]; rewrite Hm in G; discriminate G.
Qed.

(* ---------- the freshness hypothesis cannot be dropped ----------
   the bytes of the manifest a push is going to make are stored beforehand under
   a non-manifest media type: the manifest push meets ErrAlreadyExists, which
   PackManifest ignores; PushSignature reports success, nothing is indexed,
   the signature is not listed *)
Definition squat_p : push := P 8 20 (CO 500) (D 1 10 400) [(1,3); (5,6)] 2 true 21 700.
Definition squat_ops1 : list op :=
  [ OpRaw (D MT_OCTET 21 700) (man_content 700 (D 1 10 400) (D 8 20 500) [(1,3); (5,6)]) ].

Theorem pushed_but_not_listed : exists s',
  forallb wf_op (squat_ops1 ++ [OpPush squat_p]) = true /\
  push_sig (state_after squat_ops1) squat_p
    = (s', RPush 0 (blob_desc squat_p) (man_desc squat_p) [(1,3); (5,6)]) /\
  list_sigs (state_after (squat_ops1 ++ [OpPush squat_p])) (p_subj squat_p) = (LOk [], []) /\
  fst (fetch_sig (state_after (squat_ops1 ++ [OpPush squat_p])) (man_desc squat_p))
    = FOk 20 (blob_desc squat_p).
Proof. eexists. repeat split; vm_compute; reflexivity. Qed.

(* ---------- persistence and frame ---------- *)
Theorem store_only_grows : forall ops o, forallb wf_op (ops ++ [o]) = true ->
  exists l, state_after (ops ++ [o]) = l ++ state_after ops /\
    match o with OpList _ | OpFetch _ => l = [] | _ => True end.
Proof.
  intros ops o W. destruct (wf_app _ _ W) as [W1 Wo]. cbn [forallb] in Wo.
  apply andb_true_iff in Wo as [Wo _]. rewrite state_after_snoc.
  destruct (step_sim _ o (state_after_inv ops W1) Wo) as (_ & _ & _ & (l & G)).
  destruct o as [p|d c|q|d].
  - exists l. auto.
  - exists l. auto.
  - exists []. split; [|reflexivity]. cbn [step].
    destruct (list_sigs (state_after ops) q) as [[its|er] lg]; reflexivity.
  - exists []. split; [|reflexivity]. cbn [step].
    destruct (fetch_sig (state_after ops) d) as [[b bd|er] lg]; reflexivity.
Qed.

Theorem listed_stays_listed : forall ops ops' q its lg its' lg' it,
  forallb wf_op (ops ++ ops') = true ->
  list_sigs (state_after ops) q = (LOk its, lg) ->
  list_sigs (state_after (ops ++ ops')) q = (LOk its', lg') ->
  In it its -> In it its'.
Proof.
  intros ops ops' q its lg its' lg' it W H1 H2 Hin.
  destruct (wf_app _ _ W) as [W1 _].
  rewrite (listing_ok_expected _ _ _ _ W1 H1) in Hin.
  rewrite (listing_ok_expected _ _ _ _ W H2).
  apply expected_in in Hin as (e & Hi & Hs & ->). apply expected_in.
  exists e. split; [|auto]. now apply in_prefix_persists.
Qed.

Lemma expected_add_absent : forall st e q, sig_entry_for q e = false ->
  expected (add_absent st e) q = expected st q.
Proof.
  intros st e q H. unfold add_absent. destruct (lookup_dg st (d_dg (e_d e))); [reflexivity|].
  rewrite expected_cons, H. reflexivity.
Qed.

Lemma oversize_add_absent : forall st e q, oversize_ref q e = false ->
  existsb (oversize_ref q) (add_absent st e) = existsb (oversize_ref q) st.
Proof.
  intros st e q H. unfold add_absent. destruct (lookup_dg st (d_dg (e_d e))); [reflexivity|].
  cbn [existsb]. now rewrite H.
Qed.

Lemma desc_eqb_neq : forall a b, a <> b -> desc_eqb a b = false.
Proof.
  intros a b N. destruct (desc_eqb a b) eqn:E; [|reflexivity]. apply desc_eqb_eq in E. contradiction.
Qed.

(* a PushSignature for one artifact changes the listing of no other artifact
   (q is neither its subject nor one of the two blobs of its manifest): not the
   items, not their order in the model, not whether the listing is refused *)
Theorem push_frame : forall ops p q, forallb wf_op (ops ++ [OpPush p]) = true ->
  q <> p_subj p -> q <> cfg_desc -> q <> blob_desc p ->
  is_graph_mt (d_mt (blob_desc p)) = false ->
  fst (list_sigs (state_after (ops ++ [OpPush p])) q) = fst (list_sigs (state_after ops) q).
Proof.
  intros ops p q W N1 N2 N3 G. destruct (wf_app _ _ W) as [W1 _].
  rewrite (list_sigs_spec _ q (state_after_inv _ W)), (list_sigs_spec _ q (state_after_inv _ W1)).
  rewrite state_after_snoc. cbn [step]. set (s := state_after ops).
  assert (Es : sig_entry_for q (env_entry p) = false).
  { unfold sig_entry_for, env_entry, mk_entry. cbn [e_succ e_d e_c].
    rewrite (not_graph_successors _ _ G), (not_graph_not_sigmt _ G). reflexivity. }
  assert (Eo : oversize_ref q (env_entry p) = false).
  { unfold oversize_ref, env_entry, mk_entry. cbn [e_d]. now rewrite (not_graph_not_sigmt _ G). }
  assert (Cs : sig_entry_for q cfg_entry = false) by reflexivity.
  assert (Co : oversize_ref q cfg_entry = false) by reflexivity.
  assert (Ms : forall a, sig_entry_for q (man_entry p a) = false).
  { intros a. unfold sig_entry_for, man_entry, mk_entry, man_content. cbn.
    rewrite (desc_eqb_neq (p_subj p) q) by congruence. reflexivity. }
  assert (Mo : forall a, oversize_ref q (man_entry p a) = false).
  { intros a. unfold oversize_ref, refers, man_entry, mk_entry, man_content. cbn.
    rewrite (desc_eqb_neq q (p_subj p) N1), (desc_eqb_neq q cfg_desc N2), (desc_eqb_neq q (blob_desc p) N3).
    reflexivity. }
  destruct (push_sig_cases s p) as [(_ & E)|[(_ & _ & E)|[(_ & _ & E)|(_ & a' & _ & E)]]];
    rewrite E; cbn [fst].
  - reflexivity.
  - cbn [existsb]. rewrite expected_cons, Es, Eo. reflexivity.
  - rewrite oversize_add_absent, expected_add_absent by assumption.
    cbn [existsb]. rewrite expected_cons, Es, Eo. reflexivity.
  - rewrite !oversize_add_absent, !expected_add_absent by auto.
    cbn [existsb]. rewrite expected_cons, Es, Eo. reflexivity.
Qed.

(* the same for a direct push: a content that does not name q among its
   successors (subject, config, layers / blobs / manifests) changes nothing
   about q *)
Theorem raw_frame : forall ops d c q, forallb wf_op (ops ++ [OpRaw d c]) = true ->
  refers q (mk_entry d c) = false ->
  fst (list_sigs (state_after (ops ++ [OpRaw d c])) q) = fst (list_sigs (state_after ops) q).
Proof.
  intros ops d c q W R. destruct (wf_app _ _ W) as [W1 Wo]. cbn [forallb wf_op] in Wo.
  rewrite andb_true_r in Wo. apply Z.leb_le in Wo.
  rewrite (list_sigs_spec _ q (state_after_inv _ W)), (list_sigs_spec _ q (state_after_inv _ W1)).
  rewrite state_after_snoc. cbn [step]. set (s := state_after ops).
  destruct (push1_spec s d c) as [(_ & ->)|[(_ & _ & ->)|[(_ & S & _ & ->)|(_ & S & _ & ->)]]];
    cbn [fst]; try reflexivity.
  - assert (Ok : entry_ok (mk_entry d c)) by (unfold entry_ok, mk_entry; cbn; auto).
    assert (Es : sig_entry_for q (mk_entry d c) = false).
    { destruct (sig_entry_for q (mk_entry d c)) eqn:E; [|reflexivity].
      rewrite (sig_entry_refers q _ Ok E) in R. discriminate R. }
    cbn [existsb]. rewrite expected_cons, Es. unfold oversize_ref at 1. rewrite R, andb_false_r. reflexivity.
  - assert (Ok : entry_ok (mk_entry d c)) by (unfold entry_ok, mk_entry; cbn; auto).
    assert (Es : sig_entry_for q (mk_entry d c) = false).
    { destruct (sig_entry_for q (mk_entry d c)) eqn:E; [|reflexivity].
      rewrite (sig_entry_refers q _ Ok E) in R. discriminate R. }
    cbn [existsb]. rewrite expected_cons, Es. unfold oversize_ref at 1. rewrite R, andb_false_r. reflexivity.
Qed.

(* ---------- refusals: nothing above the cap is ever fetched or returned ---------- *)
Theorem list_never_fetches_oversize : forall st q g, In g (snd (list_sigs st q)) ->
  exists m, In m (predecessors st q) /\ g = d_dg m /\ is_sigmt (d_mt m) = true /\ (d_sz m <= capM)%Z.
Proof. intros st q g H. unfold list_sigs in H. apply (list_loop_log_any st q _ g H). Qed.

(* the error of a listing, class by class (any store) *)
Theorem list_error_classes : forall st q e, fst (list_sigs st q) = LErr e ->
  exists n, In n (predecessors st q) /\ is_sigmt (d_mt n) = true /\
    ((e = 1 /\ (capM < d_sz n)%Z) \/
     (e = 2 /\ (d_sz n <= capM)%Z /\ fetch_all st n = None) \/
     (e = 3 /\ (d_sz n <= capM)%Z /\ exists c, fetch_all st n = Some c /\ parsed (d_mt n) c = false)).
Proof.
  intros st q e. unfold list_sigs. generalize (predecessors st q) as ns.
  induction ns as [|n ns IH]; intros H; [discriminate H|].
  cbn [list_loop] in H.
  assert (V : forall x, fst (visit st q n) = VErr x ->
     is_sigmt (d_mt n) = true /\
     ((x = 1 /\ (capM < d_sz n)%Z) \/
      (x = 2 /\ (d_sz n <= capM)%Z /\ fetch_all st n = None) \/
      (x = 3 /\ (d_sz n <= capM)%Z /\ exists c, fetch_all st n = Some c /\ parsed (d_mt n) c = false))).
  { intros x Hx. unfold visit in Hx. destruct (is_sigmt (d_mt n)); [|discriminate Hx]. split; [reflexivity|].
    destruct (capM <? d_sz n)%Z eqn:C.
    - apply Z.ltb_lt in C. inversion Hx. auto.
    - apply Z.ltb_ge in C. destruct (fetch_all st n) as [c|] eqn:Fn.
      + destruct (parsed (d_mt n) c) eqn:Pc; cbn [negb] in Hx.
        * destruct (m_subject (c_m c)) as [s|]; [|discriminate Hx].
          destruct (desc_eqb s q); cbn [negb] in Hx; [|discriminate Hx].
          destruct (atype_of (d_mt n) c =? MT_NOTATION); discriminate Hx.
        * inversion Hx. right; right. split; [reflexivity|]. split; [exact C|]. exists c. auto.
      + inversion Hx. right; left. auto. }
  destruct (visit st q n) as [[|it|x] lg] eqn:Vn; cbn [fst] in V.
  - destruct (list_loop st q ns) as [r lg'] eqn:LL. cbn [fst] in *. subst r.
    destruct (IH eq_refl) as (m & Hm & R). exists m. split; [right; exact Hm|exact R].
  - destruct (list_loop st q ns) as [[its|x] lg'] eqn:LL; cbn [fst] in *; [discriminate H|].
    inversion H; subst x. destruct (IH eq_refl) as (m & Hm & R). exists m. split; [right; exact Hm|exact R].
  - cbn [fst] in H. inversion H; subst x. destruct (V e eq_refl) as [M R].
    exists n. split; [left; reflexivity|auto].
Qed.

(* a successful fetch used a manifest whose real length is within the manifest
   cap and returned a blob whose real length is within the blob cap *)
Theorem fetch_ok_real_sizes : forall st d blob bd lg, fetch_sig st d = (FOk blob bd, lg) ->
  exists c cb, fetch_all st d = Some c /\ (0 <= c_sz c <= capM)%Z /\
               fetch_all st bd = Some cb /\ (0 <= c_sz cb <= capB)%Z.
Proof.
  intros st d blob bd lg H.
  destruct (fetch_ok_inv _ _ _ _ _ H) as (_ & Cm & c & F & _ & _ & Cb & _ & _ & cb & Fb & Sb).
  exists c, cb. split; [exact F|]. split.
  - apply fetch_all_some in F as (_ & _ & _ & _ & S & P). lia.
  - split; [exact Fb|]. apply fetch_all_some in Fb as (_ & _ & _ & _ & S & P). lia.
Qed.

(* every way in which a fetch is refused, with what had been fetched by then
   (any store): the complete case analysis of FetchSignatureBlob *)
Theorem fetch_error_classes : forall st d e lg, fetch_sig st d = (FErr e, lg) ->
  (e = 1 /\ is_sigmt (d_mt d) = false /\ lg = []) \/
  (e = 2 /\ is_sigmt (d_mt d) = true /\ (capM < d_sz d)%Z /\ lg = []) \/
  (is_sigmt (d_mt d) = true /\ (d_sz d <= capM)%Z /\
   ((e = 3 /\ fetch_all st d = None /\ lg = [d_dg d]) \/
    exists c, fetch_all st d = Some c /\
      ((e = 4 /\ parsed (d_mt d) c = false /\ lg = [d_dg d]) \/
       (parsed (d_mt d) c = true /\
        ((e = 5 /\ List.length (blobs_of (d_mt d) c) <> 1%nat /\ lg = [d_dg d]) \/
         exists b, blobs_of (d_mt d) c = [b] /\
           ((e = 6 /\ (capB < d_sz b)%Z /\ lg = [d_dg d]) \/
            (e = 3 /\ (d_sz b <= capB)%Z /\ fetch_all st b = None /\ lg = [d_dg d; d_dg b]))))))).
Proof.
  intros st d e lg H. unfold fetch_sig in H.
  destruct (is_sigmt (d_mt d)) eqn:M; cbn [negb] in H; [|inversion H; left; auto].
  destruct (capM <? d_sz d)%Z eqn:Cm.
  { apply Z.ltb_lt in Cm. inversion H. right; left. auto. }
  apply Z.ltb_ge in Cm. right; right. split; [reflexivity|]. split; [exact Cm|].
  destruct (fetch_all st d) as [c|] eqn:F; [|inversion H; left; auto].
  right. exists c. split; [reflexivity|].
  destruct (parsed (d_mt d) c) eqn:Pc; cbn [negb] in H; [|inversion H; left; auto].
  right. split; [reflexivity|].
  destruct (blobs_of (d_mt d) c) as [|b [|b2 bs]] eqn:Bl.
  - inversion H. left. repeat split; auto; cbn; discriminate.
  - right. exists b. split; [reflexivity|].
    destruct (capB <? d_sz b)%Z eqn:Cb.
    + apply Z.ltb_lt in Cb. inversion H. left. auto.
    + apply Z.ltb_ge in Cb. destruct (fetch_all st b) as [cb|] eqn:Fb; [discriminate H|].
      inversion H. right. auto.
  - inversion H. left. repeat split; auto; cbn; discriminate.
Qed.

(* ---------- the round trip at the level of contents ---------- *)
Theorem roundtrip_content : forall ops1 p ops2 st1' bd md a,
  forallb wf_op (ops1 ++ OpPush p :: ops2) = true ->
  push_sig (state_after ops1) p = (st1', RPush 0 bd md a) ->
  lookup_dg (state_after ops1) (p_mdg p) = None -> p_mdg p <> p_bdg p -> p_mdg p <> DG_EMPTY ->
  let st := state_after (ops1 ++ OpPush p :: ops2) in
  fetch_all st bd = Some (p_bc p) /\
  d_dg bd = p_bdg p /\ d_sz bd = c_sz (p_bc p) /\
  d_mt bd = (if p_mt p =? MT_NONE then MT_OCTET else p_mt p) /\
  (p_mt p <> MT_NONE -> d_mt bd = p_mt p) /\
  fetch_all st md = Some (man_content (p_msz p) (p_subj p) bd a) /\
  ensure_created (p_ann p) (p_now p) (p_cvalid p) = Some a.
Proof.
  intros ops1 p ops2 st1' bd md a W HP L N1 N2 st.
  destruct (push_entries_present ops1 p ops2 st1' bd md a W HP L N1 N2) as (IV & Hm & He & EC & -> & ->).
  fold st in IV, Hm, He.
  pose proof (fetch_all_entry st _ IV He) as F1. pose proof (fetch_all_entry st _ IV Hm) as F2.
  split; [exact F1|]. split; [reflexivity|]. split; [reflexivity|]. split; [reflexivity|].
  split; [|split; [exact F2|exact EC]].
  intros NE. cbn [d_mt blob_desc]. apply N.eqb_neq in NE. now rewrite NE.
Qed.

(* "the identical media type": false for the empty media type, which
   oras.PushBytes replaces by application/octet-stream *)
Theorem media_type_not_identical : exists p s' bd md a,
  push_sig [] p = (s', RPush 0 bd md a) /\ d_mt bd <> p_mt p /\
  fst (fetch_sig s' md) = FOk (p_bdg p) bd.
Proof.
  exists (P MT_NONE 20 (CB 300) (D 1 10 400) [] 2 true 21 700).
  eexists. eexists. eexists. eexists. split; [vm_compute; reflexivity|].
  split; [vm_compute; discriminate|vm_compute; reflexivity].
Qed.

(* ---------- the observations of [model] are the steps on the stores after the prefixes ---------- *)
Lemma run_ops_length : forall ops st, List.length (snd (run_ops st ops)) = List.length ops.
Proof.
  induction ops as [|o ops IH]; intros st; [reflexivity|]. rewrite run_ops_cons. cbn. now rewrite IH.
Qed.

Lemma run_ops_snd_app : forall a b st,
  snd (run_ops st (a ++ b)) = snd (run_ops st a) ++ snd (run_ops (fst (run_ops st a)) b).
Proof.
  induction a as [|o a IH]; intros b st; [reflexivity|].
  cbn [app]. rewrite !run_ops_cons. cbn [fst snd app]. now rewrite IH.
Qed.

Theorem observation_at : forall ops1 o ops2,
  nth_error (model (mk_input (ops1 ++ o :: ops2))) (List.length ops1)
  = Some (snd (step (state_after ops1) o)) /\
  List.length (model (mk_input (ops1 ++ o :: ops2))) = List.length (ops1 ++ o :: ops2).
Proof.
  intros ops1 o ops2. unfold model. cbn [i_ops]. split; [|apply run_ops_length].
  rewrite run_ops_snd_app. rewrite nth_error_app2; rewrite run_ops_length; [|lia].
  rewrite Nat.sub_diag, run_ops_cons. reflexivity.
Qed.

(* ================================================================== *)
(* The clause "a signature whose push reported success is listed for its
   subject", judged by the oracle at full strength ([spec_ok], C19_Model.v),
   and the KNOWN finding (footprint 1): it fails exactly in the squat states. *)

(* the states that are NOT squat states: the digest of the manifest the push is
   going to make is neither the envelope's nor that of "{}" (what sha256 gives),
   and whatever content the store already holds under it is this very manifest,
   stored as an image manifest *)
Definition no_squat (st : state) (p : push) : Prop :=
  p_mdg p <> p_bdg p /\ p_mdg p <> DG_EMPTY /\
  forall e a, lookup_dg st (p_mdg p) = Some e ->
    ensure_created (p_ann p) (p_now p) (p_cvalid p) = Some a ->
    d_mt (e_d e) = MT_IMAGE /\ e_c e = man_content (p_msz p) (p_subj p) (blob_desc p) a.

Lemma fresh_no_squat : forall st p, fresh_manifest st p -> no_squat st p.
Proof. intros st p (L & N1 & N2). split; [exact N1|]. split; [exact N2|]. intros e a H. congruence. Qed.

Lemma entry_is_man_entry : forall e p a, entry_ok e -> dg_of e = p_mdg p -> d_mt (e_d e) = MT_IMAGE ->
  e_c e = man_content (p_msz p) (p_subj p) (blob_desc p) a -> e = man_entry p a.
Proof.
  intros [[mt dg sz] c s] p a (Hs & _ & Hu) Hd Hm Hc. unfold dg_of in Hd. cbn in *. subst. reflexivity.
Qed.

Lemma push_stores_manifest : forall st p s' bd md a, Inv st ->
  push_sig st p = (s', RPush 0 bd md a) -> no_squat st p ->
  In (man_entry p a) s' /\ In (env_entry p) s'.
Proof.
  intros st p s' bd md a IV HP (N1 & N2 & NS).
  destruct (push_sig_cases st p) as [(_ & E)|[(_ & _ & E)|[(_ & _ & E)|(Lb & a' & EC & E)]]];
    rewrite HP in E; inversion E; subst. clear E.
  assert (He : In (env_entry p) (add_absent (env_entry p :: st) cfg_entry))
    by (apply in_add_absent; left; reflexivity).
  split; [|apply in_add_absent; exact He].
  destruct (lookup_dg (add_absent (env_entry p :: st) cfg_entry) (dg_of (man_entry p a'))) as [e|] eqn:L.
  - rewrite add_absent_some by (rewrite L; discriminate).
    apply lookup_some_in in L as [Hi Hg]. change (dg_of (man_entry p a')) with (p_mdg p) in Hg.
    apply add_absent_in in Hi as [[<-|Hi]| ->].
    + exfalso. apply N1. symmetry. exact Hg.
    + assert (X : e = man_entry p a').
      { destruct IV as [ND FA]. rewrite Forall_forall in FA.
        assert (Lk : lookup_dg st (p_mdg p) = Some e) by (rewrite <- Hg; apply lookup_in; auto).
        destruct (NS e a' Lk EC) as [Hm Hc]. apply entry_is_man_entry; auto. }
      subst e. apply in_add_absent. right. exact Hi.
    + exfalso. apply N2. symmetry. exact Hg.
  - rewrite add_absent_none by exact L. left; reflexivity.
Qed.

(* the positive clause, under the hypothesis that excludes exactly the squat
   states: whatever happens afterwards, the manifest is in every successful
   listing of its subject with the annotations reported, and fetches back *)
Theorem pushed_then_listed : forall ops1 p ops2 st1' bd md a,
  forallb wf_op (ops1 ++ OpPush p :: ops2) = true ->
  push_sig (state_after ops1) p = (st1', RPush 0 bd md a) ->
  no_squat (state_after ops1) p ->
  let st := state_after (ops1 ++ OpPush p :: ops2) in
  (forall its lg, list_sigs st (p_subj p) = (LOk its, lg) -> In (I md MT_NOTATION a) its) /\
  ((p_msz p <= capM)%Z -> (c_sz (p_bc p) <= capB)%Z ->
     fetch_sig st md = (FOk (p_bdg p) bd, [p_mdg p; p_bdg p])).
Proof.
  intros ops1 p ops2 st1' bd md a W HP NS st.
  destruct (wf_mid _ _ _ W) as (W1 & _ & _).
  destruct (push_stores_manifest _ _ _ _ _ _ (state_after_inv ops1 W1) HP NS) as [Hm He].
  assert (Hm' : In (man_entry p a) st)
    by (apply in_step_persists; [exact W|]; cbn [step]; rewrite HP; exact Hm).
  assert (He' : In (env_entry p) st)
    by (apply in_step_persists; [exact W|]; cbn [step]; rewrite HP; exact He).
  pose proof (state_after_inv _ W) as IV. fold st in IV.
  destruct (push_outcome _ _ _ _ _ _ _ HP) as [(_ & -> & -> & _ & _)|[(X & _)|[(X & _)|(X & _)]]];
    try discriminate X.
  split.
  - intros its lg HL. rewrite (listing_ok_expected _ _ _ _ W HL). apply expected_in.
    exists (man_entry p a). split; [exact Hm'|]. split; [apply man_entry_sig|reflexivity].
  - intros Cm Cb. unfold fetch_sig.
    change (is_sigmt (d_mt (man_desc p))) with true. cbn [negb].
    change (d_sz (man_desc p)) with (p_msz p).
    apply Z.ltb_ge in Cm. rewrite Cm.
    pose proof (fetch_all_entry st (man_entry p a) IV Hm') as F1.
    change (e_d (man_entry p a)) with (man_desc p) in F1. rewrite F1.
    change (parsed (d_mt (man_desc p)) (e_c (man_entry p a))) with true. cbn [negb].
    change (blobs_of (d_mt (man_desc p)) (e_c (man_entry p a))) with [blob_desc p].
    cbv iota beta.
    change (d_sz (blob_desc p)) with (c_sz (p_bc p)).
    apply Z.ltb_ge in Cb. rewrite Cb.
    pose proof (fetch_all_entry st (env_entry p) IV He') as F2.
    change (e_d (env_entry p)) with (blob_desc p) in F2. rewrite F2. reflexivity.
Qed.

(* ... and the hypothesis is necessary: a content already stored under the
   manifest's digest with another media type keeps the reported manifest
   descriptor out of every later listing *)
Theorem squatted_never_listed : forall ops1 p ops2 st1' bd md a e,
  forallb wf_op (ops1 ++ OpPush p :: ops2) = true ->
  push_sig (state_after ops1) p = (st1', RPush 0 bd md a) ->
  lookup_dg (state_after ops1) (p_mdg p) = Some e -> d_mt (e_d e) <> MT_IMAGE ->
  forall q its lg, list_sigs (state_after (ops1 ++ OpPush p :: ops2)) q = (LOk its, lg) ->
    forall it, In it its -> i_d it <> md.
Proof.
  intros ops1 p ops2 st1' bd md a e W HP L Hm q its lg HL it Hin Heq.
  destruct (push_outcome _ _ _ _ _ _ _ HP) as [(_ & _ & -> & _ & _)|[(X & _)|[(X & _)|(X & _)]]];
    try discriminate X.
  rewrite (listing_ok_expected _ _ _ _ W HL) in Hin.
  apply expected_in in Hin as (e' & Hi' & _ & ->). cbn [i_d item_of] in Heq.
  apply lookup_some_in in L as [Hi Hg].
  assert (Hi2 : In e (state_after (ops1 ++ OpPush p :: ops2))) by (apply in_prefix_persists; auto).
  assert (e' = e).
  { apply (NoDup_map_inj_in dg_of (state_after (ops1 ++ OpPush p :: ops2))); auto.
    - apply (state_after_inv _ W).
    - unfold dg_of at 1. rewrite Heq. rewrite Hg. reflexivity. }
  subst e'. apply Hm. rewrite Heq. reflexivity.
Qed.

(* histories without squat states *)
Definition no_squat_history (ops : list op) : Prop :=
  forall ops1 p ops2 s' bd md a, ops = ops1 ++ OpPush p :: ops2 ->
    push_sig (state_after ops1) p = (s', RPush 0 bd md a) -> no_squat (state_after ops1) p.

Lemma fresh_no_squat_history : forall ops, pushes_fresh ops -> no_squat_history ops.
Proof. intros ops F ops1 p ops2 s' bd md a E HP. apply fresh_no_squat. eapply F; eauto. Qed.

Fixpoint nosq (st : state) (ops : list op) : Prop :=
  match ops with
  | [] => True
  | o :: ops' =>
      match o with
      | OpPush p => (exists s' bd md a, push_sig st p = (s', RPush 0 bd md a)) -> no_squat st p
      | _ => True
      end /\ nosq (fst (step st o)) ops'
  end.

Lemma nosq_of : forall ops st,
  (forall ops1 p ops2 s' bd md a, ops = ops1 ++ OpPush p :: ops2 ->
     push_sig (fst (run_ops st ops1)) p = (s', RPush 0 bd md a) -> no_squat (fst (run_ops st ops1)) p) ->
  nosq st ops.
Proof.
  induction ops as [|o ops IH]; intros st H; [exact Logic.I|]. cbn [nosq]. split.
  - destruct o as [p|d c|q|d]; auto. intros (s' & bd & md & a & HP).
    apply (H [] p ops s' bd md a eq_refl HP).
  - apply IH. intros ops1 p ops2 s' bd md a -> HP.
    specialize (H (o :: ops1) p ops2 s' bd md a eq_refl).
    rewrite run_ops_cons in H. cbn [fst] in H. auto.
Qed.

Definition owed_inv (ow : owed) (st : state) : Prop :=
  forall s it, In (s, it) ow -> exists e, In e st /\ sig_manifest_of s e /\ it = item_of e.

Lemma owed_inv_grows : forall ow st st1, grows st st1 -> owed_inv ow st -> owed_inv ow st1.
Proof.
  intros ow st st1 G H s it Hin. destruct (H s it Hin) as (e & Hi & R). exists e. split; [|exact R].
  eapply grows_in; eauto.
Qed.

Lemma owed_ok_step : forall st o ow, Inv st -> owed_inv ow st -> owed_ok ow o (snd (step st o)) = true.
Proof.
  intros st o ow IV OW. destruct o as [p|d c|q|d]; try reflexivity.
  cbn [step]. pose proof (list_sigs_spec st q IV) as HS.
  destruct (list_sigs st q) as [r lg]. cbn [fst] in HS. subst r.
  destruct (existsb (oversize_ref q) st); [reflexivity|]. cbn [snd owed_ok].
  change (0 =? 0) with true. cbv iota. apply forallb_forall. intros [s it] Hin. cbn [fst snd].
  destruct (desc_eqb s q) eqn:E; [|reflexivity]. cbn [negb orb].
  apply desc_eqb_eq in E. subst s. destruct (OW q it Hin) as (e & Hi & Hs & ->).
  apply existsb_exists. exists (item_of e). split; [|apply item_eqb_refl].
  apply expected_in. exists e. auto.
Qed.

Lemma orc2_run : forall ops st ow, Inv st -> forallb wf_op ops = true -> nosq st ops -> owed_inv ow st ->
  orc2 false st ow ops (snd (run_ops st ops)) = true.
Proof.
  induction ops as [|o ops IH]; intros st ow IV W NQ OW; [reflexivity|].
  cbn [forallb] in W. apply andb_true_iff in W as [W1 W2]. cbn [nosq] in NQ. destruct NQ as [NQ1 NQ2].
  rewrite run_ops_cons. cbn [snd orc2].
  destruct (step_sim st o IV W1) as (H1 & H2 & H3 & H4).
  rewrite H1, H2, (owed_ok_step st o ow IV OW). cbn [andb]. apply IH; auto.
  destruct o as [p|d c|q|d]; try (cbn [owed_adv]; eapply owed_inv_grows; eauto; fail).
  cbn [step snd fst] in *. destruct (push_result_shape st p) as (e & bd & md & a & R). rewrite R.
    cbn [owed_adv andb negb]. rewrite andb_true_r.
    destruct (e =? 0) eqn:E0; [|eapply owed_inv_grows; eauto].
    apply N.eqb_eq in E0. subst e.
    assert (HP : push_sig st p = (fst (push_sig st p), RPush 0 bd md a))
      by (rewrite <- R; destruct (push_sig st p); reflexivity).
    assert (NS : no_squat st p) by (apply NQ1; eauto).
    destruct (push_stores_manifest _ _ _ _ _ _ IV HP NS) as [Hm _].
    destruct (push_outcome _ _ _ _ _ _ _ HP) as [(_ & _ & -> & _ & _)|[(X & _)|[(X & _)|(X & _)]]];
      try discriminate X.
    intros s it [Eq|Hin].
    - inversion Eq; subst. exists (man_entry p a). split; [exact Hm|]. split; [apply man_entry_sig|reflexivity].
    - destruct (OW s it Hin) as (e & Hi & Rr). exists e. split; [eapply grows_in; eauto|exact Rr].
Qed.

(* the model satisfies the whole oracle on every history without squat states *)
Theorem model_meets_oracle : forall i, wf i = true -> no_squat_history (i_ops i) ->
  spec_ok i (model i) = true.
Proof.
  intros i W NS. unfold spec_ok, model. apply orc2_run; [apply Inv_nil|exact W| |intros s it []].
  apply nosq_of. exact NS.
Qed.

(* ... and only there: the squat history followed by a listing. The oracle is
   violated, the tolerant oracle is not, the footprint of the case is 1 *)
Definition squat_input : input := mk_input (squat_ops1 ++ [OpPush squat_p; OpList (p_subj squat_p)]).
Theorem model_violates_oracle_when_squatted :
  wf squat_input = true /\ spec_ok squat_input (model squat_input) = false /\
  spec_ok_known squat_input (model squat_input) = true /\
  run [mk_case 7 squat_input (model squat_input)] = [(7, 2, 1)].
Proof. repeat split; vm_compute; reflexivity. Qed.

(* a pushed signature missing from a listing WITHOUT the manifest having been
   there before is not covered by the known finding: footprint 0 *)
Definition unlisted_case : case :=
  mk_case 8 (mk_input [OpPush squat_p; OpList (p_subj squat_p)])
            [RPush 0 (blob_desc squat_p) (man_desc squat_p) [(1,3); (5,6)]; RList 0 [] []].
Theorem other_unlisted_is_not_known : run [unlisted_case] = [(8, 3, 0)].
Proof. vm_compute. reflexivity. Qed.
