(* C20_Proofs.v — lemmas about the model of plugin installation (C20_Model.v).
   Part 1: strings, association lists, files.
   Part 2: parsePluginFromDir = the declarative candidate rule.
   Part 3: Install against the declarative reading (candidate / existing / verdict).
   Part 4: the theorems of the property.
   Part 5: the model meets the boolean oracle. *)
From NV Require Import Base Regex Generated C20_Semver C20_Model.
Open Scope string_scope.

(* ================= Part 1: basics ================= *)

Lemma str_eqb_refl s : String.eqb s s = true.
Proof. apply String.eqb_refl. Qed.

Lemma str_eqb_eq a b : String.eqb a b = true -> a = b.
Proof. apply String.eqb_eq. Qed.

Lemma str_eqb_neq a b : String.eqb a b = false -> a <> b.
Proof. apply String.eqb_neq. Qed.

Lemma has_prefix_split p : forall s, has_prefix p s = true -> s = p ++ drop (String.length p) s.
Proof.
  induction p as [|a p IH]; intros s H; cbn in *; [reflexivity|].
  destruct s as [|b s]; [discriminate|].
  apply andb_true_iff in H. destruct H as [Hab Hp].
  apply Ascii.eqb_eq in Hab. subst b. cbn. f_equal. apply IH. exact Hp.
Qed.

Lemma pname_of_bin fname n : pname_of fname = Some n -> fname = bin_name n.
Proof.
  unfold pname_of, bin_name. destruct (has_prefix bin_prefix fname) eqn:Hp; [|discriminate].
  intros H. apply has_prefix_split in Hp. cbn [String.length bin_prefix] in Hp.
  change (String.length bin_prefix) with 9%nat in Hp.
  destruct (drop 9 fname) eqn:Hd; [discriminate|]. inversion H; subst n. exact Hp.
Qed.

Lemma bs_cmp_refl x : bs_cmp x x = Eq.
Proof. induction x as [|a x IH]; cbn; [reflexivity|]. rewrite N.compare_refl. exact IH. Qed.

Lemma str_cmp_refl s : str_cmp s s = Eq.
Proof. apply bs_cmp_refl. Qed.

(* ---- association lists ---- *)
Section AssocLemmas.
  Context {A : Type}.
  Implicit Types (m : list (string * A)).

  Lemma afind_aremove_same k m : afind k (aremove k m) = None.
  Proof.
    induction m as [|[k' v] m IH]; cbn; [reflexivity|].
    destruct (String.eqb k k') eqn:E; [exact IH|]. cbn. rewrite E. exact IH.
  Qed.

  Lemma afind_aremove_other k k' m : k <> k' -> afind k (aremove k' m) = afind k m.
  Proof.
    intros Hne. induction m as [|[k2 v] m IH]; cbn; [reflexivity|].
    destruct (String.eqb k' k2) eqn:E.
    - apply str_eqb_eq in E. subst k2.
      destruct (String.eqb k k') eqn:E2; [apply str_eqb_eq in E2; contradiction|]. exact IH.
    - cbn. destruct (String.eqb k k2); [reflexivity|exact IH].
  Qed.

  Lemma aremove_idem k m : aremove k (aremove k m) = aremove k m.
  Proof.
    induction m as [|[k' v] m IH]; cbn; [reflexivity|].
    destruct (String.eqb k k') eqn:E; [exact IH|]. cbn. rewrite E. f_equal. exact IH.
  Qed.

  Lemma afind_ainsert_same k v m : afind k (ainsert k v m) = Some v.
  Proof.
    induction m as [|[k' v'] m IH]; cbn; [rewrite str_eqb_refl; reflexivity|].
    destruct (str_cmp k k') eqn:C; cbn; rewrite ?str_eqb_refl; try reflexivity.
    destruct (String.eqb k k') eqn:E; [|exact IH].
    apply str_eqb_eq in E. subst k'. rewrite str_cmp_refl in C. discriminate.
  Qed.

  Lemma afind_ainsert_other k k' v m : k <> k' -> afind k (ainsert k' v m) = afind k m.
  Proof.
    intros Hne. induction m as [|[k2 v2] m IH]; cbn.
    - destruct (String.eqb k k') eqn:E; [apply str_eqb_eq in E; contradiction|reflexivity].
    - destruct (str_cmp k' k2) eqn:C; cbn.
      + destruct (String.eqb k k') eqn:E; [apply str_eqb_eq in E; contradiction|reflexivity].
      + destruct (String.eqb k k') eqn:E; [apply str_eqb_eq in E; contradiction|reflexivity].
      + destruct (String.eqb k k2); [reflexivity|exact IH].
  Qed.

  Lemma aremove_ainsert_same k v m : aremove k (ainsert k v m) = aremove k m.
  Proof.
    induction m as [|[k' v'] m IH]; cbn; [rewrite str_eqb_refl; reflexivity|].
    destruct (str_cmp k k') eqn:C; cbn; rewrite ?str_eqb_refl; try reflexivity.
    destruct (String.eqb k k') eqn:E.
    - apply str_eqb_eq in E. subst k'. rewrite str_cmp_refl in C. discriminate.
    - f_equal. exact IH.
  Qed.

  Lemma in_keys_ainsert k v m : In k (map fst (ainsert k v m)).
  Proof.
    induction m as [|[k' v'] m IH]; cbn; [left; reflexivity|].
    destruct (str_cmp k k'); cbn; auto.
  Qed.

  Lemma afind_some_in k m v : afind k m = Some v -> In k (map fst m).
  Proof.
    induction m as [|[k' v'] m IH]; cbn; [discriminate|].
    destruct (String.eqb k k') eqn:E; [apply str_eqb_eq in E; auto|]. intros H. right. exact (IH H).
  Qed.

  Lemma aremove_notin k m : afind k m = None -> aremove k m = m.
  Proof.
    induction m as [|[k' v'] m IH]; cbn; [reflexivity|].
    destruct (String.eqb k k'); [discriminate|]. intros H. f_equal. exact (IH H).
  Qed.
End AssocLemmas.

Lemma afind_map_snd {A B} (g : string -> A -> B) k (m : list (string * A)) :
  afind k (map (fun p => (fst p, g (fst p) (snd p))) m) =
  match afind k m with Some v => Some (g k v) | None => None end.
Proof.
  induction m as [|[k' v] m IH]; cbn; [reflexivity|].
  destruct (String.eqb k k') eqn:E; [apply str_eqb_eq in E; subst k'; reflexivity|exact IH].
Qed.

(* ---- boolean equalities are reflexive ---- *)
Lemma list_eqb_refl {A} (eqb : A -> A -> bool) : (forall x, eqb x x = true) -> forall l, list_eqb eqb l l = true.
Proof. intros H l. induction l as [|x l IH]; cbn; [reflexivity|]. rewrite H, IH. reflexivity. Qed.

Lemma file_eqb_refl f : file_eqb f f = true.
Proof. unfold file_eqb. rewrite str_eqb_refl, !N.eqb_refl. reflexivity. Qed.

Lemma pdir_eqb_refl d : pdir_eqb d d = true.
Proof. apply list_eqb_refl. exact file_eqb_refl. Qed.

Lemma state_eqb_refl st : state_eqb st st = true.
Proof. apply list_eqb_refl. intros [k d]. cbn. rewrite str_eqb_refl, pdir_eqb_refl. reflexivity. Qed.

Lemma answer_eqb_refl a : answer_eqb a a = true.
Proof. destruct a; cbn; rewrite ?str_eqb_refl; reflexivity. Qed.

Lemma answers_eqb_refl l : answers_eqb l l = true.
Proof. apply list_eqb_refl. intros [k a]. cbn. rewrite str_eqb_refl, answer_eqb_refl. reflexivity. Qed.

Lemma meta_eqb_refl m : meta_eqb m m = true.
Proof. destruct m. unfold meta_eqb. cbn. rewrite !str_eqb_refl. reflexivity. Qed.

Lemma opt_meta_eqb_refl (o : option meta) : opt_eqb meta_eqb o o = true.
Proof. destruct o; cbn; [apply meta_eqb_refl|reflexivity]. Qed.

Lemma strlist_eqb_refl l : list_eqb String.eqb l l = true.
Proof. apply list_eqb_refl. exact str_eqb_refl. Qed.

Lemma cmp_eqb_refl c : cmp_eqb c c = true.
Proof. destruct c; reflexivity. Qed.

Lemma mem_str_in x l : mem_str x l = true <-> In x l.
Proof.
  unfold mem_str. rewrite existsb_exists. split.
  - intros [y [Hy E]]. apply str_eqb_eq in E. subst y. exact Hy.
  - intros H. exists x. split; [exact H|apply str_eqb_refl].
Qed.

(* ---- files ---- *)
Lemma is_exec_mask f : is_exec (mask f) = is_exec f.
Proof.
  unfold is_exec, mask. cbn [f_mode]. rewrite N.land_spec.
  change (N.testbit 493 6) with true. apply andb_true_r.
Qed.

Lemma is_exec_set_exec f : is_exec (set_exec f) = true.
Proof.
  unfold is_exec, set_exec. cbn [f_mode]. rewrite N.lor_spec.
  change (N.testbit 64 6) with true. apply orb_true_r.
Qed.

Lemma f_name_mask f : f_name (mask f) = f_name f.  Proof. reflexivity. Qed.
Lemma f_cid_mask f : f_cid (mask f) = f_cid f.  Proof. reflexivity. Qed.
Lemma f_name_set_exec f : f_name (set_exec f) = f_name f.  Proof. reflexivity. Qed.
Lemma f_cid_set_exec f : f_cid (set_exec f) = f_cid f.  Proof. reflexivity. Qed.

Lemma ask_mask tbl n f : ask tbl n (mask f) = ask tbl n f.
Proof. unfold ask. rewrite is_exec_mask, f_cid_mask. reflexivity. Qed.

Lemma find_file_map (g : file -> file) n l :
  (forall f, f_name (g f) = f_name f) ->
  find_file n (map g l) = match find_file n l with Some f => Some (g f) | None => None end.
Proof.
  intros Hg. induction l as [|f l IH]; cbn; [reflexivity|].
  rewrite Hg. destruct (String.eqb n (f_name f)); [reflexivity|exact IH].
Qed.

Lemma mem_str_false_notin x l : mem_str x l = false -> ~ In x l.
Proof. intros H Hin. apply mem_str_in in Hin. congruence. Qed.

Lemma find_file_nodup l : nodupb (map f_name l) = true ->
  forall f, In f l -> find_file (f_name f) l = Some f.
Proof.
  induction l as [|g l IH]; intros Hn f Hin; [destruct Hin|].
  cbn in Hn. apply andb_true_iff in Hn. destruct Hn as [Hg Hn].
  apply negb_true_iff in Hg. cbn.
  destruct Hin as [->|Hin]; [rewrite str_eqb_refl; reflexivity|].
  destruct (String.eqb (f_name f) (f_name g)) eqn:E; [|apply IH; assumption].
  apply str_eqb_eq in E. exfalso. apply (mem_str_false_notin _ _ Hg).
  rewrite <- E. apply in_map. exact Hin.
Qed.

Lemma find_file_none_notin n l : find_file n l = None -> forall f, In f l -> f_name f <> n.
Proof.
  induction l as [|g l IH]; intros H f Hin; [destruct Hin|].
  cbn in H. destruct (String.eqb n (f_name g)) eqn:E; [discriminate|].
  destruct Hin as [->|Hin]; [apply str_eqb_neq in E; congruence|apply IH; assumption].
Qed.

(* ================= Part 2: parsePluginFromDir ================= *)

Definition cands (l : list file) : list file := filter is_cand l.
Definition execs (l : list file) : list file := filter is_exec (cands l).

(* candidatePluginName after walking l, starting from c *)
Fixpoint cname_after (c : string) (l : list file) : string :=
  match l with
  | [] => c
  | f :: r => cname_after (match pname_of (f_name f) with Some n => n | None => c end) r
  end.

Lemma is_cand_pname f : is_cand f = true -> exists n, pname_of (f_name f) = Some n.
Proof. unfold is_cand. destruct (pname_of (f_name f)) as [n|]; [eauto|discriminate]. Qed.

Lemma is_cand_false f : is_cand f = false -> pname_of (f_name f) = None.
Proof. unfold is_cand. destruct (pname_of (f_name f)); [discriminate|reflexivity]. Qed.

(* no executable candidate in l: the walk only collects *)
Lemma walk_no_exec : forall l s, execs l = [] ->
  walk s l = WOk (mk_wst (w_exe s) (w_cands s ++ cands l) (cname_after (w_cname s) l)).
Proof.
  induction l as [|f l IH]; intros s He; cbn [walk cands filter cname_after].
  - rewrite app_nil_r. destruct s; reflexivity.
  - unfold execs, cands in He. cbn [filter] in He. unfold visit.
    destruct (is_cand f) eqn:Hc.
    + destruct (is_cand_pname f Hc) as [n Hn]. rewrite Hn.
      cbn [filter] in He. destruct (is_exec f) eqn:Hx; [discriminate|]. cbn [negb].
      rewrite (IH _ He). cbn [w_exe w_cands w_cname]. unfold cands. rewrite <- app_assoc. reflexivity.
    + rewrite (is_cand_false f Hc). rewrite (IH _ He). reflexivity.
Qed.

(* an executable was already found and another one follows: error *)
Lemma walk_second_exec : forall l s p, w_exe s = Some p -> execs l <> [] -> walk s l = WTwo.
Proof.
  induction l as [|f l IH]; intros s p Hs He; [exfalso; apply He; reflexivity|].
  cbn [walk]. unfold visit. unfold execs, cands in He. cbn [filter] in He.
  destruct (is_cand f) eqn:Hc.
  - destruct (is_cand_pname f Hc) as [n Hn]. rewrite Hn. cbn [filter] in He.
    destruct (is_exec f) eqn:Hx; cbn [negb].
    + rewrite Hs. reflexivity.
    + apply (IH _ p); [exact Hs|exact He].
  - rewrite (is_cand_false f Hc). apply (IH _ p); assumption.
Qed.

Lemma walk_one_exec : forall l s e, w_exe s = None -> execs l = [e] ->
  exists n, pname_of (f_name e) = Some n /\
  walk s l = WOk (mk_wst (Some (e, n)) (w_cands s ++ cands l) (cname_after (w_cname s) l)).
Proof.
  induction l as [|f l IH]; intros s e Hs He; [discriminate|].
  cbn [walk cands filter cname_after]. unfold visit. unfold execs, cands in He. cbn [filter] in He.
  destruct (is_cand f) eqn:Hc.
  - destruct (is_cand_pname f Hc) as [n Hn]. rewrite Hn. cbn [filter] in He.
    destruct (is_exec f) eqn:Hx; cbn [negb].
    + rewrite Hs. injection He as He1 He2. subst e. exists n. split; [exact Hn|].
      rewrite (walk_no_exec l _ He2). cbn [w_exe w_cands w_cname]. unfold cands. rewrite <- app_assoc. reflexivity.
    + destruct (IH (mk_wst (w_exe s) (w_cands s ++ [f]) n) e Hs He) as [m [Hm Hw]].
      exists m. split; [exact Hm|]. rewrite Hw. cbn [w_exe w_cands w_cname]. unfold cands. rewrite <- app_assoc. reflexivity.
  - rewrite (is_cand_false f Hc). apply IH; assumption.
Qed.

Lemma walk_two_exec : forall l s e1 e2 r, execs l = e1 :: e2 :: r -> walk s l = WTwo.
Proof.
  induction l as [|f l IH]; intros s e1 e2 r He; [discriminate|].
  cbn [walk]. unfold visit. unfold execs, cands in He. cbn [filter] in He.
  destruct (is_cand f) eqn:Hc.
  - destruct (is_cand_pname f Hc) as [n Hn]. rewrite Hn. cbn [filter] in He.
    destruct (is_exec f) eqn:Hx; cbn [negb].
    + destruct (w_exe s) as [p|]; [reflexivity|].
      injection He as He1 He2.
      apply (walk_second_exec l _ (f, n)); [reflexivity|]. unfold execs, cands. rewrite He2. discriminate.
    + apply (IH _ e1 e2 r). exact He.
  - rewrite (is_cand_false f Hc). apply (IH _ e1 e2 r). exact He.
Qed.

(* the single candidate gives the candidate name, whatever else the directory holds *)
Lemma cname_single : forall l c x, cands l = [x] ->
  exists n, pname_of (f_name x) = Some n /\ cname_after c l = n.
Proof.
  induction l as [|f l IH]; intros c x Hc; [discriminate|].
  unfold cands in Hc. cbn [filter] in Hc. cbn [cname_after].
  destruct (is_cand f) eqn:Hf.
  - injection Hc as Hx Hr. subst f. destruct (is_cand_pname x Hf) as [n Hn]. rewrite Hn.
    exists n. split; [reflexivity|].
    clear -Hr. revert n. induction l as [|g l IH]; intros n; [reflexivity|].
    cbn [filter] in Hr. cbn [cname_after]. destruct (is_cand g) eqn:Hg; [discriminate|].
    rewrite (is_cand_false g Hg). apply IH. exact Hr.
  - rewrite (is_cand_false f Hf). apply IH. exact Hc.
Qed.

(* parsePluginFromDir, declaratively *)
Definition parse_spec (top : list file) : located :=
  match execs top with
  | [e] => match pname_of (f_name e) with Some n => LOk e n top | None => LErr EOther end
  | [] => match cands top with
          | [x] => match pname_of (f_name x) with
                   | Some n => LOk (set_exec x) n (chmod_exec (f_name x) top)
                   | None => LErr EOther
                   end
          | _ => LErr ESrcNoExec
          end
  | _ => LErr ESrcTwoExec
  end.

Lemma finish_walk_spec top : finish_walk top top = parse_spec top.
Proof.
  unfold finish_walk, parse_spec.
  destruct (execs top) as [|e1 [|e2 r]] eqn:He.
  - rewrite (walk_no_exec top wst0 He). cbn [w_exe w_cands w_cname wst0 app].
    destruct (cands top) as [|x [|y r]] eqn:Hc; try reflexivity.
    destruct (cname_single top "" x Hc) as [n [Hn Hcn]]. rewrite Hn, Hcn. reflexivity.
  - destruct (walk_one_exec top wst0 e1 eq_refl He) as [n [Hn Hw]]. rewrite Hw, Hn. reflexivity.
  - rewrite (walk_two_exec top wst0 e1 e2 r He). reflexivity.
Qed.

Lemma parse_dir_spec es : parse_dir es = parse_spec (top_files es).
Proof. apply finish_walk_spec. Qed.

Lemma execs_in l e : In e (execs l) -> In e l /\ is_cand e = true /\ is_exec e = true.
Proof.
  unfold execs, cands. intros H. apply filter_In in H. destruct H as [H Hx].
  apply filter_In in H. destruct H as [H Hc]. auto.
Qed.

Lemma cands_in l e : In e (cands l) -> In e l /\ is_cand e = true.
Proof. unfold cands. intros H. apply filter_In in H. exact H. Qed.

(* ================= Part 3: Install against its declarative reading ================= *)

Definition is_version_err (e : ierr) : bool :=
  match e with EDowngrade | EEqual | EVersion => true | _ => false end.

Lemma version_err_ok_other tbl T src ow e : is_version_err e = false -> version_err_ok tbl T src ow e = true.
Proof. destruct e; cbn; intros H; try discriminate; reflexivity. Qed.

Lemma chmod_exec_names n l : map f_name (chmod_exec n l) = map f_name l.
Proof.
  unfold chmod_exec. rewrite map_map. apply map_ext. intros f.
  destruct (String.eqb (f_name f) n); reflexivity.
Qed.

(* what locate finds is the executable the declarative reading names, and the copy
   list is the declarative list of top-level files *)
Lemma locate_ok src exe n copy : source_ok src = true -> locate src = LOk exe n copy ->
  spec_exe src = Some exe /\ pname_of (f_name exe) = Some n /\ copy = spec_files src /\
  is_exec exe = true /\ find_file (bin_name n) copy = Some exe.
Proof.
  intros Hwf Hl. destruct src as [| |sn|f|base es]; cbn [locate] in Hl; try discriminate.
  - destruct (pname_of sn); discriminate.
  - destruct (pname_of (f_name f)) as [m|] eqn:Hn; [|discriminate].
    destruct (is_exec f) eqn:Hx; [|discriminate]. injection Hl as <- <- <-.
    cbn [spec_exe spec_files]. rewrite Hx. repeat split; try assumption.
    cbn [find_file]. rewrite <- (pname_of_bin _ _ Hn), str_eqb_refl. reflexivity.
  - rewrite parse_dir_spec in Hl. unfold parse_spec in Hl.
    cbn [source_ok] in Hwf. apply andb_true_iff in Hwf. destruct Hwf as [Hwf _].
    apply andb_true_iff in Hwf. destruct Hwf as [Hnd _].
    cbn [spec_exe spec_files]. fold (cands (top_files es)). fold (execs (top_files es)).
    destruct (execs (top_files es)) as [|e1 [|e2 r]] eqn:He; [| |discriminate].
    + destruct (cands (top_files es)) as [|x [|y r]] eqn:Hc; try discriminate.
      destruct (pname_of (f_name x)) as [m|] eqn:Hn; [|discriminate].
      injection Hl as <- <- <-. rewrite f_name_set_exec.
      repeat split; try assumption; try reflexivity; [apply is_exec_set_exec|].
      unfold chmod_exec. rewrite find_file_map.
      2:{ intros f. destruct (String.eqb (f_name f) (f_name x)); reflexivity. }
      rewrite <- (pname_of_bin _ _ Hn).
      assert (Hin : In x (top_files es)).
      { apply (cands_in _ x). rewrite Hc. left. reflexivity. }
      rewrite (find_file_nodup _ Hnd x Hin). rewrite str_eqb_refl. reflexivity.
    + destruct (pname_of (f_name e1)) as [m|] eqn:Hn; [|discriminate].
      injection Hl as <- <- <-.
      destruct (execs_in (top_files es) e1) as [Hin [_ Hx]]; [rewrite He; left; reflexivity|].
      repeat split; try assumption; try reflexivity.
      rewrite <- (pname_of_bin _ _ Hn). apply find_file_nodup; assumption.
Qed.

Lemma locate_err src e : locate src = LErr e ->
  is_version_err e = false /\ forall tbl, candidate tbl src = None.
Proof.
  intros Hl. destruct src as [| |sn|f|base es]; cbn [locate] in Hl.
  - injection Hl as <-. split; [reflexivity|]. reflexivity.
  - injection Hl as <-. split; [reflexivity|]. reflexivity.
  - split; [destruct (pname_of sn); injection Hl as <-; reflexivity|]. reflexivity.
  - destruct (pname_of (f_name f)) as [m|] eqn:Hn.
    + destruct (is_exec f) eqn:Hx; [discriminate|]. injection Hl as <-. split; [reflexivity|].
      intros tbl. unfold candidate. cbn [spec_exe]. rewrite Hx. reflexivity.
    + injection Hl as <-. split; [reflexivity|].
      intros tbl. unfold candidate. cbn [spec_exe]. destruct (is_exec f); [rewrite Hn|]; reflexivity.
  - rewrite parse_dir_spec in Hl. unfold parse_spec in Hl.
    unfold candidate. cbn [spec_exe]. fold (cands (top_files es)). fold (execs (top_files es)).
    destruct (execs (top_files es)) as [|e1 [|e2 r]] eqn:He.
    + destruct (cands (top_files es)) as [|x [|y r]] eqn:Hc.
      * injection Hl as <-. split; reflexivity.
      * destruct (pname_of (f_name x)) as [m|] eqn:Hn; [discriminate|]. injection Hl as <-.
        split; [reflexivity|]. intros tbl. cbv iota. rewrite ?f_name_set_exec, ?Hn. reflexivity.
      * injection Hl as <-. split; reflexivity.
    + destruct (pname_of (f_name e1)) as [m|] eqn:Hn; [discriminate|]. injection Hl as <-.
      split; [reflexivity|]. intros tbl. reflexivity.
    + injection Hl as <-. split; reflexivity.
Qed.

(* the declarative result of an installation *)
Definition installed_state (st : state) (n : string) (src : source) : state :=
  ainsert n (map mask (spec_files src)) (aremove n st).

Definition refused (st st' : state) (r : ires) : Prop :=
  st' = st /\ r_new r = None /\ r_existing r = None.

Section Install.
  (* the link between ComparePluginVersion and the declarative precedence: proved in
     C20_SemverProofs (compare_plugin_version_spec) and discharged at the end *)
  Hypothesis cpv_spec : forall v w,
    compare_plugin_version v w = if sv_valid v && sv_valid w then Some (prec_of v w) else None.

  Lemma do_install_ok st n copy ex nw : valid_name n = true -> copy <> [] ->
    do_install st n copy ex nw = (ainsert n (map mask copy) (aremove n st), mk_ires ex (Some nw) None).
  Proof.
    intros Hv Hc. unfold do_install. rewrite Hv. cbn [negb].
    destruct copy; [contradiction|reflexivity].
  Qed.

  Lemma install_spec tbl st src ow : source_ok src = true ->
    match verdict tbl st src ow with
    | Some (n, v, ex) =>
        install tbl st src ow = (installed_state st n src, mk_ires ex (Some (n, v)) None)
    | None =>
        exists e, install tbl st src ow = (st, mk_ires None None (Some e))
                  /\ version_err_ok tbl st src ow e = true
    end.
  Proof.
    intros Hwf. unfold install. destruct (locate src) as [e|exe n copy] eqn:Hl.
    - destruct (locate_err src e Hl) as [Hve Hc]. unfold verdict. rewrite Hc.
      exists e. split; [reflexivity|]. apply version_err_ok_other. exact Hve.
    - destruct (locate_ok src exe n copy Hwf Hl) as [Hse [Hpn [Hcopy [Hx Hff]]]].
      assert (Hne : copy <> []) by (intros ->; discriminate).
      cbn [install_with].
      assert (Hcand : candidate tbl src =
                if negb (valid_name n) then None
                else match tbl_get (f_cid exe) tbl with
                     | MOk mn v => if String.eqb mn n then Some (n, v) else None
                     | _ => None
                     end).
      { unfold candidate. rewrite Hse, Hpn. reflexivity. }
      assert (Hask : ask tbl n exe =
                match tbl_get (f_cid exe) tbl with
                | MOk mn v => if String.eqb mn n then AOk mn v else AMisnamed
                | MMalformed => AInvalid
                | MFail => AFail
                end).
      { unfold ask. rewrite Hx. reflexivity. }
      rewrite Hask. clear Hask.
      destruct (tbl_get (f_cid exe) tbl) as [mn v| |] eqn:Ht.
      2:{ unfold verdict. rewrite Hcand. destruct (negb (valid_name n));
          (exists EMetaInvalid; split; [reflexivity|reflexivity]). }
      2:{ unfold verdict. rewrite Hcand. destruct (negb (valid_name n));
          (exists EMetaInvalid; split; [reflexivity|reflexivity]). }
      destruct (String.eqb mn n) eqn:Hmn.
      2:{ unfold verdict. rewrite Hcand. destruct (negb (valid_name n));
          (exists EMisnamed; split; [reflexivity|reflexivity]). }
      apply str_eqb_eq in Hmn. subst mn.
      unfold get_plugin, dir_get.
      destruct (valid_name n) eqn:Hvn; cbn [negb] in *.
      2:{ unfold verdict. rewrite Hcand.
          destruct ow.
          - exists ECleanup. unfold do_install. rewrite Hvn. split; reflexivity.
          - exists EExistCheck. split; reflexivity. }
      assert (Hex : existing tbl st n =
                match afind n st with
                | None => None
                | Some d => match find_file (bin_name n) d with None => None | Some f => Some (ask tbl n f) end
                end) by reflexivity.
      unfold verdict. rewrite Hcand, Hex. subst copy.
      destruct (afind n st) as [d|] eqn:Hfd.
      2:{ rewrite (do_install_ok st n _ None (n, v) Hvn Hne). reflexivity. }
      destruct (find_file (bin_name n) d) as [f|] eqn:Hfb.
      2:{ rewrite (do_install_ok st n _ None (n, v) Hvn Hne). reflexivity. }
      destruct (ask tbl n f) as [en ev| | | |] eqn:Ha.
      + destruct ow; cbn [orb].
        * rewrite (do_install_ok st n _ _ (n, v) Hvn Hne). reflexivity.
        * rewrite cpv_spec. unfold sv_higher.
          assert (Hsit : forall e, version_err_ok tbl st src false e =
                                  match e with
                                  | EDowngrade => sv_valid v && sv_valid ev && cmp_eqb (prec_of v ev) Lt
                                  | EEqual => sv_valid v && sv_valid ev && cmp_eqb (prec_of v ev) Eq
                                  | EVersion => negb (sv_valid v && sv_valid ev)
                                  | _ => true
                                  end).
          { intros e. unfold version_err_ok. rewrite Hcand, Hex. cbn [negb andb].
            destruct e; reflexivity. }
          destruct (sv_valid v && sv_valid ev) eqn:Hval; cbn [andb].
          -- destruct (prec_of v ev) eqn:Hp.
             ++ exists EEqual. split; [reflexivity|]. rewrite Hsit, ?Hval, ?Hp. reflexivity.
             ++ exists EDowngrade. split; [reflexivity|]. rewrite Hsit, ?Hval, ?Hp. reflexivity.
             ++ rewrite (do_install_ok st n _ _ (n, v) Hvn Hne). reflexivity.
          -- exists EVersion. split; [reflexivity|]. rewrite Hsit, ?Hval. reflexivity.
      + destruct ow; [rewrite (do_install_ok st n _ None (n, v) Hvn Hne); reflexivity|].
        exists EExistMeta. split; reflexivity.
      + destruct ow; [rewrite (do_install_ok st n _ None (n, v) Hvn Hne); reflexivity|].
        exists EExistMeta. split; reflexivity.
      + destruct ow; [rewrite (do_install_ok st n _ None (n, v) Hvn Hne); reflexivity|].
        exists EExistMeta. split; reflexivity.
      + destruct ow; [rewrite (do_install_ok st n _ None (n, v) Hvn Hne); reflexivity|].
        exists EExistMeta. split; reflexivity.
  Qed.
End Install.
