(* C20_Proofs.v — lemmas about the model of plugin installation (C20_Model.v).
   Part 1: strings, association lists, files.
   Part 2: parsePluginFromDir = the declarative candidate rule.
   Part 3: Install against the declarative reading (candidate / existing / verdict).
   Part 4: the theorems of the property.
   Part 5: the model meets the boolean oracle. *)
From NV Require Import Base Regex Generated C20_Semver C20_Model.
From NV Require C20_SemverProofs.
Open Scope string_scope.

(* ================= Part 1: basics ================= *)

Lemma str_eqb_refl s : String.eqb s s = true.
Proof. apply String.eqb_refl. Qed.

Lemma str_eqb_eq a b : String.eqb a b = true -> a = b.
Proof. apply String.eqb_eq. Qed.

Lemma str_eqb_neq a b : String.eqb a b = false -> a <> b.
Proof. apply String.eqb_neq. Qed.

Lemma has_prefix_split p : forall s, has_prefix p s = true -> s = p ++ drop (String.length p) s.
Proof.
  induction p as [|a p IH]; intros s H; cbn in *; [reflexivity|].
  destruct s as [|b s]; [discriminate|].
  apply andb_true_iff in H. destruct H as [Hab Hp].
  apply Ascii.eqb_eq in Hab. subst b. cbn. f_equal. apply IH. exact Hp.
Qed.

Lemma pname_of_bin fname n : pname_of fname = Some n -> fname = bin_name n.
Proof.
  unfold pname_of, bin_name. destruct (has_prefix bin_prefix fname) eqn:Hp; [|discriminate].
  intros H. apply has_prefix_split in Hp. cbn [String.length bin_prefix] in Hp.
  change (String.length bin_prefix) with 9%nat in Hp.
  cbv zeta in H. destruct (valid_name (drop 9 fname)); [|discriminate]. injection H as <-. exact Hp.
Qed.

(* since 30cc14e the name read off a file name is a valid plugin name *)
Lemma pname_of_valid fname n : pname_of fname = Some n -> valid_name n = true.
Proof.
  unfold pname_of. destruct (has_prefix bin_prefix fname); [|discriminate].
  cbv zeta. destruct (valid_name (drop 9 fname)) eqn:Hv; [|discriminate]. intros H. injection H as <-. exact Hv.
Qed.

Lemma bs_cmp_refl x : bs_cmp x x = Eq.
Proof. induction x as [|a x IH]; cbn; [reflexivity|]. rewrite N.compare_refl. exact IH. Qed.

Lemma str_cmp_refl s : str_cmp s s = Eq.
Proof. apply bs_cmp_refl. Qed.

(* ---- association lists ---- *)
Section AssocLemmas.
  Context {A : Type}.
  Implicit Types (m : list (string * A)).

  Lemma afind_aremove_same k m : afind k (aremove k m) = None.
  Proof.
    induction m as [|[k' v] m IH]; cbn; [reflexivity|].
    destruct (String.eqb k k') eqn:E; [exact IH|]. cbn. rewrite E. exact IH.
  Qed.

  Lemma afind_aremove_other k k' m : k <> k' -> afind k (aremove k' m) = afind k m.
  Proof.
    intros Hne. induction m as [|[k2 v] m IH]; cbn; [reflexivity|].
    destruct (String.eqb k' k2) eqn:E.
    - apply str_eqb_eq in E. subst k2.
      destruct (String.eqb k k') eqn:E2; [apply str_eqb_eq in E2; contradiction|]. exact IH.
    - cbn. destruct (String.eqb k k2); [reflexivity|exact IH].
  Qed.

  Lemma aremove_idem k m : aremove k (aremove k m) = aremove k m.
  Proof.
    induction m as [|[k' v] m IH]; cbn; [reflexivity|].
    destruct (String.eqb k k') eqn:E; [exact IH|]. cbn. rewrite E. f_equal. exact IH.
  Qed.

  Lemma afind_ainsert_same k v m : afind k (ainsert k v m) = Some v.
  Proof.
    induction m as [|[k' v'] m IH]; cbn; [rewrite str_eqb_refl; reflexivity|].
    destruct (str_cmp k k') eqn:C; cbn; rewrite ?str_eqb_refl; try reflexivity.
    destruct (String.eqb k k') eqn:E; [|exact IH].
    apply str_eqb_eq in E. subst k'. rewrite str_cmp_refl in C. discriminate.
  Qed.

  Lemma afind_ainsert_other k k' v m : k <> k' -> afind k (ainsert k' v m) = afind k m.
  Proof.
    intros Hne. induction m as [|[k2 v2] m IH]; cbn.
    - destruct (String.eqb k k') eqn:E; [apply str_eqb_eq in E; contradiction|reflexivity].
    - destruct (str_cmp k' k2) eqn:C; cbn.
      + destruct (String.eqb k k') eqn:E; [apply str_eqb_eq in E; contradiction|reflexivity].
      + destruct (String.eqb k k') eqn:E; [apply str_eqb_eq in E; contradiction|reflexivity].
      + destruct (String.eqb k k2); [reflexivity|exact IH].
  Qed.

  Lemma aremove_ainsert_same k v m : aremove k (ainsert k v m) = aremove k m.
  Proof.
    induction m as [|[k' v'] m IH]; cbn; [rewrite str_eqb_refl; reflexivity|].
    destruct (str_cmp k k') eqn:C; cbn; rewrite ?str_eqb_refl; try reflexivity.
    destruct (String.eqb k k') eqn:E.
    - apply str_eqb_eq in E. subst k'. rewrite str_cmp_refl in C. discriminate.
    - f_equal. exact IH.
  Qed.

  Lemma in_keys_ainsert k v m : In k (map fst (ainsert k v m)).
  Proof.
    induction m as [|[k' v'] m IH]; cbn; [left; reflexivity|].
    destruct (str_cmp k k'); cbn; auto.
  Qed.

  Lemma afind_some_in k m v : afind k m = Some v -> In k (map fst m).
  Proof.
    induction m as [|[k' v'] m IH]; cbn; [discriminate|].
    destruct (String.eqb k k') eqn:E; [apply str_eqb_eq in E; auto|]. intros H. right. exact (IH H).
  Qed.

  Lemma aremove_notin k m : afind k m = None -> aremove k m = m.
  Proof.
    induction m as [|[k' v'] m IH]; cbn; [reflexivity|].
    destruct (String.eqb k k'); [discriminate|]. intros H. f_equal. exact (IH H).
  Qed.
End AssocLemmas.

Lemma afind_map_snd {A B} (g : string -> A -> B) k (m : list (string * A)) :
  afind k (map (fun p => (fst p, g (fst p) (snd p))) m) =
  match afind k m with Some v => Some (g k v) | None => None end.
Proof.
  induction m as [|[k' v] m IH]; cbn; [reflexivity|].
  destruct (String.eqb k k') eqn:E; [apply str_eqb_eq in E; subst k'; reflexivity|exact IH].
Qed.

(* ---- boolean equalities are reflexive ---- *)
Lemma list_eqb_refl {A} (eqb : A -> A -> bool) : (forall x, eqb x x = true) -> forall l, list_eqb eqb l l = true.
Proof. intros H l. induction l as [|x l IH]; cbn; [reflexivity|]. rewrite H, IH. reflexivity. Qed.

Lemma file_eqb_refl f : file_eqb f f = true.
Proof. unfold file_eqb. rewrite str_eqb_refl, !N.eqb_refl. reflexivity. Qed.

Lemma pdir_eqb_refl d : pdir_eqb d d = true.
Proof. apply list_eqb_refl. exact file_eqb_refl. Qed.

Lemma state_eqb_refl st : state_eqb st st = true.
Proof. apply list_eqb_refl. intros [k d]. cbn. rewrite str_eqb_refl, pdir_eqb_refl. reflexivity. Qed.

Lemma answer_eqb_refl a : answer_eqb a a = true.
Proof. destruct a; cbn; rewrite ?str_eqb_refl; reflexivity. Qed.

Lemma answers_eqb_refl l : answers_eqb l l = true.
Proof. apply list_eqb_refl. intros [k a]. cbn. rewrite str_eqb_refl, answer_eqb_refl. reflexivity. Qed.

Lemma meta_eqb_refl m : meta_eqb m m = true.
Proof. destruct m. unfold meta_eqb. cbn. rewrite !str_eqb_refl. reflexivity. Qed.

Lemma opt_meta_eqb_refl (o : option meta) : opt_eqb meta_eqb o o = true.
Proof. destruct o; cbn; [apply meta_eqb_refl|reflexivity]. Qed.

Lemma strlist_eqb_refl l : list_eqb String.eqb l l = true.
Proof. apply list_eqb_refl. exact str_eqb_refl. Qed.

Lemma cmp_eqb_refl c : cmp_eqb c c = true.
Proof. destruct c; reflexivity. Qed.

Lemma mem_str_in x l : mem_str x l = true <-> In x l.
Proof.
  unfold mem_str. rewrite existsb_exists. split.
  - intros [y [Hy E]]. apply str_eqb_eq in E. subst y. exact Hy.
  - intros H. exists x. split; [exact H|apply str_eqb_refl].
Qed.

(* ---- files ---- *)
Lemma is_exec_mask f : is_exec (mask f) = is_exec f.
Proof.
  unfold is_exec, mask. cbn [f_mode]. rewrite N.land_spec.
  change (N.testbit 493 6) with true. apply andb_true_r.
Qed.

Lemma is_exec_set_exec f : is_exec (set_exec f) = true.
Proof.
  unfold is_exec, set_exec. cbn [f_mode]. rewrite N.lor_spec.
  change (N.testbit 64 6) with true. apply orb_true_r.
Qed.

Lemma f_name_mask f : f_name (mask f) = f_name f.  Proof. reflexivity. Qed.
Lemma f_cid_mask f : f_cid (mask f) = f_cid f.  Proof. reflexivity. Qed.
Lemma f_name_set_exec f : f_name (set_exec f) = f_name f.  Proof. reflexivity. Qed.
Lemma f_cid_set_exec f : f_cid (set_exec f) = f_cid f.  Proof. reflexivity. Qed.

Lemma ask_mask tbl n f : ask tbl n (mask f) = ask tbl n f.
Proof. unfold ask. rewrite is_exec_mask, f_cid_mask. reflexivity. Qed.

Lemma find_file_map (g : file -> file) n l :
  (forall f, f_name (g f) = f_name f) ->
  find_file n (map g l) = match find_file n l with Some f => Some (g f) | None => None end.
Proof.
  intros Hg. induction l as [|f l IH]; cbn; [reflexivity|].
  rewrite Hg. destruct (String.eqb n (f_name f)); [reflexivity|exact IH].
Qed.

Lemma mem_str_false_notin x l : mem_str x l = false -> ~ In x l.
Proof. intros H Hin. apply mem_str_in in Hin. congruence. Qed.

Lemma find_file_nodup l : nodupb (map f_name l) = true ->
  forall f, In f l -> find_file (f_name f) l = Some f.
Proof.
  induction l as [|g l IH]; intros Hn f Hin; [destruct Hin|].
  cbn in Hn. apply andb_true_iff in Hn. destruct Hn as [Hg Hn].
  apply negb_true_iff in Hg. cbn.
  destruct Hin as [->|Hin]; [rewrite str_eqb_refl; reflexivity|].
  destruct (String.eqb (f_name f) (f_name g)) eqn:E; [|apply IH; assumption].
  apply str_eqb_eq in E. exfalso. apply (mem_str_false_notin _ _ Hg).
  rewrite <- E. apply in_map. exact Hin.
Qed.

Lemma find_file_none_notin n l : find_file n l = None -> forall f, In f l -> f_name f <> n.
Proof.
  induction l as [|g l IH]; intros H f Hin; [destruct Hin|].
  cbn in H. destruct (String.eqb n (f_name g)) eqn:E; [discriminate|].
  destruct Hin as [->|Hin]; [apply str_eqb_neq in E; congruence|apply IH; assumption].
Qed.

(* ================= Part 2: parsePluginFromDir ================= *)

Definition cands (l : list file) : list file := filter is_cand l.
Definition execs (l : list file) : list file := filter is_exec (cands l).

(* candidatePluginName after walking l, starting from c *)
Fixpoint cname_after (c : string) (l : list file) : string :=
  match l with
  | [] => c
  | f :: r => cname_after (match pname_of (f_name f) with Some n => n | None => c end) r
  end.

Lemma is_cand_pname f : is_cand f = true -> exists n, pname_of (f_name f) = Some n.
Proof. unfold is_cand. destruct (pname_of (f_name f)) as [n|]; [eauto|discriminate]. Qed.

Lemma is_cand_false f : is_cand f = false -> pname_of (f_name f) = None.
Proof. unfold is_cand. destruct (pname_of (f_name f)); [discriminate|reflexivity]. Qed.

(* no executable candidate in l: the walk only collects *)
Lemma walk_no_exec : forall l s, execs l = [] ->
  walk s l = WOk (mk_wst (w_exe s) (w_cands s ++ cands l) (cname_after (w_cname s) l)).
Proof.
  induction l as [|f l IH]; intros s He; cbn [walk cands filter cname_after].
  - rewrite app_nil_r. destruct s; reflexivity.
  - unfold execs, cands in He. cbn [filter] in He. unfold visit.
    destruct (is_cand f) eqn:Hc.
    + destruct (is_cand_pname f Hc) as [n Hn]. rewrite Hn.
      cbn [filter] in He. destruct (is_exec f) eqn:Hx; [discriminate|]. cbn [negb].
      rewrite (IH _ He). cbn [w_exe w_cands w_cname]. unfold cands. rewrite <- app_assoc. reflexivity.
    + rewrite (is_cand_false f Hc). rewrite (IH _ He). reflexivity.
Qed.

(* an executable was already found and another one follows: error *)
Lemma walk_second_exec : forall l s p, w_exe s = Some p -> execs l <> [] -> walk s l = WTwo.
Proof.
  induction l as [|f l IH]; intros s p Hs He; [exfalso; apply He; reflexivity|].
  cbn [walk]. unfold visit. unfold execs, cands in He. cbn [filter] in He.
  destruct (is_cand f) eqn:Hc.
  - destruct (is_cand_pname f Hc) as [n Hn]. rewrite Hn. cbn [filter] in He.
    destruct (is_exec f) eqn:Hx; cbn [negb].
    + rewrite Hs. reflexivity.
    + apply (IH _ p); [exact Hs|exact He].
  - rewrite (is_cand_false f Hc). apply (IH _ p); assumption.
Qed.

Lemma walk_one_exec : forall l s e, w_exe s = None -> execs l = [e] ->
  exists n, pname_of (f_name e) = Some n /\
  walk s l = WOk (mk_wst (Some (e, n)) (w_cands s ++ cands l) (cname_after (w_cname s) l)).
Proof.
  induction l as [|f l IH]; intros s e Hs He; [discriminate|].
  cbn [walk cands filter cname_after]. unfold visit. unfold execs, cands in He. cbn [filter] in He.
  destruct (is_cand f) eqn:Hc.
  - destruct (is_cand_pname f Hc) as [n Hn]. rewrite Hn. cbn [filter] in He.
    destruct (is_exec f) eqn:Hx; cbn [negb].
    + rewrite Hs. injection He as He1 He2. subst e. exists n. split; [exact Hn|].
      rewrite (walk_no_exec l _ He2). cbn [w_exe w_cands w_cname]. unfold cands. rewrite <- app_assoc. reflexivity.
    + destruct (IH (mk_wst (w_exe s) (w_cands s ++ [f]) n) e Hs He) as [m [Hm Hw]].
      exists m. split; [exact Hm|]. rewrite Hw. cbn [w_exe w_cands w_cname]. unfold cands. rewrite <- app_assoc. reflexivity.
  - rewrite (is_cand_false f Hc). apply IH; assumption.
Qed.

Lemma walk_two_exec : forall l s e1 e2 r, execs l = e1 :: e2 :: r -> walk s l = WTwo.
Proof.
  induction l as [|f l IH]; intros s e1 e2 r He; [discriminate|].
  cbn [walk]. unfold visit. unfold execs, cands in He. cbn [filter] in He.
  destruct (is_cand f) eqn:Hc.
  - destruct (is_cand_pname f Hc) as [n Hn]. rewrite Hn. cbn [filter] in He.
    destruct (is_exec f) eqn:Hx; cbn [negb].
    + destruct (w_exe s) as [p|]; [reflexivity|].
      injection He as He1 He2.
      apply (walk_second_exec l _ (f, n)); [reflexivity|]. unfold execs, cands. rewrite He2. discriminate.
    + apply (IH _ e1 e2 r). exact He.
  - rewrite (is_cand_false f Hc). apply (IH _ e1 e2 r). exact He.
Qed.

(* the single candidate gives the candidate name, whatever else the directory holds *)
Lemma cname_single : forall l c x, cands l = [x] ->
  exists n, pname_of (f_name x) = Some n /\ cname_after c l = n.
Proof.
  induction l as [|f l IH]; intros c x Hc; [discriminate|].
  unfold cands in Hc. cbn [filter] in Hc. cbn [cname_after].
  destruct (is_cand f) eqn:Hf.
  - injection Hc as Hx Hr. subst f. destruct (is_cand_pname x Hf) as [n Hn]. rewrite Hn.
    exists n. split; [reflexivity|].
    clear -Hr. revert n. induction l as [|g l IH]; intros n; [reflexivity|].
    cbn [filter] in Hr. cbn [cname_after]. destruct (is_cand g) eqn:Hg; [discriminate|].
    rewrite (is_cand_false g Hg). apply IH. exact Hr.
  - rewrite (is_cand_false f Hf). apply IH. exact Hc.
Qed.

(* parsePluginFromDir, declaratively *)
Definition parse_spec (top : list file) : located :=
  match execs top with
  | [e] => match pname_of (f_name e) with Some n => LOk e n top | None => LErr EOther end
  | [] => match cands top with
          | [x] => match pname_of (f_name x) with
                   | Some n => LOk (set_exec x) n (chmod_exec (f_name x) top)
                   | None => LErr EOther
                   end
          | _ => LErr ESrcNoExec
          end
  | _ => LErr ESrcTwoExec
  end.

Lemma finish_walk_spec top : finish_walk top top = parse_spec top.
Proof.
  unfold finish_walk, parse_spec.
  destruct (execs top) as [|e1 [|e2 r]] eqn:He.
  - rewrite (walk_no_exec top wst0 He). cbn [w_exe w_cands w_cname wst0 app].
    destruct (cands top) as [|x [|y r]] eqn:Hc; try reflexivity.
    destruct (cname_single top "" x Hc) as [n [Hn Hcn]]. rewrite Hn, Hcn. reflexivity.
  - destruct (walk_one_exec top wst0 e1 eq_refl He) as [n [Hn Hw]]. rewrite Hw, Hn. reflexivity.
  - rewrite (walk_two_exec top wst0 e1 e2 r He). reflexivity.
Qed.

Lemma parse_dir_spec es : parse_dir es = parse_spec (top_files es).
Proof. apply finish_walk_spec. Qed.

(* the plugin name a located source carries is a valid plugin name (30cc14e) *)
Lemma locate_err_or_valid src exe n copy : locate src = LOk exe n copy -> valid_name n = true.
Proof.
  destruct src as [| |sn|f|base es]; cbn [locate]; try discriminate.
  - destruct (pname_of sn); discriminate.
  - destruct (pname_of (f_name f)) as [m|] eqn:Hn; [|discriminate].
    destruct (is_exec f); [|discriminate]. intros H. injection H as _ <- _. apply (pname_of_valid _ _ Hn).
  - rewrite parse_dir_spec. unfold parse_spec.
    destruct (execs (top_files es)) as [|e1 [|e2 r]]; [| |discriminate].
    + destruct (cands (top_files es)) as [|x [|y r]]; try discriminate.
      destruct (pname_of (f_name x)) as [m|] eqn:Hn; [|discriminate].
      intros H. injection H as _ <- _. apply (pname_of_valid _ _ Hn).
    + destruct (pname_of (f_name e1)) as [m|] eqn:Hn; [|discriminate].
      intros H. injection H as _ <- _. apply (pname_of_valid _ _ Hn).
Qed.

Lemma execs_in l e : In e (execs l) -> In e l /\ is_cand e = true /\ is_exec e = true.
Proof.
  unfold execs, cands. intros H. apply filter_In in H. destruct H as [H Hx].
  apply filter_In in H. destruct H as [H Hc]. auto.
Qed.

Lemma cands_in l e : In e (cands l) -> In e l /\ is_cand e = true.
Proof. unfold cands. intros H. apply filter_In in H. exact H. Qed.

(* ================= Part 3: Install against its declarative reading ================= *)

Definition is_version_err (e : ierr) : bool :=
  match e with EDowngrade | EEqual | EVersion => true | _ => false end.

Lemma version_err_ok_other tbl T src ow e : is_version_err e = false -> version_err_ok tbl T src ow e = true.
Proof. destruct e; cbn; intros H; try discriminate; reflexivity. Qed.

Lemma chmod_exec_names n l : map f_name (chmod_exec n l) = map f_name l.
Proof.
  unfold chmod_exec. rewrite map_map. apply map_ext. intros f.
  destruct (String.eqb (f_name f) n); reflexivity.
Qed.

(* what locate finds is the executable the declarative reading names, and the copy
   list is the declarative list of top-level files *)
Lemma locate_ok src exe n copy : source_ok src = true -> locate src = LOk exe n copy ->
  spec_exe src = Some exe /\ pname_of (f_name exe) = Some n /\ copy = spec_files src /\
  is_exec exe = true /\ find_file (bin_name n) copy = Some exe.
Proof.
  intros Hwf Hl. destruct src as [| |sn|f|base es]; cbn [locate] in Hl; try discriminate.
  - destruct (pname_of sn); discriminate.
  - destruct (pname_of (f_name f)) as [m|] eqn:Hn; [|discriminate].
    destruct (is_exec f) eqn:Hx; [|discriminate]. injection Hl as <- <- <-.
    cbn [spec_exe spec_files]. rewrite Hx. repeat split; try assumption.
    cbn [find_file]. rewrite <- (pname_of_bin _ _ Hn), str_eqb_refl. reflexivity.
  - rewrite parse_dir_spec in Hl. unfold parse_spec in Hl.
    cbn [source_ok] in Hwf. apply andb_true_iff in Hwf. destruct Hwf as [Hwf _].
    apply andb_true_iff in Hwf. destruct Hwf as [Hnd _].
    cbn [spec_exe spec_files]. fold (cands (top_files es)). fold (execs (top_files es)).
    destruct (execs (top_files es)) as [|e1 [|e2 r]] eqn:He; [| |discriminate].
    + destruct (cands (top_files es)) as [|x [|y r]] eqn:Hc; try discriminate.
      destruct (pname_of (f_name x)) as [m|] eqn:Hn; [|discriminate].
      injection Hl as <- <- <-. rewrite f_name_set_exec.
      repeat split; try assumption; try reflexivity; [apply is_exec_set_exec|].
      unfold chmod_exec. rewrite find_file_map.
      2:{ intros f. destruct (String.eqb (f_name f) (f_name x)); reflexivity. }
      rewrite <- (pname_of_bin _ _ Hn).
      assert (Hin : In x (top_files es)).
      { apply (cands_in _ x). rewrite Hc. left. reflexivity. }
      rewrite (find_file_nodup _ Hnd x Hin). rewrite str_eqb_refl. reflexivity.
    + destruct (pname_of (f_name e1)) as [m|] eqn:Hn; [|discriminate].
      injection Hl as <- <- <-.
      destruct (execs_in (top_files es) e1) as [Hin [_ Hx]]; [rewrite He; left; reflexivity|].
      repeat split; try assumption; try reflexivity.
      rewrite <- (pname_of_bin _ _ Hn). apply find_file_nodup; assumption.
Qed.

Lemma locate_err src e : locate src = LErr e ->
  is_version_err e = false /\ forall tbl, candidate tbl src = None.
Proof.
  intros Hl. destruct src as [| |sn|f|base es]; cbn [locate] in Hl.
  - injection Hl as <-. split; [reflexivity|]. reflexivity.
  - injection Hl as <-. split; [reflexivity|]. reflexivity.
  - split; [destruct (pname_of sn); injection Hl as <-; reflexivity|]. reflexivity.
  - destruct (pname_of (f_name f)) as [m|] eqn:Hn.
    + destruct (is_exec f) eqn:Hx; [discriminate|]. injection Hl as <-. split; [reflexivity|].
      intros tbl. unfold candidate. cbn [spec_exe]. rewrite Hx. reflexivity.
    + injection Hl as <-. split; [reflexivity|].
      intros tbl. unfold candidate. cbn [spec_exe]. destruct (is_exec f); [rewrite Hn|]; reflexivity.
  - rewrite parse_dir_spec in Hl. unfold parse_spec in Hl.
    unfold candidate. cbn [spec_exe]. fold (cands (top_files es)). fold (execs (top_files es)).
    destruct (execs (top_files es)) as [|e1 [|e2 r]] eqn:He.
    + destruct (cands (top_files es)) as [|x [|y r]] eqn:Hc.
      * injection Hl as <-. split; reflexivity.
      * destruct (pname_of (f_name x)) as [m|] eqn:Hn; [discriminate|]. injection Hl as <-.
        split; [reflexivity|]. intros tbl. cbv iota. rewrite ?f_name_set_exec, ?Hn. reflexivity.
      * injection Hl as <-. split; reflexivity.
    + destruct (pname_of (f_name e1)) as [m|] eqn:Hn; [discriminate|]. injection Hl as <-.
      split; [reflexivity|]. intros tbl. reflexivity.
    + injection Hl as <-. split; reflexivity.
Qed.

(* the declarative result of an installation *)
Definition installed_state (st : state) (n : string) (src : source) : state :=
  ainsert n (map mask (spec_files src)) (aremove n st).

Definition refused (st st' : state) (r : ires) : Prop :=
  st' = st /\ r_new r = None /\ r_existing r = None.

(* when a usable source meets a working plugin of the same name, the only refusals are
   the three version errors *)
Definition refusal_class (tbl : table) (st : state) (src : source) (e : ierr) : Prop :=
  forall n v en ev, candidate tbl src = Some (n, v) -> existing tbl st n = Some (AOk en ev) ->
                    is_version_err e = true.

Ltac solve_class := intros ? ? ? ? Hc' He'; try reflexivity; try congruence.

Section Install.
  (* the link between ComparePluginVersion and the declarative precedence: proved in
     C20_SemverProofs (compare_plugin_version_spec) and discharged at the end *)
  Hypothesis cpv_spec : forall v w,
    compare_plugin_version v w = if sv_valid v && sv_valid w then Some (prec_of v w) else None.

  Lemma do_install_ok st n copy ex nw : valid_name n = true -> copy <> [] ->
    do_install st n copy ex nw = (ainsert n (map mask copy) (aremove n st), mk_ires ex (Some nw) None).
  Proof.
    intros Hv Hc. unfold do_install. rewrite Hv. cbn [negb].
    destruct copy; [contradiction|reflexivity].
  Qed.

  Lemma install_spec tbl st src ow : source_ok src = true ->
    match verdict tbl st src ow with
    | Some (n, v, ex) =>
        install tbl st src ow = (installed_state st n src, mk_ires ex (Some (n, v)) None)
    | None =>
        exists e, install tbl st src ow = (st, mk_ires None None (Some e))
                  /\ version_err_ok tbl st src ow e = true
                  /\ refusal_class tbl st src e
    end.
  Proof.
    intros Hwf. unfold install. destruct (locate src) as [e|exe n copy] eqn:Hl.
    - destruct (locate_err src e Hl) as [Hve Hc]. unfold verdict. rewrite Hc.
      exists e. split; [reflexivity|]. split; [apply version_err_ok_other; exact Hve|].
      intros ? ? ? ? Hc' _. rewrite Hc in Hc'. discriminate.
    - destruct (locate_ok src exe n copy Hwf Hl) as [Hse [Hpn [Hcopy [Hx Hff]]]].
      assert (Hne : copy <> []) by (intros ->; discriminate).
      cbn [install_with].
      assert (Hcand : candidate tbl src =
                if negb (valid_name n) then None
                else match tbl_get (f_cid exe) tbl with
                     | MOk mn v => if String.eqb mn n then Some (n, v) else None
                     | _ => None
                     end).
      { unfold candidate. rewrite Hse, Hpn. reflexivity. }
      assert (Hask : ask tbl n exe =
                match tbl_get (f_cid exe) tbl with
                | MOk mn v => if String.eqb mn n then AOk mn v else AMisnamed
                | MMalformed => AInvalid
                | MFail => AFail
                end).
      { unfold ask. rewrite Hx. reflexivity. }
      rewrite Hask. clear Hask.
      destruct (tbl_get (f_cid exe) tbl) as [mn v| |] eqn:Ht.
      2:{ unfold verdict. rewrite Hcand. destruct (negb (valid_name n));
          (exists EMetaInvalid; split; [reflexivity|split; [reflexivity|solve_class]]). }
      2:{ unfold verdict. rewrite Hcand. destruct (negb (valid_name n));
          (exists EMetaInvalid; split; [reflexivity|split; [reflexivity|solve_class]]). }
      destruct (String.eqb mn n) eqn:Hmn.
      2:{ unfold verdict. rewrite Hcand. destruct (negb (valid_name n));
          (exists EMisnamed; split; [reflexivity|split; [reflexivity|solve_class]]). }
      apply str_eqb_eq in Hmn. subst mn.
      unfold get_plugin, dir_get.
      destruct (valid_name n) eqn:Hvn; cbn [negb] in *.
      2:{ unfold verdict. rewrite Hcand.
          destruct ow.
          - exists ECleanup. unfold do_install. rewrite Hvn. split; [reflexivity|split; [reflexivity|solve_class]].
          - exists EExistCheck. split; [reflexivity|split; [reflexivity|solve_class]]. }
      assert (Hex : existing tbl st n =
                match afind n st with
                | None => None
                | Some d => match find_file (bin_name n) d with None => None | Some f => Some (ask tbl n f) end
                end) by reflexivity.
      unfold verdict. rewrite Hcand, Hex. subst copy.
      destruct (afind n st) as [d|] eqn:Hfd.
      2:{ rewrite (do_install_ok st n _ None (n, v) Hvn Hne). reflexivity. }
      destruct (find_file (bin_name n) d) as [f|] eqn:Hfb.
      2:{ rewrite (do_install_ok st n _ None (n, v) Hvn Hne). reflexivity. }
      destruct (ask tbl n f) as [en ev| | | |] eqn:Ha.
      + destruct ow; cbn [orb].
        * rewrite (do_install_ok st n _ _ (n, v) Hvn Hne). reflexivity.
        * rewrite cpv_spec. unfold sv_higher.
          assert (Hsit : forall e, version_err_ok tbl st src false e =
                                  match e with
                                  | EDowngrade => sv_valid v && sv_valid ev && cmp_eqb (prec_of v ev) Lt
                                  | EEqual => sv_valid v && sv_valid ev && cmp_eqb (prec_of v ev) Eq
                                  | EVersion => negb (sv_valid v && sv_valid ev)
                                  | _ => true
                                  end).
          { intros e. unfold version_err_ok. rewrite Hcand, Hex. cbn [negb andb].
            destruct e; reflexivity. }
          destruct (sv_valid v && sv_valid ev) eqn:Hval; cbn [andb].
          -- destruct (prec_of v ev) eqn:Hp.
             ++ exists EEqual. split; [reflexivity|]. split; [rewrite Hsit, ?Hval, ?Hp; reflexivity|solve_class].
             ++ exists EDowngrade. split; [reflexivity|]. split; [rewrite Hsit, ?Hval, ?Hp; reflexivity|solve_class].
             ++ rewrite (do_install_ok st n _ _ (n, v) Hvn Hne). reflexivity.
          -- exists EVersion. split; [reflexivity|]. split; [rewrite Hsit, ?Hval; reflexivity|solve_class].
      + destruct ow; [rewrite (do_install_ok st n _ None (n, v) Hvn Hne); reflexivity|].
        exists EExistMeta. split; [reflexivity|split; [reflexivity|solve_class]].
      + destruct ow; [rewrite (do_install_ok st n _ None (n, v) Hvn Hne); reflexivity|].
        exists EExistMeta. split; [reflexivity|split; [reflexivity|solve_class]].
      + destruct ow; [rewrite (do_install_ok st n _ None (n, v) Hvn Hne); reflexivity|].
        exists EExistMeta. split; [reflexivity|split; [reflexivity|solve_class]].
      + destruct ow; [rewrite (do_install_ok st n _ None (n, v) Hvn Hne); reflexivity|].
        exists EExistMeta. split; [reflexivity|split; [reflexivity|solve_class]].
  Qed.
End Install.

(* ================= Part 4: the theorems of the property ================= *)

(* "v is a valid version of strictly higher SemVer precedence than the valid version ev" *)
Definition higher (v ev : string) : Prop :=
  sv_valid v = true /\ sv_valid ev = true /\
  exists a b, decode (bytes v) = Some a /\ decode (bytes ev) = Some b /\ prec_lt b a.

(* ---- frame of a refused installation: needs no hypothesis at all ---- *)
Definition frame_ok (st : state) (p : state * ires) : Prop :=
  r_err (snd p) <> None -> refused st (fst p) (snd p).

Lemma frame_fail st e : frame_ok st (fail st e).
Proof. intros _. repeat split. Qed.

Lemma frame_do_install st n copy ex nw : frame_ok st (do_install st n copy ex nw).
Proof.
  unfold do_install. destruct (negb (valid_name n)); [apply frame_fail|].
  intros H. exfalso. apply H. reflexivity.
Qed.

Lemma install_frame tbl st src ow : frame_ok st (install tbl st src ow).
Proof.
  unfold install, install_with.
  repeat match goal with
         | |- frame_ok _ (fail _ _) => apply frame_fail
         | |- frame_ok _ (do_install _ _ _ _ _) => apply frame_do_install
         | |- frame_ok _ (match ?x with _ => _ end) => destruct x
         | |- frame_ok _ (if ?x then _ else _) => destruct x
         end.
Qed.

Theorem refused_frame tbl st src ow st' r :
  install tbl st src ow = (st', r) -> r_err r <> None ->
  st' = st /\ r_new r = None /\ r_existing r = None /\ view_of tbl st' = view_of tbl st.
Proof.
  intros Hi He. pose proof (install_frame tbl st src ow) as H. rewrite Hi in H.
  destruct (H He) as [H1 [H2 H3]]. cbn in H1, H2, H3. subst st'. auto.
Qed.

Lemma uninstall_frame st name st' e : uninstall st name = (st', Some e) -> st' = st.
Proof.
  unfold uninstall. destruct (negb (valid_name name)); [intros H; injection H as <- _; reflexivity|].
  destruct (afind name st); intros H; [discriminate|injection H as <- _; reflexivity].
Qed.

(* a step is refused when it returns an error *)
Definition step_refused (res : sres) : Prop :=
  match res with RInstall r => r_err r <> None | RUninstall e => e <> None end.

Fixpoint all_refused (tbl : table) (st : state) (ops : list op) : Prop :=
  match ops with
  | [] => True
  | o :: r => step_refused (snd (mstep tbl st o)) /\ all_refused tbl (fst (mstep tbl st o)) r
  end.

Lemma step_refused_frame tbl st o : step_refused (snd (mstep tbl st o)) -> fst (mstep tbl st o) = st.
Proof.
  destruct o as [src ow|name]; cbn [mstep].
  - destruct (install tbl st src ow) as [st' r] eqn:Hi. cbn. intros He.
    destruct (refused_frame _ _ _ _ _ _ Hi He) as [H _]. exact H.
  - destruct (uninstall st name) as [st' e] eqn:Hu. cbn. destruct e as [e|]; [|intros H; exfalso; apply H; reflexivity].
    intros _. apply (uninstall_frame _ _ _ _ Hu).
Qed.

(* histories of any length: as long as every operation is refused the root stays as it was *)
Theorem history_refused_frame tbl : forall ops st, all_refused tbl st ops -> final_state tbl st ops = st.
Proof.
  induction ops as [|o ops IH]; intros st H; [reflexivity|].
  cbn [all_refused] in H. destruct H as [H1 H2]. cbn [final_state].
  rewrite (step_refused_frame _ _ _ H1) in *. apply IH. exact H2.
Qed.

(* ---- the candidate rule ---- *)
Theorem candidates_rule base es :
  let top := top_files es in
  (forall e1 e2 r, execs top = e1 :: e2 :: r -> locate (SDir base es) = LErr ESrcTwoExec) /\
  (execs top = [] -> List.length (cands top) <> 1%nat -> locate (SDir base es) = LErr ESrcNoExec) /\
  (forall e, execs top = [e] -> exists n, pname_of (f_name e) = Some n /\ locate (SDir base es) = LOk e n top) /\
  (forall c, execs top = [] -> cands top = [c] ->
     exists n, pname_of (f_name c) = Some n /\
               locate (SDir base es) = LOk (set_exec c) n (chmod_exec (f_name c) top)).
Proof.
  intros top. cbn [locate]. rewrite parse_dir_spec. fold top. unfold parse_spec.
  repeat split.
  - intros e1 e2 r He. rewrite He. reflexivity.
  - intros He Hc. rewrite He. destruct (cands top) as [|x [|y r]]; try reflexivity. exfalso. apply Hc. reflexivity.
  - intros e He. rewrite He.
    destruct (execs_in top e) as [_ [Hc _]]; [rewrite He; left; reflexivity|].
    destruct (is_cand_pname e Hc) as [n Hn]. exists n. rewrite Hn. split; reflexivity.
  - intros c He Hc. rewrite He, Hc.
    destruct (cands_in top c) as [_ Hcc]; [rewrite Hc; left; reflexivity|].
    destruct (is_cand_pname c Hcc) as [n Hn]. exists n. rewrite Hn. split; reflexivity.
Qed.

(* an error of the source analysis is an error of Install, before anything is touched *)
Lemma install_locate_err tbl st src ow e : locate src = LErr e ->
  install tbl st src ow = (st, mk_ires None None (Some e)).
Proof. intros H. unfold install. rewrite H. reflexivity. Qed.

Theorem candidates_refused tbl st base es ow :
  let top := top_files es in
  ((exists e1 e2 r, execs top = e1 :: e2 :: r) \/ (execs top = [] /\ List.length (cands top) <> 1%nat)) ->
  exists e, install tbl st (SDir base es) ow = (st, mk_ires None None (Some e)) /\
            (e = ESrcTwoExec \/ e = ESrcNoExec).
Proof.
  intros top H. destruct (candidates_rule base es) as [H2 [H0 _]]. fold top in H2, H0.
  destruct H as [[e1 [e2 [r He]]]|[He Hc]].
  - exists ESrcTwoExec. split; [apply install_locate_err; eapply H2; exact He|left; reflexivity].
  - exists ESrcNoExec. split; [apply install_locate_err; apply H0; assumption|right; reflexivity].
Qed.

(* ---- what a successful installation leaves ---- *)
Lemma candidate_located tbl src n v : source_ok src = true -> candidate tbl src = Some (n, v) ->
  exists exe, locate src = LOk exe n (spec_files src) /\ is_exec exe = true /\
              find_file (bin_name n) (spec_files src) = Some exe /\
              tbl_get (f_cid exe) tbl = MOk n v /\ valid_name n = true.
Proof.
  intros Hwf Hc. destruct (locate src) as [e|exe m copy] eqn:Hl.
  - destruct (locate_err src e Hl) as [_ H]. rewrite H in Hc. discriminate.
  - destruct (locate_ok src exe m copy Hwf Hl) as [Hse [Hpn [Hcopy [Hx Hff]]]].
    unfold candidate in Hc. rewrite Hse, Hpn in Hc.
    destruct (valid_name m) eqn:Hvn; cbn [negb] in Hc; [|discriminate].
    destruct (tbl_get (f_cid exe) tbl) as [mn w| |] eqn:Ht; try discriminate.
    destruct (String.eqb mn m) eqn:E; [|discriminate]. apply str_eqb_eq in E. subst mn.
    injection Hc as <- <-. subst copy. exists exe. auto.
Qed.

Lemma installed_answer tbl src n v : source_ok src = true -> candidate tbl src = Some (n, v) ->
  dir_answer tbl n (map mask (spec_files src)) = AOk n v.
Proof.
  intros Hwf Hc. destruct (candidate_located tbl src n v Hwf Hc) as [exe [_ [Hx [Hff [Ht Hvn]]]]].
  unfold dir_answer, dir_get. rewrite Hvn. cbn [negb].
  rewrite find_file_map by (intros; reflexivity). rewrite Hff.
  rewrite ask_mask. unfold ask. rewrite Hx, Ht, str_eqb_refl. reflexivity.
Qed.

Lemma existing_answer tbl st n d : valid_name n = true -> afind n st = Some d ->
  existing tbl st n = match dir_answer tbl n d with AAbsent => None | a => Some a end
  \/ (exists f, find_file (bin_name n) d = Some f /\ ask tbl n f = AAbsent).
Proof.
  intros Hvn Hfd. unfold existing, dir_answer, dir_get. rewrite Hfd, Hvn. cbn [negb].
  destruct (find_file (bin_name n) d) as [f|]; [|left; reflexivity].
  destruct (ask tbl n f) eqn:Ha; try (left; reflexivity). right. exists f. auto.
Qed.

Lemma verdict_candidate tbl st src ow n v ex : verdict tbl st src ow = Some (n, v, ex) ->
  candidate tbl src = Some (n, v).
Proof.
  unfold verdict. destruct (candidate tbl src) as [[m w]|]; [|discriminate].
  destruct (existing tbl st m) as [[en ev| | | |]|]; try (destruct ow; cbn [orb]); try discriminate;
    try (intros H; injection H as <- <- _; reflexivity).
  destruct (sv_higher w ev); [|discriminate]. intros H; injection H as <- <- _; reflexivity.
Qed.

(* two sources give the same plugin: same (existing, new, error) returned and, on success, the
   same name and metadata, the same answer of the installed plugin, every other plugin alike *)
Definition same_plugin (tbl : table) (st : state) (ow : bool) (src1 src2 : source) : Prop :=
  snd (install tbl st src1 ow) = snd (install tbl st src2 ow) /\
  (r_err (snd (install tbl st src1 ow)) = None ->
   exists n v, candidate tbl src1 = Some (n, v) /\ candidate tbl src2 = Some (n, v) /\
     existing tbl (fst (install tbl st src1 ow)) n = Some (AOk n v) /\
     existing tbl (fst (install tbl st src2 ow)) n = Some (AOk n v) /\
     aremove n (fst (install tbl st src1 ow)) = aremove n (fst (install tbl st src2 ow))).

Lemma mode_ok_set_exec m : mode_ok m = true -> mode_ok (N.lor m 64) = true.
Proof.
  intros H.
  assert (Hall : forallb (fun k => implb (mode_ok k) (mode_ok (N.lor k 64))) (map N.of_nat (seq 0 512)) = true)
    by (vm_compute; reflexivity).
  rewrite forallb_forall in Hall.
  assert (Hlt : (m < 512)%N).
  { unfold mode_ok in H. apply andb_true_iff in H. destruct H as [H _].
    apply andb_true_iff in H. destruct H as [H _]. apply N.ltb_lt. exact H. }
  specialize (Hall m). rewrite H in Hall. apply Hall.
  apply in_map_iff. exists (N.to_nat m). split; [apply N2Nat.id|].
  apply in_seq. lia.
Qed.

Section Theorems.
  Hypothesis cpv_spec : forall v w,
    compare_plugin_version v w = if sv_valid v && sv_valid w then Some (prec_of v w) else None.
  Hypothesis valid_decodes : forall s, sv_valid s = true -> exists v, decode (bytes s) = Some v.
  Hypothesis prec_cmp_gt_iff : forall a b, prec_cmp a b = Gt <-> prec_lt b a.
  Hypothesis prec_cmp_lt_iff : forall a b, prec_cmp a b = Lt <-> prec_lt a b.
  Hypothesis prec_cmp_eq_iff : forall a b, prec_cmp a b = Eq <-> a = b.

  Lemma sv_higher_iff v ev : sv_higher v ev = true <-> higher v ev.
  Proof.
    unfold sv_higher, higher. split.
    - intros H. apply andb_true_iff in H. destruct H as [H Hp].
      apply andb_true_iff in H. destruct H as [Hv He].
      destruct (valid_decodes v Hv) as [a Ha]. destruct (valid_decodes ev He) as [b Hb].
      repeat split; try assumption. exists a, b. repeat split; try assumption.
      unfold prec_of in Hp. rewrite Ha, Hb in Hp. apply prec_cmp_gt_iff.
      destruct (prec_cmp a b); [discriminate|discriminate|reflexivity].
    - intros [Hv [He [a [b [Ha [Hb Hlt]]]]]]. rewrite Hv, He. cbn [andb].
      unfold prec_of. rewrite Ha, Hb. apply prec_cmp_gt_iff in Hlt. rewrite Hlt. reflexivity.
  Qed.

  Lemma install_result tbl st src ow st' r : source_ok src = true ->
    install tbl st src ow = (st', r) ->
    match verdict tbl st src ow with
    | Some (n, v, ex) => st' = installed_state st n src /\ r = mk_ires ex (Some (n, v)) None
    | None => st' = st /\ exists e, r = mk_ires None None (Some e) /\ version_err_ok tbl st src ow e = true
                                    /\ refusal_class tbl st src e
    end.
  Proof.
    intros Hwf Hi. pose proof (install_spec cpv_spec tbl st src ow Hwf) as H.
    destruct (verdict tbl st src ow) as [[[n v] ex]|].
    - rewrite Hi in H. injection H as -> ->. auto.
    - destruct H as [e [H1 [H2 H3]]]. rewrite Hi in H1. injection H1 as -> ->. eauto.
  Qed.

  (* success is exactly the declarative verdict *)
  Lemma install_success_iff tbl st src ow st' r : source_ok src = true ->
    install tbl st src ow = (st', r) -> (r_err r = None <-> verdict tbl st src ow <> None).
  Proof.
    intros Hwf Hi. pose proof (install_result tbl st src ow st' r Hwf Hi) as H.
    destruct (verdict tbl st src ow) as [[[n v] ex]|].
    - destruct H as [_ ->]. cbn. split; [discriminate|reflexivity].
    - destruct H as [_ [e [-> _]]]. cbn. split; [discriminate|intros H; exfalso; apply H; reflexivity].
  Qed.

  (* ---- the replacement rule ---- *)
  Theorem replace_rule tbl st src ow n v en ev st' r :
    source_ok src = true -> install tbl st src ow = (st', r) ->
    candidate tbl src = Some (n, v) -> existing tbl st n = Some (AOk en ev) ->
    (r_err r = None <-> (ow = true \/ higher v ev)) /\
    (r_err r = None -> r_existing r = Some (en, ev) /\ r_new r = Some (n, v)) /\
    (ow = false ->
       (sv_valid v && sv_valid ev = false -> r_err r = Some EVersion) /\
       (forall a b, sv_valid v = true -> sv_valid ev = true ->
          decode (bytes v) = Some a -> decode (bytes ev) = Some b ->
          (a = b -> r_err r = Some EEqual) /\ (prec_lt a b -> r_err r = Some EDowngrade))).
  Proof.
    intros Hwf Hi Hc Hex.
    pose proof (install_result tbl st src ow st' r Hwf Hi) as H.
    assert (Hver : verdict tbl st src ow = if ow || sv_higher v ev then Some (n, v, Some (en, ev)) else None).
    { unfold verdict. rewrite Hc, Hex. reflexivity. }
    rewrite Hver in H.
    assert (Hcases : forall e, version_err_ok tbl st src ow e = true -> ow = false ->
               match e with
               | EDowngrade => sv_valid v && sv_valid ev = true /\ prec_of v ev = Lt
               | EEqual => sv_valid v && sv_valid ev = true /\ prec_of v ev = Eq
               | EVersion => sv_valid v && sv_valid ev = false
               | _ => True
               end).
    { intros e He Hno. subst ow. unfold version_err_ok in He. rewrite Hc, Hex in He. cbn [negb andb] in He.
      destruct e; try exact I.
      - apply negb_true_iff in He. exact He.
      - apply andb_true_iff in He. destruct He as [H1 H2]. split; [exact H1|].
        destruct (prec_of v ev); try discriminate; reflexivity.
      - apply andb_true_iff in He. destruct He as [H1 H2]. split; [exact H1|].
        destruct (prec_of v ev); try discriminate; reflexivity. }
    destruct (ow || sv_higher v ev) eqn:Hgo.
    - destruct H as [_ ->]. cbn [r_err r_existing r_new].
      split; [|split].
      + split; [|reflexivity]. intros _. apply orb_true_iff in Hgo.
        destruct Hgo as [->|Hh]; [left; reflexivity|right; apply sv_higher_iff; exact Hh].
      + auto.
      + intros ->. cbn [orb] in Hgo. apply sv_higher_iff in Hgo.
        destruct Hgo as [Hv [He [a0 [b0 [Ha0 [Hb0 Hlt]]]]]]. split.
        * rewrite Hv, He. discriminate.
        * intros a b _ _ Ha Hb. rewrite Ha0 in Ha. rewrite Hb0 in Hb.
          injection Ha as <-. injection Hb as <-.
          apply prec_cmp_gt_iff in Hlt. split.
          -- intros E. apply prec_cmp_eq_iff in E. congruence.
          -- intros L. apply prec_cmp_lt_iff in L. congruence.
    - apply orb_false_iff in Hgo. destruct Hgo as [-> Hnh].
      destruct H as [_ [e [-> [He Hcl]]]]. cbn [r_err r_existing r_new].
      pose proof (Hcases e He eq_refl) as Hce.
      pose proof (Hcl n v en ev Hc Hex) as Hve.
      split; [|split].
      + split; [discriminate|]. intros [H|H]; [discriminate|].
        apply sv_higher_iff in H. congruence.
      + discriminate.
      + intros _.
        split.
        * intros Hinv. destruct e; try discriminate Hve; try reflexivity;
            destruct Hce as [Hval _]; congruence.
        * intros a b Hv Hev Ha Hb. assert (Hval : sv_valid v && sv_valid ev = true) by (rewrite Hv, Hev; reflexivity).
          assert (Hp : prec_of v ev = prec_cmp a b) by (unfold prec_of; rewrite Ha, Hb; reflexivity).
          split.
          -- intros E. apply prec_cmp_eq_iff in E.
             destruct e; try discriminate Hve; try reflexivity.
             ++ congruence.
             ++ destruct Hce as [_ Hce]. congruence.
          -- intros L. apply prec_cmp_lt_iff in L.
             destruct e; try discriminate Hve; try reflexivity.
             ++ congruence.
             ++ destruct Hce as [_ Hce]. congruence.
  Qed.

  (* an existing plugin that does not answer properly is replaced only on overwrite *)
  Theorem replace_broken tbl st src ow n v a st' r :
    source_ok src = true -> install tbl st src ow = (st', r) ->
    candidate tbl src = Some (n, v) -> existing tbl st n = Some a ->
    (forall en ev, a <> AOk en ev) ->
    (r_err r = None <-> ow = true) /\ (r_err r = None -> r_existing r = None /\ r_new r = Some (n, v)).
  Proof.
    intros Hwf Hi Hc Hex Hna.
    pose proof (install_result tbl st src ow st' r Hwf Hi) as H.
    assert (Hver : verdict tbl st src ow = if ow then Some (n, v, None) else None).
    { unfold verdict. rewrite Hc, Hex. destruct a as [en ev| | | |]; try reflexivity.
      exfalso. apply (Hna en ev). reflexivity. }
    rewrite Hver in H. destruct ow.
    - destruct H as [_ ->]. cbn. split; [split; reflexivity|auto].
    - destruct H as [_ [e [-> _]]]. cbn. split; [split; discriminate|discriminate].
  Qed.

  (* no plugin of that name: the installation goes through *)
  Theorem install_fresh tbl st src ow n v st' r :
    source_ok src = true -> install tbl st src ow = (st', r) ->
    candidate tbl src = Some (n, v) -> existing tbl st n = None ->
    r = mk_ires None (Some (n, v)) None /\ st' = installed_state st n src.
  Proof.
    intros Hwf Hi Hc Hex.
    pose proof (install_result tbl st src ow st' r Hwf Hi) as H.
    unfold verdict in H. rewrite Hc, Hex in H. destruct H as [-> ->]. auto.
  Qed.

  (* an unusable source, or invalid / misnamed metadata, is refused *)
  Theorem refused_unusable tbl st src ow st' r :
    source_ok src = true -> install tbl st src ow = (st', r) ->
    candidate tbl src = None -> r_err r <> None /\ st' = st.
  Proof.
    intros Hwf Hi Hc.
    pose proof (install_result tbl st src ow st' r Hwf Hi) as H.
    unfold verdict in H. rewrite Hc in H. destruct H as [-> [e [-> _]]]. cbn. split; [discriminate|reflexivity].
  Qed.

  (* ---- after a successful installation ---- *)
  Theorem installed tbl st src ow st' r :
    source_ok src = true -> install tbl st src ow = (st', r) -> r_err r = None ->
    exists n v,
      candidate tbl src = Some (n, v) /\ r_new r = Some (n, v) /\
      afind n st' = Some (map mask (spec_files src)) /\          (* exactly the files of the source *)
      (forall k, k <> n -> afind k st' = afind k st) /\          (* no other plugin touched *)
      aremove n st' = aremove n st /\
      existing tbl st' n = Some (AOk n v) /\                     (* Get + GetMetadata: the new metadata *)
      In n (v_list (view_of tbl st')) /\                         (* List *)
      uninstall st' n = (aremove n st, None) /\                  (* Uninstall removes exactly that directory *)
      afind n (aremove n st) = None.
  Proof.
    intros Hwf Hi He.
    pose proof (install_result tbl st src ow st' r Hwf Hi) as H.
    destruct (verdict tbl st src ow) as [[[n v] ex]|] eqn:Hv.
    2:{ destruct H as [_ [e [-> _]]]. discriminate. }
    destruct H as [-> ->]. exists n, v.
    pose proof (verdict_candidate _ _ _ _ _ _ _ Hv) as Hc.
    destruct (candidate_located tbl src n v Hwf Hc) as [exe [_ [Hx [Hff [Ht Hvn]]]]].
    assert (Hfind : afind n (installed_state st n src) = Some (map mask (spec_files src)))
      by (unfold installed_state; apply afind_ainsert_same).
    assert (Hrem : aremove n (installed_state st n src) = aremove n st)
      by (unfold installed_state; rewrite aremove_ainsert_same; apply aremove_idem).
    repeat split; try assumption; try reflexivity.
    - intros k Hk. unfold installed_state. rewrite afind_ainsert_other by exact Hk. apply afind_aremove_other. exact Hk.
    - pose proof (installed_answer tbl src n v Hwf Hc) as Hans.
      unfold existing. rewrite Hfind. unfold dir_answer, dir_get in Hans. rewrite Hvn in Hans. cbn [negb] in Hans.
      destruct (find_file (bin_name n) (map mask (spec_files src))) as [f|]; [|discriminate].
      rewrite Hans. reflexivity.
    - cbn [view_of v_list]. unfold installed_state. apply in_keys_ainsert.
    - unfold uninstall. rewrite Hvn. cbn [negb]. rewrite Hfind, Hrem. reflexivity.
    - apply afind_aremove_same.
  Qed.


  (* ---- the installed plugin does not depend on the shape of the source ---- *)

  (* what is returned does not depend on the list of files to copy *)
  Lemma install_with_snd exe n c1 c2 tbl st ow :
    snd (install_with (LOk exe n c1) tbl st ow) = snd (install_with (LOk exe n c2) tbl st ow).
  Proof.
    assert (Hd : forall ex nw, snd (do_install st n c1 ex nw) = snd (do_install st n c2 ex nw)).
    { intros ex nw. unfold do_install. destruct (negb (valid_name n)); reflexivity. }
    cbn [install_with].
    repeat match goal with
           | |- snd (fail _ _) = snd (fail _ _) => reflexivity
           | |- snd (do_install _ _ _ _ _) = snd (do_install _ _ _ _ _) => apply Hd
           | |- snd (match ?x with _ => _ end) = _ => destruct x
           | |- snd (if ?x then _ else _) = _ => destruct x
           end.
  Qed.

  Lemma spec_exe_located src e : source_ok src = true -> spec_exe src = Some e -> is_cand e = true ->
    exists n, pname_of (f_name e) = Some n /\ locate src = LOk e n (spec_files src).
  Proof.
    intros Hwf Hse Hce. destruct (is_cand_pname e Hce) as [n Hn]. exists n. split; [exact Hn|].
    destruct (locate src) as [err|exe m copy] eqn:Hl.
    - exfalso. destruct src as [| |sn|f|base es]; cbn [spec_exe] in Hse; try discriminate.
      + cbn [locate] in Hl. destruct (is_exec f) eqn:Hx; [|discriminate]. injection Hse as ->.
        rewrite ?Hn, ?Hx in Hl. discriminate.
      + cbn [locate] in Hl. rewrite parse_dir_spec in Hl. unfold parse_spec in Hl.
        fold (cands (top_files es)) in Hse. fold (execs (top_files es)) in Hse.
        destruct (execs (top_files es)) as [|e1 [|e2 r]]; [| |discriminate].
        * destruct (cands (top_files es)) as [|x [|y r]]; try discriminate.
          injection Hse as <-. rewrite f_name_set_exec in Hn. rewrite Hn in Hl. discriminate.
        * injection Hse as ->. rewrite Hn in Hl. discriminate.
    - destruct (locate_ok src exe m copy Hwf Hl) as [Hse' [Hpn [Hcopy _]]].
      rewrite Hse in Hse'. injection Hse' as ->. rewrite Hn in Hpn. injection Hpn as ->. subst copy. reflexivity.
  Qed.

  Theorem source_independent_gen tbl st ow src1 src2 e :
    source_ok src1 = true -> source_ok src2 = true ->
    spec_exe src1 = Some e -> spec_exe src2 = Some e -> is_cand e = true ->
    same_plugin tbl st ow src1 src2.
  Proof.
    intros Hw1 Hw2 Hs1 Hs2 Hce. unfold same_plugin.
    destruct (spec_exe_located src1 e Hw1 Hs1 Hce) as [n [Hn L1]].
    destruct (spec_exe_located src2 e Hw2 Hs2 Hce) as [n2 [Hn2 L2]].
    rewrite Hn in Hn2. injection Hn2 as <-.
    assert (Hsnd : snd (install tbl st src1 ow) = snd (install tbl st src2 ow)).
    { unfold install. rewrite L1, L2. apply install_with_snd. }
    split; [exact Hsnd|].
    intros Hok.
    destruct (install tbl st src1 ow) as [s1 r1] eqn:H1. destruct (install tbl st src2 ow) as [s2 r2] eqn:H2.
    cbn [fst snd] in *. subst r2.
    destruct (installed tbl st src1 ow s1 r1 Hw1 H1 Hok) as [m [v [Hc1 [_ [_ [_ [Hr1 [He1 _]]]]]]]].
    destruct (installed tbl st src2 ow s2 r1 Hw2 H2 Hok) as [m2 [v2 [Hc2 [_ [_ [_ [Hr2 [He2 _]]]]]]]].
    assert (Hcc : candidate tbl src1 = candidate tbl src2) by (unfold candidate; rewrite Hs1, Hs2; reflexivity).
    rewrite Hcc, Hc2 in Hc1. injection Hc1 as <- <-.
    exists m2, v2. rewrite Hcc. repeat split; try assumption. rewrite Hr1, Hr2. reflexivity.
  Qed.

  Lemma filter_unique (P : file -> bool) f : forall l, nodupb (map f_name l) = true ->
    In f l -> P f = true -> (forall g, In g l -> P g = true -> g = f) -> filter P l = [f].
  Proof.
    induction l as [|g l IH]; intros Hnd Hin Hp Hu; [destruct Hin|].
    cbn in Hnd. apply andb_true_iff in Hnd. destruct Hnd as [Hg Hnd]. apply negb_true_iff in Hg.
    cbn [filter]. destruct (P g) eqn:Hpg.
    - assert (g = f) by (apply Hu; [left; reflexivity|exact Hpg]). subst g. f_equal.
      (* nothing else in l satisfies P: it would be f, whose name occurs once *)
      clear IH Hin. induction l as [|h l IHl]; [reflexivity|].
      cbn [filter]. destruct (P h) eqn:Hph.
      + exfalso. assert (h = f) by (apply Hu; [right; left; reflexivity|exact Hph]). subst h.
        apply (mem_str_false_notin _ _ Hg). left. reflexivity.
      + apply IHl.
        * cbn in Hg. apply orb_false_iff in Hg. destruct Hg as [_ Hg]. exact Hg.
        * cbn in Hnd. apply andb_true_iff in Hnd. destruct Hnd as [_ Hnd]. exact Hnd.
        * intros k [Hk|Hk] Hpk; apply Hu; auto; [left; exact Hk|right; right; exact Hk].
    - destruct Hin as [->|Hin]; [congruence|]. apply IH; auto. intros k Hk. apply Hu. right. exact Hk.
  Qed.

  (* the directory holds one executable file named notation-{name} (and whatever else):
     installing the directory or that file gives the same plugin *)
  Lemma spec_exe_dir_exec base es f :
    source_ok (SDir base es) = true -> In f (top_files es) ->
    is_cand f = true -> is_exec f = true ->
    (forall g, In g (top_files es) -> is_cand g = true -> is_exec g = true -> g = f) ->
    spec_exe (SDir base es) = Some f /\ spec_exe (SFile f) = Some f /\ source_ok (SFile f) = true.
  Proof.
    intros Hwf Hin Hc Hx Hu. cbn [spec_exe]. rewrite Hx.
    assert (Hnd : nodupb (map f_name (top_files es)) = true).
    { cbn [source_ok] in Hwf. apply andb_true_iff in Hwf. destruct Hwf as [Hwf _].
      apply andb_true_iff in Hwf. destruct Hwf as [Hnd _]. exact Hnd. }
    assert (He : filter is_exec (filter is_cand (top_files es)) = [f]).
    { rewrite <- (filter_unique (fun g => is_cand g && is_exec g) f (top_files es) Hnd Hin).
      - clear. induction (top_files es) as [|g l IH]; [reflexivity|]. cbn [filter].
        destruct (is_cand g); cbn [filter andb]; [destruct (is_exec g); rewrite IH; reflexivity|exact IH].
      - rewrite Hc, Hx. reflexivity.
      - intros g Hg Hp. apply andb_true_iff in Hp. destruct Hp. apply Hu; assumption. }
    rewrite He. repeat split.
    cbn [source_ok]. cbn [source_ok] in Hwf. apply andb_true_iff in Hwf. destruct Hwf as [_ Hall].
    clear -Hall Hin. induction es as [|en es IH]; [destruct Hin|].
    cbn [forallb] in Hall. apply andb_true_iff in Hall. destruct Hall as [H1 H2].
    destruct en as [g|dn fs|ln]; cbn [top_files] in Hin; [destruct Hin as [->|Hin]; [exact H1|]| |]; apply IH; assumption.
  Qed.


  (* the directory holds a single file named notation-{name}, not executable: Install makes it
     executable, and the result is that of installing the file once executable *)
  Lemma spec_exe_dir_nonexec base es c :
    cands (top_files es) = [c] -> is_exec c = false ->
    spec_exe (SDir base es) = Some (set_exec c) /\ spec_exe (SFile (set_exec c)) = Some (set_exec c)
    /\ is_cand (set_exec c) = true.
  Proof.
    intros Hc Hx. cbn [spec_exe]. fold (cands (top_files es)). rewrite Hc. cbn [filter]. rewrite Hx.
    rewrite is_exec_set_exec. repeat split.
    destruct (cands_in (top_files es) c) as [_ H]; [rewrite Hc; left; reflexivity|]. exact H.
  Qed.

  Theorem source_independent_exec tbl st ow base es f :
    source_ok (SDir base es) = true -> In f (top_files es) ->
    is_cand f = true -> is_exec f = true ->
    (forall g, In g (top_files es) -> is_cand g = true -> is_exec g = true -> g = f) ->
    same_plugin tbl st ow (SDir base es) (SFile f).
  Proof.
    intros Hwf Hin Hc Hx Hu.
    destruct (spec_exe_dir_exec base es f Hwf Hin Hc Hx Hu) as [H1 [H2 H3]].
    apply (source_independent_gen tbl st ow _ _ f); assumption.
  Qed.

  Lemma top_file_ok base es f : source_ok (SDir base es) = true -> In f (top_files es) -> file_ok f = true.
  Proof.
    intros Hwf Hin. cbn [source_ok] in Hwf. apply andb_true_iff in Hwf. destruct Hwf as [_ Hall].
    induction es as [|en es IH]; [destruct Hin|].
    cbn [forallb] in Hall. apply andb_true_iff in Hall. destruct Hall as [H1 H2].
    destruct en as [g|dn fs|ln]; cbn [top_files] in Hin; [destruct Hin as [->|Hin]; [exact H1|]| |]; apply IH; assumption.
  Qed.

  Theorem source_independent_nonexec tbl st ow base es c :
    source_ok (SDir base es) = true -> cands (top_files es) = [c] -> is_exec c = false ->
    same_plugin tbl st ow (SDir base es) (SFile (set_exec c)).
  Proof.
    intros Hwf Hc Hx.
    destruct (spec_exe_dir_nonexec base es c Hc Hx) as [H1 [H2 H3]].
    apply (source_independent_gen tbl st ow _ _ (set_exec c)); try assumption.
    cbn [source_ok]. unfold file_ok, set_exec. cbn [f_mode]. apply mode_ok_set_exec.
    apply (top_file_ok base es c Hwf). apply (cands_in _ c). rewrite Hc. left. reflexivity.
  Qed.

  (* the copied files: those of the source, name by name and content by content; the mode of the
     single non-executable candidate gains the owner-execute bit *)
  Theorem spec_files_dir base es :
    Forall2 (fun g f => f_name g = f_name f /\ f_cid g = f_cid f /\
                        (f_mode g = f_mode f \/ (is_cand f = true /\ f_mode g = N.lor (f_mode f) 64)))
            (spec_files (SDir base es)) (top_files es).
  Proof.
    cbn [spec_files].
    assert (Hid : Forall2 (fun g f => f_name g = f_name f /\ f_cid g = f_cid f /\
                        (f_mode g = f_mode f \/ (is_cand f = true /\ f_mode g = N.lor (f_mode f) 64)))
                    (top_files es) (top_files es)).
    { induction (top_files es); constructor; auto. }
    destruct (filter is_exec (filter is_cand (top_files es))); [|exact Hid].
    destruct (filter is_cand (top_files es)) as [|x [|y r]] eqn:Hc; try exact Hid.
    assert (Hcx : is_cand x = true).
    { destruct (cands_in (top_files es) x) as [_ H]; [unfold cands; rewrite Hc; left; reflexivity|exact H]. }
    clear Hid Hc. unfold chmod_exec. induction (top_files es) as [|f l IH]; cbn [map]; constructor; [|exact IH].
    destruct (String.eqb (f_name f) (f_name x)) eqn:E; [|auto].
    cbn. repeat split. right. split; [|reflexivity].
    apply str_eqb_eq in E. unfold is_cand in *. rewrite E. exact Hcx.
  Qed.

  (* ================= Part 5: the model meets the oracle ================= *)

  Lemma view_ok_view_of tbl st : view_ok tbl (view_of tbl st) = true.
  Proof. unfold view_ok, view_of. cbn. rewrite strlist_eqb_refl, answers_eqb_refl. reflexivity. Qed.

  Lemma afind_answers tbl st n : afind n (answers_of tbl st) =
    match afind n st with Some d => Some (dir_answer tbl n d) | None => None end.
  Proof. unfold answers_of. apply (afind_map_snd (fun k d => dir_answer tbl k d)). Qed.

  Lemma install_step_ok tbl st src ow : source_ok src = true ->
    install_ok tbl st src ow (snd (install tbl st src ow)) (view_of tbl (fst (install tbl st src ow))) = true.
  Proof.
    intros Hwf. destruct (install tbl st src ow) as [st' r] eqn:Hi. cbn [fst snd].
    pose proof (install_result tbl st src ow st' r Hwf Hi) as H.
    unfold install_ok. cbn [view_of v_tree v_list v_answers].
    destruct (verdict tbl st src ow) as [[[n v] ex]|] eqn:Hv.
    - destruct H as [-> ->]. cbn [r_err r_new r_existing].
      pose proof (verdict_candidate _ _ _ _ _ _ _ Hv) as Hc.
      destruct (installed tbl st src ow _ _ Hwf Hi eq_refl) as [n' [v' [Hc' [_ [Hfind [_ [Hrem [_ [Hlist _]]]]]]]]].
      rewrite Hc in Hc'. injection Hc' as <- <-.
      rewrite !opt_meta_eqb_refl.
      rewrite Hfind. cbn [opt_eqb]. rewrite pdir_eqb_refl.
      rewrite Hrem, state_eqb_refl.
      cbn [view_of v_list] in Hlist. apply mem_str_in in Hlist. rewrite Hlist.
      rewrite afind_answers, Hfind. rewrite (installed_answer tbl src n v Hwf Hc).
      cbn [opt_eqb]. rewrite answer_eqb_refl. reflexivity.
    - destruct H as [-> [e [-> [He _]]]]. cbn [r_err r_new r_existing is_none].
      rewrite state_eqb_refl, He. reflexivity.
  Qed.

  Lemma uninstall_step_ok tbl st name :
    uninstall_ok st name (snd (uninstall st name)) (view_of tbl (fst (uninstall st name))) = true.
  Proof.
    unfold uninstall, uninstall_ok. destruct (valid_name name) eqn:Hvn; cbn [negb fst snd view_of v_tree].
    - destruct (afind name st) eqn:Hf; cbn [fst snd view_of v_tree is_none negb andb]; rewrite ?Hvn, ?Hf; cbn [is_none negb andb];
        rewrite state_eqb_refl; reflexivity.
    - cbn [negb andb]. rewrite state_eqb_refl. reflexivity.
  Qed.

  Lemma steps_ok_run tbl : forall ops st, forallb op_ok ops = true ->
    steps_ok tbl st ops (run_ops tbl st ops) = true.
  Proof.
    induction ops as [|o ops IH]; intros st Hwf; [reflexivity|].
    cbn [forallb] in Hwf. apply andb_true_iff in Hwf. destruct Hwf as [Ho Hops].
    cbn [run_ops]. destruct (mstep tbl st o) as [st' res] eqn:Hm. cbn [steps_ok].
    cbn [s_view view_of v_tree]. rewrite (IH st' Hops). rewrite andb_true_r.
    unfold step_ok. cbn [s_view s_res]. rewrite view_ok_view_of. cbn [andb].
    destruct o as [src ow|name]; cbn [mstep] in Hm.
    - destruct (install tbl st src ow) as [s r] eqn:Hi. injection Hm as <- <-.
      pose proof (install_step_ok tbl st src ow Ho) as H. rewrite Hi in H. exact H.
    - destruct (uninstall st name) as [s e] eqn:Hu. injection Hm as <- <-.
      pose proof (uninstall_step_ok tbl st name) as H. rewrite Hu in H. exact H.
  Qed.

  (* ---- installations that name the place of their source (after 6dc7abe) ---- *)
  Lemma areplace_same k d : forall st, afind k st = Some d -> areplace k d st = st.
  Proof.
    induction st as [|[k' d'] st IH]; cbn [afind areplace]; [discriminate|].
    destruct (String.eqb k k') eqn:E.
    - intros H. injection H as ->. apply str_eqb_eq in E. subst k'. reflexivity.
    - intros H. rewrite (IH H). reflexivity.
  Qed.

  Lemma top_files_EF d : top_files (map EF d) = d.
  Proof. induction d as [|f d IH]; cbn [map top_files]; [reflexivity|rewrite IH; reflexivity]. Qed.

  Lemma after_parse_clean st p : not_installed_dir_with_nonexec_candidate st p = true ->
    after_parse st p (locate (rs_src (resolve st p))) = st.
  Proof.
    destruct p as [src|k|k fname| |lname k fname]; cbn [after_parse resolve not_installed_dir_with_nonexec_candidate]; intros Hc;
      try reflexivity.
    destruct (afind k st) as [d|] eqn:Hd; cbn [rs_src locate]; [|reflexivity].
    rewrite parse_dir_spec, top_files_EF. unfold parse_spec.
    fold (cands d) in Hc. fold (execs d) in Hc.
    destruct (execs d) as [|e1 [|e2 r]].
    - destruct (cands d) as [|x [|y r]]; try reflexivity. discriminate.
    - destruct (pname_of (f_name e1)); [apply areplace_same; exact Hd|reflexivity].
    - reflexivity.
  Qed.

  Lemma install_with_g_eq loc tbl st ow : install_with_g do_install loc tbl st ow = install_with loc tbl st ow.
  Proof. reflexivity. Qed.

  (* the general form differs from the plain one only in how an accepted installation is finished *)
  Lemma install_with_g_rel (R : state * ires -> state * ires -> Prop) doi loc tbl st ow :
    (forall e, R (fail st e) (fail st e)) ->
    (forall exe n copy ex nw, loc = LOk exe n copy -> R (do_install st n copy ex nw) (doi st n copy ex nw)) ->
    R (install_with loc tbl st ow) (install_with_g doi loc tbl st ow).
  Proof.
    intros Hf Hd. destruct loc as [e|exe n copy]; cbn [install_with install_with_g]; [apply Hf|].
    assert (Hd' : forall ex nw, R (do_install st n copy ex nw) (doi st n copy ex nw))
      by (intros; eapply Hd; reflexivity).
    repeat match goal with
           | |- R (fail _ _) (fail _ _) => apply Hf
           | |- R (do_install _ _ _ _ _) (doi _ _ _ _ _) => apply Hd'
           | |- R (match ?x with _ => _ end) _ => destruct x
           | |- R (if ?x then _ else _) _ => destruct x
           end.
  Qed.

  Lemma home_target st p k : rs_home (resolve st p) = Some k -> rs_target (resolve st p) = Some k.
  Proof.
    destruct p as [src|j|j fname| |lname j fname]; cbn [resolve]; try discriminate.
    - destruct (afind j st); cbn; [auto|discriminate].
    - destruct (afind j st) as [d|]; [|cbn; discriminate]. destruct (find_file fname d); cbn; [auto|discriminate].
    - destruct (afind j st) as [d|]; [|cbn; discriminate]. destruct (find_file fname d); cbn; [auto|discriminate].
  Qed.

  Lemma same_name_true o n : same_name o n = true <-> o = Some n.
  Proof.
    unfold same_name. destruct o as [m|]; cbn [opt_eqb]; [|split; discriminate].
    split; [intros H; apply str_eqb_eq in H; subst; reflexivity|intros H; injection H as ->; apply str_eqb_refl].
  Qed.

  (* under [not_installed_dir_with_nonexec_candidate] a source that vanishes with the directory of n designates an executable in it *)
  Lemma clean_target st p exe n copy : not_installed_dir_with_nonexec_candidate st p = true ->
    locate (rs_src (resolve st p)) = LOk exe n copy ->
    same_name (rs_target (resolve st p)) n = true -> same_name (rs_home (resolve st p)) n = true.
  Proof.
    destruct p as [src|j|j fname| |lname j fname]; cbn [resolve not_installed_dir_with_nonexec_candidate]; intros Hc Hl Ht;
      try (cbn in Ht; discriminate).
    - destruct (afind j st); exact Ht.
    - destruct (afind j st) as [d|]; [|exact Ht]. destruct (find_file fname d); exact Ht.
    - destruct (afind j st) as [d|]; [|exact Ht]. destruct (find_file fname d); exact Ht.
  Qed.

  Lemma install_at_rel tbl st p ow : not_installed_dir_with_nonexec_candidate st p = true ->
    let src := rs_src (resolve st p) in
    install_at tbl st p ow = install tbl st src ow \/
    (exists exe n copy, locate src = LOk exe n copy /\ rs_home (resolve st p) = Some n /\
       r_err (snd (install tbl st src ow)) = None /\ install_at tbl st p ow = fail st ESelf).
  Proof.
    intros Hc src. unfold install_at, install_at_g. rewrite (after_parse_clean st p Hc). fold src.
    unfold install.
    apply (install_with_g_rel
             (fun a b => b = a \/ exists exe n copy, locate src = LOk exe n copy /\ rs_home (resolve st p) = Some n /\
                                      r_err (snd a) = None /\ b = fail st ESelf)).
    - intros e. left. reflexivity.
    - intros exe n copy ex nw Hl. unfold do_install_at, do_install.
      destruct (same_name (rs_home (resolve st p)) n) eqn:Hh.
      + destruct (negb (valid_name n)) eqn:Hv.
        * exfalso. rewrite (locate_err_or_valid src exe n copy Hl) in Hv. discriminate.
        * right. exists exe, n, copy. apply same_name_true in Hh. auto.
      + destruct (negb (valid_name n)); [left; reflexivity|].
        destruct (same_name (rs_target (resolve st p)) n) eqn:Ht; [|left; reflexivity].
        rewrite (clean_target st p exe n copy Hc Hl Ht) in Hh. discriminate.
  Qed.

  Lemma install_at_step_ok tbl st p ow :
    source_ok (rs_src (resolve st p)) = true -> not_installed_dir_with_nonexec_candidate st p = true ->
    install_at_ok tbl st p ow (snd (install_at tbl st p ow)) (view_of tbl (fst (install_at tbl st p ow))) = true.
  Proof.
    intros Hwf Hc. unfold install_at_ok. set (src := rs_src (resolve st p)) in *.
    destruct (install_at_rel tbl st p ow Hc) as [->|[exe [n [copy [Hl [Hh [He ->]]]]]]]; fold src.
    - rewrite (install_step_ok tbl st src ow Hwf). reflexivity.
    - apply orb_true_iff. right. fold src in Hl, He.
      destruct (install tbl st src ow) as [s0 r0] eqn:Hi. cbn [snd] in He.
      pose proof (install_result tbl st src ow s0 r0 Hwf Hi) as H.
      destruct (verdict tbl st src ow) as [[[n' v] ex]|] eqn:Hv.
      2:{ destruct H as [_ [e [-> _]]]. discriminate. }
      pose proof (verdict_candidate _ _ _ _ _ _ _ Hv) as Hcand.
      destruct (candidate_located tbl src n' v Hwf Hcand) as [exe' [Hl' _]].
      rewrite Hl in Hl'. injection Hl' as _ <- _.
      cbn [fail fst snd r_err r_new r_existing view_of v_tree is_none].
      rewrite (proj2 (same_name_true _ _) (home_target st p n Hh)), state_eqb_refl. reflexivity.
  Qed.

  Lemma steps_ok_at_run tbl : forall ops st, at_ok tbl st ops = true ->
    steps_ok_at tbl st ops (run_ops_at tbl st ops) = true.
  Proof.
    induction ops as [|o ops IH]; intros st Hwf; [reflexivity|].
    cbn [at_ok] in Hwf. apply andb_true_iff in Hwf. destruct Hwf as [Ho Hops].
    cbn [run_ops_at]. destruct (mstep_at tbl st o) as [st' res] eqn:Hm. cbn [steps_ok_at fst] in *.
    cbn [s_view view_of v_tree]. rewrite (IH st' Hops). rewrite andb_true_r.
    unfold step_ok_at. cbn [s_view s_res]. rewrite view_ok_view_of. cbn [andb].
    destruct o as [p ow|name]; cbn [mstep_at] in Hm.
    - apply andb_true_iff in Ho. destruct Ho as [Hs Hc].
      destruct (install_at tbl st p ow) as [s r] eqn:Hi. injection Hm as <- <-.
      pose proof (install_at_step_ok tbl st p ow Hs Hc) as H. rewrite Hi in H. exact H.
    - destruct (uninstall st name) as [s e] eqn:Hu. injection Hm as <- <-.
      pose proof (uninstall_step_ok tbl st name) as H. rewrite Hu in H. exact H.
  Qed.

  Theorem model_spec_ok : forall i, wf i = true -> spec_ok i (model i) = true.
  Proof.
    intros [tbl st ops|v w|tbl st ops] Hwf; cbn [model spec_ok].
    - unfold wf in Hwf. cbn [wf_static] in Hwf. rewrite andb_true_r in Hwf.
      apply andb_true_iff in Hwf. destruct Hwf as [_ Hops].
      cbn [view_of v_tree]. rewrite state_eqb_refl, view_ok_view_of, (steps_ok_run tbl ops st Hops). reflexivity.
    - rewrite cpv_spec. destruct (sv_valid v && sv_valid w); cbn; [apply cmp_eqb_refl|reflexivity].
    - unfold wf in Hwf. apply andb_true_iff in Hwf. destruct Hwf as [_ Hops].
      cbn [view_of v_tree]. rewrite state_eqb_refl, view_ok_view_of, (steps_ok_at_run tbl ops st Hops). reflexivity.
  Qed.
End Theorems.

(* ================= the pre-fix variants do not have the property ================= *)

(* before 3438892 (F7): a non-matching file sorting after a non-executable candidate erased
   the candidate plugin name *)
Example F7_candidate_name_refuted :
  let es := [EF (F "notation-foo" 420 1); EF (F "zz-notes.txt" 420 2)] in
  parse_dir es = LOk (F "notation-foo" 484 1) "foo" [F "notation-foo" 484 1; F "zz-notes.txt" 420 2] /\
  parse_dir_v0 es = LOk (F "notation-foo" 484 1) "" [F "notation-foo" 484 1; F "zz-notes.txt" 420 2].
Proof. split; vm_compute; reflexivity. Qed.

(* before 6476a8b: files of sub-directories were copied flat into the plugin directory *)
Example subdir_copy_refuted :
  let es := [ED "docs" [F "index.md" 420 2]; EF (F "notation-foo" 493 1)] in
  parse_dir es = LOk (F "notation-foo" 493 1) "foo" [F "notation-foo" 493 1] /\
  parse_dir_copyall es = LOk (F "notation-foo" 493 1) "foo" [F "index.md" 420 2; F "notation-foo" 493 1].
Proof. split; vm_compute; reflexivity. Qed.

(* before 9291f82: the walk entered a sub-directory named like the source directory *)
Example selfdir_refuted :
  let es := [EF (F "notation-foo" 420 1); ED "pkg" [F "notation-foo2" 493 3]] in
  parse_dir es = LOk (F "notation-foo" 484 1) "foo" [F "notation-foo" 484 1] /\
  parse_dir_selfdir "pkg" es = LOk (F "notation-foo2" 493 3) "foo2" [F "notation-foo" 420 1].
Proof. split; vm_compute; reflexivity. Qed.

(* ================= closing: the hypotheses of the sections are the theorems of C20_SemverProofs ================= *)
Module SP := C20_SemverProofs.

Definition c20_cpv := SP.compare_plugin_version_spec.

Definition c20_sv_higher_iff := sv_higher_iff SP.valid_decodes SP.prec_cmp_gt_iff.
Definition c20_install_result := install_result c20_cpv.
Definition c20_install_success_iff := install_success_iff c20_cpv.
Definition c20_replace_rule :=
  replace_rule c20_cpv SP.valid_decodes SP.prec_cmp_gt_iff SP.prec_cmp_lt_iff SP.prec_cmp_eq_iff.
Definition c20_replace_broken := replace_broken c20_cpv.
Definition c20_install_fresh := install_fresh c20_cpv.
Definition c20_refused_unusable := refused_unusable c20_cpv.
Definition c20_installed := installed c20_cpv.
Definition c20_source_independent_gen := source_independent_gen c20_cpv.
Definition c20_source_independent_exec := source_independent_exec c20_cpv.
Definition c20_source_independent_nonexec := source_independent_nonexec c20_cpv.
Definition c20_model_spec_ok := model_spec_ok c20_cpv.
