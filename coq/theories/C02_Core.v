(* C02_Core.v — property C02: lemmas about GetVerificationLevel over the
   generated tables, and the central lemma [core_ok]: the model of
   processSignature satisfies the implementation-exact rule and the shape
   conditions (finite case analysis by computation after abstracting the
   scenario into finitely many atoms). *)
From NV Require Import Base Regex Generated C02_Levels VerifyCore C02_Model.
Open Scope string_scope.
Open Scope list_scope.

(* ================================================================== *)
(* 1. Levels: GetVerificationLevel over the generated tables           *)
(* ================================================================== *)

Lemma action_eqb_eq a b : action_eqb a b = true <-> a = b.
Proof. destruct a, b; cbn; split; congruence. Qed.

Lemma level_eqb_eq a b : level_eqb a b = true <-> a = b.
Proof.
  destruct a as [a1 a2 a3 a4], b as [b1 b2 b3 b4]. unfold level_eqb; cbn.
  rewrite !andb_true_iff, !action_eqb_eq. split.
  - intros [[[-> ->] ->] ->]. reflexivity.
  - intros E. inversion E. auto.
Qed.

Definition level_ok (l : level) : bool :=
  negb (action_eqb (l_auth l) Skip) && negb (action_eqb (l_ts l) Skip) && negb (action_eqb (l_exp l) Skip).

Lemma in_all_24_b l : existsb (level_eqb l) all_24 = level_ok l.
Proof. destruct l as [[] [] [] []]; reflexivity. Qed.

Lemma in_existsb_level l ls : In l ls <-> existsb (level_eqb l) ls = true.
Proof.
  rewrite existsb_exists. split.
  - intros H. exists l. split; [exact H | now apply level_eqb_eq].
  - intros (x & H & E). apply level_eqb_eq in E. now subst.
Qed.

Lemma all_24_spec l :
  In l all_24 <-> (l_auth l <> Skip /\ l_ts l <> Skip /\ l_exp l <> Skip).
Proof.
  rewrite in_existsb_level, in_all_24_b. unfold level_ok.
  rewrite !andb_true_iff, !negb_true_iff.
  assert (X : forall a, action_eqb a Skip = false <-> a <> Skip) by (intros []; cbn; split; congruence).
  rewrite !X. tauto.
Qed.

Lemma all_24_length : List.length all_24 = 24%nat.
Proof. reflexivity. Qed.

Fixpoint nodupb (l : list level) : bool :=
  match l with [] => true | x :: r => negb (existsb (level_eqb x) r) && nodupb r end.

Lemma nodupb_NoDup l : nodupb l = true -> NoDup l.
Proof.
  induction l as [|x r IH]; cbn; intros H; constructor.
  - apply andb_true_iff in H. destruct H as [H _]. apply negb_true_iff in H.
    intros HIn. apply in_existsb_level in HIn. congruence.
  - apply IH. apply andb_true_iff in H. tauto.
Qed.

Lemma all_24_nodup : NoDup all_24.
Proof. apply nodupb_NoDup. reflexivity. Qed.

(* reached from the three named levels by the legal overrides: exactly the 24 maps *)
Lemma reachable_sub : forallb (fun l => existsb (level_eqb l) all_24) reachable_levels = true.
Proof. vm_compute. reflexivity. Qed.

Lemma reachable_sup : forallb (fun l => existsb (level_eqb l) reachable_levels) all_24 = true.
Proof. vm_compute. reflexivity. Qed.

Lemma reachable_iff l : In l reachable_levels <-> In l all_24.
Proof.
  split; intros H.
  - apply in_existsb_level. exact (proj1 (forallb_forall _ _) reachable_sub l H).
  - apply in_existsb_level. exact (proj1 (forallb_forall _ _) reachable_sup l H).
Qed.

(* ---------- GetVerificationLevel for an arbitrary override ---------- *)
Lemma lookup_remove_key k k' m :
  lookup k (remove_key k' m) = if String.eqb k k' then None else lookup k m.
Proof.
  induction m as [|[a b] m IH]; cbn.
  - destruct (String.eqb k k'); reflexivity.
  - destruct (String.eqb k' a) eqn:E1.
    + apply String.eqb_eq in E1. subst a. rewrite IH. destruct (String.eqb k k'); reflexivity.
    + cbn. rewrite IH. destruct (String.eqb k a) eqn:E2; [|reflexivity].
      apply String.eqb_eq in E2. subst a. rewrite String.eqb_sym, E1. reflexivity.
Qed.

Lemma lookup_default_set_key k k' v m :
  lookup_default k (set_key k' v m) = if String.eqb k k' then v else lookup_default k m.
Proof.
  unfold lookup_default, set_key. cbn. destruct (String.eqb k k') eqn:E; [reflexivity|].
  rewrite lookup_remove_key, E. reflexivity.
Qed.

Lemma mem_str_In x l : mem_str x l = true -> In x l.
Proof.
  unfold mem_str. rewrite existsb_exists. intros (y & H & E). apply String.eqb_eq in E. now subst.
Qed.

Definition two (s : string) : bool := String.eqb s "enforce" || String.eqb s "log".
Definition three (s : string) : bool := two s || String.eqb s "skip".

(* invariant of the custom map: integrity enforce, three types enforce/log, revocation any action *)
Definition enf_ok (enf : amap) : bool :=
  String.eqb (lookup_default "integrity" enf) "enforce"
  && two (lookup_default "authenticity" enf) && two (lookup_default "authenticTimestamp" enf)
  && two (lookup_default "expiry" enf) && three (lookup_default "revocation" enf).

Lemma two_cases s : two s = true -> s = "enforce" \/ s = "log".
Proof. unfold two. rewrite orb_true_iff, !String.eqb_eq. tauto. Qed.

Lemma three_cases s : three s = true -> s = "enforce" \/ s = "log" \/ s = "skip".
Proof. unfold three. rewrite orb_true_iff, String.eqb_eq. intros [H|H]; [apply two_cases in H|]; tauto. Qed.

Lemma enf_ok_level enf : enf_ok enf = true ->
  lookup_default "integrity" enf = "enforce" /\ In (level_of enf) all_24.
Proof.
  unfold enf_ok. rewrite !andb_true_iff. intros [[[[H0 H1] H2] H3] H4].
  apply String.eqb_eq in H0. split; [exact H0|].
  apply all_24_spec. unfold level_of, enf_action; cbn.
  apply two_cases in H1, H2, H3.
  repeat split; [destruct H1 as [-> | ->] | destruct H2 as [-> | ->] | destruct H3 as [-> | ->]]; cbn; discriminate.
Qed.

Lemma base_levels_ok : forall n, In n base_names ->
  exists base, find_level n gen_levels = Some base /\ enf_ok base = true.
Proof.
  intros n H. cbn in H. destruct H as [<- | [<- | [<- | []]]]; eexists; (split; [vm_compute; reflexivity | vm_compute; reflexivity]).
Qed.

Lemma apply_override_ok enf kv enf' :
  enf_ok enf = true -> apply_override enf kv = inr enf' -> enf_ok enf' = true /\ legal_entry kv.
Proof.
  destruct kv as [k v]. unfold apply_override.
  destruct (mem_str k gen_validation_types) eqn:Hk; cbn [negb]; [|discriminate].
  destruct (mem_str v gen_validation_actions) eqn:Hv; cbn [negb]; [|discriminate].
  apply mem_str_In in Hk, Hv. cbn in Hk, Hv. intros OK.
  unfold enf_ok in OK. rewrite !andb_true_iff in OK. destruct OK as [[[[H0 H1] H2] H3] H4].
  unfold legal_entry; cbn [fst snd].
  destruct Hk as [<- | [<- | [<- | [<- | [<- | []]]]]]; cbn [String.eqb Ascii.eqb Bool.eqb andb negb];
    try discriminate;
    destruct Hv as [<- | [<- | [<- | []]]]; cbn [String.eqb Ascii.eqb Bool.eqb andb negb];
    try discriminate.
  all: intros E; injection E as E; subst enf'; (split; [|tauto]).
  all: unfold enf_ok; rewrite !lookup_default_set_key; cbn [String.eqb Ascii.eqb Bool.eqb andb negb].
  all: rewrite ?H0, ?H1, ?H2, ?H3, ?H4; reflexivity.
Qed.

Lemma apply_overrides_ok ov : forall enf enf',
  enf_ok enf = true -> apply_overrides enf ov = inr enf' -> enf_ok enf' = true /\ Forall legal_entry ov.
Proof.
  induction ov as [|kv ov IH]; cbn; intros enf enf' OK E.
  - injection E as <-. split; [exact OK | constructor].
  - destruct (apply_override enf kv) as [e|enf1] eqn:E1; [discriminate|].
    destruct (apply_override_ok _ _ _ OK E1) as [OK1 L1].
    destruct (IH _ _ OK1 E) as [OK2 L2]. split; [exact OK2 | constructor; assumption].
Qed.

Lemma find_level_names n base : find_level n gen_levels = Some base ->
  n = "skip" \/ In n base_names.
Proof.
  unfold gen_levels. cbn [find_level].
  destruct (String.eqb "skip" n) eqn:E4; [apply String.eqb_eq in E4; auto|].
  destruct (String.eqb "audit" n) eqn:E3; [apply String.eqb_eq in E3; subst; cbn; auto|].
  destruct (String.eqb "permissive" n) eqn:E2; [apply String.eqb_eq in E2; subst; cbn; auto|].
  destruct (String.eqb "strict" n) eqn:E1; [apply String.eqb_eq in E1; subst; cbn; auto|].
  discriminate.
Qed.

Lemma get_level_sound name ov nm enf :
  name <> "skip" -> get_level name ov = inr (nm, enf) ->
  In name base_names /\ Forall legal_entry ov
  /\ lookup_default "integrity" enf = "enforce" /\ In (level_of enf) all_24.
Proof.
  intros NS. unfold get_level.
  destruct (String.eqb name "") eqn:E0; [discriminate|].
  destruct (find_level name gen_levels) as [base|] eqn:F; [|discriminate].
  destruct (find_level_names _ _ F) as [->|HIn]; [congruence|].
  destruct (base_levels_ok _ HIn) as (base' & F' & OK). rewrite F in F'. injection F' as <-.
  destruct ov as [|kv ov].
  - intros E. injection E as <- <-. split; [exact HIn|]. split; [constructor|]. now apply enf_ok_level.
  - destruct (String.eqb name "skip"); [discriminate|].
    destruct (apply_overrides base (kv :: ov)) as [e|enf1] eqn:E1; [discriminate|].
    intros E. injection E as <- <-.
    destruct (apply_overrides_ok _ _ _ OK E1) as [OK1 L]. split; [exact HIn|]. split; [exact L|].
    now apply enf_ok_level.
Qed.

Lemma get_level_skip ov nm enf : get_level "skip" ov = inr (nm, enf) -> ov = [].
Proof.
  unfold get_level. cbn [String.eqb Ascii.eqb Bool.eqb andb].
  destruct (find_level "skip" gen_levels); [|discriminate].
  destruct ov; [reflexivity | discriminate].
Qed.

(* every legal override is accepted *)
Lemma apply_override_legal enf kv : legal_entry kv -> exists enf', apply_override enf kv = inr enf'.
Proof.
  destruct kv as [k v]. unfold legal_entry; cbn [fst snd].
  intros [[[-> | [-> | ->]] [-> | ->]] | [-> [-> | [-> | ->]]]]; eexists; vm_compute; reflexivity.
Qed.

Lemma apply_overrides_legal ov : forall enf, Forall legal_entry ov -> exists enf', apply_overrides enf ov = inr enf'.
Proof.
  induction ov as [|kv ov IH]; cbn; intros enf H.
  - eauto.
  - inversion H as [|? ? H1 H2]; subst. destruct (apply_override_legal enf kv H1) as [enf1 ->]. now apply IH.
Qed.

Lemma get_level_complete name ov : In name base_names -> Forall legal_entry ov ->
  exists nm enf, get_level name ov = inr (nm, enf).
Proof.
  intros HIn L. destruct (base_levels_ok _ HIn) as (base & F & _).
  unfold get_level. rewrite F.
  cbn in HIn. destruct HIn as [<- | [<- | [<- | []]]]; cbn [String.eqb Ascii.eqb Bool.eqb andb];
    (destruct ov as [|kv ov]; [eauto|]);
    destruct (apply_overrides_legal (kv :: ov) base L) as [enf' ->]; eauto.
Qed.

(* ---------- the same override keeps strict <= permissive <= audit ---------- *)
Lemma action_le_refl a : action_le a a = true.
Proof. destruct a; reflexivity. Qed.

Lemma action_le_trans a b c : action_le a b = true -> action_le b c = true -> action_le a c = true.
Proof. destruct a, b, c; cbn; congruence. Qed.

Lemma level_le_refl l : level_le l l = true.
Proof. unfold level_le. now rewrite !action_le_refl. Qed.

Lemma level_le_trans a b c : level_le a b = true -> level_le b c = true -> level_le a c = true.
Proof.
  unfold level_le. rewrite !andb_true_iff. intros [[[A1 A2] A3] A4] [[[B1 B2] B3] B4].
  repeat split; eapply action_le_trans; eassumption.
Qed.

Lemma apply_override_le e1 e2 kv e1' e2' :
  level_le (level_of e1) (level_of e2) = true ->
  apply_override e1 kv = inr e1' -> apply_override e2 kv = inr e2' ->
  level_le (level_of e1') (level_of e2') = true.
Proof.
  destruct kv as [k v]. unfold apply_override.
  destruct (negb (mem_str k gen_validation_types)); [discriminate|].
  destruct (negb (mem_str v gen_validation_actions)); [discriminate|].
  destruct (String.eqb k "integrity"); [discriminate|].
  destruct (negb (String.eqb k "revocation") && String.eqb v "skip"); [discriminate|].
  intros LE E1 E2. injection E1 as <-. injection E2 as <-.
  revert LE. unfold level_le, level_of, enf_action. cbn [l_auth l_ts l_exp l_rev].
  rewrite !lookup_default_set_key, !andb_true_iff. intros [[[A1 A2] A3] A4].
  repeat split;
    match goal with |- context [String.eqb ?a k] => destruct (String.eqb a k) end;
    first [apply action_le_refl | assumption].
Qed.

Lemma apply_overrides_le ov : forall e1 e2 e1' e2',
  level_le (level_of e1) (level_of e2) = true ->
  apply_overrides e1 ov = inr e1' -> apply_overrides e2 ov = inr e2' ->
  level_le (level_of e1') (level_of e2') = true.
Proof.
  induction ov as [|kv ov IH]; cbn; intros e1 e2 e1' e2' LE E1 E2.
  - injection E1 as <-. injection E2 as <-. exact LE.
  - destruct (apply_override e1 kv) as [|x1] eqn:A1; [discriminate|].
    destruct (apply_override e2 kv) as [|x2] eqn:A2; [discriminate|].
    eapply IH; [|eassumption|eassumption]. eapply apply_override_le; eassumption.
Qed.

Lemma named_order n1 n2 ov l1 l2 :
  (n1 = "strict" /\ n2 = "permissive") \/ (n1 = "permissive" /\ n2 = "audit") \/ (n1 = "strict" /\ n2 = "audit") ->
  level_for n1 ov = Some l1 -> level_for n2 ov = Some l2 -> level_le l1 l2 = true.
Proof.
  unfold level_for, get_level.
  intros [[-> ->] | [[-> ->] | [-> ->]]]; cbn [String.eqb Ascii.eqb Bool.eqb andb];
  match goal with |- context [find_level ?a gen_levels] =>
    let b := eval vm_compute in (find_level a gen_levels) in change (find_level a gen_levels) with b end;
  match goal with |- context [find_level ?a gen_levels] =>
    let b := eval vm_compute in (find_level a gen_levels) in change (find_level a gen_levels) with b end;
  (destruct ov as [|kv ov]; [intros E1 E2; injection E1 as <-; injection E2 as <-; vm_compute; reflexivity|]);
  match goal with |- context [apply_overrides ?b1 ?o] =>
    destruct (apply_overrides b1 o) as [|x1] eqn:A1; [discriminate|] end;
  match goal with |- context [apply_overrides ?b2 (kv :: ov)] =>
    destruct (apply_overrides b2 (kv :: ov)) as [|x2] eqn:A2; [discriminate|] end;
  intros E1 E2; injection E1 as <-; injection E2 as <-;
  (eapply apply_overrides_le; [|exact A1|exact A2]); vm_compute; reflexivity.
Qed.

(* ================================================================== *)
(* 2. processSignature                                                 *)
(* ================================================================== *)

(* case analysis on the first match/if scrutinee that is itself free of matches *)
Ltac destr_head :=
  match goal with
  | |- context [match ?x with _ => _ end] =>
      lazymatch x with
      | context [match _ with _ => _ end] => fail
      | _ => destruct x eqn:?
      end
  end.

Ltac unbool := cbv beta iota delta [negb andb orb implb Bool.eqb is_none nonempty].

Ltac crush_with fin :=
  cbn; unbool; first [ solve [fin] | destr_head; crush_with fin ].

Ltac fin0 := first [reflexivity | discriminate | congruence | tauto].

Lemma discover_spec sc :
  match discover sc with
  | DErr e gets => (e = EInconclusive \/ e = EOther) /\ (s_nonstring_crit sc || plugin_unusable sc = true)
  | DNoPlugin => plugin_demanded sc = false /\ s_nonstring_crit sc = false /\ usable_caps sc = None
  | DPlugin n vc => usable_caps sc = Some vc /\ plugin_demanded sc = true
                    /\ s_nonstring_crit sc = false /\ vc <> []
                    /\ (match s_pm sc with PMPlugin _ _ caps => vc = verification_caps caps | _ => False end)
  end.
Proof.
  destruct sc as [integ pa ma mv ot ns au idn ex ts rv p pr].
  unfold discover, lookup_plugin, minver_error, usable_caps, plugin_unusable, plugin_demanded, attr_malformed.
  cbn [s_plugin_attr s_minver_attr s_minver_valid s_nonstring_crit s_pm].
  crush_with ltac:(repeat split; fin0).
Qed.

(* ---------- finite case analysis by computation ---------- *)
Definition all_bool (P : bool -> bool) : bool := P true && P false.
Definition all_act (P : action -> bool) : bool := P Enforce && P Log && P Skip.
Definition all_optb (P : option bool -> bool) : bool := P None && P (Some true) && P (Some false).

Lemma all_bool_ok (P : bool -> bool) : all_bool P = true -> forall b, P b = true.
Proof. unfold all_bool. rewrite andb_true_iff. intros [H1 H2] []; assumption. Qed.
Lemma all_act_ok (P : action -> bool) : all_act P = true -> forall a, P a = true.
Proof. unfold all_act. rewrite !andb_true_iff. intros [[H1 H2] H3] []; assumption. Qed.
Lemma all_optb_ok (P : option bool -> bool) : all_optb P = true -> forall o, P o = true.
Proof. unfold all_optb. rewrite !andb_true_iff. intros [[H1 H2] H3] [[]|]; assumption. Qed.

Ltac enum_bool x := revert x; apply all_bool_ok.
Ltac enum_act x := revert x; apply all_act_ok.
Ltac enum_optb x := revert x; apply all_optb_ok.

Lemma vtype_eqb_eq a b : vtype_eqb a b = true <-> a = b.
Proof. destruct a, b; cbn; split; congruence. Qed.

Lemma result_eqb_eq a b : result_eqb a b = true <-> a = b.
Proof.
  destruct a as [t1 a1 f1], b as [t2 a2 f2]. unfold result_eqb; cbn.
  rewrite !andb_true_iff, vtype_eqb_eq, action_eqb_eq, Bool.eqb_true_iff.
  split; [intros [[-> ->] ->]; reflexivity | intros E; inversion E; auto].
Qed.

Lemma err_eqb_eq a b : err_eqb a b = true <-> a = b.
Proof.
  destruct a as [|s| |], b as [|t| |]; cbn; try (split; congruence).
  rewrite vtype_eqb_eq. split; [intros ->; reflexivity | intros E; inversion E; auto].
Qed.

(* ---------- well-formed capability lists: five shapes ---------- *)
Lemma count_vcaps c caps : c <> CapOther -> count_cap c (verification_caps caps) = count_cap c caps.
Proof.
  intros NC. induction caps as [|x caps IH]; [reflexivity|].
  destruct x; cbn [verification_caps filter count_cap]; fold (verification_caps caps);
    try (rewrite IH; reflexivity).
  destruct c; cbn; try congruence; exact IH.
Qed.

Lemma vcaps_no_other caps : Forall (fun c => c <> CapOther) (verification_caps caps).
Proof.
  induction caps as [|x caps IH]; [constructor|].
  destruct x; cbn [verification_caps filter]; fold (verification_caps caps); try assumption;
    constructor; try assumption; discriminate.
Qed.

Definition shapes : list (list cap) := [[]; [CapTI]; [CapRev]; [CapTI; CapRev]; [CapRev; CapTI]].

Lemma five_shapes v : Forall (fun c => c <> CapOther) v ->
  (count_cap CapTI v <= 1)%nat -> (count_cap CapRev v <= 1)%nat -> In v shapes.
Proof.
  intros F H1 H2. unfold shapes.
  destruct v as [|a [|b [|c v]]].
  - cbn; auto.
  - inversion F as [|? ? Fa _]; subst. destruct a; try congruence; cbn; auto.
  - inversion F as [|? ? Fa F1]; subst. inversion F1 as [|? ? Fb _]; subst.
    destruct a, b; try congruence; cbn in *; try lia; auto 10.
  - exfalso. inversion F as [|? ? Fa F1]; subst. inversion F1 as [|? ? Fb F2]; subst.
    inversion F2 as [|? ? Fc _]; subst.
    destruct a, b, c; try congruence; cbn in *; lia.
Qed.

Lemma wf_shapes sc : wf_sc sc = true ->
  match s_pm sc with PMPlugin _ _ caps => In (verification_caps caps) shapes | _ => True end.
Proof.
  unfold wf_sc. destruct (s_pm sc) as [| | |v g caps]; auto.
  rewrite andb_true_iff, !Nat.leb_le. intros [H1 H2].
  apply five_shapes; [apply vcaps_no_other | |]; rewrite count_vcaps; (assumption || discriminate).
Qed.

Lemma list_eqb_refl {A} (eqb : A -> A -> bool) : (forall x, eqb x x = true) -> forall l, list_eqb eqb l l = true.
Proof. intros H l. induction l; cbn; [reflexivity|]. now rewrite H, IHl. Qed.

Lemma str_list_eqb_refl l : list_eqb String.eqb l l = true.
Proof. apply list_eqb_refl. apply String.eqb_refl. Qed.

(* the goal [G = true] over finitely many atoms is first folded into ONE local function F of the
   atoms (so that the predicates handed to all_*_ok mention F, not copies of G), then enumerated *)
Ltac abs_one x f := let p := eval pattern x in f in lazymatch p with ?g _ => g end.
Ltac abs_atoms f k :=
  lazymatch goal with
  | x : bool |- _ => let f' := abs_one x f in revert x; abs_atoms f' k
  | x : action |- _ => let f' := abs_one x f in revert x; abs_atoms f' k
  | x : option bool |- _ => let f' := abs_one x f in revert x; abs_atoms f' k
  | _ => k f
  end.
Ltac intro_app app :=
  lazymatch goal with
  | |- forall _ : _, _ => let x := fresh "atom" in intro x; intro_app constr:(app x)
  | |- _ => change (app = true)
  end.
Ltac enum_all :=
  lazymatch goal with
  | |- ?G = true =>
      abs_atoms G ltac:(fun f => let F := fresh "F" in pose (F := f); intro_app F)
  end;
  repeat match goal with
  | x : bool |- _ => revert x; apply all_bool_ok
  | x : action |- _ => revert x; apply all_act_ok
  | x : option bool |- _ => revert x; apply all_optb_ok
  end;
  vm_compute; reflexivity.

Ltac core_unfold :=
  unfold verify_core, process_signature, process_signature_gen, process_plugin_response, native, any_critical_attribute,
    spec_impl, should_fail_impl, spec_shape, plugin_or_attribute_problem, expected_results, enforced_failure, plugin_unusable,
    plugin_exec_problem, nothing_processes, has_critical,
    authenticity_failed, identity_failed, revocation_failed, asked, caps_of, accepted.

Lemma core_ok lvl sc : wf_sc sc = true -> spec_impl lvl sc (verify_core lvl sc) = true.
Proof.
  intros W.
  pose proof (discover_spec sc) as DS. pose proof (wf_shapes sc W) as SH.
  destruct lvl as [la lt le lr].
  core_unfold.
  destruct (s_integrity_ok sc) eqn:IO; cbn [negb].
  2:{ clear. enum_all. }
  destruct (discover sc) as [e gets | | n vc] eqn:D.
  - (* discovery error *)
    destruct DS as [NE PU]. unfold plugin_unusable in PU.
    destruct (s_nonstring_crit sc); destruct (plugin_demanded sc); destruct (usable_caps sc);
      try discriminate PU; clear - NE; destruct NE as [-> | ->]; enum_all.
  - (* no plugin demanded *)
    destruct DS as (PD & NS & UC). rewrite PD, NS, UC.
    generalize (s_auth sc =? 0)%N (s_identity_ok sc) (s_expired sc) (s_ts_ok sc) (s_rev_ok sc).
    intros a0 idn ex ts rv.
    destruct (s_minver_attr sc); destruct (other_crit sc); clear; enum_all.
  - (* plugin demanded and usable *)
    destruct DS as (UC & PD & NS & NE & PM). rewrite PD, NS, UC.
    destruct (s_pm sc) as [| | |v g caps]; try contradiction. subst vc.
    generalize (s_auth sc =? 0)%N (s_identity_ok sc) (s_expired sc) (s_ts_ok sc) (s_rev_ok sc).
    intros a0 idn ex ts rv.
    unfold shapes in SH. cbn [In] in SH.
    destruct SH as [E|[E|[E|[E|[E|[]]]]]]; rewrite <- E in *; [congruence| | | |].
    all: destruct (s_presp sc) as [|processed ti rev].
    all: unfold crit_processed.
    all: destruct (other_crit sc) as [|x l].
    all: try generalize (forallb (fun k : string => mem_str k processed) (x :: l)).
    all: intros; clear; enum_all.
Qed.

