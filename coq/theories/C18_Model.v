(* C18_Model.v — model of the plugin signer of notation-go (signer/plugin.go,
   signer/signer.go:GenericSigner.Sign, plugin/proto/algorithm.go):

     PluginSigner.Sign / SignBlob          (capability dispatch, error wrapping aside)
     getKeySpec                            (describe-key: key id echo, DecodeKeySpec)
     generateSignature + GenericSigner.Sign + pluginPrimitiveSigner.Sign
     generateSignatureEnvelope             (format echo, parse, self-verify, payload
                                            type, descriptor equality, annotation
                                            preservation, unknown-member scan)
     isPayloadDescriptorValid / isDescriptorSubset / areUnknownAttributesAdded
     DecodeKeySpec / EncodeKeySpec / HashAlgorithmFromKeySpec

   The plugin is the adversary: its four answers are the input. What the
   dependencies (notation-core-go, crypto/x509, crypto) say about the bytes the
   plugin answered with is part of the input as "facts" the harness asks from
   those libraries: does the envelope parse / verify, which content type and
   payload does it carry (payload as a C18_Json tree re-read from the bytes the
   envelope really carries), does the chain parse / validate as a code-signing
   chain, which algorithm does the leaf key call for, does the raw signature
   verify over the bytes the signer asked to be signed under the leaf key.
   Definitions only. *)
From NV Require Import Base C18_Json.

(* ---------- key spec / hash codecs (plugin/proto/algorithm.go) ---------- *)
Inductive ktype := KRSA | KEC.
Definition kspec := (ktype * N)%type.

Definition decode_keyspec (s : string) : option kspec :=
  if String.eqb s "RSA-2048" then Some (KRSA, 2048%N)
  else if String.eqb s "RSA-3072" then Some (KRSA, 3072%N)
  else if String.eqb s "RSA-4096" then Some (KRSA, 4096%N)
  else if String.eqb s "EC-256" then Some (KEC, 256%N)
  else if String.eqb s "EC-384" then Some (KEC, 384%N)
  else if String.eqb s "EC-521" then Some (KEC, 521%N)
  else None.

Definition encode_keyspec (k : kspec) : option string :=
  match k with
  | (KEC, 256%N) => Some "EC-256" | (KEC, 384%N) => Some "EC-384" | (KEC, 521%N) => Some "EC-521"
  | (KRSA, 2048%N) => Some "RSA-2048" | (KRSA, 3072%N) => Some "RSA-3072" | (KRSA, 4096%N) => Some "RSA-4096"
  | _ => None
  end.

Definition hash_of_keyspec (k : kspec) : option string :=
  match k with
  | (KEC, 256%N) => Some "SHA-256" | (KEC, 384%N) => Some "SHA-384" | (KEC, 521%N) => Some "SHA-512"
  | (KRSA, 2048%N) => Some "SHA-256" | (KRSA, 3072%N) => Some "SHA-384" | (KRSA, 4096%N) => Some "SHA-512"
  | _ => None
  end.

(* signature.KeySpec.SignatureAlgorithm (notation-core-go) *)
Inductive alg := PS256 | PS384 | PS512 | ES256 | ES384 | ES512.

Definition alg_of_keyspec (k : kspec) : option alg :=
  match k with
  | (KEC, 256%N) => Some ES256 | (KEC, 384%N) => Some ES384 | (KEC, 521%N) => Some ES512
  | (KRSA, 2048%N) => Some PS256 | (KRSA, 3072%N) => Some PS384 | (KRSA, 4096%N) => Some PS512
  | _ => None
  end.

(* bits of the hash of the algorithm: the digest algorithm SignBlob hands to
   the descriptor generator (signer.go: algorithms[ks.SignatureAlgorithm().Hash()]) *)
Definition hash_bits (a : alg) : N :=
  match a with
  | PS256 | ES256 => 256 | PS384 | ES384 => 384 | PS512 | ES512 => 512
  end%N.

Definition alg_eqb (a b : alg) : bool :=
  match a, b with
  | PS256, PS256 | PS384, PS384 | PS512, PS512 | ES256, ES256 | ES384, ES384 | ES512, ES512 => true
  | _, _ => false
  end.

(* ---------- the plugin's answers ---------- *)
Inductive meta := MErr | MCaps (raw env : bool).   (* get-plugin-metadata: error, or has the
                                                      raw-signature / envelope capability *)
Inductive dkans := DKErr | DKAns (keyid keyspec : string).

Record gsfacts := mk_gs {
  gs_keyid : string;             (* key id echoed by generate-signature *)
  gs_chain_parse : bool;         (* every certificate parses (crypto/x509) *)
  gs_chain_len : N;
  gs_sig_empty : bool;
  gs_chain_valid : bool;         (* notation-core-go x509.ValidateCodeSigningCertChain at signing time *)
  gs_leaf_alg : option alg;      (* algorithm notation-core-go derives from the leaf key *)
  gs_sig_ok : bool }.            (* the signature verifies over the bytes to be signed under the
                                    leaf key with that algorithm (crypto/rsa, crypto/ecdsa) *)
Inductive gsans := GSErr | GSAns (f : gsfacts).

Record gefacts := mk_ge {
  ge_type : string;              (* SignatureEnvelopeType echoed by generate-envelope *)
  ge_parse : bool;               (* signature.ParseEnvelope(requested type, bytes) succeeds *)
  ge_verify : bool;              (* Envelope.Verify succeeds (integrity under its own chain) *)
  ge_ctype : string;             (* content type of the verified payload *)
  ge_payload : option json }.    (* payload tree; None = the bytes are not JSON *)
Inductive geans := GEErr | GEAns (f : gefacts).

Record input := mk_input {
  i_blob : bool;                 (* SignBlob (true) or Sign (false) *)
  i_mt : string;                 (* requested envelope media type *)
  i_mt_ok : bool;                (* notation-core-go has that envelope type registered *)
  i_keyid : string;              (* key id the signer was created for *)
  i_dmt : string; i_ddg : string; i_dsz : Z; i_dann : amap;   (* requested descriptor *)
  i_meta : meta; i_dk : dkans; i_gs : gsans; i_ge : geans }.

Definition payload_type : string := "application/vnd.cncf.notary.payload.v1+json".

(* ---------- observations ---------- *)
Inductive eclass :=
| EMeta | ENoCap | EDescribe | EKeyId | EKeySpec | EFormat
| EGenSig | EKeyId2 | EChainParse | ECore | EVerify
| EGenEnv | EEcho | EParse | ECtype | EUnmarshal | EDescChanged | EUnknownAttr | EOther
| ENilMeta | ENilDK | ENilGS | ENilGE.   (* a command answered a nil response with a nil error *)

(* what notation-core-go and the tree reader say about the bytes that were
   returned when they are not the very bytes the plugin answered with *)
Record retfacts := mk_ret {
  r_verifies : bool; r_ctype : string;
  r_mt : string; r_dg : string; r_sz : Z; r_ann : amap;   (* descriptor Go decodes from the payload *)
  r_clean : bool;                (* payload is exactly {"targetArtifact":{known members, no duplicates}} *)
  r_chain_is_plugins : bool;     (* certificate chain of the envelope = chain of generate-signature *)
  r_alg : option alg }.          (* signature algorithm of the envelope *)

Inductive result :=
| RSig (same : bool) (rf : option retfacts)   (* same = the plugin's envelope bytes, untouched *)
| RErr (e : eclass)
| RPanic.

Record obs := mk_obs {
  o_res : result;
  o_gs_req : option (string * string);   (* key spec and hash names sent to generate-signature *)
  o_digest_alg : N }.                    (* SignBlob: hash bits handed to the descriptor generator, 0 = not called *)

(* ---------- getKeySpec ---------- *)
Definition get_keyspec (i : input) : eclass + kspec :=
  match i_dk i with
  | DKErr => inl EDescribe
  | DKAns kid ks =>
      if negb (String.eqb (i_keyid i) kid) then inl EKeyId
      else match decode_keyspec ks with
           | Some k => inr k
           | None => inl EKeySpec
           end
  end.

(* ---------- isPayloadDescriptorValid ---------- *)
Definition content_equal (i : input) (d : dsc) : bool :=
  String.eqb (i_dmt i) (d_mt d) && String.eqb (i_ddg i) (d_dg d) && (i_dsz i =? d_sz d)%Z.

(* for k, v := range original.Annotations { v2, ok := new[k]; !ok || v != v2 => false } *)
Definition ann_subset (orig new : amap) : bool :=
  forallb (fun kv => match lookup (fst kv) new with
                     | Some v2 => String.eqb (snd kv) v2
                     | None => false
                     end) orig.

Definition payload_desc_valid (i : input) (d : dsc) : bool :=
  content_equal i d && (content_equal i d && ann_subset (i_dann i) (d_ann d)).

(* ---------- generateSignatureEnvelope ---------- *)
Definition gen_envelope (i : input) : result :=
  match i_ge i with
  | GEErr => RErr EGenEnv
  | GEAns f =>
      if negb (String.eqb (ge_type f) (i_mt i)) then RErr EEcho
      else if negb (i_mt_ok i) then RErr EFormat          (* ParseEnvelope: unknown media type *)
      else if negb (ge_parse f) then RErr EParse
      else if negb (ge_verify f) then RErr EVerify
      else if negb (String.eqb (ge_ctype f) payload_type) then RErr ECtype
      else match ge_payload f with
           | None => RErr EUnmarshal
           | Some j =>
               match dec_payload j with
               | None => RErr EUnmarshal
               | Some d =>
                   if negb (payload_desc_valid i d) then RErr EDescChanged
                   else match unknown_attrs j with
                        | [] => RSig true None
                        | _ => RErr EUnknownAttr
                        end
               end
           end
  end.

(* ---------- generateSignature: GenericSigner.Sign over pluginPrimitiveSigner ---------- *)
(* the descriptor in the payload the generic signer builds itself:
   SanitizeTargetArtifact keeps media type, digest, size and annotations *)
Definition built_ret (i : input) (a : alg) : retfacts :=
  mk_ret true payload_type (i_dmt i) (i_ddg i) (i_dsz i) (i_dann i) true true (Some a).

Definition gen_signature (i : input) (k : kspec) : result * option (string * string) :=
  if negb (i_mt_ok i) then (RErr EFormat, None)            (* signature.NewEnvelope *)
  else
    match encode_keyspec k, hash_of_keyspec k, alg_of_keyspec k with
    | Some ksn, Some hn, Some a =>
        let req := Some (ksn, hn) in
        match i_gs i with
        | GSErr => (RErr EGenSig, req)
        | GSAns f =>
            if negb (String.eqb (i_keyid i) (gs_keyid f)) then (RErr EKeyId2, req)
            else if negb (gs_chain_parse f) then (RErr EChainParse, req)
            (* notation-core-go Envelope.Sign: content and certificate chain checks *)
            else if gs_sig_empty f then (RErr ECore, req)
            else if (gs_chain_len f =? 0)%N then (RErr ECore, req)
            else if negb (gs_chain_valid f) then (RErr ECore, req)
            else if negb (opt_eqb alg_eqb (gs_leaf_alg f) (Some a)) then (RErr ECore, req)
            (* sigEnv.Verify() *)
            else if negb (gs_sig_ok f) then (RErr EVerify, req)
            else (RSig false (Some (built_ret i a)), req)
        end
    | _, _, _ => (RErr EOther, None)      (* unreachable for a decoded key spec *)
    end.

(* ---------- PluginSigner.Sign / SignBlob ---------- *)
Definition bits_of (k : kspec) : N :=
  match alg_of_keyspec k with Some a => hash_bits a | None => 0%N end.

Definition model (i : input) : obs :=
  match i_meta i with
  | MErr => mk_obs (RErr EMeta) None 0
  | MCaps raw env =>
      if i_blob i then
        (* SignBlob: describe-key first, whatever the capability *)
        match get_keyspec i with
        | inl e => mk_obs (RErr e) None 0
        | inr k =>
            if raw then let '(r, q) := gen_signature i k in mk_obs r q (bits_of k)
            else if env then mk_obs (gen_envelope i) None (bits_of k)
            else mk_obs (RErr ENoCap) None (bits_of k)
        end
      else if raw then
        match get_keyspec i with
        | inl e => mk_obs (RErr e) None 0
        | inr k => let '(r, q) := gen_signature i k in mk_obs r q 0
        end
      else if env then mk_obs (gen_envelope i) None 0
      else mk_obs (RErr ENoCap) None 0
  end.

(* input contract: the requested annotations come from a Go map (distinct keys) *)
Fixpoint nodup_keys (m : amap) : bool :=
  match m with
  | [] => true
  | (k, _) :: m' => negb (mem_str k (map fst m')) && nodup_keys m'
  end.
Definition wf (i : input) : bool := nodup_keys (i_dann i).

(* ---------- boolean equalities ---------- *)
Definition eclass_code (e : eclass) : N :=
  match e with
  | EMeta => 1 | ENoCap => 2 | EDescribe => 3 | EKeyId => 4 | EKeySpec => 5 | EFormat => 6
  | EGenSig => 7 | EKeyId2 => 8 | EChainParse => 9 | ECore => 10 | EVerify => 11
  | EGenEnv => 12 | EEcho => 13 | EParse => 14 | ECtype => 15 | EUnmarshal => 16
  | EDescChanged => 17 | EUnknownAttr => 18 | EOther => 19
  | ENilMeta => 20 | ENilDK => 21 | ENilGS => 22 | ENilGE => 23
  end%N.
Definition eclass_eqb (a b : eclass) : bool := (eclass_code a =? eclass_code b)%N.

Definition pair_eqb (a b : string * string) : bool :=
  String.eqb (fst a) (fst b) && String.eqb (snd a) (snd b).

Definition amap_eqb (a b : amap) : bool := list_eqb pair_eqb a b.

Definition ret_eqb (a b : retfacts) : bool :=
  Bool.eqb (r_verifies a) (r_verifies b) && String.eqb (r_ctype a) (r_ctype b)
  && String.eqb (r_mt a) (r_mt b) && String.eqb (r_dg a) (r_dg b) && (r_sz a =? r_sz b)%Z
  && amap_eqb (r_ann a) (r_ann b) && Bool.eqb (r_clean a) (r_clean b)
  && Bool.eqb (r_chain_is_plugins a) (r_chain_is_plugins b)
  && opt_eqb alg_eqb (r_alg a) (r_alg b).

Definition result_eqb (a b : result) : bool :=
  match a, b with
  | RSig s1 f1, RSig s2 f2 => Bool.eqb s1 s2 && opt_eqb ret_eqb f1 f2
  | RErr e1, RErr e2 => eclass_eqb e1 e2
  | RPanic, RPanic => true
  | _, _ => false
  end.

Definition obs_eqb (a b : obs) : bool :=
  result_eqb (o_res a) (o_res b)
  && opt_eqb pair_eqb (o_gs_req a) (o_gs_req b)
  && (o_digest_alg a =? o_digest_alg b)%N.

(* ---------- the property oracle, evaluated on what the implementation did ----------
   It does not call [model]; it reads the plugin's answers, the library facts
   and the observation. A returned signature must be justified:

   envelope path (plugin without the raw capability, with the envelope one):
     the returned bytes are the plugin's envelope, of the requested format,
     parsing and verifying under its own chain, of the Notary payload type,
     whose payload decodes (as Go reads it) to the requested media type, digest
     and size, with every requested annotation present unchanged, and whose
     tree has no member besides "targetArtifact" and the descriptor members;
   raw path (plugin with the raw capability):
     describe-key and generate-signature answered for the requested key id,
     the key spec decodes, the chain parses, is not empty, is a valid
     code-signing chain whose leaf key calls for the algorithm of the key
     spec, the signature verifies under the leaf key; and the envelope that is
     returned verifies, has the Notary payload type, carries the plugin's
     chain, the key spec's algorithm, and exactly the requested descriptor. *)
Definition env_accept (i : input) : bool :=
  match i_ge i with
  | GEErr => false
  | GEAns f =>
      String.eqb (ge_type f) (i_mt i) && i_mt_ok i && ge_parse f && ge_verify f
      && String.eqb (ge_ctype f) payload_type
      && match ge_payload f with
         | None => false
         | Some j =>
             match dec_payload j with
             | None => false
             | Some d => content_equal i d && ann_subset (i_dann i) (d_ann d) && tree_clean j
             end
         end
  end.

Definition dk_accept (i : input) : option alg :=
  match i_dk i with
  | DKErr => None
  | DKAns kid ks =>
      if String.eqb kid (i_keyid i) then
        match decode_keyspec ks with Some k => alg_of_keyspec k | None => None end
      else None
  end.

Definition raw_accept (i : input) (a : alg) : bool :=
  i_mt_ok i
  && match i_gs i with
     | GSErr => false
     | GSAns f =>
         String.eqb (gs_keyid f) (i_keyid i) && gs_chain_parse f && negb (gs_sig_empty f)
         && negb (gs_chain_len f =? 0)%N && gs_chain_valid f
         && opt_eqb alg_eqb (gs_leaf_alg f) (Some a) && gs_sig_ok f
     end.

(* the plugin answers for which a signature may be returned, path by path *)
Definition is_some {A} (x : option A) : bool := match x with Some _ => true | None => false end.

Definition accepts (i : input) : bool :=
  match i_meta i with
  | MErr => false
  | MCaps raw env =>
      if raw then match dk_accept i with Some a => raw_accept i a | None => false end
      else if env then env_accept i && (if i_blob i then is_some (dk_accept i) else true)
      else false
  end.

Definition ret_ok (i : input) (a : alg) (r : retfacts) : bool :=
  r_verifies r && String.eqb (r_ctype r) payload_type
  && String.eqb (r_mt r) (i_dmt i) && String.eqb (r_dg r) (i_ddg i) && (r_sz r =? i_dsz i)%Z
  && ann_subset (i_dann i) (r_ann r) && r_clean r && r_chain_is_plugins r
  && opt_eqb alg_eqb (r_alg r) (Some a).

Definition sig_justified (i : input) (same : bool) (rf : option retfacts) : bool :=
  match i_meta i with
  | MErr => false
  | MCaps raw env =>
      if raw then
        match dk_accept i, rf with
        | Some a, Some r => negb same && raw_accept i a && ret_ok i a r
        | _, _ => false
        end
      else if env then
        same && env_accept i && (if i_blob i then match dk_accept i with Some _ => true | None => false end else true)
      else false
  end.

Definition spec_ok (i : input) (o : obs) : bool :=
  match o_res o with
  | RPanic => false
  | RErr _ => true
  | RSig same rf => sig_justified i same rf
  end.

(* ---------- a command that answers (nil, nil): a nil response with a nil error ----------
   [input] describes the NON-nil answers of the four commands (an error comes with a nil
   response and is handled: MErr / DKErr / GSErr / GEErr). A plugin.SignPlugin written in Go
   may also return a nil response together with a nil error. [nils] says which commands do;
   the answer of such a command in [input] is then not looked at. [model_n no_nils] is
   [model]. Since fix 0b937c8 the signer checks every response it is about to read:
     Sign / SignBlob            metadata == nil  -> error, before anything else
     describeKey                resp == nil      -> error (getKeySpec returns it)
     generateSignatureEnvelope  resp == nil      -> error, before the type echo check
     pluginPrimitiveSigner.Sign resp == nil      -> error (comes back through Envelope.Sign)
   (plugin.CLIPlugin never answers nil: it returns the address of a local response value.) *)
Record nils := mk_nils { n_meta : bool; n_dk : bool; n_gs : bool; n_ge : bool }.
Definition no_nils : nils := mk_nils false false false false.
Definition any_nil (n : nils) : bool := n_meta n || n_dk n || n_gs n || n_ge n.

Definition gen_signature_n (n : nils) (i : input) (k : kspec) : result * option (string * string) :=
  if n_gs n then
    if negb (i_mt_ok i) then (RErr EFormat, None)
    else match encode_keyspec k, hash_of_keyspec k, alg_of_keyspec k with
         | Some ksn, Some hn, Some _ => (RErr ENilGS, Some (ksn, hn))   (* the command was called *)
         | _, _, _ => (RErr EOther, None)
         end
  else gen_signature i k.

Definition gen_envelope_n (n : nils) (i : input) : result :=
  if n_ge n then RErr ENilGE else gen_envelope i.

Definition get_keyspec_n (n : nils) (i : input) : eclass + kspec :=
  if n_dk n then inl ENilDK else get_keyspec i.

Definition model_n (n : nils) (i : input) : obs :=
  if n_meta n then mk_obs (RErr ENilMeta) None 0
  else
  match i_meta i with
  | MErr => mk_obs (RErr EMeta) None 0
  | MCaps raw env =>
      if i_blob i then
        match get_keyspec_n n i with
        | inl e => mk_obs (RErr e) None 0
        | inr k =>
            if raw then let '(r, q) := gen_signature_n n i k in mk_obs r q (bits_of k)
            else if env then mk_obs (gen_envelope_n n i) None (bits_of k)
            else mk_obs (RErr ENoCap) None (bits_of k)
        end
      else if raw then
        match get_keyspec_n n i with
        | inl e => mk_obs (RErr e) None 0
        | inr k => let '(r, q) := gen_signature_n n i k in mk_obs r q 0
        end
      else if env then mk_obs (gen_envelope_n n i) None 0
      else mk_obs (RErr ENoCap) None 0
  end.

(* ---------- the signer as it was before fix 0b937c8 (kept as a named variant) ----------
   The response of every command was dereferenced without a nil check:
     Sign     signer/plugin.go:96   metadata.Name (argument of the Debugf call)
     SignBlob :138 metadata.Name, AFTER getKeySpec and the descriptor generator
     getKeySpec :154 descKeyResp.KeyID;  generateSignatureEnvelope :201 resp.SignatureEnvelopeType
     pluginPrimitiveSigner.Sign :374 resp.KeyID (inside notation-core-go's Envelope.Sign, not recovered)
   Refuted in C18_Audit (nil_answer_v0_refuted). *)
Definition gen_signature_v0 (n : nils) (i : input) (k : kspec) : result * option (string * string) :=
  if n_gs n then
    if negb (i_mt_ok i) then (RErr EFormat, None)
    else match encode_keyspec k, hash_of_keyspec k, alg_of_keyspec k with
         | Some ksn, Some hn, Some _ => (RPanic, Some (ksn, hn))
         | _, _, _ => (RErr EOther, None)
         end
  else gen_signature i k.

Definition get_keyspec_v0 (n : nils) (i : input) : result + kspec :=
  if n_dk n then inl RPanic
  else match get_keyspec i with inl e => inl (RErr e) | inr k => inr k end.

Definition model_n_v0 (n : nils) (i : input) : obs :=
  if n_meta n then
    if i_blob i then
      match get_keyspec_v0 n i with
      | inl r => mk_obs r None 0
      | inr k => mk_obs RPanic None (bits_of k)
      end
    else mk_obs RPanic None 0
  else
  match i_meta i with
  | MErr => mk_obs (RErr EMeta) None 0
  | MCaps raw env =>
      if i_blob i then
        match get_keyspec_v0 n i with
        | inl r => mk_obs r None 0
        | inr k =>
            if raw then let '(r, q) := gen_signature_v0 n i k in mk_obs r q (bits_of k)
            else if env then mk_obs (if n_ge n then RPanic else gen_envelope i) None (bits_of k)
            else mk_obs (RErr ENoCap) None (bits_of k)
        end
      else if raw then
        match get_keyspec_v0 n i with
        | inl r => mk_obs r None 0
        | inr k => let '(r, q) := gen_signature_v0 n i k in mk_obs r q 0
        end
      else if env then mk_obs (if n_ge n then RPanic else gen_envelope i) None 0
      else mk_obs (RErr ENoCap) None 0
  end.

(* the nil answers a returned signature would rest on: none may be nil *)
Definition nil_used (n : nils) (i : input) : bool :=
  n_meta n ||
  match i_meta i with
  | MErr => false
  | MCaps raw env =>
      if raw then n_dk n || n_gs n
      else n_ge n || (i_blob i && n_dk n)
  end.

(* the oracle with nil answers: as [spec_ok], and a signature never rests on a nil answer *)
Definition spec_ok_n (n : nils) (i : input) (o : obs) : bool :=
  spec_ok i o && match o_res o with RSig _ _ => negb (nil_used n i) | _ => true end.

(* ---------- cases ---------- *)
Record case := mk_case { c_id : N; c_nils : nils; c_in : input; c_obs : obs }.

Definition run (cs : list case) : list (N * N * N) :=
  run_cases c_id
    (fun c => obs_eqb (model_n (c_nils c) (c_in c)) (c_obs c))
    (fun c => spec_ok_n (c_nils c) (c_in c) (c_obs c))
    (fun _ => 0%N) cs.
