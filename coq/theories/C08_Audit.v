(* C08_Audit.v — lemmas added by the theorem audit (docs/audit/C08.md): the headline of the
   property at the verifier level, order-independence of the WHOLE observation and the
   necessity of validity for it, the private copy as a frame property over arbitrary heaps,
   and the one clause that is false at full strength (a blob statement whose name is blank). *)
From Coq Require Import Permutation Lia.
From NV Require Import Base Regex Generated C08_Model C08_Proofs.
Open Scope string_scope.

(* ------------------------------------------------------------------ *)
(* A. the statement APPLIED by SkipVerify / Verify is the one scoped to the repository *)

Lemma ver_query_oci ref : ver_query (QOci ref) = QOci ref.
Proof. reflexivity. Qed.

Lemma m_verifier_applies i p dg :
  wf i = true -> i_ver i = true -> i_q1 i = QOci (p ++ "@" ++ dg) ->
  contains_byte "@" dg = false -> scope_ok p = true ->
  let d := i_doc i in
  (forall s, In s d -> In p (s_scopes s) ->
     o_ver (model i) = ver_of (RSel s) /\ o_sv (model i) = skipverify_of (RSel s))
  /\ ((forall s, In s d -> ~ In p (s_scopes s)) ->
      (forall w, In w d -> In wildcard (s_scopes w) ->
         o_ver (model i) = ver_of (RSel w) /\ o_sv (model i) = skipverify_of (RSel w))
      /\ ((forall s, In s d -> ~ In wildcard (s_scopes s)) ->
          o_ver (model i) = VNoPolicy /\ o_sv (model i) = 0%N)).
Proof.
  intros W V Q Hd Hs. cbn zeta.
  pose proof (selects (i_doc i) p dg W Hd Hs) as S. cbn zeta in S.
  rewrite model_eq, V, Q. cbn [o_ver o_sv andb is_oci ver_query].
  destruct S as [S1 S2]. split.
  - intros s Hin Hp. destruct (S1 s Hin Hp) as [-> _]. split; reflexivity.
  - intros Hno. destruct (S2 Hno) as [S3 S4]. split.
    + intros w Hin Hw. destruct (S3 w Hin Hw) as [-> _]. split; reflexivity.
    + intros Hnw. rewrite (S4 Hnw). split; reflexivity.
Qed.

(* ... and a reference that is not of the form registry/repository@digest is refused by the
   verifier with the no-applicable-policy error whatever the document lists *)
Lemma m_verifier_refuses_malformed i ref :
  i_ver i = true -> i_q1 i = QOci ref ->
  (contains_byte "@" ref = false \/
   exists p dg, ref = p ++ "@" ++ dg /\ contains_byte "@" dg = false /\ scope_ok p = false) ->
  o_ver (model i) = VNoPolicy /\ o_sv (model i) = 0%N.
Proof.
  intros V Q H. rewrite model_eq, V, Q. cbn [o_ver o_sv andb is_oci ver_query].
  destruct H as [H|(p & dg & -> & Hd & Hs)].
  - rewrite (no_at_refused (i_doc i) ref H). split; reflexivity.
  - rewrite (bad_path_refused (i_doc i) p dg Hd Hs). split; reflexivity.
Qed.

(* B. VerifyBlob: the statement applied is the one of exactly that name; the global one when
   the name is empty; a blank (white-space only) name is refused *)
Lemma blank_empty : blank "" = true.
Proof. reflexivity. Qed.

Lemma ver_query_name n : n <> "" -> ver_query (QName n) = QName n.
Proof.
  intros H. unfold ver_query. destruct (String.eqb n "") eqn:E; [|reflexivity].
  apply String.eqb_eq in E. contradiction.
Qed.

Lemma m_verifier_blob i n :
  wf i = true -> i_ver i = true -> i_q1 i = QName n ->
  let d := i_doc i in
  (* no name: the single global statement, else refused *)
  (n = "" ->
     (forall s, In s d -> s_global s = true -> o_ver (model i) = ver_of (RSel s))
     /\ ((forall s, In s d -> s_global s = false) -> o_ver (model i) = VNoPolicy))
  (* a name: exactly that statement, else refused *)
  /\ (blank n = false ->
     (forall s, In s d -> s_name s = n -> o_ver (model i) = ver_of (RSel s))
     /\ ((forall s, In s d -> s_name s <> n) -> o_ver (model i) = VNoPolicy))
  (* white space only: refused *)
  /\ (n <> "" -> blank n = true -> o_ver (model i) = VNoPolicy).
Proof.
  intros W V Q. cbn zeta. rewrite model_eq, V, Q. cbn [o_ver]. split; [|split].
  - intros ->. cbn [ver_query String.eqb].
    pose proof (blob_global (i_doc i) W) as G. cbn zeta in G. destruct G as [G1 G2]. split.
    + intros s Hin Hg. destruct (G1 s Hin Hg) as [-> _]. reflexivity.
    + intros Hn. rewrite (G2 Hn). reflexivity.
  - intros B. assert (Hne : n <> "") by (intros ->; discriminate).
    rewrite (ver_query_name n Hne).
    pose proof (blob_name (i_doc i) n W B) as G. cbn zeta in G. destruct G as [G1 G2]. split.
    + intros s Hin Hs. destruct (G1 s Hin Hs) as [-> _]. reflexivity.
    + intros Hn. rewrite (G2 Hn). reflexivity.
  - intros Hne B. rewrite (ver_query_name n Hne), (blob_blank (i_doc i) n B). reflexivity.
Qed.

(* ------------------------------------------------------------------ *)
(* C. order: the WHOLE observation (both selections, the document afterwards, SkipVerify,
   Verify / VerifyBlob) is invariant under permutation of a valid document *)

Lemma m_order_whole d d' acc acc' q1 ws q2 ver rep rep' :
  valid_doc d = true -> Permutation d d' ->
  model (mk_input d' acc' q1 ws q2 ver rep') = model (mk_input d acc q1 ws q2 ver rep).
Proof.
  intros W P. rewrite !model_eq. cbn [i_doc i_q1 i_q2 i_ver].
  rewrite !(order d d' _ W P). reflexivity.
Qed.

(* D. ... and validity is needed: when two statements list the same scope (which Validate
   rejects) the loop keeps the LAST one, so the answer follows the order *)
Definition dup_doc : list stmt :=
  [mk_stmt "p0" ["reg.io/a/b"] (mk_sv "strict" [] "") ["ca:k0"] ["*"] false;
   mk_stmt "p1" ["reg.io/a/b"] (mk_sv "strict" [] "") ["ca:k1"] ["*"] false].

Lemma order_invalid_refuted :
  exists i i', wf i = false /\ Permutation (i_doc i) (i_doc i') /\ i_q1 i' = i_q1 i
               /\ o_r1 (model i') <> o_r1 (model i).
Proof.
  exists (mk_input dup_doc false (QOci "reg.io/a/b@sha256:00") [] QGlobal false false),
         (mk_input (rev dup_doc) false (QOci "reg.io/a/b@sha256:00") [] QGlobal false false).
  split; [vm_compute; reflexivity|]. split; [apply Permutation_rev|]. split; [reflexivity|].
  vm_compute. intros E. discriminate E.
Qed.

(* ------------------------------------------------------------------ *)
(* E. the private copy as a frame property: on ANY heap that coincides with the heap holding
   the document on the document's own objects — whatever else it contains, whatever was done
   to every other object — each selection answers as on the pristine document, only appends
   to the heap (writes nothing that existed), and builds the statement it hands out from
   objects it allocates itself: nothing is shared with the document, with statements handed
   out earlier, or with anything else *)

Lemma select_frame rep d h0 doc h q :
  load_doc rep [] d = (h0, doc) ->
  (forall o, (o < List.length h0)%nat -> nth_error h o = nth_error h0 o) ->
  (List.length h0 <= List.length h)%nat ->
  res_view (h_select true h doc q) = v_select d q
  /\ (exists e, fst (h_select true h doc q) = (h ++ e)%list)
  /\ (forall p, snd (h_select true h doc q) = HSel p ->
        forall o, In o (reach (fst (h_select true h doc q)) p) -> (List.length h <= o)%nat).
Proof.
  intros E A L. destruct (loaded rep d h0 doc E) as [F M].
  (* the selection is analysed relative to the CURRENT heap h: everything it hands out is
     allocated at or above [length h] *)
  assert (F' : Forall (closed (List.length h) h) doc).
  { eapply Forall_impl; [|exact F]. intros sid C.
    eapply closed_mono; [exact L|]. eapply closed_agree; [exact A | exact C]. }
  destruct (h_select true h doc q) as [h1 r] eqn:ES. cbn [fst snd].
  destruct (h_select_ref _ h doc h q h1 r F' (agree_refl _ _) (le_n _) ES) as (X & V & P).
  split; [|split].
  - rewrite V. rewrite (views_agree _ h0 h doc F A), M. reflexivity.
  - exact X.
  - intros p Hp. destruct (P p Hp) as (P1 & P2 & P3).
    intros o. unfold reach. cbn [In]. intros [<-|Ho]; [exact P1|].
    destruct (nth_error h1 p) as [ob|]; [|contradiction]. exact (P3 ob eq_refl o Ho).
Qed.

(* ------------------------------------------------------------------ *)
(* F. "for blobs the statement is the one with exactly the requested name" is FALSE at full
   strength: a statement whose name consists of white space only is never handed out, not
   even for exactly its own name (GetApplicableTrustPolicy trims the requested name before
   the emptiness test, Validate only rejects the empty name). *)
Definition blank_doc : list stmt :=
  [mk_stmt " " [] (mk_sv "strict" [] "") ["ca:k0"] ["*"] false;
   mk_stmt "g" [] (mk_sv "strict" [] "") ["ca:k1"] ["*"] true].

Lemma blob_name_full_refuted :
  exists i n s, wf i = true /\ i_q1 i = QName n /\ In s (i_doc i) /\ s_name s = n
                /\ o_r1 (model i) = RErr 4 /\ o_ver (model i) = VNoPolicy.
Proof.
  exists (mk_input blank_doc true (QName " ") [] (QName " ") true false), " ",
         (mk_stmt " " [] (mk_sv "strict" [] "") ["ca:k0"] ["*"] false).
  split; [vm_compute; reflexivity|]. split; [reflexivity|]. split; [left; reflexivity|].
  split; [reflexivity|]. split; vm_compute; reflexivity.
Qed.

(* what does hold: every statement whose name is not blank is the answer to its own name *)
Lemma m_blob_every_named_statement_selectable i s :
  wf i = true -> In s (i_doc i) -> blank (s_name s) = false -> i_q1 i = QName (s_name s) ->
  o_r1 (model i) = RSel s.
Proof.
  intros W Hin B Q. pose proof (m_blob_name i (s_name s) W Q B) as G. cbn zeta in G.
  destruct G as [G _]. destruct (G s Hin eq_refl) as [R _]. exact R.
Qed.

(* G. every listed scope that has the registry/repository form selects its statement *)
Lemma m_every_listed_scope_selectable i s p dg :
  wf i = true -> In s (i_doc i) -> In p (s_scopes s) -> scope_ok p = true ->
  contains_byte "@" dg = false -> i_q1 i = QOci (p ++ "@" ++ dg) ->
  o_r1 (model i) = RSel s.
Proof.
  intros W Hin Hp Hs Hd Q. pose proof (m_selects i p dg W Q Hd Hs) as G. cbn zeta in G.
  destruct G as [G _]. destruct (G s Hin Hp) as [R _]. exact R.
Qed.
