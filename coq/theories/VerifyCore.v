(* VerifyCore.v — model of verifier.processSignature (verifier/verifier.go) and
   its helpers in verifier/helpers.go: plugin discovery, capability routing,
   sequential validations with early exit on enforced failures, plugin
   execution and processPluginResponse. Definitions only.

   External facts are inputs (record [scenario]): what notation-core-go, the
   trust store, the revocation validator, the plugin manager and the plugin
   answered for this signature. The refinement of [s_auth] from stores is
   C03's model, of [s_rev_ok] C05's, of [s_ts_ok]/[s_expired] C06's, of
   [s_identity_ok] C04's. *)
From NV Require Import Base Regex Generated C02_Levels.
Open Scope string_scope.
Open Scope list_scope.

Inductive vtype := TIntegrity | TAuth | TExpiry | TTimestamp | TRev.
Inductive cap := CapTI | CapRev | CapOther.

Definition cap_eqb (a b : cap) : bool :=
  match a, b with CapTI, CapTI | CapRev, CapRev | CapOther, CapOther => true | _, _ => false end.
Definition has_cap (c : cap) (l : list cap) : bool := existsb (cap_eqb c) l.

Definition vtype_eqb (a b : vtype) : bool :=
  match a, b with
  | TIntegrity, TIntegrity | TAuth, TAuth | TExpiry, TExpiry | TTimestamp, TTimestamp | TRev, TRev => true
  | _, _ => false
  end.

(* state of one of the two plugin header attributes in the signature *)
Inductive attr := AAbsent | ANotCritical | ANotString | AStr (s : string).

(* plugin manager / installed plugin *)
Inductive pm :=
| PMNil                       (* verifier has no plugin manager *)
| PMNotInstalled              (* Get returns an error *)
| PMMetaErr                   (* GetMetadata returns an error *)
| PMPlugin (ver_valid : bool)       (* semver.IsValid(metadata.Version) *)
           (ver_ge_min : bool)      (* isRequiredVerificationPluginVer(version, min) *)
           (caps : list cap).       (* metadata.Capabilities, in order *)

(* plugin answer to verify-signature *)
Inductive presp :=
| PErr
| PResp (processed : list string) (ti : option bool) (rev : option bool).

Record scenario := mk_sc {
  s_integrity_ok : bool;            (* envelope parses, verifies, payload type ok *)
  s_plugin_attr : attr;             (* io.cncf.notary.verificationPlugin *)
  s_minver_attr : attr;             (* io.cncf.notary.verificationPluginMinVersion *)
  s_minver_valid : bool;            (* semver.IsValid of its value *)
  s_other_crit : list string;       (* other critical extended attributes with string keys *)
  s_nonstring_crit : bool;          (* a critical extended attribute whose key is not a string *)
  s_auth : N;                       (* 0 authentic; 1 trust store load error; 2 no trusted certificate
                                       loaded; 3 chain has no trusted certificate; 4 other error *)
  s_identity_ok : bool;             (* native trusted-identity check *)
  s_expired : bool;
  s_ts_ok : bool;                   (* native authentic-timestamp check *)
  s_rev_ok : bool;                  (* native revocation check *)
  s_pm : pm;
  s_presp : presp }.

(* error classes observable on the value returned by Verify *)
Inductive err :=
| ENone
| EResult (t : vtype)     (* the Error of the reported result of type t *)
| EInconclusive           (* notation.ErrorVerificationInconclusive, not a result's error *)
| EOther.

Definition err_eqb (a b : err) : bool :=
  match a, b with
  | ENone, ENone | EInconclusive, EInconclusive | EOther, EOther => true
  | EResult s, EResult t => vtype_eqb s t
  | _, _ => false
  end.

Record result := mk_res { r_type : vtype; r_action : action; r_failed : bool }.

Definition result_eqb (a b : result) : bool :=
  vtype_eqb (r_type a) (r_type b) && action_eqb (r_action a) (r_action b) && Bool.eqb (r_failed a) (r_failed b).

Record obs := mk_obs {
  o_err : err;
  o_results : list result;
  o_rev_called : bool;                          (* the native revocation validator was consulted *)
  o_pm_get : list string;                       (* names passed to pluginManager.Get *)
  o_exec : option (list cap * list string) }.   (* verify-signature request: capabilities, attributes to process *)

Definition opt_exec_eqb (a b : option (list cap * list string)) : bool :=
  match a, b with
  | None, None => true
  | Some (c1, a1), Some (c2, a2) => list_eqb cap_eqb c1 c2 && list_eqb String.eqb a1 a2
  | _, _ => false
  end.

Definition obs_eqb (a b : obs) : bool :=
  err_eqb (o_err a) (o_err b) && list_eqb result_eqb (o_results a) (o_results b)
  && Bool.eqb (o_rev_called a) (o_rev_called b) && list_eqb String.eqb (o_pm_get a) (o_pm_get b)
  && opt_exec_eqb (o_exec a) (o_exec b).

(* strings.TrimSpace(s) == "" for ASCII strings *)
Definition is_space (c : N) : bool :=
  ((c =? 32) || (c =? 9) || (c =? 10) || (c =? 11) || (c =? 12) || (c =? 13))%N.
Definition blank (s : string) : bool := forallb is_space (bytes s).

Definition is_critical_failure (a : action) (failed : bool) : bool :=
  match a with Enforce => failed | _ => false end.

(* --- plugin discovery: getVerificationPlugin .. capability filter --- *)
Inductive discovery :=
| DErr (e : err) (gets : list string)       (* processSignature returns here *)
| DNoPlugin                                 (* attribute absent *)
| DPlugin (name : string) (caps : list cap). (* installed, usable: verification capabilities, in order *)

Definition verification_caps (caps : list cap) : list cap :=
  filter (fun c => match c with CapRev | CapTI => true | CapOther => false end) caps.

Definition discover (sc : scenario) : discovery :=
  match s_plugin_attr sc with
  | AAbsent => DNoPlugin
  | ANotCritical | ANotString => DErr EOther []
  | AStr name =>
      if blank name then DErr EOther [] else
      (* getVerificationPluginMinVersion *)
      let minver_err :=
        match s_minver_attr sc with
        | AAbsent => false
        | ANotCritical | ANotString => true
        | AStr v => blank v || negb (s_minver_valid sc)
        end in
      if minver_err then DErr EInconclusive [] else
      match s_pm sc with
      | PMNil => DErr EInconclusive []
      | PMNotInstalled => DErr EInconclusive [name]
      | PMMetaErr => DErr EOther [name]
      | PMPlugin ver_valid ver_ge caps =>
          if negb ver_valid then DErr EInconclusive [name]
          else if negb ver_ge then DErr EInconclusive [name]
          else match verification_caps caps with
               | [] => DErr EInconclusive [name]
               | vc => DPlugin name vc
               end
      end
  end.

(* --- processPluginResponse --- *)
(* results so far, with the authenticity entry possibly rewritten *)
Fixpoint set_auth_failed (rs : list result) : list result :=
  match rs with
  | [] => []
  | r :: rs' => if vtype_eqb (r_type r) TAuth then mk_res TAuth (r_action r) true :: rs'
                else r :: set_auth_failed rs'
  end.

Fixpoint auth_action (rs : list result) : action :=
  match rs with
  | [] => Log
  | r :: rs' => if vtype_eqb (r_type r) TAuth then r_action r else auth_action rs'
  end.

Fixpoint process_caps (lvl : level) (ti rev : option bool) (caps : list cap) (rs : list result)
  : err * list result :=
  match caps with
  | [] => (ENone, rs)
  | CapTI :: caps' =>
      match ti with
      | None => (EInconclusive, rs)
      | Some true => process_caps lvl ti rev caps' rs
      | Some false =>
          let rs' := set_auth_failed rs in
          if is_critical_failure (auth_action rs) true then (EResult TAuth, rs')
          else process_caps lvl ti rev caps' rs'
      end
  | CapRev :: caps' =>
      match rev with
      | None => (EInconclusive, rs)
      | Some ok =>
          let rs' := rs ++ [mk_res TRev (l_rev lvl) (negb ok)] in
          if is_critical_failure (l_rev lvl) (negb ok) then (EResult TRev, rs')
          else process_caps lvl ti rev caps' rs'
      end
  | CapOther :: caps' => process_caps lvl ti rev caps' rs   (* never in capabilitiesToVerify *)
  end.

Definition process_plugin_response (lvl : level) (sc : scenario) (caps : list cap)
           (processed : list string) (ti rev : option bool) (rs : list result) : err * list result :=
  if negb (forallb (fun k => mem_str k processed) (s_other_crit sc)) then (EOther, rs)
  else process_caps lvl ti rev caps rs.

(* --- processSignature --- *)
Definition process_signature (lvl : level) (sc : scenario) : obs :=
  let integ := mk_res TIntegrity Enforce (negb (s_integrity_ok sc)) in
  if negb (s_integrity_ok sc) then mk_obs (EResult TIntegrity) [integ] false [] None else
  match discover sc with
  | DErr e gets => mk_obs e [integ] false gets None
  | d =>
    let '(name, caps, gets) :=
      match d with DPlugin n c => (Some n, c, [n]) | _ => (None, [], []) end in
    (* critical extended attribute with a non-string key *)
    (* NOTE: in the Go code this check sits before the plugin lookup; it is
       modelled by [nonstring_first] below so that the call log is exact *)
    let auth_failed0 := negb (s_auth sc =? 0)%N in
    let rs1 := [integ; mk_res TAuth (l_auth lvl) auth_failed0] in
    if is_critical_failure (l_auth lvl) auth_failed0 then mk_obs (EResult TAuth) rs1 false gets None else
    (* native trusted identity, unless the plugin owns it *)
    let native_ti := negb (has_cap CapTI caps) in
    let auth_failed1 := if native_ti then auth_failed0 || negb (s_identity_ok sc) else auth_failed0 in
    let rs1' := [integ; mk_res TAuth (l_auth lvl) auth_failed1] in
    if native_ti && is_critical_failure (l_auth lvl) auth_failed1 then mk_obs (EResult TAuth) rs1' false gets None else
    let rs2 := rs1' ++ [mk_res TExpiry (l_exp lvl) (s_expired sc)] in
    if is_critical_failure (l_exp lvl) (s_expired sc) then mk_obs (EResult TExpiry) rs2 false gets None else
    let rs3 := rs2 ++ [mk_res TTimestamp (l_ts lvl) (negb (s_ts_ok sc))] in
    if is_critical_failure (l_ts lvl) (negb (s_ts_ok sc)) then mk_obs (EResult TTimestamp) rs3 false gets None else
    let native_rev := negb (action_eqb (l_rev lvl) Skip) && negb (has_cap CapRev caps) in
    let rs4 := if native_rev then rs3 ++ [mk_res TRev (l_rev lvl) (negb (s_rev_ok sc))] else rs3 in
    if native_rev && is_critical_failure (l_rev lvl) (negb (s_rev_ok sc)) then mk_obs (EResult TRev) rs4 true gets None else
    match name with
    | Some _ =>
        let to_verify :=
          filter (fun c => negb (action_eqb (l_rev lvl) Skip && cap_eqb c CapRev)) caps in
        match to_verify with
        | [] => mk_obs ENone rs4 native_rev gets None
        | _ =>
            let exec := Some (to_verify, s_other_crit sc) in
            match s_presp sc with
            | PErr => mk_obs EOther rs4 native_rev gets exec
            | PResp processed ti rev =>
                let '(e, rs5) := process_plugin_response lvl sc to_verify processed ti rev rs4 in
                mk_obs e rs5 native_rev gets exec
            end
        end
    | None =>
        (* no plugin named: nothing can process critical extended attributes *)
        match s_other_crit sc with
        | [] =>
            (* a lone critical min-version attribute is also unprocessed *)
            match s_minver_attr sc with
            | AAbsent | ANotCritical => mk_obs ENone rs4 native_rev gets None
            | _ => mk_obs EInconclusive rs4 native_rev gets None
            end
        | _ => mk_obs EInconclusive rs4 native_rev gets None
        end
    end
  end.

(* the non-string-key check happens right after getVerificationPlugin and
   before the plugin lookup *)
Definition verify_core (lvl : level) (sc : scenario) : obs :=
  if s_integrity_ok sc && s_nonstring_crit sc then
    match s_plugin_attr sc with
    | ANotCritical | ANotString => process_signature lvl sc
    | AStr name => if blank name then process_signature lvl sc
                   else mk_obs EInconclusive [mk_res TIntegrity Enforce false] false [] None
    | AAbsent => mk_obs EInconclusive [mk_res TIntegrity Enforce false] false [] None
    end
  else process_signature lvl sc.
