(* VerifyCore.v — model of verifier.processSignature (verifier/verifier.go) and
   its helpers in verifier/helpers.go: plugin discovery, capability routing,
   sequential validations with early exit on enforced failures, plugin
   execution and processPluginResponse. Definitions only.

   The code mirrored is the one after the fix commits dece1d5, 089b7ea and
   8993cd3 (critical extended attributes that nothing can process).

   External facts are inputs (record [scenario]): what notation-core-go, the
   trust store, the revocation validator, the plugin manager and the plugin
   answered for this signature. The refinement of [s_auth] from stores is
   C03's model, of [s_rev_ok] C05's, of [s_ts_ok]/[s_expired] C06's, of
   [s_identity_ok] C04's. *)
From NV Require Import Base Regex Generated C02_Levels.
Open Scope string_scope.
Open Scope list_scope.

Inductive vtype := TIntegrity | TAuth | TExpiry | TTimestamp | TRev.
Inductive cap := CapTI | CapRev | CapOther.

Definition cap_eqb (a b : cap) : bool :=
  match a, b with CapTI, CapTI | CapRev, CapRev | CapOther, CapOther => true | _, _ => false end.
Definition has_cap (c : cap) (l : list cap) : bool := existsb (cap_eqb c) l.

Definition vtype_eqb (a b : vtype) : bool :=
  match a, b with
  | TIntegrity, TIntegrity | TAuth, TAuth | TExpiry, TExpiry | TTimestamp, TTimestamp | TRev, TRev => true
  | _, _ => false
  end.

(* state of one of the two plugin header attributes in the signature *)
Inductive attr := AAbsent | ANotCritical | ANotString | AStr (s : string).

(* plugin manager / installed plugin *)
Inductive pm :=
| PMNil                       (* verifier has no plugin manager *)
| PMNotInstalled              (* Get returns an error *)
| PMMetaErr                   (* GetMetadata returns an error *)
| PMPlugin (ver_valid : bool)       (* semver.IsValid(metadata.Version) *)
           (ver_ge_min : bool)      (* isRequiredVerificationPluginVer(version, min) *)
           (caps : list cap).       (* metadata.Capabilities, in order *)

(* plugin answer to verify-signature *)
Inductive presp :=
| PErr
| PResp (processed : list string) (ti : option bool) (rev : option bool).

Record scenario := mk_sc {
  s_integrity_ok : bool;            (* envelope parses, verifies, payload type ok *)
  s_plugin_attr : attr;             (* io.cncf.notary.verificationPlugin *)
  s_minver_attr : attr;             (* io.cncf.notary.verificationPluginMinVersion *)
  s_minver_valid : bool;            (* semver.IsValid of its value *)
  s_other : list (string * bool);   (* the other extended attributes with string keys: (key, critical) *)
  s_nonstring_crit : bool;          (* a critical extended attribute whose key is not a string *)
  s_auth : N;                       (* 0 authentic; 1 trust store load error; 2 no trusted certificate
                                       loaded; 3 chain has no trusted certificate; 4 other error *)
  s_identity_ok : bool;             (* native trusted-identity check *)
  s_expired : bool;
  s_ts_ok : bool;                   (* native authentic-timestamp check *)
  s_rev_ok : bool;                  (* native revocation check *)
  s_pm : pm;
  s_presp : presp }.

(* getNonPluginExtendedCriticalAttributes as it is now: every extended
   attribute with a string key other than the two plugin headers, critical or not *)
Definition other_keys (sc : scenario) : list string := map fst (s_other sc).
(* those of them that are critical *)
Definition other_crit (sc : scenario) : list string := map fst (filter snd (s_other sc)).

(* error classes observable on the value returned by Verify *)
Inductive err :=
| ENone
| EResult (t : vtype)     (* the Error of the reported result of type t *)
| EInconclusive           (* notation.ErrorVerificationInconclusive, not a result's error *)
| EOther.

Definition err_eqb (a b : err) : bool :=
  match a, b with
  | ENone, ENone | EInconclusive, EInconclusive | EOther, EOther => true
  | EResult s, EResult t => vtype_eqb s t
  | _, _ => false
  end.

Record result := mk_res { r_type : vtype; r_action : action; r_failed : bool }.

Definition result_eqb (a b : result) : bool :=
  vtype_eqb (r_type a) (r_type b) && action_eqb (r_action a) (r_action b) && Bool.eqb (r_failed a) (r_failed b).

Record obs := mk_obs {
  o_err : err;
  o_results : list result;
  o_rev_called : bool;                          (* the native revocation validator was consulted *)
  o_pm_get : list string;                       (* names passed to pluginManager.Get *)
  o_exec : option (list cap * list string) }.   (* verify-signature request: capabilities, attributes to process *)

Definition opt_exec_eqb (a b : option (list cap * list string)) : bool :=
  match a, b with
  | None, None => true
  | Some (c1, a1), Some (c2, a2) => list_eqb cap_eqb c1 c2 && list_eqb String.eqb a1 a2
  | _, _ => false
  end.

Definition obs_eqb (a b : obs) : bool :=
  err_eqb (o_err a) (o_err b) && list_eqb result_eqb (o_results a) (o_results b)
  && Bool.eqb (o_rev_called a) (o_rev_called b) && list_eqb String.eqb (o_pm_get a) (o_pm_get b)
  && opt_exec_eqb (o_exec a) (o_exec b).

(* strings.TrimSpace(s) == "": Unicode white space (U+0085, U+00A0, U+2028, U+3000 ... as well as the
   ASCII one). [trim_space] is a copy of GoLib.str_trim_space (validated against the Go function by
   bin/goliteselftest; C02_GenProofs.trim_space_is_golib proves the two equal), kept here so that
   the C02 development does not depend on GoLib.v. Until the GoLite equivalence of
   getVerificationPlugin (props/C02_Generated.v) [blank] was ASCII-only: a plugin name made of U+00A0
   was "not blank" for the model, "empty" for the code. *)
Definition is_space (c : N) : bool :=
  ((c =? 32) || (c =? 9) || (c =? 10) || (c =? 11) || (c =? 12) || (c =? 13))%N.
Definition blank_ascii (s : string) : bool := forallb is_space (bytes s).

Definition space_prefix_len (l : list N) : nat :=
  match l with
  | c :: r =>
      if ((9 <=? c) && (c <=? 13) || (c =? 32))%N then 1
      else match r with
           | d :: r' =>
               if ((c =? 194) && ((d =? 133) || (d =? 160)))%N then 2
               else match r' with
                    | e :: _ =>
                        if ((c =? 225) && (d =? 154) && (e =? 128))%N then 3
                        else if ((c =? 226) && (d =? 128) && ((128 <=? e) && (e <=? 138) || (e =? 168) || (e =? 169) || (e =? 175)))%N then 3
                        else if ((c =? 226) && (d =? 129) && (e =? 159))%N then 3
                        else if ((c =? 227) && (d =? 128) && (e =? 128))%N then 3
                        else 0
                    | [] => 0
                    end
           | [] => 0
           end
  | [] => 0
  end.

(* the same, read from the end: the argument is the REVERSED byte list *)
Definition space_suffix_len (l : list N) : nat :=
  match l with
  | c :: r =>
      if ((9 <=? c) && (c <=? 13) || (c =? 32))%N then 1
      else match r with
           | d :: r' =>
               if ((d =? 194) && ((c =? 133) || (c =? 160)))%N then 2
               else match r' with
                    | e :: _ =>
                        if ((e =? 225) && (d =? 154) && (c =? 128))%N then 3
                        else if ((e =? 226) && (d =? 128) && ((128 <=? c) && (c <=? 138) || (c =? 168) || (c =? 169) || (c =? 175)))%N then 3
                        else if ((e =? 226) && (d =? 129) && (c =? 159))%N then 3
                        else if ((e =? 227) && (d =? 128) && (c =? 128))%N then 3
                        else 0
                    | [] => 0
                    end
           | [] => 0
           end
  | [] => 0
  end.

Fixpoint trim_with (f : list N -> nat) (fuel : nat) (l : list N) : list N :=
  match fuel with
  | O => l
  | S fuel' =>
      match f l with
      | O => l
      | n => trim_with f fuel' (skipn n l)
      end
  end.

Definition trim_space (s : string) : string :=
  let l := bytes s in
  let l1 := trim_with space_prefix_len (List.length l) l in
  let l2 := rev (trim_with space_suffix_len (List.length l1) (rev l1)) in
  B l2.

Definition blank (s : string) : bool := String.eqb (trim_space s) "".

(* isCriticalFailure: result.Action == enforce && result.Error != nil *)
Definition is_critical_failure (a : action) (failed : bool) : bool :=
  match a with Enforce => failed | _ => false end.

(* ---------- plugin discovery: getVerificationPlugin .. capability filter ---------- *)
Inductive discovery :=
| DErr (e : err) (gets : list string)       (* processSignature returns here *)
| DNoPlugin                                 (* attribute absent *)
| DPlugin (name : string) (caps : list cap). (* installed, usable: verification capabilities, in order *)

(* for _, capability := range metadata.Capabilities { if revocation || trusted identity { append } } *)
Definition verification_caps (caps : list cap) : list cap :=
  filter (fun c => match c with CapRev | CapTI => true | CapOther => false end) caps.

(* getVerificationPluginMinVersion returns an error other than "does not exist" *)
Definition minver_error (sc : scenario) : bool :=
  match s_minver_attr sc with
  | AAbsent => false
  | ANotCritical | ANotString => true
  | AStr v => blank v || negb (s_minver_valid sc)
  end.

(* if verificationPluginName != "" { ... } *)
Definition lookup_plugin (sc : scenario) (name : string) : discovery :=
  if minver_error sc then DErr EInconclusive [] else
  match s_pm sc with
  | PMNil => DErr EInconclusive []
  | PMNotInstalled => DErr EInconclusive [name]
  | PMMetaErr => DErr EOther [name]
  | PMPlugin ver_valid ver_ge caps =>
      if negb ver_valid then DErr EInconclusive [name]
      else if negb ver_ge then DErr EInconclusive [name]
      else match verification_caps caps with
           | [] => DErr EInconclusive [name]
           | vc => DPlugin name vc
           end
  end.

Definition discover (sc : scenario) : discovery :=
  (* verificationPluginName, err := getVerificationPlugin(...); err other than not-exist: return err *)
  match s_plugin_attr sc with
  | ANotCritical | ANotString => DErr EOther []
  | a =>
      if (match a with AStr name => blank name | _ => false end) then DErr EOther [] else
      (* a critical extended attribute with a non-string key (fix 8993cd3) *)
      if s_nonstring_crit sc then DErr EInconclusive [] else
      match a with
      | AStr name => lookup_plugin sc name
      | _ => DNoPlugin
      end
  end.

(* ---------- the native validations (authenticity .. revocation) ----------
   Returns the error processSignature returns from this part (ENone = it goes
   on), the results appended so far (after the integrity result) and whether
   the revocation validator was consulted. [caps] are the verification
   capabilities of the plugin ([] without plugin). *)
Definition native (lvl : level) (sc : scenario) (caps : list cap) : err * list result * bool :=
  let integ := mk_res TIntegrity Enforce false in
  (* trust store based authenticity *)
  let auth_failed0 := negb (s_auth sc =? 0)%N in
  if is_critical_failure (l_auth lvl) auth_failed0
  then (EResult TAuth, [integ; mk_res TAuth (l_auth lvl) auth_failed0], false) else
  (* native trusted identity, unless the plugin owns it; an error overwrites authenticityResult.Error *)
  let native_ti := negb (has_cap CapTI caps) in
  let auth_failed1 := if native_ti then auth_failed0 || negb (s_identity_ok sc) else auth_failed0 in
  let rs1 := [integ; mk_res TAuth (l_auth lvl) auth_failed1] in
  if native_ti && is_critical_failure (l_auth lvl) auth_failed1 then (EResult TAuth, rs1, false) else
  (* expiry *)
  let rs2 := rs1 ++ [mk_res TExpiry (l_exp lvl) (s_expired sc)] in
  if is_critical_failure (l_exp lvl) (s_expired sc) then (EResult TExpiry, rs2, false) else
  (* authentic timestamp *)
  let rs3 := rs2 ++ [mk_res TTimestamp (l_ts lvl) (negb (s_ts_ok sc))] in
  if is_critical_failure (l_ts lvl) (negb (s_ts_ok sc)) then (EResult TTimestamp, rs3, false) else
  (* revocation: not when skipped by the level, not when the plugin owns it *)
  let native_rev := negb (action_eqb (l_rev lvl) Skip) && negb (has_cap CapRev caps) in
  if native_rev then
    let rs4 := rs3 ++ [mk_res TRev (l_rev lvl) (negb (s_rev_ok sc))] in
    if is_critical_failure (l_rev lvl) (negb (s_rev_ok sc)) then (EResult TRev, rs4, true)
    else (ENone, rs4, true)
  else (ENone, rs3, false).

(* ---------- processPluginResponse ---------- *)
(* the authenticity entry created earlier gets the plugin's error *)
Fixpoint set_auth_failed (rs : list result) : list result :=
  match rs with
  | [] => []
  | r :: rs' => if vtype_eqb (r_type r) TAuth then mk_res TAuth (r_action r) true :: rs'
                else r :: set_auth_failed rs'
  end.

Fixpoint auth_action (rs : list result) : action :=
  match rs with
  | [] => Log
  | r :: rs' => if vtype_eqb (r_type r) TAuth then r_action r else auth_action rs'
  end.

(* for _, capability := range capabilitiesToVerify *)
Fixpoint process_caps (lvl : level) (ti rev : option bool) (caps : list cap) (rs : list result)
  : err * list result :=
  match caps with
  | [] => (ENone, rs)
  | CapTI :: caps' =>
      match ti with
      | None => (EInconclusive, rs)
      | Some true => process_caps lvl ti rev caps' rs
      | Some false =>
          let rs' := set_auth_failed rs in
          if is_critical_failure (auth_action rs) true then (EResult TAuth, rs')
          else process_caps lvl ti rev caps' rs'
      end
  | CapRev :: caps' =>
      match rev with
      | None => (EInconclusive, rs)
      | Some ok =>
          let rs' := rs ++ [mk_res TRev (l_rev lvl) (negb ok)] in
          if is_critical_failure (l_rev lvl) (negb ok) then (EResult TRev, rs')
          else process_caps lvl ti rev caps' rs'
      end
  | CapOther :: caps' => process_caps lvl ti rev caps' rs   (* never in capabilitiesToVerify *)
  end.

(* processPluginResponse, attribute accounting (fix 6f898df): every CRITICAL
   non-plugin extended attribute must be listed as processed; a non-critical
   one need not be *)
Definition crit_processed (sc : scenario) (processed : list string) : bool :=
  forallb (fun k => mem_str k processed) (other_crit sc).

(* before 6f898df: every attribute handed to the plugin, critical or not *)
Definition all_processed (sc : scenario) (processed : list string) : bool :=
  forallb (fun k => mem_str k processed) (other_keys sc).

Definition process_plugin_response (chk : scenario -> list string -> bool) (lvl : level) (sc : scenario)
           (caps : list cap) (processed : list string) (ti rev : option bool) (rs : list result)
  : err * list result :=
  if negb (chk sc processed) then (EOther, rs)
  else process_caps lvl ti rev caps rs.

(* capabilitiesToVerify: the revocation capability is dropped when the level skips revocation *)
Definition caps_to_verify (lvl : level) (caps : list cap) : list cap :=
  filter (fun c => negb (action_eqb (l_rev lvl) Skip && cap_eqb c CapRev)) caps.

(* the signature names no verification plugin: any critical extended
   attribute (this includes a stray critical min-version header) is unprocessable *)
Definition any_critical_attribute (sc : scenario) : bool :=
  match other_crit sc with
  | _ :: _ => true
  | [] => match s_minver_attr sc with AAbsent | ANotCritical => false | _ => true end
  end.

(* ---------- processSignature ----------
   [chk] is the attribute accounting of processPluginResponse: [crit_processed]
   for the code as it is now, [all_processed] for the code before 6f898df *)
Definition process_signature_gen (chk : scenario -> list string -> bool) (lvl : level) (sc : scenario) : obs :=
  if negb (s_integrity_ok sc)
  then mk_obs (EResult TIntegrity) [mk_res TIntegrity Enforce true] false [] None else
  let integ := mk_res TIntegrity Enforce false in
  match discover sc with
  | DErr e gets => mk_obs e [integ] false gets None
  | d =>
    let '(plugin, caps, gets) :=
      match d with DPlugin n c => (true, c, [n]) | _ => (false, [], []) end in
    match native lvl sc caps with
    | (ENone, rs4, called) =>
        let to_verify := caps_to_verify lvl caps in
        match to_verify with
        | _ :: _ =>
            (* if installedPlugin != nil && len(capabilitiesToVerify) > 0 *)
            let exec := Some (to_verify, other_keys sc) in
            match s_presp sc with
            | PErr => mk_obs EOther rs4 called gets exec
            | PResp processed ti rev =>
                let '(e, rs5) := process_plugin_response chk lvl sc to_verify processed ti rev rs4 in
                mk_obs e rs5 called gets exec
            end
        | [] =>
            if negb plugin && any_critical_attribute sc
            then mk_obs EInconclusive rs4 called gets None
            else mk_obs ENone rs4 called gets None
        end
    | (e, rs, called) => mk_obs e rs called gets None
    end
  end.

Definition process_signature := process_signature_gen crit_processed.
Definition verify_core := process_signature.

(* the pre-fix behaviour, kept for C02_noncritical_strictness_v0_refuted *)
Definition verify_core_v0 := process_signature_gen all_processed.
