(* C13_Model.v — model of x509TrustStore.GetCertificates (package truststore) over an
   abstract directory tree. Definitions only. Mirrors, statement by statement,
     verifier/truststore/truststore.go : GetCertificates, ValidateCertificates,
                                         isValidStoreType, isRootCACertificate
     internal/file/file.go             : IsValidFileName (after fix 7fbf478)
     dir/path.go                       : X509TrustStoreDir  (path.Join)
     dir/fs.go                         : sysFS.SysPath      (filepath.Join)
   Outside /repo, inputs of the model (oracle facts, asked by the harness from
   the operating system, notation-core-go and crypto/x509):
     - the directory tree as lstat(2)/readdir(3)/stat(2) show it,
     - per regular file, what corex509.ReadCertificateFile answers (error, or
       the certificates), and per certificate IsCA, CheckSignature on itself,
       CheckSignatureFrom(itself), RawSubject = RawIssuer.                     *)
From NV Require Import Base Regex Generated.
Open Scope string_scope.

(* ---------- certificates and files (oracle facts) ---------- *)

Record cert := mk_cert {
  ct_id : N;             (* identity of the certificate (DER bytes, interned by the harness) *)
  ct_ca : bool;          (* cert.IsCA *)
  ct_selfsig : bool;     (* cert.CheckSignature(cert.SignatureAlgorithm, RawTBS, Signature) = nil *)
  ct_sigfrom : bool;     (* cert.CheckSignatureFrom(cert) = nil *)
  ct_subj_iss : bool }.  (* bytes.Equal(cert.RawSubject, cert.RawIssuer) *)

Inductive content :=
| CErr                         (* ReadCertificateFile returns an error (unreadable / unparsable) *)
| CCerts (cs : list cert).     (* the certificates it returns (possibly none: empty file) *)

(* a directory tree as the kernel shows it; a symbolic link carries what it
   resolves to (None = dangling) *)
Inductive node :=
| NFile (c : content)
| NDir (es : list (string * node))     (* entries in os.ReadDir order *)
| NLink (t : option node).

(* ---------- path resolution by the kernel (oracle semantics) ---------- *)

Fixpoint follow (n : node) : option node :=       (* what stat(2) reaches *)
  match n with
  | NLink None => None
  | NLink (Some m) => follow m
  | _ => Some n
  end.

Fixpoint find_entry (k : string) (es : list (string * node)) : option node :=
  match es with
  | [] => None
  | (k', n) :: es' => if String.eqb k k' then Some n else find_entry k es'
  end.

Inductive lres :=
| LNotExist             (* ENOENT *)
| LOther                (* another error: ENOTDIR *)
| LNode (n : node).

(* os.Lstat of the path with components p below directory d: symbolic links
   in the middle are followed, the last component is not *)
Fixpoint lstat (d : node) (p : list string) : lres :=
  match p with
  | [] => LNode d
  | c :: p' =>
      match follow d with
      | None => LNotExist
      | Some (NDir es) =>
          match find_entry c es with
          | None => LNotExist
          | Some n => lstat n p'
          end
      | Some _ => LOther
      end
  end.

(* ---------- path.Join / filepath.Join on component lists ---------- *)

(* strings.Split(s, "/") *)
Fixpoint split_slash (s : string) : list string :=
  match s with
  | EmptyString => [EmptyString]
  | String a s' =>
      if Ascii.eqb a "/"%char then EmptyString :: split_slash s'
      else match split_slash s' with
           | h :: t => String a h :: t
           | [] => [String a EmptyString]
           end
  end.

(* path.Clean of a relative path given as its components: empty and "."
   components disappear, ".." removes the component before it, leading ".."
   stay ([st] is the reversed output) *)
Fixpoint clean_comps (st : list string) (cs : list string) : list string :=
  match cs with
  | [] => rev st
  | c :: cs' =>
      if String.eqb c "" || String.eqb c "." then clean_comps st cs'
      else if String.eqb c ".." then
        match st with
        | [] => clean_comps [".."] cs'
        | s :: st' => if String.eqb s ".." then clean_comps (".." :: st) cs'
                      else clean_comps st' cs'
        end
      else clean_comps (c :: st) cs'
  end.

(* dir.X509TrustStoreDir(type, name) = path.Join("truststore","x509",type,name):
   the elements are joined with "/" and cleaned; never rooted, the first
   element being "truststore" *)
Definition x509_trust_store_dir (ty name : string) : list string :=
  clean_comps [] (flat_map split_slash ["truststore"; "x509"; ty; name]).

(* sysFS.SysPath = filepath.Join(root, rel), root a clean absolute path: the
   result relative to root; None when leading ".." components leave root *)
Definition sys_path (ty name : string) : option (list string) :=
  let rel := x509_trust_store_dir ty name in
  if existsb (String.eqb "..") rel then None else Some rel.

(* ---------- the checks ---------- *)

Definition is_valid_store_type (ty : string) : bool := mem_str ty gen_store_types.

Definition regex_name_ok (s : string) : bool := matches gen_re_filename s.

(* file.IsValidFileName *)
Definition is_valid_file_name (s : string) : bool :=
  if String.eqb s "." || String.eqb s ".." then false else regex_name_ok s.

(* ValidateCertificates *)
Definition cert_accepted (c : cert) : bool := ct_ca c || ct_selfsig c.
Definition validate_certificates (cs : list cert) : bool :=
  match cs with
  | [] => false
  | _ => forallb cert_accepted cs
  end.

(* isRootCACertificate *)
Definition is_root_ca (c : cert) : bool := ct_sigfrom c && ct_subj_iss c.

Definition is_tsa (ty : string) : bool := String.eqb ty "tsa".

(* ---------- results ---------- *)

Inductive eclass := ETrustStore | ECertificate | EOther.
Inductive ekind :=
| KType | KName | KNotExist | KAccess | KNotDir      (* TrustStoreError sites *)
| KEntryKind | KRead | KValidate | KNotRoot | KEmpty (* CertificateError sites *)
| KUnknown.

Inductive res :=
| Loaded (l : list cert)
| Failed (c : eclass) (k : ekind) (entry : string).

(* the loop over the directory entries; [acc] is the slice [certificates] *)
Fixpoint load_entries (tsa : bool) (es : list (string * node)) (acc : list cert) : res :=
  match es with
  | [] =>
      match acc with
      | [] => Failed ECertificate KEmpty ""
      | _ => Loaded acc
      end
  | (nm, n) :: es' =>
      match n with
      | NDir _ | NLink _ => Failed ECertificate KEntryKind nm
      | NFile CErr => Failed ECertificate KRead nm
      | NFile (CCerts cs) =>
          if negb (validate_certificates cs) then Failed ECertificate KValidate nm
          else if tsa && negb (forallb is_root_ca cs) then Failed ECertificate KNotRoot nm
          else load_entries tsa es' (acc ++ cs)
      end
  end.

(* GetCertificates, parameterised by the name check (to exhibit what the
   exclusion of "." and ".." is needed for) *)
Definition get_certificates (name_ok : string -> bool) (root : node) (ty name : string) : res :=
  if negb (is_valid_store_type ty) then Failed ETrustStore KType ""
  else if negb (name_ok name) then Failed ETrustStore KName ""
  else
    match sys_path ty name with
    | None => Failed ETrustStore KNotExist ""       (* outside the tree; unreachable, see sys_path_valid *)
    | Some p =>
        match lstat root p with
        | LNotExist => Failed ETrustStore KNotExist ""
        | LOther => Failed ETrustStore KAccess ""
        | LNode (NDir es) => load_entries (is_tsa ty) es []
        | LNode _ => Failed ETrustStore KNotDir ""
        end
    end.

(* ---------- input, observation, model ---------- *)

Record input := mk_input {
  i_ty : string;        (* store type as passed by the caller *)
  i_name : string;      (* named store as passed by the caller *)
  i_root : node }.      (* the tree below the root of the SysFS *)

Inductive obs :=
| OOk (ids : list N)                                  (* certificates returned, in order *)
| OErr (c : eclass) (k : ekind) (entry : string).     (* error type, site, entry named *)

Definition load (i : input) : res :=
  get_certificates is_valid_file_name (i_root i) (i_ty i) (i_name i).

Definition obs_of (r : res) : obs :=
  match r with
  | Loaded l => OOk (map ct_id l)
  | Failed c k e => OErr c k e
  end.

Definition model (i : input) : obs := obs_of (load i).

(* no contract is needed: the model is total and the theorems hold for every tree *)
Definition wf (i : input) : bool := true.

(* ---------- declarative vocabulary of the property ---------- *)

Definition store_path (ty name : string) : list string := ["truststore"; "x509"; ty; name].

Definition spec_store_types : list string := ["ca"; "signingAuthority"; "tsa"].
Definition known_type (ty : string) : Prop := In ty spec_store_types.

(* bytes of a plain file name: '-' '.' 0-9 A-Z '_' a-z *)
Definition name_class : list (N * N) := [(45, 46); (48, 57); (65, 90); (95, 95); (97, 122)]%N.
Definition name_byte (c : N) : bool := in_cls c name_class.
Definition plain_name (s : string) : Prop :=
  s <> "" /\ s <> "." /\ s <> ".." /\ Forall (fun c => name_byte c = true) (bytes s).

Definition cert_ok (tsa : bool) (c : cert) : Prop :=
  (ct_ca c = true \/ ct_selfsig c = true) /\
  (tsa = true -> ct_sigfrom c = true /\ ct_subj_iss c = true).

(* a regular file holding one or more parseable, acceptable certificates *)
Definition entry_good (tsa : bool) (e : string * node) : Prop :=
  exists cs, snd e = NFile (CCerts cs) /\ cs <> [] /\ Forall (cert_ok tsa) cs.

Definition certs_of_entry (e : string * node) : list cert :=
  match snd e with
  | NFile (CCerts cs) => cs
  | _ => []
  end.

Definition loadable (root : node) (ty name : string) (l : list cert) : Prop :=
  known_type ty /\ plain_name name /\
  exists es, lstat root (store_path ty name) = LNode (NDir es) /\
             Forall (entry_good (is_tsa ty)) es /\
             l = flat_map certs_of_entry es /\ l <> [].

(* error site of an entry that is not good, in the order the code checks *)
Definition entry_fault (tsa : bool) (n : node) : ekind :=
  match n with
  | NDir _ | NLink _ => KEntryKind
  | NFile CErr => KRead
  | NFile (CCerts cs) => if validate_certificates cs then KNotRoot else KValidate
  end.

(* ---------- the boolean property oracle (on observations only) ---------- *)

Definition plain_nameb (s : string) : bool :=
  negb (String.eqb s "") && negb (String.eqb s ".") && negb (String.eqb s "..")
  && forallb name_byte (bytes s).

Definition cert_okb (tsa : bool) (c : cert) : bool :=
  (ct_ca c || ct_selfsig c) && (negb tsa || (ct_sigfrom c && ct_subj_iss c)).

Definition entry_goodb (tsa : bool) (e : string * node) : bool :=
  match snd e with
  | NFile (CCerts (c :: cs)) => forallb (cert_okb tsa) (c :: cs)
  | _ => false
  end.

(* Some l: the named store is loadable and holds exactly l; None: it is not *)
Definition expected (i : input) : option (list cert) :=
  if mem_str (i_ty i) spec_store_types && plain_nameb (i_name i) then
    match lstat (i_root i) (store_path (i_ty i) (i_name i)) with
    | LNode (NDir (e :: es)) =>
        if forallb (entry_goodb (String.eqb (i_ty i) "tsa")) (e :: es)
        then Some (flat_map certs_of_entry (e :: es)) else None
    | _ => None
    end
  else None.

Definition count_id (x : N) (l : list N) : nat := List.length (filter (N.eqb x) l).
(* same certificates with the same multiplicities *)
Definition same_ids (a b : list N) : bool :=
  forallb (fun x => Nat.eqb (count_id x a) (count_id x b)) (a ++ b).

Definition spec_ok (i : input) (o : obs) : bool :=
  match expected i, o with
  | Some l, OOk ids => same_ids ids (map ct_id l) && negb (Nat.eqb (List.length ids) 0)
  | None, OErr _ _ _ => true
  | _, _ => false
  end.

(* footprint of a violating observation: 1 = certificates returned although the
   named store is not loadable, 2 = a loadable store failed, 3 = wrong set *)
Definition fp (i : input) (o : obs) : N :=
  if spec_ok i o then 0%N else
  match expected i, o with
  | None, OOk _ => 1
  | Some _, OErr _ _ _ => 2
  | Some _, OOk _ => 3
  | None, OErr _ _ _ => 0
  end%N.

(* ---------- boolean equalities ---------- *)
Definition eclass_eqb (a b : eclass) : bool :=
  match a, b with
  | ETrustStore, ETrustStore | ECertificate, ECertificate | EOther, EOther => true
  | _, _ => false
  end.

Definition ekind_eqb (a b : ekind) : bool :=
  match a, b with
  | KType, KType | KName, KName | KNotExist, KNotExist | KAccess, KAccess | KNotDir, KNotDir
  | KEntryKind, KEntryKind | KRead, KRead | KValidate, KValidate | KNotRoot, KNotRoot
  | KEmpty, KEmpty | KUnknown, KUnknown => true
  | _, _ => false
  end.

Definition obs_eqb (a b : obs) : bool :=
  match a, b with
  | OOk x, OOk y => list_eqb N.eqb x y
  | OErr c k e, OErr c' k' e' => eclass_eqb c c' && ekind_eqb k k' && String.eqb e e'
  | _, _ => false
  end.

(* ---------- cases ---------- *)
Record case := mk_case { c_id : N; c_in : input; c_obs : obs }.

Definition run (cs : list case) : list (N * N * N) :=
  run_cases c_id
    (fun c => obs_eqb (model (c_in c)) (c_obs c))
    (fun c => negb (wf (c_in c)) || spec_ok (c_in c) (c_obs c))
    (fun c => fp (c_in c) (c_obs c)) cs.
