(* C06_Proofs.v — lemmas about the expiry / authentic-timestamp model. *)
From NV Require Import Base C06_Model.
Local Open Scope Z_scope.

(* ================= strings: strings.Cut at ':' and the "tsa:" prefix ================= *)

Lemma cut_byte_none c s : cut_byte c s = None <-> contains_byte c s = false.
Proof.
  induction s as [|a s IH]; cbn; [tauto|].
  destruct (Ascii.eqb a c); cbn; [split; discriminate|].
  destruct (cut_byte c s) as [[l r]|]; [|tauto].
  split; [discriminate|]. intros H. apply IH in H. discriminate.
Qed.

Lemma cut_byte_some c s l r : cut_byte c s = Some (l, r) -> s = (l ++ String c r)%string.
Proof.
  revert l; induction s as [|a s IH]; intros l; cbn; [discriminate|].
  destruct (Ascii.eqb a c) eqn:E.
  - intros H; inversion H; subst. apply Ascii.eqb_eq in E; subst. reflexivity.
  - destruct (cut_byte c s) as [[l' r']|]; [|discriminate].
    intros H; inversion H; subst. cbn. f_equal. now apply IH.
Qed.

Lemma has_prefix_cons a p s : has_prefix (String a p) s = true ->
  exists s', s = String a s' /\ has_prefix p s' = true.
Proof.
  destruct s as [|b s']; [discriminate|]. cbn [has_prefix].
  rewrite andb_true_iff, Ascii.eqb_eq. intros [-> H]. now exists s'.
Qed.

Lemma has_prefix_tsa s : has_prefix "tsa:" s = true -> exists r, s = ("tsa:" ++ r)%string.
Proof.
  intros H.
  apply has_prefix_cons in H. destruct H as (s1 & -> & H).
  apply has_prefix_cons in H. destruct H as (s2 & -> & H).
  apply has_prefix_cons in H. destruct H as (s3 & -> & H).
  apply has_prefix_cons in H. destruct H as (s4 & -> & H).
  now exists s4.
Qed.

(* what strings.Cut(s, ":") says about a value with a separator: the type is
   "tsa" exactly when the value starts with "tsa:", and the name is the rest *)
Lemma cut_tsa s ty name : cut_byte colon s = Some (ty, name) ->
  String.eqb ty "tsa" = is_tsa_store s /\ (is_tsa_store s = true -> name = drop 4 s).
Proof.
  intros H. unfold is_tsa_store.
  destruct (has_prefix "tsa:" s) eqn:P.
  - destruct (has_prefix_tsa _ P) as [r ->]. cbn in H. inversion H; subst. now split.
  - split; [|discriminate]. apply cut_byte_some in H. subst s.
    destruct (String.eqb ty "tsa") eqn:E; [|reflexivity].
    apply String.eqb_eq in E. subst ty. cbn in P. discriminate.
Qed.

Lemma mem_str_In x l : mem_str x l = true -> In x l.
Proof.
  unfold mem_str. rewrite existsb_exists. intros (y & Hin & E).
  apply String.eqb_eq in E. now subst.
Qed.

(* ================= isTSATrustStoreInPolicy ================= *)

Lemma tsa_in_policy_wf stores : forallb (contains_byte colon) stores = true ->
  tsa_in_policy stores = Some (existsb is_tsa_store stores).
Proof.
  induction stores as [|s r IH]; [reflexivity|]. cbn [forallb tsa_in_policy existsb].
  rewrite andb_true_iff. intros [Hs Hr].
  destruct (cut_byte colon s) as [[ty name]|] eqn:C.
  - destruct (cut_tsa _ _ _ C) as [E _]. rewrite E.
    destruct (is_tsa_store s); [reflexivity | now apply IH].
  - apply cut_byte_none in C. congruence.
Qed.

(* a value without separator in front of every tsa value is the only way to
   the configuration error *)
Lemma tsa_in_policy_none stores : tsa_in_policy stores = None ->
  forallb (contains_byte colon) stores = false.
Proof.
  intros H. destruct (forallb (contains_byte colon) stores) eqn:E; [|reflexivity].
  rewrite (tsa_in_policy_wf _ E) in H. discriminate.
Qed.

(* ================= loadX509TrustStoresWithType(tsa) ================= *)

Definition all_load_l (db : list (string * sres)) (stores : list string) : bool :=
  forallb (fun s => negb (is_tsa_store s) || store_loads db s) stores.
Definition some_root_l (db : list (string * sres)) (stores : list string) : bool :=
  existsb (fun s => is_tsa_store s && store_has db s) stores.

Lemma load_tsa_spec db : forall stores seen acc,
  forallb (contains_byte colon) stores = true ->
  (forall s, In s seen ->
     is_tsa_store s = true /\ store_loads db s = true /\ (store_has db s = true -> acc = true)) ->
  load_tsa stores seen db acc =
    if all_load_l db stores then Some (acc || some_root_l db stores) else None.
Proof.
  induction stores as [|s r IH]; intros seen acc Hwf Hseen.
  - cbn. now rewrite orb_false_r.
  - cbn [forallb] in Hwf. apply andb_true_iff in Hwf. destruct Hwf as [Hs Hr].
    cbn [load_tsa all_load_l some_root_l forallb existsb].
    fold (all_load_l db r). fold (some_root_l db r).
    destruct (mem_str s seen) eqn:M.
    + apply mem_str_In in M. destruct (Hseen _ M) as (T & L & Hh).
      rewrite T, L. cbn [negb orb andb]. rewrite (IH seen acc Hr Hseen).
      destruct (all_load_l db r); [|reflexivity]. f_equal.
      destruct (store_has db s); [|reflexivity]. rewrite (Hh eq_refl). reflexivity.
    + destruct (cut_byte colon s) as [[ty name]|] eqn:C;
        [|apply cut_byte_none in C; congruence].
      destruct (cut_tsa _ _ _ C) as [E Hn]. rewrite E.
      destruct (is_tsa_store s) eqn:T; cbn [negb orb andb].
      * rewrite (Hn eq_refl). unfold store_loads, store_has.
        destruct (lookup_db (drop 4 s) db) eqn:LK.
        -- reflexivity.
        -- rewrite (IH (s :: seen) acc Hr); [reflexivity|].
           intros s' [<-|Hin].
           ++ unfold store_loads, store_has. rewrite T, LK. repeat split; discriminate.
           ++ now apply Hseen.
        -- rewrite (IH (s :: seen) true Hr).
           ++ destruct (all_load_l db r); [|reflexivity]. now rewrite orb_true_r.
           ++ intros s' [<-|Hin].
              ** unfold store_loads, store_has. rewrite T, LK. repeat split.
              ** destruct (Hseen _ Hin) as (T' & L' & _). repeat split; assumption.
      * now apply IH.
Qed.

Lemma load_tsa_top i : wf i = true ->
  load_tsa (i_stores i) [] (i_tsadb i) false =
    if all_load i then Some (some_root i) else None.
Proof.
  intros W. unfold wf in W. rewrite (load_tsa_spec _ _ [] false W); [reflexivity|].
  intros s [].
Qed.

(* ================= loops over the signing chain ================= *)

Definition nth_c (cs : list cert) (j : nat) (p : cert -> bool) : bool :=
  match nth_error cs j with Some c => p c | None => false end.

Lemma cert_at_shift j cs p : cert_at (N.of_nat j) cs p = nth_c cs j p.
Proof. unfold cert_at, nth_c. now rewrite Nat2N.id. Qed.

Lemma succ_of_nat k j : (N.succ k + N.of_nat j = k + N.of_nat (S j))%N.
Proof. lia. Qed.

(* signingAuthority *)
Lemma sa_loop_spec t : forall cs k,
  match sa_loop t cs k with
  | Passed => forallb (valid_at t) cs = true
  | Failed w => forallb (valid_at t) cs = false /\
      exists j, w = WSigTime (k + N.of_nat j) /\
                nth_c cs j (fun c => negb (valid_at t c)) = true /\
                forallb (valid_at t) (firstn j cs) = true
  end.
Proof.
  induction cs as [|c cs IH]; intros k; [reflexivity|].
  cbn [sa_loop forallb].
  destruct ((t <? nb c) || (na c <? t)) eqn:E.
  - assert (V : valid_at t c = false).
    { unfold valid_at. apply orb_true_iff in E. destruct E as [E|E];
        [assert (nb c <=? t = false) as -> by lia; reflexivity
        |assert (t <=? na c = false) as -> by lia; apply andb_false_r]. }
    rewrite V. cbn [andb]. split; [reflexivity|].
    exists O. rewrite N.add_0_r. repeat split. unfold nth_c; cbn. now rewrite V.
  - assert (V : valid_at t c = true).
    { unfold valid_at. apply orb_false_iff in E. destruct E as [E1 E2].
      assert (nb c <=? t = true) as -> by lia. assert (t <=? na c = true) as -> by lia. reflexivity. }
    rewrite V. cbn [andb].
    specialize (IH (N.succ k)). destruct (sa_loop t cs (N.succ k)) as [|w]; [exact IH|].
    destruct IH as [F (j & -> & Hj & Hfirst)]. split; [exact F|].
    exists (S j). rewrite succ_of_nat. repeat split; [exact Hj|].
    cbn [firstn forallb]. rewrite V. exact Hfirst.
Qed.

(* chain valid at the moment of verification *)
Lemma now_loop_spec t : forall cs k,
  match now_loop t cs k with
  | Passed => forallb (valid_at t) cs = true
  | Failed w => forallb (valid_at t) cs = false /\
      exists j, forallb (valid_at t) (firstn j cs) = true /\
        ((w = WNowBefore (k + N.of_nat j) /\ nth_c cs j (fun c => t <? nb c) = true) \/
         (w = WNowAfter (k + N.of_nat j) /\ nth_c cs j (fun c => na c <? t) = true))
  end.
Proof.
  induction cs as [|c cs IH]; intros k; [reflexivity|].
  cbn [now_loop forallb].
  destruct (t <? nb c) eqn:E1.
  - assert (V : valid_at t c = false).
    { unfold valid_at. assert (nb c <=? t = false) as -> by lia. reflexivity. }
    rewrite V. cbn [andb]. split; [reflexivity|].
    exists O. rewrite N.add_0_r. split; [reflexivity|]. left. split; [reflexivity|].
    unfold nth_c; cbn. exact E1.
  - destruct (na c <? t) eqn:E2.
    + assert (V : valid_at t c = false).
      { unfold valid_at. assert (t <=? na c = false) as -> by lia. apply andb_false_r. }
      rewrite V. cbn [andb]. split; [reflexivity|].
      exists O. rewrite N.add_0_r. split; [reflexivity|]. right. split; [reflexivity|].
      unfold nth_c; cbn. exact E2.
    + assert (V : valid_at t c = true).
      { unfold valid_at. assert (nb c <=? t = true) as -> by lia.
        assert (t <=? na c = true) as -> by lia. reflexivity. }
      rewrite V. cbn [andb].
      specialize (IH (N.succ k)). destruct (now_loop t cs (N.succ k)) as [|w]; [exact IH|].
      destruct IH as [F (j & Hfirst & Hw)]. split; [exact F|].
      exists (S j). rewrite <- succ_of_nat. split; [|exact Hw].
      cbn [firstn forallb]. rewrite V. exact Hfirst.
Qed.

(* timestamp range inside every window *)
Lemma ts_loop_spec lo hi : forall cs k,
  match ts_loop lo hi cs k with
  | None => forallb (window_ok lo hi) cs = true
  | Some w => forallb (window_ok lo hi) cs = false /\
      exists j, forallb (window_ok lo hi) (firstn j cs) = true /\
        ((w = WTsBefore (k + N.of_nat j) /\ nth_c cs j (fun c => lo <? nb c) = true) \/
         (w = WTsAfter (k + N.of_nat j) /\ nth_c cs j (fun c => na c <? hi) = true))
  end.
Proof.
  induction cs as [|c cs IH]; intros k; [reflexivity|].
  cbn [ts_loop forallb].
  destruct (nb c <=? lo) eqn:E1; cbn [negb].
  - destruct (hi <=? na c) eqn:E2; cbn [negb].
    + assert (V : window_ok lo hi c = true) by (unfold window_ok; now rewrite E1, E2).
      rewrite V. cbn [andb].
      specialize (IH (N.succ k)). destruct (ts_loop lo hi cs (N.succ k)) as [w|]; [|exact IH].
      destruct IH as [F (j & Hfirst & Hw)]. split; [exact F|].
      exists (S j). rewrite <- succ_of_nat. split; [|exact Hw].
      cbn [firstn forallb]. rewrite V. exact Hfirst.
    + assert (V : window_ok lo hi c = false) by (unfold window_ok; now rewrite E1, E2).
      rewrite V. cbn [andb]. split; [reflexivity|].
      exists O. rewrite N.add_0_r. split; [reflexivity|]. right.
      split; [reflexivity|]. unfold nth_c; cbn. lia.
  - assert (V : window_ok lo hi c = false) by (unfold window_ok; now rewrite E1).
    rewrite V. cbn [andb]. split; [reflexivity|].
    exists O. rewrite N.add_0_r. split; [reflexivity|]. left.
    split; [reflexivity|]. unfold nth_c; cbn. lia.
Qed.
