(* C06_Proofs.v — lemmas about the expiry / authentic-timestamp model. *)
From NV Require Import Base C06_Model.
Local Open Scope Z_scope.

(* ================= strings: strings.Cut at ':' and the "tsa:" prefix ================= *)

Lemma cut_byte_none c s : cut_byte c s = None <-> contains_byte c s = false.
Proof.
  induction s as [|a s IH]; cbn; [tauto|].
  destruct (Ascii.eqb a c); cbn; [split; discriminate|].
  destruct (cut_byte c s) as [[l r]|]; [|tauto].
  split; [discriminate|]. intros H. apply IH in H. discriminate.
Qed.

Lemma cut_byte_some c s l r : cut_byte c s = Some (l, r) -> s = (l ++ String c r)%string.
Proof.
  revert l; induction s as [|a s IH]; intros l; cbn; [discriminate|].
  destruct (Ascii.eqb a c) eqn:E.
  - intros H; inversion H; subst. apply Ascii.eqb_eq in E; subst. reflexivity.
  - destruct (cut_byte c s) as [[l' r']|]; [|discriminate].
    intros H; inversion H; subst. cbn. f_equal. now apply IH.
Qed.

Lemma has_prefix_cons a p s : has_prefix (String a p) s = true ->
  exists s', s = String a s' /\ has_prefix p s' = true.
Proof.
  destruct s as [|b s']; [discriminate|]. cbn [has_prefix].
  rewrite andb_true_iff, Ascii.eqb_eq. intros [-> H]. now exists s'.
Qed.

Lemma has_prefix_tsa s : has_prefix "tsa:" s = true -> exists r, s = ("tsa:" ++ r)%string.
Proof.
  intros H.
  apply has_prefix_cons in H. destruct H as (s1 & -> & H).
  apply has_prefix_cons in H. destruct H as (s2 & -> & H).
  apply has_prefix_cons in H. destruct H as (s3 & -> & H).
  apply has_prefix_cons in H. destruct H as (s4 & -> & H).
  now exists s4.
Qed.

(* what strings.Cut(s, ":") says about a value with a separator: the type is
   "tsa" exactly when the value starts with "tsa:", and the name is the rest *)
Lemma cut_tsa s ty name : cut_byte colon s = Some (ty, name) ->
  String.eqb ty "tsa" = is_tsa_store s /\ (is_tsa_store s = true -> name = drop 4 s).
Proof.
  intros H. unfold is_tsa_store.
  destruct (has_prefix "tsa:" s) eqn:P.
  - destruct (has_prefix_tsa _ P) as [r ->]. cbn in H. inversion H; subst. now split.
  - split; [|discriminate]. apply cut_byte_some in H. subst s.
    destruct (String.eqb ty "tsa") eqn:E; [|reflexivity].
    apply String.eqb_eq in E. subst ty. cbn in P. discriminate.
Qed.

Lemma mem_str_In x l : mem_str x l = true -> In x l.
Proof.
  unfold mem_str. rewrite existsb_exists. intros (y & Hin & E).
  apply String.eqb_eq in E. now subst.
Qed.

(* ================= isTSATrustStoreInPolicy ================= *)

Lemma tsa_in_policy_wf stores : forallb (contains_byte colon) stores = true ->
  tsa_in_policy stores = Some (existsb is_tsa_store stores).
Proof.
  induction stores as [|s r IH]; [reflexivity|]. cbn [forallb tsa_in_policy existsb].
  rewrite andb_true_iff. intros [Hs Hr].
  destruct (cut_byte colon s) as [[ty name]|] eqn:C.
  - destruct (cut_tsa _ _ _ C) as [E _]. rewrite E.
    destruct (is_tsa_store s); [reflexivity | now apply IH].
  - apply cut_byte_none in C. congruence.
Qed.

(* a value without separator in front of every tsa value is the only way to
   the configuration error *)
Lemma tsa_in_policy_none stores : tsa_in_policy stores = None ->
  forallb (contains_byte colon) stores = false.
Proof.
  intros H. destruct (forallb (contains_byte colon) stores) eqn:E; [|reflexivity].
  rewrite (tsa_in_policy_wf _ E) in H. discriminate.
Qed.

(* ================= loadX509TrustStoresWithType(tsa) ================= *)

Definition all_load_l (db : list (string * sres)) (stores : list string) : bool :=
  forallb (fun s => negb (is_tsa_store s) || store_loads db s) stores.
Definition some_root_l (db : list (string * sres)) (stores : list string) : bool :=
  existsb (fun s => is_tsa_store s && store_has db s) stores.

Lemma load_tsa_spec db : forall stores seen acc,
  forallb (contains_byte colon) stores = true ->
  (forall s, In s seen ->
     is_tsa_store s = true /\ store_loads db s = true /\ (store_has db s = true -> acc = true)) ->
  load_tsa stores seen db acc =
    if all_load_l db stores then Some (acc || some_root_l db stores) else None.
Proof.
  induction stores as [|s r IH]; intros seen acc Hwf Hseen.
  - cbn. now rewrite orb_false_r.
  - cbn [forallb] in Hwf. apply andb_true_iff in Hwf. destruct Hwf as [Hs Hr].
    cbn [load_tsa all_load_l some_root_l forallb existsb].
    fold (all_load_l db r). fold (some_root_l db r).
    destruct (mem_str s seen) eqn:M.
    + apply mem_str_In in M. destruct (Hseen _ M) as (T & L & Hh).
      rewrite T, L. cbn [negb orb andb]. rewrite (IH seen acc Hr Hseen).
      destruct (all_load_l db r); [|reflexivity]. f_equal.
      destruct (store_has db s); [|reflexivity]. rewrite (Hh eq_refl). reflexivity.
    + destruct (cut_byte colon s) as [[ty name]|] eqn:C;
        [|apply cut_byte_none in C; congruence].
      destruct (cut_tsa _ _ _ C) as [E Hn]. rewrite E.
      destruct (is_tsa_store s) eqn:T; cbn [negb orb andb].
      * rewrite (Hn eq_refl). unfold store_loads, store_has.
        destruct (lookup_db (drop 4 s) db) eqn:LK.
        -- reflexivity.
        -- rewrite (IH (s :: seen) acc Hr); [reflexivity|].
           intros s' [<-|Hin].
           ++ unfold store_loads, store_has. rewrite T, LK. repeat split; discriminate.
           ++ now apply Hseen.
        -- rewrite (IH (s :: seen) true Hr).
           ++ destruct (all_load_l db r); [|reflexivity]. now rewrite orb_true_r.
           ++ intros s' [<-|Hin].
              ** unfold store_loads, store_has. rewrite T, LK. repeat split.
              ** destruct (Hseen _ Hin) as (T' & L' & _). repeat split; assumption.
      * now apply IH.
Qed.

Lemma load_tsa_top i : wf i = true ->
  load_tsa (i_stores i) [] (i_tsadb i) false =
    if all_load i then Some (some_root i) else None.
Proof.
  intros W. unfold wf in W. rewrite (load_tsa_spec _ _ [] false W); [reflexivity|].
  intros s [].
Qed.

(* ================= loops over the signing chain ================= *)

Definition nth_c (cs : list cert) (j : nat) (p : cert -> bool) : bool :=
  match nth_error cs j with Some c => p c | None => false end.

Lemma cert_at_shift j cs p : cert_at (N.of_nat j) cs p = nth_c cs j p.
Proof. unfold cert_at, nth_c. now rewrite Nat2N.id. Qed.

Lemma succ_of_nat k j : (N.succ k + N.of_nat j = k + N.of_nat (S j))%N.
Proof. lia. Qed.

(* signingAuthority *)
Lemma sa_loop_spec t : forall cs k,
  match sa_loop t cs k with
  | Passed => forallb (valid_at t) cs = true
  | Failed w => forallb (valid_at t) cs = false /\
      exists j, w = WSigTime (k + N.of_nat j) /\
                nth_c cs j (fun c => negb (valid_at t c)) = true /\
                forallb (valid_at t) (firstn j cs) = true
  end.
Proof.
  induction cs as [|c cs IH]; intros k; [reflexivity|].
  cbn [sa_loop forallb].
  destruct ((t <? nb c) || (na c <? t)) eqn:E.
  - assert (V : valid_at t c = false).
    { unfold valid_at. apply orb_true_iff in E. destruct E as [E|E];
        [assert (nb c <=? t = false) as -> by lia; reflexivity
        |assert (t <=? na c = false) as -> by lia; apply andb_false_r]. }
    rewrite V. cbn [andb]. split; [reflexivity|].
    exists O. rewrite N.add_0_r. repeat split. unfold nth_c; cbn. now rewrite V.
  - assert (V : valid_at t c = true).
    { unfold valid_at. apply orb_false_iff in E. destruct E as [E1 E2].
      assert (nb c <=? t = true) as -> by lia. assert (t <=? na c = true) as -> by lia. reflexivity. }
    rewrite V. cbn [andb].
    specialize (IH (N.succ k)). destruct (sa_loop t cs (N.succ k)) as [|w]; [exact IH|].
    destruct IH as [F (j & -> & Hj & Hfirst)]. split; [exact F|].
    exists (S j). rewrite succ_of_nat. repeat split; [exact Hj|].
    cbn [firstn forallb]. rewrite V. exact Hfirst.
Qed.

(* chain valid at the moment of verification *)
Lemma now_loop_spec t : forall cs k,
  match now_loop t cs k with
  | Passed => forallb (valid_at t) cs = true
  | Failed w => forallb (valid_at t) cs = false /\
      exists j, forallb (valid_at t) (firstn j cs) = true /\
        ((w = WNowBefore (k + N.of_nat j) /\ nth_c cs j (fun c => t <? nb c) = true) \/
         (w = WNowAfter (k + N.of_nat j) /\ nth_c cs j (fun c => na c <? t) = true /\
            nth_c cs j (fun c => nb c <=? t) = true))
  end.
Proof.
  induction cs as [|c cs IH]; intros k; [reflexivity|].
  cbn [now_loop forallb].
  destruct (t <? nb c) eqn:E1.
  - assert (V : valid_at t c = false).
    { unfold valid_at. assert (nb c <=? t = false) as -> by lia. reflexivity. }
    rewrite V. cbn [andb]. split; [reflexivity|].
    exists O. rewrite N.add_0_r. split; [reflexivity|]. left. split; [reflexivity|].
    unfold nth_c; cbn. exact E1.
  - destruct (na c <? t) eqn:E2.
    + assert (V : valid_at t c = false).
      { unfold valid_at. assert (t <=? na c = false) as -> by lia. apply andb_false_r. }
      rewrite V. cbn [andb]. split; [reflexivity|].
      exists O. rewrite N.add_0_r. split; [reflexivity|]. right. split; [reflexivity|].
      unfold nth_c; cbn. split; [exact E2 | lia].
    + assert (V : valid_at t c = true).
      { unfold valid_at. assert (nb c <=? t = true) as -> by lia.
        assert (t <=? na c = true) as -> by lia. reflexivity. }
      rewrite V. cbn [andb].
      specialize (IH (N.succ k)). destruct (now_loop t cs (N.succ k)) as [|w]; [exact IH|].
      destruct IH as [F (j & Hfirst & Hw)]. split; [exact F|].
      exists (S j). rewrite <- succ_of_nat. split; [|exact Hw].
      cbn [firstn forallb]. rewrite V. exact Hfirst.
Qed.

(* timestamp range inside every window *)
Lemma ts_loop_spec lo hi : forall cs k,
  match ts_loop lo hi cs k with
  | None => forallb (window_ok lo hi) cs = true
  | Some w => forallb (window_ok lo hi) cs = false /\
      exists j, forallb (window_ok lo hi) (firstn j cs) = true /\
        ((w = WTsBefore (k + N.of_nat j) /\ nth_c cs j (fun c => lo <? nb c) = true) \/
         (w = WTsAfter (k + N.of_nat j) /\ nth_c cs j (fun c => na c <? hi) = true))
  end.
Proof.
  induction cs as [|c cs IH]; intros k; [reflexivity|].
  cbn [ts_loop forallb].
  destruct (nb c <=? lo) eqn:E1; cbn [negb].
  - destruct (hi <=? na c) eqn:E2; cbn [negb].
    + assert (V : window_ok lo hi c = true) by (unfold window_ok; now rewrite E1, E2).
      rewrite V. cbn [andb].
      specialize (IH (N.succ k)). destruct (ts_loop lo hi cs (N.succ k)) as [w|]; [|exact IH].
      destruct IH as [F (j & Hfirst & Hw)]. split; [exact F|].
      exists (S j). rewrite <- succ_of_nat. split; [|exact Hw].
      cbn [firstn forallb]. rewrite V. exact Hfirst.
    + assert (V : window_ok lo hi c = false) by (unfold window_ok; now rewrite E1, E2).
      rewrite V. cbn [andb]. split; [reflexivity|].
      exists O. rewrite N.add_0_r. split; [reflexivity|]. right.
      split; [reflexivity|]. unfold nth_c; cbn. lia.
  - assert (V : window_ok lo hi c = false) by (unfold window_ok; now rewrite E1).
    rewrite V. cbn [andb]. split; [reflexivity|].
    exists O. rewrite N.add_0_r. split; [reflexivity|]. left.
    split; [reflexivity|]. unfold nth_c; cbn. lia.
Qed.

(* ================= revocationFinalResult on the TSA chain ================= *)

Definition okp (x : rres * N) := is_ok (fst x).
Definition revp (x : rres * N) := is_revoked (fst x).
Definition fr (l : list (rres * N)) : racc := fold_right (fun x a => rstep a x) racc0 l.

Lemma loop_is_fr l : fold_left rstep (rev l) racc0 = fr l.
Proof. unfold fr. rewrite <- (rev_involutive l) at 2. now rewrite fold_left_rev_right. Qed.

Lemma fr_cons x l : fr (x :: l) = rstep (fr l) x.
Proof. reflexivity. Qed.

Lemma ok_not_rev r : is_ok r = true -> is_revoked r = false.
Proof. destruct r; cbn; congruence. Qed.

Lemma fr_numOK l : a_numOK (fr l) = List.length (filter okp l).
Proof.
  induction l as [|[r s] l IH]; [reflexivity|].
  rewrite fr_cons. unfold rstep. cbn [filter]. change (okp (r, s)) with (is_ok r).
  destruct (is_ok r); cbn [a_numOK List.length]; [now rewrite IH|].
  destruct (is_revoked r); cbn [a_numOK]; exact IH.
Qed.

Lemma fr_revFound l : a_revFound (fr l) = existsb revp l.
Proof.
  induction l as [|[r s] l IH]; [reflexivity|].
  rewrite fr_cons. unfold rstep. cbn [existsb]. change (revp (r, s)) with (is_revoked r).
  destruct (is_ok r) eqn:E; cbn [a_revFound].
  - now rewrite (ok_not_rev _ E), IH.
  - destruct (is_revoked r); cbn [a_revFound]; [reflexivity | exact IH].
Qed.

Lemma fr_revSubj l : a_revFound (fr l) = true ->
  exists r, In (r, a_revSubj (fr l)) l /\ is_revoked r = true.
Proof.
  induction l as [|[r s] l IH]; [cbn; discriminate|].
  rewrite fr_cons. unfold rstep.
  destruct (is_ok r) eqn:E; cbn [a_revFound a_revSubj].
  - intros H. destruct (IH H) as (r' & Hin & Hr). exists r'. split; [now right | exact Hr].
  - destruct (is_revoked r) eqn:E2; cbn [a_revFound a_revSubj].
    + intros _. exists r. split; [now left | exact E2].
    + intros H. destruct (IH H) as (r' & Hin & Hr). exists r'. split; [now right | exact Hr].
Qed.

Lemma fr_prob l : forallb okp l = false ->
  In (a_final (fr l), a_prob (fr l)) l /\ is_ok (a_final (fr l)) = false.
Proof.
  induction l as [|[r s] l IH]; [cbn; discriminate|].
  rewrite fr_cons. unfold rstep. cbn [forallb]. change (okp (r, s)) with (is_ok r).
  destruct (is_ok r) eqn:E; cbn [a_final a_prob andb].
  - intros H. destruct (IH H) as [Hin Hn]. split; [now right | exact Hn].
  - intros _. destruct (is_revoked r); cbn [a_final a_prob]; (split; [now left | exact E]).
Qed.

Lemma filter_len_le {A} (p : A -> bool) l : (List.length (filter p l) <= List.length l)%nat.
Proof. induction l as [|x l IH]; cbn; [lia|]. destruct (p x); cbn; lia. Qed.

Lemma filter_len_all {A} (p : A -> bool) l :
  Nat.eqb (List.length (filter p l)) (List.length l) = forallb p l.
Proof.
  induction l as [|x l IH]; [reflexivity|]. cbn [filter forallb].
  destruct (p x); cbn [List.length andb].
  - exact IH.
  - apply Nat.eqb_neq. pose proof (filter_len_le p l). cbn. lia.
Qed.

Lemma index_from_length {A} (l : list A) : forall k, List.length (index_from k l) = List.length l.
Proof. induction l as [|x l IH]; intros k; cbn; [reflexivity | now rewrite IH]. Qed.

Lemma index_from_okp rs : forall k, forallb okp (index_from k rs) = forallb is_ok rs.
Proof. induction rs as [|r rs IH]; intros k; cbn; [reflexivity|]. unfold okp at 1; cbn [fst]. now rewrite IH. Qed.

Lemma index_from_revp rs : forall k, existsb revp (index_from k rs) = existsb is_revoked rs.
Proof. induction rs as [|r rs IH]; intros k; cbn; [reflexivity|]. unfold revp at 1; cbn [fst]. now rewrite IH. Qed.

Lemma index_from_In {A} (l : list A) : forall k x p, In (x, p) (index_from k l) ->
  exists j, p = (k + N.of_nat j)%N /\ nth_error l j = Some x.
Proof.
  induction l as [|y l IH]; intros k x p; cbn; [tauto|].
  intros [E|Hin].
  - inversion E; subst. exists O. split; [lia | reflexivity].
  - destruct (IH _ _ _ Hin) as (j & -> & Hj). exists (S j). split; [lia | exact Hj].
Qed.

Lemma rres_at_nth rs j p : rres_at (0 + N.of_nat j) (VRes rs) p =
  match nth_error rs j with Some r => p r | None => false end.
Proof. unfold rres_at. now rewrite N.add_0_l, Nat2N.id. Qed.

(* the verdict of the aggregator *)
Lemma rev_check_spec v :
  match rev_check v with
  | None => rev_ok v = true
  | Some w => rev_ok v = false /\
      match w with
      | WRevErr => v = VErr
      | WRevoked p => rres_at p v is_revoked = true
      | WRevUnknown p => rres_at p v (fun r => negb (is_ok r)) = true /\ rres_at p v is_revoked = false
      | _ => False
      end
  end.
Proof.
  destruct v as [|rs]; [cbn; auto|].
  unfold rev_check, final_result. rewrite loop_is_fr.
  rewrite fr_numOK, <- (index_from_length rs 0%N), filter_len_all, index_from_okp.
  cbn [rev_ok].
  destruct (forallb is_ok rs) eqn:ALL.
  - destruct (a_revFound (fr (index_from 0%N rs))); reflexivity.
  - assert (ALL' : forallb okp (index_from 0%N rs) = false) by now rewrite index_from_okp.
    destruct (a_revFound (fr (index_from 0%N rs))) eqn:RF.
    + destruct (fr_revSubj _ RF) as (r & Hin & Hr). split; [reflexivity|].
      apply index_from_In in Hin. destruct Hin as (j & Hp & Hj).
      rewrite Hp, rres_at_nth, Hj. exact Hr.
    + destruct (fr_prob _ ALL') as [Hin Hn].
      apply index_from_In in Hin. destruct Hin as (j & Hp & Hj).
      assert (NR : is_revoked (a_final (fr (index_from 0%N rs))) = false).
      { rewrite fr_revFound, index_from_revp in RF.
        destruct (is_revoked (a_final (fr (index_from 0%N rs)))) eqn:E; [|reflexivity].
        apply nth_error_In in Hj.
        assert (existsb is_revoked rs = true) by (apply existsb_exists; eauto). congruence. }
      destruct (a_final (fr (index_from 0%N rs))) eqn:F; cbn in Hn, NR; try discriminate;
        (split; [reflexivity|]); rewrite Hp, !rres_at_nth, Hj; cbn; auto.
Qed.

(* ================= checkRevocationResults ================= *)

Definition not_nil (r : rres) : bool := negb (is_nil r).

Lemma first_nil_spec : forall rs k,
  match first_nil k rs with
  | None => forallb (fun r => negb (is_nil r)) rs = true
  | Some p => forallb (fun r => negb (is_nil r)) rs = false /\
              exists j, p = (k + N.of_nat j)%N /\ nth_error rs j = Some RNil /\
                        forallb (fun r => negb (is_nil r)) (firstn j rs) = true
  end.
Proof.
  induction rs as [|r rs IH]; intros k; [reflexivity|].
  cbn [first_nil forallb]. destruct (is_nil r) eqn:E; cbn [negb andb].
  - split; [reflexivity|]. exists O. rewrite N.add_0_r. split; [reflexivity|].
    split; [|reflexivity]. destruct r; try discriminate. reflexivity.
  - specialize (IH (N.succ k)). destruct (first_nil (N.succ k) rs) as [p|]; [|exact IH].
    destruct IH as [F (j & -> & Hj & Hf)]. split; [exact F|].
    exists (S j). split; [lia|]. split; [exact Hj|]. cbn [firstn forallb]. now rewrite E.
Qed.

Lemma shape_check_spec n v :
  match shape_check n v with
  | None => shape_ok n v = true
  | Some w => shape_ok n v = false /\
      match w with
      | WRevCount => exists rs, v = VRes rs /\ (N.of_nat (List.length rs) =? n)%N = false
      | WRevNil p => rres_at p v is_nil = true
      | _ => False
      end
  end.
Proof.
  destruct v as [|rs]; [reflexivity|]. unfold shape_check, shape_ok.
  destruct (N.of_nat (List.length rs) =? n)%N eqn:L; cbn [negb andb].
  - pose proof (first_nil_spec rs 0%N) as FN. destruct (first_nil 0%N rs) as [p|]; [|exact FN].
    destruct FN as [F (j & -> & Hj & _)]. split; [exact F|].
    rewrite rres_at_nth, Hj. reflexivity.
  - split; [reflexivity|]. now exists rs.
Qed.

(* ================= verifyTimestamp / verifyAuthenticTimestamp ================= *)

Lemma nth_c_cert_at cs j p : nth_c cs j p = cert_at (0 + N.of_nat j) cs p.
Proof. unfold nth_c, cert_at. now rewrite N.add_0_l, Nat2N.id. Qed.

Lemma perform_applies i : wf i = true ->
  tsa_in_policy (i_stores i) = Some (existsb is_tsa_store (i_stores i)) /\
  perform_ts (i_now i) (i_chain i) (i_opt i) (existsb is_tsa_store (i_stores i)) = applies i.
Proof.
  intros W. split; [now apply tsa_in_policy_wf|]. reflexivity.
Qed.

(* the countersignature pipeline, when timestamp verification applies *)
Lemma countersig_spec i : wf i = true -> i_scheme i = X509 -> applies i = true ->
  match countersig i with
  | Passed => token_ok i = true
  | Failed w => token_ok i = false /\ why_ok i w = true
  end.
Proof.
  intros W S A. unfold countersig, token_ok.
  destruct (k_present (i_tok i)) eqn:F1; cbn [negb andb];
    [|split; [reflexivity|]; unfold why_ok; now rewrite S, A, F1].
  destruct (k_parses (i_tok i)) eqn:F2; cbn [negb andb];
    [|split; [reflexivity|]; unfold why_ok; now rewrite S, A, F2].
  destruct (k_info (i_tok i)) eqn:F3; cbn [negb andb];
    [|split; [reflexivity|]; unfold why_ok; now rewrite S, A, F3].
  destruct (k_imprint (i_tok i)) eqn:F4; cbn [negb andb];
    [|split; [reflexivity|]; unfold why_ok; now rewrite S, A, F4].
  rewrite (load_tsa_top _ W).
  destruct (all_load i) eqn:F5; cbn [andb];
    [|split; [reflexivity|]; unfold why_ok; now rewrite S, A, F5].
  destruct (some_root i) eqn:F6; cbn [andb];
    [|split; [reflexivity|]; unfold why_ok; now rewrite S, A, F6].
  destruct (k_verify (i_tok i)) eqn:F7; cbn [negb andb];
    [|split; [reflexivity|]; unfold why_ok; now rewrite S, A, F7].
  destruct (k_rules (i_tok i)) eqn:F8; cbn [negb andb];
    [|split; [reflexivity|]; unfold why_ok; now rewrite S, A, F8].
  pose proof (ts_loop_spec (k_gen (i_tok i) - k_acc (i_tok i)) (k_gen (i_tok i) + k_acc (i_tok i))
                (i_chain i) 0%N) as TS.
  destruct (ts_loop _ _ (i_chain i) 0%N) as [w|].
  - destruct TS as [F (j & _ & [[-> Hj]|[-> Hj]])]; rewrite F; cbn [andb];
      (split; [reflexivity|]); unfold why_ok; rewrite S, A; cbn [andb];
      rewrite <- nth_c_cert_at; exact Hj.
  - rewrite TS. cbn [andb].
    pose proof (shape_check_spec (k_tsalen (i_tok i)) (k_rev (i_tok i))) as SH.
    destruct (shape_check (k_tsalen (i_tok i)) (k_rev (i_tok i))) as [w|].
    { destruct SH as [F Hw]. rewrite F. cbn [andb]. split; [reflexivity|].
      unfold why_ok. rewrite S, A. cbn [andb].
      destruct w; try contradiction.
      - destruct Hw as (rs & -> & E). now rewrite E.
      - exact Hw. }
    rewrite SH. cbn [andb].
    pose proof (rev_check_spec (k_rev (i_tok i))) as RV.
    destruct (rev_check (k_rev (i_tok i))) as [w|]; [|exact RV].
    destruct RV as [F Hw]. split; [exact F|].
    unfold why_ok. rewrite S, A. cbn [andb].
    destruct w; try contradiction.
    + now rewrite Hw.
    + exact Hw.
    + destruct Hw as [H1 H2]. now rewrite H1, H2.
Qed.

(* the whole validation: passes exactly when the declarative reading says so,
   and a failure names a fact that is indeed violated *)
Lemma vat_spec i : wf i = true ->
  match verify_authentic_timestamp i with
  | Passed => expected_pass i = true
  | Failed w => expected_pass i = false /\ why_ok i w = true
  end.
Proof.
  intros W. unfold verify_authentic_timestamp, expected_pass.
  destruct (i_scheme i) eqn:S.
  - unfold verify_timestamp. destruct (perform_applies i W) as [-> ->].
    destruct (applies i) eqn:A.
    + now apply countersig_spec.
    + pose proof (now_loop_spec (i_now i) (i_chain i) 0%N) as NL.
      destruct (now_loop (i_now i) (i_chain i) 0%N) as [|w]; [exact NL|].
      destruct NL as [F (j & _ & [[-> Hj]|[-> [Hj _]]])]; (split; [exact F|]);
        unfold why_ok; rewrite S, A; cbn [negb andb]; rewrite <- nth_c_cert_at; exact Hj.
  - pose proof (sa_loop_spec (i_sigtime i) (i_chain i) 0%N) as SL.
    destruct (sa_loop (i_sigtime i) (i_chain i) 0%N) as [|w]; [exact SL|].
    destruct SL as [F (j & -> & Hj & _)]. split; [exact F|].
    unfold why_ok. rewrite S. rewrite <- nth_c_cert_at. exact Hj.
Qed.

Lemma expiry_passes_eq i : verify_expiry (i_now i) (i_expiry i) = expiry_passes i.
Proof. unfold verify_expiry, expiry_passes. destruct (i_expiry i) as [t|]; [|reflexivity]. lia. Qed.

Theorem model_spec_ok : forall i, wf i = true -> spec_ok i (model i) = true.
Proof.
  intros i W. unfold model, spec_ok. rewrite expiry_passes_eq.
  destruct (enforced (i_aexp i) && negb (expiry_passes i)) eqn:E.
  - cbn [o_expiry o_ts o_rejected].
    apply andb_true_iff in E. destruct E as [E1 E2]. rewrite E1.
    destruct (expiry_passes i); [discriminate|]. reflexivity.
  - cbn [o_expiry o_ts o_rejected]. rewrite eqb_reflx, E. cbn [andb].
    pose proof (vat_spec i W) as V.
    destruct (verify_authentic_timestamp i) as [|w]; cbn [is_failed negb].
    + rewrite V. cbn. now rewrite andb_false_r.
    + destruct V as [-> ->]. cbn [Bool.eqb andb]. now rewrite eqb_reflx.
Qed.

(* ================= from booleans to propositions ================= *)

Lemma valid_at_iff t c : valid_at t c = true <-> Valid_at t c.
Proof. unfold valid_at, Valid_at. rewrite andb_true_iff. lia. Qed.

Lemma window_ok_iff lo hi c : window_ok lo hi c = true <-> Inside lo hi c.
Proof. unfold window_ok, Inside. rewrite andb_true_iff. lia. Qed.

Lemma forallb_Forall {A} (p : A -> bool) (P : A -> Prop) l :
  (forall x, p x = true <-> P x) -> (forallb p l = true <-> Forall P l).
Proof.
  intros H. rewrite forallb_forall, Forall_forall.
  split; intros F x Hin; apply H; now apply F.
Qed.

Lemma is_tsa_store_iff s : is_tsa_store s = true <-> exists name, s = ("tsa:" ++ name)%string.
Proof.
  split; [apply has_prefix_tsa|]. intros [name ->]. unfold is_tsa_store. cbn [append has_prefix].
  now rewrite !Ascii.eqb_refl.
Qed.

Lemma lists_tsa_iff stores : existsb is_tsa_store stores = true <-> Lists_tsa stores.
Proof.
  rewrite existsb_exists. unfold Lists_tsa. split.
  - intros (s & Hin & T). apply is_tsa_store_iff in T. destruct T as [name ->]. now exists name.
  - intros [name Hin]. exists ("tsa:" ++ name)%string. split; [exact Hin|].
    apply is_tsa_store_iff. now exists name.
Qed.

Lemma expired_iff i : existsb (fun c => na c <? i_now i) (i_chain i) = true <-> Expired_now i.
Proof.
  rewrite existsb_exists. unfold Expired_now.
  split; intros (c & Hin & H); exists c; (split; [exact Hin|]); lia.
Qed.

Lemma applies_iff i : applies i = true <-> Applies i.
Proof.
  unfold applies, Applies. rewrite andb_true_iff, lists_tsa_iff.
  destruct (i_opt i); try rewrite expired_iff; split; intros [H1 H2]; (split; [exact H1|]);
    try reflexivity; try discriminate; auto.
Qed.

Lemma applies_dec i : Applies i \/ ~ Applies i.
Proof.
  destruct (applies i) eqn:A; [left; now apply applies_iff|].
  right. intros H. apply applies_iff in H. congruence.
Qed.

Lemma all_load_iff i : all_load i = true <->
  forall name, In ("tsa:" ++ name)%string (i_stores i) -> lookup_db name (i_tsadb i) <> SErr.
Proof.
  unfold all_load. rewrite forallb_forall. split.
  - intros H name Hin. specialize (H _ Hin).
    assert (T : is_tsa_store ("tsa:" ++ name) = true) by (apply is_tsa_store_iff; now exists name).
    rewrite T in H. cbn [negb orb] in H. unfold store_loads in H.
    change (drop 4 ("tsa:" ++ name)) with name in H.
    destruct (lookup_db name (i_tsadb i)); congruence.
  - intros H s Hin. destruct (is_tsa_store s) eqn:T; [|reflexivity]. cbn [negb orb].
    apply is_tsa_store_iff in T. destruct T as [name ->]. specialize (H _ Hin).
    unfold store_loads. change (drop 4 ("tsa:" ++ name)) with name.
    destruct (lookup_db name (i_tsadb i)); congruence.
Qed.

Lemma some_root_iff i : some_root i = true <->
  exists name, In ("tsa:" ++ name)%string (i_stores i) /\ lookup_db name (i_tsadb i) = SCerts.
Proof.
  unfold some_root. rewrite existsb_exists. split.
  - intros (s & Hin & H). apply andb_true_iff in H. destruct H as [T H].
    apply is_tsa_store_iff in T. destruct T as [name ->]. exists name. split; [exact Hin|].
    unfold store_has in H. change (drop 4 ("tsa:" ++ name)) with name in H.
    destruct (lookup_db name (i_tsadb i)); congruence.
  - intros (name & Hin & H). exists ("tsa:" ++ name)%string. split; [exact Hin|].
    apply andb_true_iff. split; [apply is_tsa_store_iff; now exists name|].
    unfold store_has. change (drop 4 ("tsa:" ++ name)) with name. now rewrite H.
Qed.

Lemma is_ok_iff r : is_ok r = true <-> (r = ROK \/ r = RNonRevokable).
Proof. destruct r; cbn; split; intros H; try discriminate; auto; destruct H; discriminate. Qed.

Lemma rev_ok_iff v : rev_ok v = true <->
  exists rs, v = VRes rs /\ Forall (fun r => r = ROK \/ r = RNonRevokable) rs.
Proof.
  destruct v as [|rs]; cbn [rev_ok].
  - split; [discriminate|]. intros (rs & H & _). discriminate.
  - rewrite (forallb_Forall is_ok _ rs is_ok_iff). split.
    + intros H. now exists rs.
    + intros (rs' & E & H). inversion E; subst. exact H.
Qed.

Lemma shape_rev_iff n v : (shape_ok n v = true /\ rev_ok v = true) <->
  exists rs, v = VRes rs /\ N.of_nat (List.length rs) = n /\
             Forall (fun r => r = ROK \/ r = RNonRevokable) rs.
Proof.
  rewrite rev_ok_iff. split.
  - intros [SH (rs & -> & F)]. exists rs. split; [reflexivity|]. split; [|exact F].
    cbn [shape_ok] in SH. apply andb_true_iff in SH. destruct SH as [L _]. now apply N.eqb_eq.
  - intros (rs & -> & L & F). split; [|now exists rs].
    cbn [shape_ok]. apply andb_true_iff. split; [now apply N.eqb_eq|].
    apply forallb_forall. intros r Hin. rewrite Forall_forall in F.
    destruct (F r Hin) as [-> | ->]; reflexivity.
Qed.

Lemma token_ok_iff i : token_ok i = true <-> Token_ok i.
Proof.
  unfold token_ok, Token_ok. cbv zeta.
  rewrite <- (shape_rev_iff (k_tsalen (i_tok i)) (k_rev (i_tok i))).
  rewrite !andb_true_iff, all_load_iff, some_root_iff.
  rewrite (forallb_Forall _ _ (i_chain i) (window_ok_iff _ _)). tauto.
Qed.

(* ================= the theorems of the property ================= *)

(* ---- expiry ---- *)
Lemma o_expiry_model i : o_expiry (model i) = Some (verify_expiry (i_now i) (i_expiry i)).
Proof.
  unfold model. destruct (enforced (i_aexp i) && negb (verify_expiry (i_now i) (i_expiry i))) eqn:E;
    cbn [o_expiry]; [|reflexivity].
  apply andb_true_iff in E. destruct E as [_ E].
  destruct (verify_expiry (i_now i) (i_expiry i)); [discriminate | reflexivity].
Qed.

Theorem expiry_fails : forall i e, i_expiry i = Some e -> e <= i_now i ->
  o_expiry (model i) = Some false.
Proof.
  intros i e H L. rewrite o_expiry_model, H. cbn. f_equal. lia.
Qed.

Theorem expiry_passes_thm : forall i,
  (i_expiry i = None \/ exists e, i_expiry i = Some e /\ i_now i < e) ->
  o_expiry (model i) = Some true.
Proof.
  intros i [H|(e & H & L)]; rewrite o_expiry_model, H; cbn; [reflexivity|]. f_equal. lia.
Qed.

Theorem expiry_enforced_stops : forall i e, i_aexp i = Enforce -> i_expiry i = Some e -> e <= i_now i ->
  model i = mk_obs (Some false) None true.
Proof.
  intros i e A H L. unfold model. rewrite A, H. cbn.
  assert (i_now i <? e = false) as -> by lia. reflexivity.
Qed.

Theorem expiry_not_stopping : forall i,
  (i_aexp i = Log \/ o_expiry (model i) = Some true) ->
  o_ts (model i) = Some (verify_authentic_timestamp i).
Proof.
  intros i H. unfold model.
  destruct (enforced (i_aexp i) && negb (verify_expiry (i_now i) (i_expiry i))) eqn:E; [|reflexivity].
  exfalso. apply andb_true_iff in E. destruct E as [E1 E2]. destruct H as [H|H].
  - rewrite H in E1. discriminate.
  - rewrite o_expiry_model in H. inversion H as [H']. rewrite H' in E2. discriminate.
Qed.

Theorem expiry_clock : forall i i', i_now i = i_now i' -> i_expiry i = i_expiry i' ->
  o_expiry (model i) = o_expiry (model i').
Proof. intros i i' H1 H2. now rewrite !o_expiry_model, H1, H2. Qed.

(* ---- signingAuthority ---- *)
Theorem sa_iff : forall i, i_scheme i = SigningAuthority ->
  (verify_authentic_timestamp i = Passed <-> Forall (Valid_at (i_sigtime i)) (i_chain i)).
Proof.
  intros i S. unfold verify_authentic_timestamp. rewrite S.
  rewrite <- (forallb_Forall _ _ (i_chain i) (valid_at_iff (i_sigtime i))).
  pose proof (sa_loop_spec (i_sigtime i) (i_chain i) 0%N) as SL.
  destruct (sa_loop (i_sigtime i) (i_chain i) 0%N) as [|w].
  - tauto.
  - destruct SL as [F _]. rewrite F. split; discriminate.
Qed.

Theorem sa_names : forall i w, i_scheme i = SigningAuthority ->
  verify_authentic_timestamp i = Failed w ->
  exists k c, w = WSigTime (N.of_nat k) /\ nth_error (i_chain i) k = Some c /\
              ~ Valid_at (i_sigtime i) c /\
              Forall (Valid_at (i_sigtime i)) (firstn k (i_chain i)).
Proof.
  intros i w S. unfold verify_authentic_timestamp. rewrite S.
  pose proof (sa_loop_spec (i_sigtime i) (i_chain i) 0%N) as SL.
  destruct (sa_loop (i_sigtime i) (i_chain i) 0%N) as [|w']; [discriminate|].
  intros E; inversion E; subst w'. destruct SL as [_ (j & -> & Hj & Hfirst)].
  unfold nth_c in Hj. destruct (nth_error (i_chain i) j) as [c|] eqn:Hc; [|discriminate].
  exists j, c. rewrite N.add_0_l. split; [reflexivity|]. split; [exact Hc|]. split.
  - intros V. apply valid_at_iff in V. rewrite V in Hj. discriminate.
  - now apply (forallb_Forall _ _ _ (valid_at_iff (i_sigtime i))).
Qed.

Theorem sa_clock : forall i i', i_scheme i = SigningAuthority -> i_scheme i' = SigningAuthority ->
  i_sigtime i = i_sigtime i' -> i_chain i = i_chain i' ->
  verify_authentic_timestamp i = verify_authentic_timestamp i'.
Proof.
  intros i i' S S' T C. unfold verify_authentic_timestamp. now rewrite S, S', T, C.
Qed.

(* ---- notary.x509 ---- *)
Lemma vt_unfold i : wf i = true -> i_scheme i = X509 ->
  verify_authentic_timestamp i =
    if applies i then countersig i else now_loop (i_now i) (i_chain i) 0%N.
Proof.
  intros W S. unfold verify_authentic_timestamp, verify_timestamp. rewrite S.
  now destruct (perform_applies i W) as [-> ->].
Qed.

Theorem x509_no_tsa : forall i, wf i = true -> i_scheme i = X509 -> ~ Applies i ->
  (verify_authentic_timestamp i = Passed <-> Forall (Valid_at (i_now i)) (i_chain i)).
Proof.
  intros i W S NA. rewrite (vt_unfold i W S).
  destruct (applies i) eqn:A; [exfalso; apply NA; now apply applies_iff|].
  rewrite <- (forallb_Forall _ _ (i_chain i) (valid_at_iff (i_now i))).
  pose proof (now_loop_spec (i_now i) (i_chain i) 0%N) as NL.
  destruct (now_loop (i_now i) (i_chain i) 0%N) as [|w].
  - tauto.
  - destruct NL as [F _]. rewrite F. split; discriminate.
Qed.

Theorem x509_no_tsa_names : forall i w, wf i = true -> i_scheme i = X509 -> ~ Applies i ->
  verify_authentic_timestamp i = Failed w ->
  exists k c, nth_error (i_chain i) k = Some c /\
              Forall (Valid_at (i_now i)) (firstn k (i_chain i)) /\
              ((w = WNowBefore (N.of_nat k) /\ i_now i < nb c) \/
               (w = WNowAfter (N.of_nat k) /\ nb c <= i_now i /\ na c < i_now i)).
Proof.
  intros i w W S NA. rewrite (vt_unfold i W S).
  destruct (applies i) eqn:A; [exfalso; apply NA; now apply applies_iff|].
  intros E. pose proof (now_loop_spec (i_now i) (i_chain i) 0%N) as NL. rewrite E in NL.
  destruct NL as [F (j & Hfirst & Hw)]. rewrite !N.add_0_l in Hw. unfold nth_c in Hw.
  destruct (nth_error (i_chain i) j) as [c|] eqn:Hc;
    [|destruct Hw as [[_ H]|[_ [H _]]]; discriminate].
  exists j, c. split; [exact Hc|]. split.
  - now apply (forallb_Forall _ _ _ (valid_at_iff (i_now i))).
  - destruct Hw as [[-> H]|[-> [H1 H2]]]; [left | right]; (split; [reflexivity | lia]).
Qed.

Theorem x509_tsa : forall i, wf i = true -> i_scheme i = X509 -> Applies i ->
  (verify_authentic_timestamp i = Passed <-> Token_ok i).
Proof.
  intros i W S A. apply applies_iff in A. rewrite (vt_unfold i W S), A.
  rewrite <- token_ok_iff.
  pose proof (countersig_spec i W S A) as CS.
  destruct (countersig i) as [|w].
  - tauto.
  - destruct CS as [F _]. rewrite F. split; discriminate.
Qed.

Theorem fail_closed : forall i, wf i = true -> i_scheme i = X509 -> Applies i -> ~ Token_ok i ->
  exists w, verify_authentic_timestamp i = Failed w /\ why_ok i w = true.
Proof.
  intros i W S A NT. pose proof (vat_spec i W) as V.
  destruct (verify_authentic_timestamp i) as [|w] eqn:E.
  - exfalso. apply NT. now apply (x509_tsa i W S A).
  - exists w. split; [reflexivity | apply V].
Qed.

(* one lemma per step of the countersignature pipeline: the first missing fact decides *)
Section Steps.
  Variable i : input.
  Hypothesis W : wf i = true.
  Hypothesis S : i_scheme i = X509.
  Hypothesis A : Applies i.

  Let unfold_vt : verify_authentic_timestamp i = countersig i.
  Proof. rewrite (vt_unfold i W S). apply applies_iff in A. now rewrite A. Qed.

  Lemma step_no_token : k_present (i_tok i) = false -> verify_authentic_timestamp i = Failed WNoToken.
  Proof. intros H. rewrite unfold_vt. unfold countersig. now rewrite H. Qed.

  Lemma step_unparsable : k_present (i_tok i) = true -> k_parses (i_tok i) = false ->
    verify_authentic_timestamp i = Failed WParse.
  Proof. intros H1 H2. rewrite unfold_vt. unfold countersig. now rewrite H1, H2. Qed.

  Lemma step_bad_info : k_present (i_tok i) = true -> k_parses (i_tok i) = true ->
    k_info (i_tok i) = false -> verify_authentic_timestamp i = Failed WInfo.
  Proof. intros H1 H2 H3. rewrite unfold_vt. unfold countersig. now rewrite H1, H2, H3. Qed.

  Lemma step_wrong_message : k_present (i_tok i) = true -> k_parses (i_tok i) = true ->
    k_info (i_tok i) = true -> k_imprint (i_tok i) = false ->
    verify_authentic_timestamp i = Failed WImprint.
  Proof. intros H1 H2 H3 H4. rewrite unfold_vt. unfold countersig. now rewrite H1, H2, H3, H4. Qed.

  Hypothesis P1 : k_present (i_tok i) = true.
  Hypothesis P2 : k_parses (i_tok i) = true.
  Hypothesis P3 : k_info (i_tok i) = true.
  Hypothesis P4 : k_imprint (i_tok i) = true.

  Lemma step_store_error : all_load i = false -> verify_authentic_timestamp i = Failed WLoad.
  Proof.
    intros H. rewrite unfold_vt. unfold countersig.
    now rewrite P1, P2, P3, P4, (load_tsa_top _ W), H.
  Qed.

  Lemma step_no_roots : all_load i = true -> some_root i = false ->
    verify_authentic_timestamp i = Failed WNoRoots.
  Proof.
    intros H1 H2. rewrite unfold_vt. unfold countersig.
    now rewrite P1, P2, P3, P4, (load_tsa_top _ W), H1, H2.
  Qed.

  Hypothesis P5 : all_load i = true.
  Hypothesis P6 : some_root i = true.

  Lemma step_untrusted : k_verify (i_tok i) = false -> verify_authentic_timestamp i = Failed WVerify.
  Proof.
    intros H. rewrite unfold_vt. unfold countersig.
    now rewrite P1, P2, P3, P4, (load_tsa_top _ W), P5, P6, H.
  Qed.

  Lemma step_mispurposed : k_verify (i_tok i) = true -> k_rules (i_tok i) = false ->
    verify_authentic_timestamp i = Failed WRules.
  Proof.
    intros H1 H2. rewrite unfold_vt. unfold countersig.
    now rewrite P1, P2, P3, P4, (load_tsa_top _ W), P5, P6, H1, H2.
  Qed.

  Hypothesis P7 : k_verify (i_tok i) = true.
  Hypothesis P8 : k_rules (i_tok i) = true.

  Lemma step_window : forall c, In c (i_chain i) ->
    ~ Inside (k_gen (i_tok i) - k_acc (i_tok i)) (k_gen (i_tok i) + k_acc (i_tok i)) c ->
    exists k, verify_authentic_timestamp i = Failed (WTsBefore k) \/
              verify_authentic_timestamp i = Failed (WTsAfter k).
  Proof.
    intros c Hin NI. rewrite unfold_vt. unfold countersig.
    rewrite P1, P2, P3, P4, (load_tsa_top _ W), P5, P6, P7, P8. cbn [negb].
    pose proof (ts_loop_spec (k_gen (i_tok i) - k_acc (i_tok i)) (k_gen (i_tok i) + k_acc (i_tok i))
                  (i_chain i) 0%N) as TS.
    destruct (ts_loop _ _ (i_chain i) 0%N) as [w|].
    - destruct TS as [_ (j & _ & [[-> _]|[-> _]])]; eexists; [left|right]; reflexivity.
    - exfalso. apply NI. apply window_ok_iff.
      rewrite forallb_forall in TS. now apply TS.
  Qed.

  (* checkRevocationResults: the answer does not hold one non-nil result per TSA certificate *)
  Lemma step_shape :
    Forall (Inside (k_gen (i_tok i) - k_acc (i_tok i)) (k_gen (i_tok i) + k_acc (i_tok i))) (i_chain i) ->
    forall rs, k_rev (i_tok i) = VRes rs ->
    (N.of_nat (List.length rs) <> k_tsalen (i_tok i) -> verify_authentic_timestamp i = Failed WRevCount) /\
    (N.of_nat (List.length rs) = k_tsalen (i_tok i) -> In RNil rs ->
       exists k, nth_error rs k = Some RNil /\ ~ In RNil (firstn k rs) /\
                 verify_authentic_timestamp i = Failed (WRevNil (N.of_nat k))).
  Proof.
    intros FI rs R. rewrite unfold_vt. unfold countersig.
    rewrite P1, P2, P3, P4, (load_tsa_top _ W), P5, P6, P7, P8. cbn [negb].
    pose proof (ts_loop_spec (k_gen (i_tok i) - k_acc (i_tok i)) (k_gen (i_tok i) + k_acc (i_tok i))
                  (i_chain i) 0%N) as TS.
    destruct (ts_loop _ _ (i_chain i) 0%N) as [w|].
    { exfalso. destruct TS as [F _].
      apply (forallb_Forall _ _ _ (window_ok_iff _ _)) in FI. congruence. }
    rewrite R. unfold shape_check. split.
    - intros NE. apply N.eqb_neq in NE. now rewrite NE.
    - intros EQ Hin. apply N.eqb_eq in EQ. rewrite EQ. cbn [negb].
      pose proof (first_nil_spec rs 0%N) as FN. destruct (first_nil 0%N rs) as [p|].
      + destruct FN as [_ (j & -> & Hj & Hf)]. exists j. split; [exact Hj|]. split.
        * intros Hin'. rewrite forallb_forall in Hf. specialize (Hf _ Hin'). discriminate.
        * now rewrite N.add_0_l.
      + exfalso. rewrite forallb_forall in FN. specialize (FN _ Hin). discriminate.
  Qed.

  Lemma step_revocation :
    Forall (Inside (k_gen (i_tok i) - k_acc (i_tok i)) (k_gen (i_tok i) + k_acc (i_tok i))) (i_chain i) ->
    shape_ok (k_tsalen (i_tok i)) (k_rev (i_tok i)) = true ->
    rev_ok (k_rev (i_tok i)) = false ->
    verify_authentic_timestamp i = Failed WRevErr \/
    exists k, verify_authentic_timestamp i = Failed (WRevoked k) \/
              verify_authentic_timestamp i = Failed (WRevUnknown k).
  Proof.
    intros FI SHO NR. rewrite unfold_vt. unfold countersig.
    rewrite P1, P2, P3, P4, (load_tsa_top _ W), P5, P6, P7, P8. cbn [negb].
    pose proof (ts_loop_spec (k_gen (i_tok i) - k_acc (i_tok i)) (k_gen (i_tok i) + k_acc (i_tok i))
                  (i_chain i) 0%N) as TS.
    destruct (ts_loop _ _ (i_chain i) 0%N) as [w|].
    - exfalso. destruct TS as [F _].
      apply (forallb_Forall _ _ _ (window_ok_iff _ _)) in FI. congruence.
    - pose proof (shape_check_spec (k_tsalen (i_tok i)) (k_rev (i_tok i))) as SH.
      destruct (shape_check (k_tsalen (i_tok i)) (k_rev (i_tok i))) as [w|];
        [destruct SH as [F _]; congruence|].
      pose proof (rev_check_spec (k_rev (i_tok i))) as RV.
      destruct (rev_check (k_rev (i_tok i))) as [w|]; [|congruence].
      destruct RV as [_ Hw]. destruct w; try contradiction;
        [left; reflexivity | right; eexists; left; reflexivity | right; eexists; right; reflexivity].
  Qed.
End Steps.

(* where an "unknown" verdict can come from *)
Lemma countersig_unknown_origin i k : countersig i = Failed (WRevUnknown k) ->
  rev_check (k_rev (i_tok i)) = Some (WRevUnknown k).
Proof.
  intros E. unfold countersig in E.
  destruct (negb (k_present (i_tok i))); [discriminate|].
  destruct (negb (k_parses (i_tok i))); [discriminate|].
  destruct (negb (k_info (i_tok i))); [discriminate|].
  destruct (negb (k_imprint (i_tok i))); [discriminate|].
  destruct (load_tsa (i_stores i) [] (i_tsadb i) false) as [[|]|]; try discriminate.
  destruct (negb (k_verify (i_tok i))); [discriminate|].
  destruct (negb (k_rules (i_tok i))); [discriminate|].
  pose proof (ts_loop_spec (k_gen (i_tok i) - k_acc (i_tok i)) (k_gen (i_tok i) + k_acc (i_tok i))
                (i_chain i) 0%N) as TS.
  destruct (ts_loop _ _ (i_chain i) 0%N) as [w|].
  { inversion E; subst w. destruct TS as [_ (j & _ & [[? _]|[? _]])]; discriminate. }
  pose proof (shape_check_spec (k_tsalen (i_tok i)) (k_rev (i_tok i))) as SH.
  destruct (shape_check (k_tsalen (i_tok i)) (k_rev (i_tok i))) as [w|].
  { inversion E; subst w. destruct SH as [_ []]. }
  destruct (rev_check (k_rev (i_tok i))) as [w|]; [|discriminate]. now inversion E.
Qed.

(* a revoked TSA certificate is reported as revoked *)
Theorem revoked_reported : forall i rs, wf i = true -> i_scheme i = X509 ->
  k_rev (i_tok i) = VRes rs -> In RRevoked rs ->
  forall w, verify_authentic_timestamp i = Failed w ->
  (forall k, w <> WRevUnknown k) /\ w <> WRevErr.
Proof.
  intros i rs W S R Hin w E. pose proof (vat_spec i W) as V. rewrite E in V. destruct V as [_ V].
  split.
  - intros k ->. rewrite (vt_unfold i W S) in E. destruct (applies i).
    + apply countersig_unknown_origin in E. rewrite R in E.
      unfold rev_check, final_result in E.
      rewrite loop_is_fr, fr_revFound, index_from_revp in E.
      assert (X : existsb is_revoked rs = true) by (apply existsb_exists; exists RRevoked; auto).
      rewrite X in E.
      match type of E with match (if ?c then _ else _) with _ => _ end = _ => destruct c; discriminate end.
    + pose proof (now_loop_spec (i_now i) (i_chain i) 0%N) as NL. rewrite E in NL.
      destruct NL as [_ (j & _ & [[? _]|[? _]])]; discriminate.
  - intros ->. unfold why_ok in V. rewrite S, R in V. now rewrite andb_false_r in V.
Qed.

(* ---- option unset = always; the irrelevant clock is ignored ---- *)
Theorem unset_is_always : forall i, model (with_opt i OptUnset) = model (with_opt i OptAlways).
Proof. reflexivity. Qed.

Theorem x509_ignores_signing_time : forall i t, i_scheme i = X509 ->
  verify_authentic_timestamp (with_sigtime i t) = verify_authentic_timestamp i.
Proof.
  intros i t S. unfold verify_authentic_timestamp. cbn [with_sigtime i_scheme]. rewrite S. reflexivity.
Qed.

Theorem sa_ignores_now_and_policy : forall i t stores o db k, i_scheme i = SigningAuthority ->
  verify_authentic_timestamp (with_now (with_policy i stores o db k) t) = verify_authentic_timestamp i.
Proof.
  intros i t stores o db k S. unfold verify_authentic_timestamp.
  cbn [with_now with_policy i_scheme]. rewrite S. reflexivity.
Qed.

Theorem expiry_ignores_signing_time : forall i t,
  o_expiry (model (with_sigtime i t)) = o_expiry (model i).
Proof. intros i t. now rewrite !o_expiry_model. Qed.

(* ---- the reason reported is truthful; the action decides ---- *)
Theorem reason_truthful : forall i w, wf i = true ->
  verify_authentic_timestamp i = Failed w -> why_ok i w = true.
Proof. intros i w W E. pose proof (vat_spec i W) as V. rewrite E in V. apply V. Qed.

Theorem no_config_error : forall i, wf i = true -> verify_authentic_timestamp i <> Failed WConfig.
Proof.
  intros i W E. pose proof (reason_truthful i _ W E) as H. unfold why_ok in H.
  destruct (i_scheme i); discriminate.
Qed.

Theorem rejected_iff : forall i,
  o_rejected (model i) = true <->
  (i_aexp i = Enforce /\ o_expiry (model i) = Some false) \/
  (i_ats i = Enforce /\ exists w, o_ts (model i) = Some (Failed w)).
Proof.
  intros i. rewrite o_expiry_model. unfold model.
  destruct (enforced (i_aexp i) && negb (verify_expiry (i_now i) (i_expiry i))) eqn:E;
    cbn [o_rejected o_ts].
  - apply andb_true_iff in E. destruct E as [E1 E2].
    destruct (i_aexp i); [|discriminate].
    destruct (verify_expiry (i_now i) (i_expiry i)); [discriminate|]. tauto.
  - split.
    + intros H. apply andb_true_iff in H. destruct H as [H1 H2]. right.
      destruct (i_ats i); [|discriminate]. split; [reflexivity|].
      destruct (verify_authentic_timestamp i) as [|w]; [discriminate|]. now exists w.
    + intros [[A H]|[A (w & H)]].
      * rewrite A in E. inversion H as [H']. rewrite H' in E. discriminate.
      * inversion H as [H']. rewrite A, H'. reflexivity.
Qed.
