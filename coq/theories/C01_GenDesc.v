(* C01_GenDesc.v — the blob descriptor generator of notation.VerifyBlob / SignBlob
   (notation.getDescriptorFunc, notation.addUserMetadataToDescriptor) as translated by
   GoLite (theories/C01_Gen.v) against the model's [top_gen] / [add_user_metadata].
   Statements repeated in props/C01_Generated.v.

   Oracles of getDescriptorFunc (quantified in every statement): digest.Algorithm.Digester,
   Digester.Hash, Digester.Digest, io.Copy, the conversion hash.Hash -> io.Writer; the
   reader is an opaque value. A change of the way the blob is hashed (another copy
   routine, a second read, a size that is not io.Copy's count) changes the generated
   definition and [gen_getDescriptorFunc_spec] is re-checked against it. *)
From Coq Require Import List Bool String Ascii NArith ZArith Lia.
From NV Require Import Base Regex Generated GoLib C01_Model C01_Proofs C01_Gen C01_GenProofs.
Import ListNotations.
Local Open Scope string_scope.
Local Open Scope list_scope.

(* ---------- notation.addUserMetadataToDescriptor ---------- *)

(* the table of reserved prefixes the generated code searches is the table of Generated.v *)
Theorem gen_reserved_prefixes_pinned : notation_go_reservedAnnotationPrefixes = gen_reserved_annotation_prefixes.
Proof. reflexivity. Qed.

Lemma set_ann_twice a b d :
  set_Descriptor_Annotations a (set_Descriptor_Annotations b d) = set_Descriptor_Annotations a d.
Proof. destruct d; reflexivity. Qed.

Lemma ann_set_ann a d : Descriptor_Annotations (set_Descriptor_Annotations a d) = a.
Proof. destruct d; reflexivity. Qed.

(* the search for a reserved prefix (the two copies of the loop: with and without the copy of the annotations) *)
Lemma prefix_loop3 K k desc l :
  if existsb (fun p => has_prefix p k) l
  then exists x, gen_notation_go_addUserMetadataToDescriptor_loop3 K k desc l = (desc, Some x)
  else gen_notation_go_addUserMetadataToDescriptor_loop3 K k desc l = K tt.
Proof.
  induction l as [|p l IH]; [reflexivity|].
  cbn [gen_notation_go_addUserMetadataToDescriptor_loop3 existsb]. unfold str_has_prefix.
  destruct (has_prefix p k); cbn [orb]; [eexists; reflexivity|exact IH].
Qed.

Lemma prefix_loop5 K k desc l :
  if existsb (fun p => has_prefix p k) l
  then exists x, gen_notation_go_addUserMetadataToDescriptor_loop5 K k desc l = (desc, Some x)
  else gen_notation_go_addUserMetadataToDescriptor_loop5 K k desc l = K tt.
Proof.
  induction l as [|p l IH]; [reflexivity|].
  cbn [gen_notation_go_addUserMetadataToDescriptor_loop5 existsb]. unfold str_has_prefix.
  destruct (has_prefix p k); cbn [orb]; [eexists; reflexivity|exact IH].
Qed.

(* the loop over the required pairs, on any descriptor and any list of pairs *)
Lemma add_loop4 : forall l desc,
  match add_user_metadata (Descriptor_Annotations desc) l with
  | Some ann => gen_notation_go_addUserMetadataToDescriptor_loop4 l desc = (set_Descriptor_Annotations ann desc, None)
  | None => exists d x, gen_notation_go_addUserMetadataToDescriptor_loop4 l desc = (d, Some x)
  end.
Proof.
  induction l as [|[k v] l IH]; intros desc.
  - cbn. destruct desc; reflexivity.
  - cbn [gen_notation_go_addUserMetadataToDescriptor_loop4 add_user_metadata fst snd].
    unfold has_reserved_prefix. change gen_reserved_annotation_prefixes with notation_go_reservedAnnotationPrefixes.
    match goal with |- context [gen_notation_go_addUserMetadataToDescriptor_loop5 ?K k desc ?t] =>
      pose proof (prefix_loop5 K k desc t) as P end.
    destruct (existsb (fun p => has_prefix p k) notation_go_reservedAnnotationPrefixes).
    + destruct P as [x P]. rewrite P. eexists; eexists; reflexivity.
    + rewrite P. clear P. unfold map_get_ok. change (map_get String.eqb k (Descriptor_Annotations desc)) with (lookup k (Descriptor_Annotations desc)).
      destruct (lookup k (Descriptor_Annotations desc)); [eexists; eexists; reflexivity|].
      change (map_set String.eqb k v (Descriptor_Annotations desc)) with (set_key k v (Descriptor_Annotations desc)).
      specialize (IH (set_Descriptor_Annotations (set_key k v (Descriptor_Annotations desc)) desc)).
      rewrite ann_set_ann in IH.
      destruct (add_user_metadata (set_key k v (Descriptor_Annotations desc)) l).
      * rewrite IH, set_ann_twice. reflexivity.
      * exact IH.
Qed.

Lemma add_loop2 K : forall l desc,
  match add_user_metadata (Descriptor_Annotations desc) l with
  | Some ann => gen_notation_go_addUserMetadataToDescriptor_loop2 K l desc = K (set_Descriptor_Annotations ann desc)
  | None => exists d x, gen_notation_go_addUserMetadataToDescriptor_loop2 K l desc = (d, Some x)
  end.
Proof.
  induction l as [|[k v] l IH]; intros desc.
  - cbn. destruct desc; reflexivity.
  - cbn [gen_notation_go_addUserMetadataToDescriptor_loop2 add_user_metadata fst snd].
    unfold has_reserved_prefix. change gen_reserved_annotation_prefixes with notation_go_reservedAnnotationPrefixes.
    match goal with |- context [gen_notation_go_addUserMetadataToDescriptor_loop3 ?K' k desc ?t] =>
      pose proof (prefix_loop3 K' k desc t) as P end.
    destruct (existsb (fun p => has_prefix p k) notation_go_reservedAnnotationPrefixes).
    + destruct P as [x P]. rewrite P. eexists; eexists; reflexivity.
    + rewrite P. clear P. unfold map_get_ok. change (map_get String.eqb k (Descriptor_Annotations desc)) with (lookup k (Descriptor_Annotations desc)).
      destruct (lookup k (Descriptor_Annotations desc)); [eexists; eexists; reflexivity|].
      change (map_set String.eqb k v (Descriptor_Annotations desc)) with (set_key k v (Descriptor_Annotations desc)).
      specialize (IH (set_Descriptor_Annotations (set_key k v (Descriptor_Annotations desc)) desc)).
      rewrite ann_set_ann in IH.
      destruct (add_user_metadata (set_key k v (Descriptor_Annotations desc)) l).
      * rewrite IH, set_ann_twice. reflexivity.
      * exact IH.
Qed.

(* for ALL required maps, on a descriptor without annotations (what getDescriptorFunc hands it):
   the model's [add_user_metadata] on the pairs `range` visits; an error exactly where the model has none *)
Theorem gen_addUserMetadataToDescriptor_equiv : forall desc md,
  Descriptor_Annotations desc = [] ->
  match add_user_metadata [] (md_of md) with
  | Some ann => gen_notation_go_addUserMetadataToDescriptor desc md = (set_Descriptor_Annotations ann desc, None)
  | None => exists d x, gen_notation_go_addUserMetadataToDescriptor desc md = (d, Some x)
  end.
Proof.
  intros desc md H0. unfold gen_notation_go_addUserMetadataToDescriptor, md_of.
  destruct (map_len String.eqb md >? 0)%Z.
  - rewrite H0. cbn [map_entries gen_notation_go_addUserMetadataToDescriptor_loop1].
    match goal with |- context [gen_notation_go_addUserMetadataToDescriptor_loop2 ?K ?l ?d] =>
      pose proof (add_loop2 K l d) as P end.
    rewrite ann_set_ann in P.
    destruct (add_user_metadata [] (map_entries String.eqb md)); [|exact P].
    rewrite P, set_ann_twice. reflexivity.
  - pose proof (add_loop4 (map_entries String.eqb md) desc) as P. rewrite H0 in P. exact P.
Qed.

(* ---------- notation.getDescriptorFunc ---------- *)

Section Desc.
  Variables (Digester Hash Writer Reader : Type).
  Variable new_digester : string -> Digester.          (* digest.Algorithm.Digester *)
  Variable hash_of : Digester -> Hash.                 (* Digester.Hash *)
  Variable digest_of_digester : Digester -> string.    (* Digester.Digest *)
  Variable copy : Writer -> ptr Reader -> Z * option GoLib.err.   (* io.Copy; the reader may be a nil interface *)
  Variable up : Hash -> Writer.                        (* hash.Hash used as io.Writer *)

  Definition g_getDescriptorFunc :=
    gen_notation_go_getDescriptorFunc Digester new_digester Hash hash_of digest_of_digester Writer Reader copy up.

  Definition fresh_desc (mt dg : string) (n : Z) : v1_Descriptor := mk_Descriptor mt dg n [] [] [] PNil "".

  (* NO hypothesis about the oracles. The generator makes ONE digester for the algorithm it is
     asked for, hands the blob reader and that digester's hash to io.Copy, fails with io.Copy's
     error, and otherwise describes the blob by: the stated media type, the digest of THAT
     digester, and the number of bytes io.Copy reports — then adds the required metadata. *)
  Theorem gen_getDescriptorFunc_spec : forall reader mt md alg,
    g_getDescriptorFunc reader mt md alg
    = let dg := new_digester alg in
      match copy (up (hash_of dg)) reader with
      | (_, Some e) => (fresh_desc "" "" 0, Some e)
      | (n, None) => gen_notation_go_addUserMetadataToDescriptor (fresh_desc mt (digest_of_digester dg) n) md
      end.
  Proof.
    intros reader mt md alg. unfold g_getDescriptorFunc, gen_notation_go_getDescriptorFunc, fresh_desc. cbv zeta.
    destruct (copy (up (hash_of (new_digester alg))) reader) as [n [e|]]; reflexivity.
  Qed.

  (* what io.Copy and the digester guarantee, as a hypothesis about the oracles for the reader of
     this call: [stream] = all the bytes the reader delivers before io.EOF (None: it fails first);
     io.Copy reports their number and no error (or the failure), and the digester that received
     them reports their digest [h alg bytes]. Then the descriptor is the one of the WHOLE stream. *)
  Theorem gen_getDescriptorFunc_whole_stream :
    forall (h : string -> list Z -> string) (stream : option (list Z)) reader mt md alg,
    (match stream with
     | Some bs => copy (up (hash_of (new_digester alg))) reader = (Z.of_nat (List.length bs), None)
                  /\ digest_of_digester (new_digester alg) = h alg bs
     | None => exists n e, copy (up (hash_of (new_digester alg))) reader = (n, Some e)
     end) ->
    match stream with
    | Some bs =>
        match add_user_metadata [] (md_of md) with
        | Some ann => g_getDescriptorFunc reader mt md alg
                      = (mk_Descriptor mt (h alg bs) (Z.of_nat (List.length bs)) [] ann [] PNil "", None)
        | None => exists d x, g_getDescriptorFunc reader mt md alg = (d, Some x)
        end
    | None => exists d x, g_getDescriptorFunc reader mt md alg = (d, Some x)
    end.
  Proof.
    intros h stream reader mt md alg H. rewrite gen_getDescriptorFunc_spec. cbv zeta.
    destruct stream as [bs|].
    - destruct H as [Hc Hd]. rewrite Hc, Hd.
      pose proof (gen_addUserMetadataToDescriptor_equiv
                    (fresh_desc mt (h alg bs) (Z.of_nat (List.length bs))) md eq_refl) as P.
      destruct (add_user_metadata [] (md_of md)); exact P.
    - destruct H as [n [e Hc]]. rewrite Hc. eexists; eexists; reflexivity.
  Qed.

  (* against the model's [top_gen]: the model's inputs about the blob (b_read_ok, b_size, digest
     under each algorithm) are what io.Copy and the digester answered *)
  Theorem gen_getDescriptorFunc_is_top_gen : forall reader md alg (b : blobin) (a : dalg),
    b_read_ok b = is_none (snd (copy (up (hash_of (new_digester alg))) reader)) ->
    (b_read_ok b = true ->
     fst (copy (up (hash_of (new_digester alg))) reader) = b_size b
     /\ digest_of_digester (new_digester alg) = digest_of b a) ->
    match top_gen b (md_of md) a with
    | Some t => exists d, g_getDescriptorFunc reader (b_mt b) md alg = (d, None) /\ target_of d = t
    | None => exists d x, g_getDescriptorFunc reader (b_mt b) md alg = (d, Some x)
    end.
  Proof.
    intros reader md alg b a Hok Hval. rewrite gen_getDescriptorFunc_spec. cbv zeta. unfold top_gen.
    destruct (copy (up (hash_of (new_digester alg))) reader) as [n [e|]]; cbn [snd fst is_none] in *.
    - rewrite Hok. cbn [negb]. eexists; eexists; reflexivity.
    - rewrite Hok. cbn [negb]. destruct (Hval Hok) as [Hn Hd]. subst n. rewrite Hd.
      pose proof (gen_addUserMetadataToDescriptor_equiv (fresh_desc (b_mt b) (digest_of b a) (b_size b)) md eq_refl) as P.
      destruct (add_user_metadata [] (md_of md)) as [ann|]; [|exact P].
      eexists; split; [exact P|reflexivity].
  Qed.

  (* ---------- notation.VerifyBlob, the whole function ---------- *)
  Variable Cert : Type.                                              (* x509.Certificate (opaque) *)
  Variable parse_mt : string -> string * list (string * string) * option GoLib.err.   (* mime.ParseMediaType *)
  Variable unmarshal : list Z -> envelope_Payload -> envelope_Payload * option GoLib.err.   (* json.Unmarshal(.., &payload) *)

  Definition g_VerifyBlob :=
    gen_notation_go_VerifyBlob parse_mt Cert unmarshal Digester new_digester Hash hash_of digest_of_digester
                               Writer Reader copy up.

  Definition zero_desc : v1_Descriptor := fresh_desc "" "" 0.

  (* NO hypothesis about oracles, verifier or reader. In this order: nil verifier, nil reader, empty
     signature, content media type, signature media type are refused without calling the verifier;
     the verifier (a notation.BlobVerifier: [bv]) is then called ONCE, with the generator
     [g_getDescriptorFunc] over the SAME reader, the stated media type and the caller's required
     metadata, the caller's signature and options; its error is returned with the zero descriptor;
     an outcome without envelope content (skipped) yields the zero descriptor; otherwise the payload
     of the verified envelope content is decoded and its target descriptor returned.
     None = run-time panic: the verifier returned (nil, nil). *)
  Theorem gen_notation_VerifyBlob_spec : forall pbv prd sig opts,
    let mt := VerifyBlobOptions_ContentMediaType opts in
    let vopts := VerifyBlobOptions_BlobVerifierVerifyOptions opts in
    g_VerifyBlob pbv prd sig opts
    = match ptr_val pbv, ptr_val prd with
      | None, _ => Some (zero_desc, PNil, Some (Err "errors" "blobVerifier cannot be nil" []))
      | Some _, None => Some (zero_desc, PNil, Some (Err "errors" "blobReader cannot be nil" []))
      | Some bv, Some _ =>
          if (list_len sig =? 0)%Z then Some (zero_desc, PNil, Some (Err "errors" "signature cannot be nil or empty" []))
          else match gen_notation_go_validateContentMediaType parse_mt mt with
          | Some e => Some (zero_desc, PNil, Some e)
          | None =>
          match gen_notation_go_validateSigMediaType (BlobVerifierVerifyOptions_SignatureMediaType vopts) with
          | Some e => Some (zero_desc, PNil, Some e)
          | None =>
          match bv (g_getDescriptorFunc prd mt (BlobVerifierVerifyOptions_UserMetadata vopts)) sig vopts with
          | (_, Some e) => Some (zero_desc, PNil, Some e)
          | (vo, None) =>
              match ptr_val vo with
              | None => None
              | Some o =>
                  match ptr_val (VerificationOutcome_EnvelopeContent _ o) with
                  | None => Some (zero_desc, vo, None)
                  | Some c =>
                      match unmarshal (Payload_Content (EnvelopeContent_Payload _ c)) (mk_Payload zero_desc) with
                      | (_, Some e) => Some (zero_desc, PNil, Some e)
                      | (p, None) => Some (Payload_TargetArtifact p, vo, None)
                      end
                  end
              end
          end end end
      end.
  Proof.
    intros pbv prd sig opts mt vopts. subst mt vopts.
    unfold g_VerifyBlob, gen_notation_go_VerifyBlob, g_getDescriptorFunc, zero_desc, fresh_desc. cbv zeta.
    destruct (ptr_val pbv) as [bv|]; [|reflexivity].
    destruct (ptr_val prd) as [rd|]; [|reflexivity].
    destruct (list_len sig =? 0)%Z; [reflexivity|].
    destruct (gen_notation_go_validateContentMediaType parse_mt _) as [e|]; cbn [is_none negb]; [reflexivity|].
    destruct (gen_notation_go_validateSigMediaType _) as [e|]; cbn [is_none negb]; [reflexivity|].
    match goal with |- context [bv ?g sig ?o] => destruct (bv g sig o) as [vo [e|]] end; cbn [is_none negb]; [reflexivity|].
    destruct (ptr_val vo) as [o|]; [|reflexivity].
    rewrite ptr_is_nil_val.
    destruct (ptr_val (VerificationOutcome_EnvelopeContent _ o)) as [c|]; cbn [is_none]; [|reflexivity].
    match goal with |- context [unmarshal ?a ?b] => destruct (unmarshal a b) as [p [e|]] end; reflexivity.
  Qed.
End Desc.
